import PfModel.Lemmas.LazySim
/-! Helper lemmas for `Props/C18Calls.lean`, part 2: the simulation `lrun ~ run` (lazy request without cache hit vs. eager run). -/
namespace PF.Lazy
open PF PF.Pipe

variable {fs : List Func} {kw : List (String × Val)}

/-- the lazy side of the simulation, relative to the table size `b` at the start of the request: no cache entry can be found
    for a name that is not in `all_results`, nothing older than the request is referred to, no cache hit so far -/
structure LGood (b : Nat) (s : LSt) : Prop where
  covered : ∀ key a, (key, a) ∈ entries s → ∀ o ∈ key.1, (alookup s.memo o).isSome
  mfresh : ∀ p j, alookup s.memo p = some (.ref j) → b ≤ j
  nfresh : ∀ i nd, b ≤ i → s.nodes[i]? = some nd → ∀ j ∈ nd.refs, b ≤ j
  base : b ≤ s.nodes.length
  nohit : s.usedNone = false

/-- lazy state vs. eager state: same used parameters, same keys in `all_results` with the lazy entry standing for the eager
    value, and the eager call log lists the call nodes created since the start of the request, in order -/
structure Sim (b : Nat) (s : LSt) (t : St) : Prop where
  used : t.used = s.used
  calls : t.calls = cnames (s.nodes.drop b)
  memoS : ∀ p a, alookup s.memo p = some a → ∃ v, alookup t.memo p = some v ∧ den s.nodes a = some v
  memoN : ∀ p, alookup s.memo p = none → alookup t.memo p = none

def SimRec (fs : List Func) (kw : List (String × Val)) (b : Nat) (rl : String → LSt → Except Err (LArg × LSt))
    (re : String → St → Except Err (Val × St)) : Prop :=
  ∀ o s t a s', Inv fs kw s → LGood b s → Sim b s t → rl o s = .ok (a, s') →
    ∃ v t', re o t = .ok (v, t') ∧ Inv fs kw s' ∧ LGood b s' ∧ Sim b s' t' ∧ Step s s' ∧
      den s'.nodes a = some v ∧ alookup s'.memo o = some a ∧
      (∀ i nd, s.nodes.length ≤ i → s'.nodes[i]? = some nd → nd.isCall = true → Needs s'.nodes a i)

theorem getElem?_lt {α} {l : List α} {i : Nat} {x : α} (h : l[i]? = some x) : i < l.length := by
  apply Classical.byContradiction
  intro hh
  rw [List.getElem?_eq_none (Nat.le_of_not_lt hh)] at h; cases h

theorem getElem?_snoc_ext {α} (A E : List α) (c : α) (i : Nat) (x : α) (h : (A ++ c :: E)[i]? = some x) :
    A[i]? = some x ∨ (i = A.length ∧ x = c) ∨ (A.length < i ∧ x ∈ E) := by
  by_cases hi : i < A.length
  · rw [List.getElem?_append_left hi] at h; exact Or.inl h
  · have hge := Nat.le_of_not_lt hi
    rw [List.getElem?_append_right hge] at h
    cases hh : i - A.length with
    | zero =>
      rw [hh] at h; simp at h
      exact Or.inr (Or.inl ⟨by omega, h.symm⟩)
    | succ m =>
      rw [hh] at h; simp at h
      exact Or.inr (Or.inr ⟨by omega, List.mem_of_getElem? h⟩)

theorem no_hit {b : Nat} {s : LSt} (hg : LGood b s) {o : String} {f : Func} (hm : alookup s.memo o = none)
    (hf : producer fs o = some f) : cacheLookup s (activeKey fs kw f o s) = none := by
  cases hr : cacheLookup s (activeKey fs kw f o s) with
  | none => rfl
  | some r =>
    exfalso
    obtain ⟨key, k', hkey, hmem, hq⟩ := cacheLookup_sound hr
    have hkk := keq_eq hq
    subst hkk
    have c := cacheKey_some (activeKey_some hkey)
    have e := (PipeCache.computeKey_some _ fs kw f o _ c).2.2
    have ho := (PipeCache.producer_mem fs o f hf).2
    have e' : key.1 = f.outputs := e
    have := hg.covered key r hmem o (by rw [e']; exact ho)
    rw [hm] at this; cases this

theorem akeys_outVals (f : Func) (vals : List (String × Val)) : akeys (outVals f vals) = f.outputs := by
  unfold outVals
  split
  · next o ho => simp [akeys, ho]
  · simp [akeys, Function.comp_def]

theorem alookup_isSome_of_key {β} (l : List (String × β)) (x : String) (h : x ∈ akeys l) : (alookup l x).isSome := by
  cases hh : alookup l x with
  | some _ => rfl
  | none => exact absurd h ((alookup_none_iff l x).mp hh)

theorem alookup_none_of_keys {β γ} {l : List (String × β)} {l' : List (String × γ)} (hk : akeys l = akeys l') {x : String}
    (h : alookup l x = none) : alookup l' x = none := by
  rw [alookup_none_iff] at h ⊢
  rw [← hk]; exact h

theorem cachePut_entries (key : Option Key) (a : LArg) (s : LSt) :
    ∀ e ∈ entries (cachePut key a s), (∃ k, key = some k ∧ e = (k, a)) ∨ e ∈ entries s := by
  intro e he
  unfold cachePut at he
  split at he
  · exact Or.inr he
  · next k =>
    split at he
    · next g hg =>
      simp only [entries, List.cons_append, List.mem_cons] at he
      rcases he with rfl | he
      · exact Or.inl ⟨k, rfl, rfl⟩
      · right; simp only [entries, hg]; exact he
    · next hg =>
      split at he
      · next c hc =>
        simp only [entries, hg, List.nil_append, List.mem_cons] at he
        rcases he with rfl | he
        · exact Or.inl ⟨k, rfl, rfl⟩
        · right; simp only [entries, hg, hc, List.nil_append]; exact he
      · exact Or.inr he

theorem cachePut_fields (key : Option Key) (a : LArg) (s : LSt) :
    (cachePut key a s).used = s.used ∧ (cachePut key a s).usedNone = s.usedNone ∧ (cachePut key a s).nodes = s.nodes ∧
    (cachePut key a s).memo = s.memo := by
  unfold cachePut
  split
  · exact ⟨rfl, rfl, rfl, rfl⟩
  · split
    · exact ⟨rfl, rfl, rfl, rfl⟩
    · split <;> exact ⟨rfl, rfl, rfl, rfl⟩

theorem largs_sim {b : Nat} {rl : String → LSt → Except Err (LArg × LSt)} {re : String → St → Except Err (Val × St)}
    (hr : SimRec fs kw b rl re) (f : Func) :
    ∀ ps s t args s', Inv fs kw s → LGood b s → Sim b s t → largs rl fs kw f ps s = .ok (args, s') →
      ∃ vals t', argsWith re fs kw f ps t = .ok (vals, t') ∧ Inv fs kw s' ∧ LGood b s' ∧ Sim b s' t' ∧ Step s s' ∧
        denArgs (denAll s'.nodes) args = some vals ∧ (∀ j ∈ argRefs args, b ≤ j) ∧
        (∀ i nd, s.nodes.length ≤ i → s'.nodes[i]? = some nd → nd.isCall = true →
          ∃ j ∈ argRefs args, Needs s'.nodes (.ref j) i) := by
  intro ps
  induction ps with
  | nil =>
    intro s t args s' hi hg hsim h
    simp [largs] at h; obtain ⟨rfl, rfl⟩ := h
    refine ⟨[], t, by simp [argsWith], hi, hg, hsim, Step.refl _, by simp [denArgs], by simp [argRefs], ?_⟩
    intro i nd hle hn _
    have := getElem?_lt hn; omega
  | cons p ps ih =>
    obtain ⟨p, orig⟩ := p
    intro s t args s' hi hg hsim h
    simp only [largs] at h
    split at h
    · simp at h
    · next v hv =>
      split at h
      · simp at h
      · next rest s2 hrest =>
        simp at h; obtain ⟨rfl, rfl⟩ := h
        have hi' : Inv fs kw { s with used := s.used ++ [p] } := ⟨hi.closed, hi.memo, hi.cache, hi.graph⟩
        have hg' : LGood b { s with used := s.used ++ [p] } := ⟨hg.covered, hg.mfresh, hg.nfresh, hg.base, hg.nohit⟩
        have hsim' : Sim b { s with used := s.used ++ [p] } { t with used := t.used ++ [p] } :=
          ⟨by simp only [hsim.used], hsim.calls, hsim.memoS, hsim.memoN⟩
        obtain ⟨vals, t', he, hi2, hg2, hsim2, hst, hd, hfr, hne⟩ := ih _ _ rest s2 hi' hg' hsim' hrest
        refine ⟨(orig, v) :: vals, t', by simp [argsWith, hv, he], hi2, hg2, hsim2, hst, by simp [denArgs, denArg, hd],
          by simpa [argRefs] using hfr, ?_⟩
        intro i nd hle hn hc
        obtain ⟨j, hj, hnj⟩ := hne i nd hle hn hc
        exact ⟨j, by simpa [argRefs] using hj, hnj⟩
    · next hup =>
      split at h
      · simp at h
      · next a s1 hrun =>
        split at h
        · simp at h
        · next rest s2 hrest =>
          simp at h; obtain ⟨rfl, rfl⟩ := h
          obtain ⟨v, t1, he1, hi1, hg1, hsim1, hst1, hd1, hm1, hne1⟩ := hr p s t a s1 hi hg hsim hrun
          have hi' : Inv fs kw { s1 with used := s1.used ++ [p] } := ⟨hi1.closed, hi1.memo, hi1.cache, hi1.graph⟩
          have hg' : LGood b { s1 with used := s1.used ++ [p] } := ⟨hg1.covered, hg1.mfresh, hg1.nfresh, hg1.base, hg1.nohit⟩
          have hsim' : Sim b { s1 with used := s1.used ++ [p] } { t1 with used := t1.used ++ [p] } :=
            ⟨by simp only [hsim1.used], hsim1.calls, hsim1.memoS, hsim1.memoN⟩
          obtain ⟨vals, t', he, hi2, hg2, hsim2, hst2, hd, hfr, hne⟩ := ih _ _ rest s2 hi' hg' hsim' hrest
          have hst2' : Step s1 s2 := hst2
          obtain ⟨⟨ext, hext⟩, _, _⟩ := hst2'
          have hda : denArg (denAll s2.nodes) a = some v := by
            have : den s2.nodes a = some v := by rw [hext]; exact den_ext ext hd1
            exact this
          refine ⟨(orig, v) :: vals, t', by simp [argsWith, hup, he1, he], hi2, hg2, hsim2, hst1.trans hst2,
            by simp [denArgs, hda, hd], ?_, ?_⟩
          · intro j hj
            cases a with
            | val w => exact hfr j (by simpa [argRefs] using hj)
            | ref j0 =>
              simp only [argRefs, List.mem_cons] at hj
              rcases hj with rfl | hj
              · exact hg1.mfresh p _ hm1
              · exact hfr j hj
          · intro i nd hle hn hc
            by_cases hlt : i < s1.nodes.length
            · have hn1 : s1.nodes[i]? = some nd := by
                rw [hext, List.getElem?_append_left hlt] at hn; exact hn
              have hneed := hne1 i nd hle hn1 hc
              cases a with
              | val w => exact (needs_val hneed).elim
              | ref j0 =>
                refine ⟨j0, by simp [argRefs], ?_⟩
                rw [hext]; exact needs_ext ext hneed
            · obtain ⟨j, hj, hnj⟩ := hne i nd (Nat.le_of_not_lt hlt) hn hc
              refine ⟨j, ?_, hnj⟩
              cases a with
              | val w => simpa [argRefs] using hj
              | ref j0 => simp only [argRefs, List.mem_cons]; exact Or.inr hj

/-- what `_execute_func` + `update_cache` + `_update_all_results` do after the arguments are there, on both sides -/
theorem produce_sim {rank : String → Nat} (wf : PipeCache.WF fs rank) {b : Nat} {f : Func} {o : String} {args : List (String × LArg)}
    {vals : List (String × Val)} {s s1 : LSt} {t1 : St} {a : LArg}
    (hf : producer fs o = some f) (hi1 : Inv fs kw s1) (hg1 : LGood b s1) (hsim1 : Sim b s1 t1)
    (hdargs : denArgs (denAll s1.nodes) args = some vals) (hfr : ∀ j ∈ argRefs args, b ≤ j)
    {k : Nat} (hk : composeArgsWith (compose fs kw k) fs kw f f.params = .ok vals)
    (hl : alookup (updateAll f (.ref s1.nodes.length)
        (cachePut (activeKey fs kw f o s) (.ref s1.nodes.length) (mkNode (.call f args) s1).2)).memo o = some a) :
    let S4 := updateAll f (.ref s1.nodes.length) (cachePut (activeKey fs kw f o s) (.ref s1.nodes.length) (mkNode (.call f args) s1).2)
    ∃ w ext, alookup (outVals f vals) o = some w ∧ S4.nodes = s1.nodes ++ (Node.call f args :: ext) ∧
      (∀ nd ∈ ext, ∃ o', nd = Node.pick f (.ref s1.nodes.length) o') ∧
      LGood b S4 ∧ Sim b S4 { t1 with memo := outVals f vals ++ t1.memo, calls := t1.calls ++ [f.name] } ∧
      den S4.nodes a = some w ∧ Needs S4.nodes a s1.nodes.length := by
  intro S4
  obtain ⟨hi2, hd2⟩ := call_node_sound (f := f) s1 hi1 hdargs
  obtain ⟨hi3, _, hn3, hm3⟩ := cachePut_inv wf (activeKey fs kw f o s) (.ref s1.nodes.length) _ hi2 hf
    (fun k' hk' => activeKey_some hk') hk hd2
  obtain ⟨hu3, hun3, _, _⟩ := cachePut_fields (activeKey fs kw f o s) (.ref s1.nodes.length) (mkNode (.call f args) s1).2
  have hd3 : den (cachePut (activeKey fs kw f o s) (.ref s1.nodes.length) (mkNode (.call f args) s1).2).nodes (.ref s1.nodes.length) =
      some (result f vals) := by rw [hn3]; exact hd2
  obtain ⟨_, hu4, _, _, _, hent4, newm, hmemo, hnew⟩ := updateAll_spec (fs := fs) (kw := kw) f (.ref s1.nodes.length) vals _ hi3 hd3
  obtain ⟨ext, newm', hn4, hpicks, hmemo', hkeys, hun4, hstruct⟩ := updateAll_struct f (.ref s1.nodes.length)
    (cachePut (activeKey fs kw f o s) (.ref s1.nodes.length) (mkNode (.call f args) s1).2)
  have hnm : newm = newm' := List.append_cancel_right (hmemo.symm.trans hmemo')
  subst hnm
  rw [hn3, mkNode_nodes] at hn4
  have hn4' : S4.nodes = s1.nodes ++ (Node.call f args :: ext) := by rw [hn4]; simp
  rw [hm3, mkNode_memo] at hmemo
  have hmemo4 : S4.memo = newm ++ s1.memo := hmemo
  have hlen3 : (cachePut (activeKey fs kw f o s) (.ref s1.nodes.length) (mkNode (.call f args) s1).2).nodes.length = s1.nodes.length + 1 := by
    rw [hn3, mkNode_nodes]; simp
  have ho : o ∈ f.outputs := (PipeCache.producer_mem fs o f hf).2
  have hkout : akeys newm = akeys (outVals f vals) := by rw [hkeys, akeys_outVals]
  -- the requested name is among the new entries
  have hla : alookup newm o = some a := by
    have hl' : alookup S4.memo o = some a := hl
    rw [hmemo4, alookup_append] at hl'
    have := alookup_isSome_of_key newm o (by rw [hkeys]; exact ho)
    cases hh : alookup newm o with
    | none => rw [hh] at this; cases this
    | some a' => rw [hh] at hl'; exact hl'
  obtain ⟨w, hw, hdw⟩ := hnew o a hla
  have hcall : S4.nodes[s1.nodes.length]? = some (Node.call f args) := by rw [hn4']; simp
  have hroot : Needs S4.nodes a s1.nodes.length := by
    rcases hstruct o a hla with rfl | ⟨pid, rfl, _, hpid⟩
    · exact .self rfl
    · exact .arg (.self rfl) hpid (by simp [Node.refs])
  refine ⟨w, ext, hw, hn4', hpicks, ⟨?_, ?_, ?_, ?_, ?_⟩, ⟨?_, ?_, ?_, ?_⟩, hdw, hroot⟩
  · -- covered
    intro key r hmem o' ho'
    have hmem' : (key, r) ∈ entries (cachePut (activeKey fs kw f o s) (.ref s1.nodes.length) (mkNode (.call f args) s1).2) := by
      rw [← hent4]; exact hmem
    show (alookup S4.memo o').isSome
    rw [hmemo4, alookup_append]
    rcases cachePut_entries _ _ _ _ hmem' with ⟨k', hk', he⟩ | hold
    · injection he with e1 e2; subst e1
      have c := cacheKey_some (activeKey_some hk')
      have e : key.1 = f.outputs := (PipeCache.computeKey_some _ fs kw f o _ c).2.2
      have := alookup_isSome_of_key newm o' (by rw [hkeys, ← e]; exact ho')
      cases hh : alookup newm o' with
      | none => rw [hh] at this; cases this
      | some _ => rfl
    · rw [mkNode_entries] at hold
      have := hg1.covered key r hold o' ho'
      cases hh : alookup newm o' with
      | none => exact this
      | some _ => rfl
  · -- mfresh
    intro p j hp
    have hp' : alookup S4.memo p = some (.ref j) := hp
    rw [hmemo4, alookup_append] at hp'
    split at hp'
    · next a' ha' =>
      injection hp' with e; subst e
      rcases hstruct p _ ha' with e | ⟨pid, e, hge, _⟩
      · injection e with e; subst e; exact hg1.base
      · injection e with e; subst e
        have := hg1.base; omega
    · exact hg1.mfresh p j hp'
  · -- nfresh
    intro i nd hbi hn j hj
    have hn' : (s1.nodes ++ (Node.call f args :: ext))[i]? = some nd := by rw [← hn4']; exact hn
    rcases getElem?_snoc_ext _ _ _ _ _ hn' with h | ⟨_, rfl⟩ | ⟨_, hmem⟩
    · exact hg1.nfresh i nd hbi h j hj
    · exact hfr j hj
    · obtain ⟨o', rfl⟩ := hpicks nd hmem
      simp [Node.refs] at hj; subst hj; exact hg1.base
  · show b ≤ S4.nodes.length
    rw [hn4']; have := hg1.base; simp; omega
  · show S4.usedNone = false
    rw [hun4, hun3]; exact hg1.nohit
  · show t1.used = S4.used
    rw [hu4, hu3, mkNode_used]; exact hsim1.used
  · show t1.calls ++ [f.name] = cnames (S4.nodes.drop b)
    rw [hn4', List.drop_append_of_le_length hg1.base, cnames_append, hsim1.calls]
    simp [cnames, cnames_picks hpicks]
  · intro p a' hp
    have hp' : alookup S4.memo p = some a' := hp
    rw [hmemo4, alookup_append] at hp'
    show ∃ v, alookup (outVals f vals ++ t1.memo) p = some v ∧ den S4.nodes a' = some v
    rw [alookup_append]
    split at hp'
    · next a'' ha'' =>
      injection hp' with e; subst e
      obtain ⟨w', hw', hd'⟩ := hnew p a'' ha''
      exact ⟨w', by rw [hw'], hd'⟩
    · next hnone =>
      rw [alookup_none_of_keys hkout hnone]
      obtain ⟨v, hv, hd⟩ := hsim1.memoS p a' hp'
      exact ⟨v, hv, by rw [hn4']; exact den_ext _ hd⟩
  · intro p hp
    have hp' : alookup S4.memo p = none := hp
    rw [hmemo4, alookup_append] at hp'
    show alookup (outVals f vals ++ t1.memo) p = none
    rw [alookup_append]
    split at hp'
    · cases hp'
    · next hnone =>
      rw [alookup_none_of_keys hkout hnone]
      exact hsim1.memoN p hp'

theorem lrun_sim {rank : String → Nat} (wf : PipeCache.WF fs rank) (b : Nat) :
    ∀ n, SimRec fs kw b (lrun fs kw n) (run fs kw n) := by
  intro n
  induction n with
  | zero => intro o s t a s' _ _ _ h; simp [lrun] at h
  | succ n ihn =>
    intro o s t a s' hi hg hsim h
    obtain ⟨hstep, hinv', _⟩ := lrun_sound wf (n+1) o s a s' hi h
    rw [lrun_succ] at h
    rw [run_succ]
    split at h
    · next a' hw =>
      simp at h; obtain ⟨rfl, rfl⟩ := h
      obtain ⟨v, hv, hd⟩ := hsim.memoS o a' hw
      refine ⟨v, t, by rw [hv], hi, hg, hsim, Step.refl _, hd, hw, ?_⟩
      intro i nd hle hn _
      have := getElem?_lt hn; omega
    · next hmiss =>
      rw [hsim.memoN o hmiss]
      split at h
      · simp at h
      · next f hf =>
        rw [no_hit hg hmiss hf] at h
        simp only [] at h
        split at h
        · simp at h
        · next args s1 hargs =>
          obtain ⟨vals, t1, he, hi1, hg1, hsim1, hst1, hdargs, hfr, hne⟩ := largs_sim ihn f f.params s t args s1 hi hg hsim hargs
          obtain ⟨_, _, k, vals', hk, hdargs'⟩ := largs_sound _ (lrun_sound wf n) f f.params s args s1 hi hargs
          have hvv : vals' = vals := by rw [hdargs] at hdargs'; injection hdargs' with e; exact e.symm
          rw [hvv] at hk
          split at h
          · next a' hl =>
            simp at h; obtain ⟨rfl, rfl⟩ := h
            obtain ⟨w, ext, hw, hn4, hpicks, hg4, hsim4, hdw, hroot⟩ := produce_sim wf hf hi1 hg1 hsim1 hdargs hfr hk hl
            refine ⟨w, { t1 with memo := outVals f vals ++ t1.memo, calls := t1.calls ++ [f.name] }, by simp only [hf, he, hw],
              hinv', hg4, hsim4, hstep, hdw, hl, ?_⟩
            intro i nd hle hn hc
            rw [hn4] at hn
            have hcall : (s1.nodes ++ (Node.call f args :: ext))[s1.nodes.length]? = some (Node.call f args) := by simp
            rcases getElem?_snoc_ext _ _ _ _ _ hn with h1 | ⟨rfl, _⟩ | ⟨_, hmem⟩
            · obtain ⟨j, hj, hnj⟩ := hne i nd hle h1 hc
              have hnj' := needs_ext (Node.call f args :: ext) hnj
              rw [← hn4] at hnj' hcall
              exact needs_trans hroot (needs_trans (.arg (.self rfl) hcall (by simpa [Node.refs] using hj)) hnj')
            · exact hroot
            · obtain ⟨o', rfl⟩ := hpicks nd hmem
              cases hc
          · simp at h

end PF.Lazy
