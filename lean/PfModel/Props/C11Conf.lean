import PfModel.Props.C11Comp
import PfModel.Lemmas.SubPipeConforms
import PfModel.Lemmas.SubPipeAcyclic
/-!
C11, proof round 6 — **`Conforms` of the full pipeline gives `Conforms` of the partial pipeline**, as far as proved.

`C11_map_succeeds` (`Props/C11Comp.lean`) answers a computable `map(output_names=S)` / `auto_subpipeline` request "up to C01
validity of the PARTIAL pipeline" (`Conforms sub inputs ui`).  Here that hypothesis is derived from the validity of the FULL
pipeline (`Conforms fs inputsFull ui`, any inputs `inputsFull` that make the full pipeline a valid request):

* `C11_conforms_sub_graph_partial` — every pipeline, every cut (root, interior, mixed), no condition on the values: the graph
  clauses of `Conforms sub` (complete inputs, acyclic, distinct function names; distinct output names and "every function has an
  output" of `constructible`) hold, and "no surplus" is exactly "not over-provided" (`extras sub inputs = []`).  The shape
  clauses (`rootArrays`, `shapesOK`, `valuesTyped`, `funcTyped`, the `ret` clause of `constructible`) need the provided values
  to have the declared shapes: they are proved in `Props/C11ConfMap.lean` (`C11_conforms_sub`).
* `C11_conforms_sub_plain`, `C11_map_succeeds_plain` — pipelines without MapSpecs (nothing mapped), every cut: `Conforms sub` holds
  iff the request is not over-provided; the hypothesis of `C11_map_succeeds` is removed: a computable request is answered, or
  refused as over-provided naming the first surplus name — nothing else.
* `C11_conforms_sub_all_needed`, `C11_map_succeeds_all_needed` — any pipeline (MapSpecs included) when every function is needed:
  the partial pipeline IS the full pipeline, the hypothesis is removed.
-/
namespace PF.C11
open PF PF.Sub PF.Map

/-- **The graph clauses, every pipeline and every cut** — the part of "`Conforms fs` ⇒ `Conforms sub`" that needs no condition on
    the provided values.  The full statement (with the shape conditions on the provided values it needs) is `C11_conforms_sub` in
    `Props/C11ConfMap.lean`, which builds on this one. -/
theorem C11_conforms_sub_graph_partial (fs : List MFunc) (inputsFull inputs : List (String × Val)) (ui : List (String × List Nat))
    (S : List String) (auto : Bool) (hconf : C01.Conforms fs inputsFull ui = true)
    (hcomp : Computable mfuncNode fs (akeys inputs) S) :
    ∃ sub, prepare fs inputs (some S) auto = .ok sub ∧ sub.Sublist fs ∧ (∀ f, f ∈ sub ↔ NeededFn mfuncNode fs (akeys inputs) S f) ∧
      C01.inputsComplete sub inputs = true ∧ (C01.noSurplus sub inputs = true ↔ extras sub inputs = []) ∧
      C01.acyclic sub = true ∧ C01.nodupB (sub.map (·.name)) = true ∧ C01.nodupB (allOutputs sub) = true ∧
      ∀ f ∈ sub, f.outputs.isEmpty = false := by
  obtain ⟨sub, hprep, hmem, hcomplete, _⟩ := C11_map_succeeds fs inputs ui S auto hcomp
  obtain ⟨hac, hn, ho, hne⟩ := C01.conforms_graph fs inputsFull ui hconf
  have hsl : sub.Sublist fs := by
    have hsub : subpipeline mfuncNode fs (some (akeys inputs)) (some S) = .ok sub := by simpa [prepare] using hprep
    obtain ⟨K, _, _, _, rfl⟩ := subpipeline_ok_inv mfuncNode fs (akeys inputs) S sub hsub
    exact C01.keepFrom_sublist K fs 0
  exact ⟨sub, hprep, hsl, hmem, hcomplete, (C11_extras_iff_no_surplus sub inputs).symm, C01.acyclic_sublist fs sub hsl hn ho hac,
    C01.nodupB_sublist (hsl.map _) hn, C01.nodupB_sublist (C01.allOutputs_sublist hsl) ho, fun f hf => hne f (hsl.subset hf)⟩

/-- **Un-mapped pipelines, every cut: the partial pipeline of a valid pipeline is valid exactly when the request is not
    over-provided.**  (No condition on the provided values: without MapSpecs nothing has a declared shape.) -/
theorem C11_conforms_sub_plain (fs : List MFunc) (inputsFull inputs : List (String × Val)) (ui : List (String × List Nat))
    (S : List String) (auto : Bool) (hp : C01.Plain fs) (hconf : C01.Conforms fs inputsFull ui = true)
    (hcomp : Computable mfuncNode fs (akeys inputs) S) :
    ∃ sub, prepare fs inputs (some S) auto = .ok sub ∧ (C01.Conforms sub inputs ui = true ↔ extras sub inputs = []) := by
  obtain ⟨sub, hprep, hsl, _, h1, h2, h3, h4, h5, h6⟩ := C11_conforms_sub_graph_partial fs inputsFull inputs ui S auto hconf hcomp
  refine ⟨sub, hprep, ?_, fun hex => C01.conforms_plain sub inputs ui (hp.sublist hsl) h1 (h2.mpr hex) h3 h4 h5 h6⟩
  intro hc
  apply h2.mp
  rw [C01.conforms_split] at hc
  unfold C01.RequestOK at hc
  simp only [Bool.and_eq_true] at hc
  exact hc.1.1.1.1.2

/-- **`map(output_names=S)` / `auto_subpipeline` on a valid un-mapped pipeline — the `Conforms` hypothesis of `C11_map_succeeds`
    removed**: a computable request passes the selection, the partial pipeline is exactly the needed functions, and the run
    answers unless the request is over-provided, in which case it is refused with "got extra inputs" naming the first surplus
    name.  There is no other refusal. -/
theorem C11_map_succeeds_plain (fs : List MFunc) (inputsFull inputs : List (String × Val)) (ui : List (String × List Nat))
    (S : List String) (auto : Bool) (hp : C01.Plain fs) (hconf : C01.Conforms fs inputsFull ui = true)
    (hcomp : Computable mfuncNode fs (akeys inputs) S) :
    ∃ sub, prepare fs inputs (some S) auto = .ok sub ∧ (∀ f, f ∈ sub ↔ NeededFn mfuncNode fs (akeys inputs) S f) ∧
      (extras sub inputs = [] → ∃ r, mapSub fs inputs ui (some S) auto = .ok (sub, r)) ∧
      (∀ m rest, extras sub inputs = m :: rest →
        mapSub fs inputs ui (some S) auto = .error (.map (.value s!"got extra inputs: {m}"))) := by
  obtain ⟨sub, hprep, hiff⟩ := C11_conforms_sub_plain fs inputsFull inputs ui S auto hp hconf hcomp
  obtain ⟨sub', hprep', hmem, _, hrun, _⟩ := C11_map_succeeds fs inputs ui S auto hcomp
  obtain ⟨sub'', hprep'', hover, _⟩ := C11_map_over_provided fs inputs ui S auto hcomp
  have e1 : sub' = sub := by rw [hprep] at hprep'; cases hprep'; rfl
  have e2 : sub'' = sub := by rw [hprep] at hprep''; cases hprep''; rfl
  rw [e1] at hmem hrun; rw [e2] at hover
  exact ⟨sub, hprep, hmem, fun hex => hrun (hiff.mpr hex), hover⟩

/-- **Every function needed: the partial pipeline is the full pipeline** (any pipeline, MapSpecs included), so its validity is
    the full pipeline's. -/
theorem C11_conforms_sub_all_needed (fs : List MFunc) (inputs : List (String × Val)) (ui : List (String × List Nat))
    (S : List String) (auto : Bool) (hconf : C01.Conforms fs inputs ui = true)
    (hcomp : Computable mfuncNode fs (akeys inputs) S) (hall : ∀ f ∈ fs, NeededFn mfuncNode fs (akeys inputs) S f) :
    prepare fs inputs (some S) auto = .ok fs ∧ C01.Conforms fs inputs ui = true := by
  obtain ⟨sub, hprep, hsl, hmem, _⟩ := C11_conforms_sub_graph_partial fs inputs inputs ui S auto hconf hcomp
  obtain ⟨_, hn, _, _⟩ := C01.conforms_graph fs inputs ui hconf
  have : sub = fs := C01.sublist_eq_of_all_mem (·.name) hsl (C01.nodupB_nodup _ hn) (fun f hf => (hmem f).mpr (hall f hf))
  rw [this] at hprep
  exact ⟨hprep, hconf⟩

/-- **`map(output_names=S)` with everything needed — hypothesis removed**: a valid request of the full pipeline whose requested
    names need every function is answered, on the full pipeline. -/
theorem C11_map_succeeds_all_needed (fs : List MFunc) (inputs : List (String × Val)) (ui : List (String × List Nat))
    (S : List String) (auto : Bool) (hconf : C01.Conforms fs inputs ui = true)
    (hcomp : Computable mfuncNode fs (akeys inputs) S) (hall : ∀ f ∈ fs, NeededFn mfuncNode fs (akeys inputs) S f) :
    ∃ r, mapSub fs inputs ui (some S) auto = .ok (fs, r) := by
  obtain ⟨hprep, _⟩ := C11_conforms_sub_all_needed fs inputs ui S auto hconf hcomp hall
  obtain ⟨sub, hprep', _, _, hrun, _⟩ := C11_map_succeeds fs inputs ui S auto hcomp
  have e : sub = fs := by rw [hprep] at hprep'; cases hprep'; rfl
  rw [e] at hrun
  exact hrun hconf

/-! ### non-vacuity -/

section Examples

private def pf (name : String) (params outputs : List String) (ms : Option MSpec := none) : MFunc :=
  { name := name, params := params.map fun p => (p, p), outputs := outputs, mapspec := ms, ret := none, internal := none,
    defaults := [], bound := [] }
private def ints (n : Nat) : List Val := (List.range n).map fun i => .int (Int.ofNat i)

/-- un-mapped: `f(x) → y`, `g(y) → z`, `h(z, w) → s` -/
private def pq : List MFunc := [pf "f" ["x"] ["y"], pf "g" ["y"] ["z"], pf "h" ["z", "w"] ["s"]]
private def pqFull : List (String × Val) := [("x", .int 1), ("w", .int 2)]

/-- mapped: `x[i] → y[i]`, `y[i] → z[i]`, `z → s` -/
private def mp : List MFunc :=
  [pf "f" ["x"] ["y"] (some ⟨[⟨"x", [some "i"]⟩], [⟨"y", [some "i"]⟩]⟩),
   pf "g" ["y"] ["z"] (some ⟨[⟨"y", [some "i"]⟩], [⟨"z", [some "i"]⟩]⟩), pf "h" ["z"] ["s"]]
private def mpIn : List (String × Val) := [("x", .arr [3] (ints 3))]

-- the hypotheses of `C11_conforms_sub_plain` / `C11_map_succeeds_plain`: an INTERIOR cut (`z` from a provided `y`)
example : C01.Plain pq := by
  intro f hf
  simp only [pq, List.mem_cons, List.not_mem_nil, or_false] at hf
  rcases hf with rfl | rfl | rfl <;> rfl
example : C01.Conforms pq pqFull [] = true := by decide
example : Computable mfuncNode pq (akeys [("y", Val.int 5)]) ["z"] := (computableB_iff ..).mp (by decide)
-- … and what the theorem then says, on the instance: not over-provided, answered by calling `g` alone
example : extras [pf "g" ["y"] ["z"]] [("y", Val.int 5)] = [] := by decide
example : (mapSub pq [("y", .int 5)] [] (some ["z"]) false).toOption.map (fun r => (r.1.map (·.name), r.2.calls.map (·.name))) =
    some (["g"], ["g"]) := by decide
-- the other branch: `x` provided on top of `y` is surplus for the partial pipeline `[g]`
example : Computable mfuncNode pq (akeys [("y", Val.int 5), ("x", Val.int 1)]) ["z"] := (computableB_iff ..).mp (by decide)
example : extras [pf "g" ["y"] ["z"]] [("y", Val.int 5), ("x", Val.int 1)] = ["x"] := by decide

-- the hypotheses of `C11_conforms_sub_graph_partial` on a MAPPED pipeline: a root cut that drops `h`
example : C01.Conforms mp mpIn [] = true := by decide
example : Computable mfuncNode mp (akeys mpIn) ["z"] := (computableB_iff ..).mp (by decide)
example : (prepare mp mpIn (some ["z"]) false).toOption.map (·.map (·.name)) = some ["f", "g"] := by decide

-- the hypotheses of `C11_conforms_sub_all_needed` / `C11_map_succeeds_all_needed`: `s` needs all three functions
example : Computable mfuncNode mp (akeys mpIn) ["s"] := (computableB_iff ..).mp (by decide)
example : ∀ f ∈ mp, NeededFn mfuncNode mp (akeys mpIn) ["s"] f := by
  intro f hf
  obtain ⟨j, hj⟩ := List.mem_iff_getElem?.mp hf
  refine ⟨j, (neededIdx_iff mfuncNode mp (akeys mpIn) ["s"] j).mp ?_, hj⟩
  have hlt : j < 3 := by
    obtain ⟨h, _⟩ := List.getElem?_eq_some_iff.mp hj
    exact h
  have : neededIdx mfuncNode mp (akeys mpIn) ["s"] = [2, 1, 0] := by decide
  rw [this]
  simp only [List.mem_cons, List.not_mem_nil, or_false]
  omega
example : ∃ r, mapSub mp mpIn [] (some ["s"]) false = .ok (mp, r) :=
  C11_map_succeeds_all_needed mp mpIn [] ["s"] false (by decide) ((computableB_iff ..).mp (by decide)) (by
    intro f hf
    obtain ⟨j, hj⟩ := List.mem_iff_getElem?.mp hf
    refine ⟨j, (neededIdx_iff mfuncNode mp (akeys mpIn) ["s"] j).mp ?_, hj⟩
    have hlt : j < 3 := (List.getElem?_eq_some_iff.mp hj).1
    have : neededIdx mfuncNode mp (akeys mpIn) ["s"] = [2, 1, 0] := by decide
    rw [this]
    simp only [List.mem_cons, List.not_mem_nil, or_false]
    omega)

end Examples

end PF.C11
