import PfModel.DriverVal
import PfModel.Model.LazyRefuse
import PfModel.Model.PipeCache
/-! Driver entry `"rsession"` of C18: a session of lazy calls, `evaluate()`s and `construct_dag()` blocks on one pipeline in which a
    REFUSED call continues the session in the state `PF.Lazy.lrunTopR` left (`Model/LazyRefuse.lean`).
    Request: as for `"session"` (`Driver/C18.lean`): `{"funcs": [..], "ops": [{"op": "enter"|"exit"} | {"op": "call", "out": name | [names], "kw": [[k, v], ..]} |
    {"op": "eval", "h": n}], "own": bool, "cached": [[names], ..]}`; the handle `n` counts ALL calls, refused ones included.
    A refused call answers `{"err": class, "nodes": counter after, "left": nodes it created, "gnodes": .., "gedges": .., "entries": cache entries,
    "evsame": nothing evaluated}`. -/
namespace PF.DrvC18Refuse
open Lean PF PF.Drv PF.Pipe PF.Lazy

def getFunc (j : Json) : R Func := do
  return { name := ← strF j "name", params := ← listF (asPair asStr asStr) j "params", outputs := ← listF asStr j "outputs",
           defaults := (← optF getKw j "defaults").getD [], bound := (← optF getKw j "bound").getD [] }

def putErr : Err → Json
  | .fuel => jObj [("err", jStr "RecursionError")]
  | .missing _ => jObj [("err", jStr "ValueError"), ("kind", jStr "missing")]
  | .noFunc _ => jObj [("err", jStr "KeyError"), ("kind", jStr "unknown-output")]
  | .unused ps => jObj [("err", jStr "UnusedParametersError"), ("kind", jStr "unused"), ("unused", jList jStr ps)]
  | .outputInKwargs => jObj [("err", jStr "ValueError"), ("kind", jStr "output-in-kwargs")]
  | .mapspec => jObj [("err", jStr "RuntimeError")]

def putEErr : EErr → Json
  | .fuel => jObj [("err", jStr "RecursionError")]
  | .dangling _ => jObj [("err", jStr "KeyError")]
  | .notTuple => jObj [("err", jStr "TypeError")]

def getReq (j : Json) : R Req := do
  match j with
  | .str s => return .name s
  | _ => return .whole (← asList asStr j)

def putLArg : LArg → Json
  | .val v => jObj [("val", putVal v)]
  | .ref i => jObj [("ref", jNat i)]

def putNode : Lazy.Node → Json
  | .call f args => jObj [("kind", jStr "call"), ("f", jStr f.name), ("args", jList (fun (_, a) => putLArg a) args)]
  | .pick f src name => jObj [("kind", jStr "pick"), ("f", jStr f.name), ("args", jArr [putLArg src, jObj [("val", putVal (.str name))]])]

def putGraph (g : TG) : Json :=
  jObj [("nodes", jList jNat g.gnodes), ("edges", jList (fun (a, b) => jArr [jNat a, jNat b]) g.edges),
        ("cache", jNat g.cache.length)]

def cacheCount (s : LSt) : Nat := match curCache s with | some c => c.length | none => 0

/-- `a` and `b` hold the same `_evaluated/_result` slots and the same log (ids and lengths; values are not comparable) -/
def evSame (a b : ESt) : Bool := a.log == b.log && a.done.map (·.1) == b.done.map (·.1)

/-- one step of a session; `handles` are the objects the calls returned so far (`none` for a refused call) -/
def step (fs : List Func) (s : LSt) (handles : List (Option LArg)) (op : Json) : R (Json × LSt × List (Option LArg)) := do
  match ← strF op "op" with
  | "enter" => return (jObj [("ok", jBool true)], enterDag s, handles)
  | "exit" =>
    match s.tg with
    | none => .error "exit without enter"
    | some g => return (putGraph g, exitDag s, handles)
  | "call" =>
    let kw ← getKw (← fld op "kw")
    let req ← getReq (← fld op "out")
    match lrunTopR fs kw req s with
    | (s1, .error e) =>
      -- the state-forgetting model must refuse too (`C18_refused_agree_error`), checked here on every case
      let agree := match lrunTop fs kw req s with | .error e' => e' == e | .ok _ => false
      let g : List (String × Json) := match s1.tg with
        | some g => [("gnodes", jList jNat g.gnodes), ("gedges", jList (fun (a, b) => jArr [jNat a, jNat b]) g.edges)]
        | none => []
      return (Json.mkObj ([("err", (putErr e).getObjValD "err"), ("kind", (putErr e).getObjValD "kind"),
                 ("nodes", jNat s1.nodes.length), ("left", jNat (s1.nodes.length - s.nodes.length)),
                 ("entries", jNat (cacheCount s1)), ("new_entries", jNat (cacheCount s1 - cacheCount s)),
                 ("evsame", jBool (evSame s.ev s1.ev)), ("agree", jBool agree),
                 ("log", jList jStr (callNames s1.nodes s1.ev.log))] ++ g), s1, handles ++ [none])
    | (s1, .ok a) =>
      let agree := match lrunTop fs kw req s with
        | .ok (a', s1') => (match a, a' with | .ref i, .ref j => i == j | .val _, .val _ => true | _, _ => false) && s1'.nodes.length == s1.nodes.length
        | .error _ => false
      let spec : Json := match req with
        | .name n => match compose fs kw (fuelFor fs) n with | .ok v => putVal v | .error _ => Json.null
        | .whole _ => Json.null
      let eager : Json := match runTop fs kw req with | .ok o => jObj [("value", putVal o.value), ("calls", jList jStr o.calls)] | .error e => putErr e
      return (jObj [("ret", putLArg a), ("den", jOpt putVal (den s1.nodes a)), ("spec", spec), ("eager", eager), ("agree", jBool agree),
                    ("nodes", jNat s1.nodes.length), ("evsame", jBool (evSame s.ev s1.ev)),
                    ("log", jList jStr (callNames s1.nodes s1.ev.log))], s1, handles ++ [some a])
  | "eval" =>
    let h ← natF op "h"
    match handles[h]? with
    | some (some a) =>
      match evaluate a s with
      | .error e => return (putEErr e, s, handles)
      | .ok (v, s1) => return (jObj [("value", putVal v), ("log", jList jStr (callNames s1.nodes s1.ev.log))], s1, handles)
    | _ => .error s!"eval of handle {h}: no such object"
  | o => .error s!"unknown op {o}"

def session (fs : List Func) : List Json → LSt → List (Option LArg) → List Json → R (List Json × LSt)
  | [], s, _, acc => .ok (acc.reverse, s)
  | op :: ops, s, hs, acc => do
    let (r, s1, hs1) ← step fs s hs op
    session fs ops s1 hs1 (r :: acc)

def handle (a : Json) : R Json := do
  let fs ← listF getFunc a "funcs"
  let ops ← asArr (← fld a "ops")
  let own := (← optF asBool a "own").getD false
  let cfn := (← optF (asList (asList asStr)) a "cached").getD []
  let s0 : LSt := { memo := [], used := [], usedNone := false, nodes := [], tg := none, ev := ⟨[], []⟩,
                    own := if own then some [] else none, cfn := cfn }
  let (rs, s) ← session fs ops s0 [] []
  let wf := PipeCache.rankedB fs && PipeCache.uniqueOutB fs && PipeCache.consistentDefaultsB PipeCache.encVal fs
  return jObj [("ops", jArr rs), ("table", jList putNode s.nodes), ("wf", jBool wf), ("roots_ok", jBool (PipeCache.rootsAgreeB fs)),
               ("own", jOpt (fun c => jNat c.length) s.own), ("counter", jNat s.nodes.length)]

end PF.DrvC18Refuse
