"""Import the real pipefunc from the repository under test (VERIF_REPO, default /repo).

zarr 3.x is installed in this image while pipefunc targets zarr 2: `import pipefunc` raises AttributeError unless zarr is
blocked first (DESIGN.md F1).  Every harness process and every child interpreter imports this module first.
"""
import os
import sys
import warnings

sys.modules["zarr"] = None
REPO = os.environ.get("VERIF_REPO", "/repo")
if REPO not in sys.path:
    sys.path.insert(0, REPO)
warnings.filterwarnings("ignore")
os.environ.setdefault("PIPEFUNC_VERIF", "1")

import pipefunc  # noqa: E402

assert os.path.realpath(pipefunc.__file__).startswith(os.path.realpath(REPO)), (pipefunc.__file__, REPO)


def exc_enum(e: BaseException) -> str:
    """Canonical exception class: messages are never compared."""
    for cls in (IndexError, KeyError, ValueError, TypeError, NotImplementedError, RuntimeError, FileNotFoundError, AttributeError, ZeroDivisionError, AssertionError):
        if type(e) is cls:
            return cls.__name__
    name = type(e).__name__
    if name in ("UnusedParametersError",):
        return name
    for cls in (IndexError, KeyError, ValueError, TypeError, RuntimeError):
        if isinstance(e, cls):
            return f"{cls.__name__}:{name}"
    return f"Other:{name}"
