"""C10 — Structural rewrites preserve what a pipeline computes.

Histories over an environment name -> Pipeline: copy, cloudpickle round-trip, join / |, update_renames, update_scope and
its removal (every form of inputs / outputs / exclude, dotted scopes; dotted and nested-dict calling conventions), nest_funcs /
NestedPipeFunc, simplified_pipeline, split_disconnected, add_mapspec_axis, update_renames with update_from / overwrite (rename
histories on functions with bound values), and in-place mutations (update_defaults, update_bound, update_renames, update_scope, drop, add, replace) of the new or the old object of a rewrite, after which BOTH are observed again.
After every operation BOTH the new and the old object are evaluated for every retained output (pipeline(...) for call
pipelines, map for MapSpec pipelines): the property clauses are judged on the implementation alone (new == old up to the
stated renaming; old unchanged), and every value and a structural summary are compared with `PF.Rw`
(lean/PfModel/Model/Rewrite.lean), whose rewrites are proved value-preserving.
"""
from __future__ import annotations

import copy

import pfimport  # noqa: F401
from pfimport import exc_enum

import c10_join as J
import c10_nestmap as NM
import c10_picker as PK
import c10_runner as R
import c10_simpgen as SG
import c10_wrapsrc as WS
import mapgen
import pipegen

PID = "C10"
PROPS = ["PfModel.Props.C10", "PfModel.Props.C10Axis", "PfModel.Props.C10Total", "PfModel.Props.C10Map", "PfModel.Props.C10Ops", "PfModel.Props.C10Ren", "PfModel.Props.C10AxisPrior", "PfModel.Props.C10NestMap", "PfModel.Props.C10NestMapRun", "PfModel.Props.C10NestWrap", "PfModel.Props.C10Join", "PfModel.Props.C10RenWF", "PfModel.Props.C10RenKeep"]
DRIVER = "C10"
RULE = ("an environment with a pipegen DAG (1-5 term-building functions: tuple outputs, shared parameters, defaults, bound values, renames) or a "
        "well-formed mapgen MapSpec pipeline (1-3 functions), optionally a second pipeline to join; a history of 1-3 rewrites drawn by weight "
        "from {copy, pickle, join/|, rename 1-2 names, scope, unscope, nest 2-3 functions (all/chosen outputs), simplify (both modes), split, "
        "add_mapspec_axis on a root, update_scope with inputs/outputs in {None, '*', name sets} and exclude, plain / dotted / removed scopes} plus up to two "
        "standalone in-place mutations; after every performed rewrite, with probability 0.5 (always in the corpus, one case per rewrite kind), the new or the "
        "old object is mutated in place by one of {update_defaults, update_bound, update_renames, update_scope, drop, add, replace} (the least exercised "
        "(rewrite, mutation, side) pair first) and both objects are observed again; 30 % of the joinable second pipelines share a root default with the "
        "first, half of them with a different value (join must refuse); defaults given in the signature or explicitly; after every op all outputs of the "
        "new and the old object are evaluated; refusals of both sides are compared by exception class where that class is a fact of the code; "
        "every 5th case is a rename history on functions with bound values (update_renames with update_from in {current, original} and overwrite in {False, True}, "
        "0-3 keys, new names fresh / the original / a name the same call frees (hand-overs, cycles a->b, b->a), on a copy, in place and on one function; "
        "update_bound and update_scope in between), observed and compared with the model after every step; "
        "ext5: tuple-output functions get a CUSTOM output_picker with p = 0.6 (dict result / reversed tuple / object with attributes; 8 % of the single-output "
        "functions the 1-tuple name ('o',) with a dict result) in every stream, functions added / replaced in place too; nest proposes EXACTLY the tuple of a "
        "multi-output inner leaf (18 %), 1-tuple names, and NestedPipeFunc(...) built by hand + Pipeline (12 %); every 10th case is a split_disconnected case: 2-3 groups "
        "of functions, two of them linked only through a shared root argument whose default is declared on one consumer / both / none; for every call pipeline "
        "with a NestedPipeFunc the way out of the nest is replayed step by step (call_full_output dictionary, _NestedFuncWrapper return value, picker) and "
        "compared with PF.Rw.Wrap on the same dictionary (driver entry nest_wrap); the source shape of those three pieces is compared with the shape the model mirrors; "
        "round 9: every 10th case is a JOIN case (harness/c10_join.py): 2-3 pipelines around a step that wraps the SAME callable (identical / another bound value / bound in "
        "one only / another default / default in one only / inputs renamed / OUTPUT renamed, tuple outputs 25 %) or without one (disjoint, feeding, feeding each "
        "other, two defaults for an argument whose producer comes later / earlier, clashing / equal root defaults), then 1-3 joins drawn from p | q, q | p, "
        "p.join(q, r), a bare PipeFunc operand (the shared step of the other pipeline or any of its functions, possibly twice), p | p, p | reconfigured copy of p; "
        "every output of every operand is compared with the joined pipeline (call, defaults left out, map) unless another operand produces one of its roots; the "
        "model step is PF.Rw.Join.joinAll (accept/refuse, class, reason, summary, values) - also for the two-pipeline joins of the other streams; "
        "s5: every 10th case (k % 10 == 0) is a SIMPLIFY case (harness/c10_simpgen.py): 2-4 classes of 1-3 functions with equal root arguments feeding each other "
        "through head and NON-head outputs (tuple components too), the last class consuming every class nobody consumed, output names o{perm(i)} in shuffled (75 %) / "
        "reversed (10 %) / topological (15 %) alphabetical order; simplified_pipeline for the final leaf (70 %) or any output, both modes, sometimes twice, then 0-2 further "
        "ops; 30 % of the pipegen DAGs of the other streams get their outputs relabelled by a random permutation as well; "
        "a separate malformed stream (unused rename keys, capturing renames, unknown outputs, dropped "
        "consumed outputs, drop/replace of an unknown output, add of a duplicate output) only demands refusal-or-consistency and an unchanged original; non-trivial = at least one rewrite other than "
        "copy/pickle was performed on a pipeline with >= 2 functions; distinct by (environment, ops)")
ASSUMPTIONS = ["inspect.signature, networkx (connected components, predecessor order = parameter order) and cloudpickle are specified by the model, not verified",
               "values are uninterpreted terms recording ORIGINAL parameter and output names; a list, tuple or 1-D ndarray of the same elements is the same value",
               "for MapSpec pipelines the model's terms record the current output name in a pick; they are relabelled with the harness's own name tracking before comparison",
               "a MapSpec array name takes one scope (`scope.name`): a dotted scope on a name that a MapSpec mentions is refused by the implementation (ValueError) and by the model, and add_mapspec_axis is not proposed under a nested scope",
               "the order of the input arrays inside a MapSpec string is not compared",
               "the renaming an update_renames(update_from, overwrite) call performed is read off position by position from `parameters` / `output_name` before and after; when it is not ONE injective renaming of the pipeline the result is compared with the model only",
               "an in-place operation that raises is not required to leave its object unchanged (counted as failed-in-place:*)",
               "only root arguments are supplied as keywords (the rewritten pipeline is not required to accept former intermediates)",
               "a custom output_picker knows the outputs by the names given in output_name (the ORIGINAL names) - what pipefunc hands it after fix DF-C10-picker-renamed-output; "
               "the values it picks are the same terms the default picker yields, so the model (Val.pick raw originalName) does not distinguish picker kinds",
               "which of several applicable reasons a refused nest of >= 3 MapSpec functions reports depends on the iteration order of a Python set: not compared",
               "round 9: the model identifies a wrapped callable by the function name its terms record; in the join environments (`shared`) all functions of one name "
               "wrap ONE Python callable (`g.func is f.func`) and differ only in renames / explicit defaults / bound values; a join's refusal REASON is read off the "
               "message for the documented refusals only (already exists / Inconsistent default / cycle), anything else is `other` and not compared; the order of the "
               "functions of a joined pipeline is compared in the join stream only (other streams do not track the listing order)"]


# ---------------------------------------------------------------------------------------------- generation
def shifted(desc, taken_outputs, rng):
    """A second DAG whose function/output names do not clash, which may consume outputs of the first."""
    d = copy.deepcopy(desc)
    ren = {}
    for f in d["funcs"]:
        f["name"] = "g" + f["name"][1:]
        for i, o in enumerate(f["outputs"]):
            ren[o] = "q" + o[1:]
            f["outputs"][i] = ren[o]
    for f in d["funcs"]:
        for pr in f["params"]:
            old = pr[0]
            if old in ren:
                new = ren[old]
            elif taken_outputs and rng.random() < 0.25 and not any(x[0] == old for x in f["defaults"] + f["bound"]):
                new = rng.choice(taken_outputs)
                if any(q[0] == new for q in f["params"]):
                    new = old
            else:
                new = old
            if pr[1] == old:
                pr[1] = new if new == old or new in ren.values() else pr[1]
            for x in f["defaults"] + f["bound"]:
                if x[0] == old:
                    x[0] = new
            pr[0] = new
    return d


def gen_env(rng, kind):
    if kind == "map":
        desc = mapgen.gen_case(rng, max_funcs=3, kinds=["elem", "elem", "outer", "partial", "full", "internal", "gen", "scalar"])
        PK.assign(rng, desc["funcs"])
        return [["p0", {"kind": "map", "desc": desc}]]
    desc = pipegen.gen_dag(rng, max_funcs=rng.choice([2, 3, 4, 5]), p_tuple=0.3, p_bound=0.2)
    if rng.random() < 0.3:
        SG.relabel_outputs(desc, rng)  # s5: output names whose alphabetical order is not the topological order (`_sort` in _simplify.py, sorted nest outputs)
    PK.assign(rng, desc["funcs"])      # ext5: custom output_picker styles (dict / reversed tuple / object) on tuple-output functions
    env = [["p0", {"kind": "call", "desc": desc, "explicit_defaults": rng.random() < 0.5}]]
    if rng.random() < 0.4:
        d2 = pipegen.gen_dag(rng, max_funcs=rng.choice([1, 2, 3]))
        PK.assign(rng, d2["funcs"])
        d2 = shifted(d2, pipegen.all_outputs(desc), rng)
        r = rng.random()
        if r < 0.55:
            share_defaults(desc, d2, rng, clash=r < 0.3)
        env.append(["q0", {"kind": "call", "desc": d2}])
    return env


def share_defaults(d1, d2, rng, clash):
    """Give a root argument that both pipelines take a default in both: a different one (join must refuse) or the same."""
    produced = set(pipegen.all_outputs(d1)) | set(pipegen.all_outputs(d2))

    def free_roots(d):
        return {pr[0] for f in d["funcs"] for pr in f["params"] if pr[0] not in produced and not any(b[0] == pr[0] for b in f["bound"])}
    shared = sorted(free_roots(d1) & free_roots(d2))
    if not shared:
        return
    r = rng.choice(shared)
    for d, val in ((d1, f"dflt:{r}"), (d2, f"dflt2:{r}" if clash else f"dflt:{r}")):
        have = [x for f in d["funcs"] for x in f["defaults"] if x[0] == r]
        if have:
            for x in have:
                x[1] = pipegen.sval(val)
            continue
        f = next(f for f in d["funcs"] if any(pr[0] == r for pr in f["params"]) and not any(b[0] == r for b in f["bound"]))
        f["defaults"].append([r, pipegen.sval(val)])
        dn = {x[0] for x in f["defaults"]}
        f["params"] = [q for q in f["params"] if q[0] not in dn] + [q for q in f["params"] if q[0] in dn]


def propose(rng, runner, k, allow_mutation):
    """One op, chosen with the real objects in view (names after earlier renames, leaves, roots)."""
    names = list(runner.env)
    src = names[-1] if rng.random() < 0.7 else rng.choice(names)
    ent = runner.env[src]
    p = ent.p
    outs = sorted(p.all_output_names)
    roots = runner.roots(p)
    dst = f"p{len(names) + k}x"
    dotted = any("." in n for n in outs + roots)
    if ent.kind == "map":
        table = [("copy", 1), ("pickle", 1), ("rename", 2.5), ("rename_x", 1.5), ("scope", 1.2), ("scope_sel", 2), ("unscope", 1.5 if dotted else 0.2), ("split", 1),
                 ("add_axis", 3.5 if any(ent.tags.get(r, r) in ent.inputs for r in roots) and not any(n.count(".") > 1 for n in outs + roots) else 0), ("mutate", 0.7 if allow_mutation else 0),
                 # round 4: nest_funcs / simplified_pipeline on MapSpec pipelines (combinable groups come from `gen_nestmap_case`; here mostly the refusals)
                 ("nest", 2.0 if len(p.functions) >= 2 else 0), ("simplify", 1.2 if len(p.functions) >= 2 else 0)]
    else:
        # not joinable: a shared output name; a shared wrapped function (a pipeline and its own descendant: the map model tells functions
        # apart by name); outputs of each feeding the other (a cycle, which the model's `join` does not look for)
        fnames = {f.__name__ for f in p.functions}
        joinable = [n for n in names if n != src and runner.env[n].kind == "call" and not (set(runner.env[n].p.all_output_names) & set(outs))
                    and not (fnames & {f.__name__ for f in runner.env[n].p.functions})
                    and not (set(runner.roots(runner.env[n].p)) & set(outs) and set(roots) & set(runner.env[n].p.all_output_names))]
        table = [("copy", 1), ("pickle", 1), ("rename", 2.5), ("rename_x", 2.5), ("scope", 1.2), ("scope_sel", 3), ("unscope", 1.5 if dotted else 0.2),
                 ("nest", 3.5 if len(p.functions) >= 2 else 0), ("simplify", 3 if len(p.functions) >= 2 else 0), ("split", 1.5),
                 ("join", 2.5 if joinable else 0), ("mutate", 1.5 if allow_mutation else 0),
                 # add_mapspec_axis on a pipeline without MapSpecs: the fragment of C10_add_axis (any DAG, tuple outputs, defaults, bound)
                 ("add_axis", 2.0 if roots and not any(isinstance(f, R.NestedPipeFunc) for f in p.functions)
                  and not any(n.count(".") > 1 for n in outs + roots) else 0)]
    kind = rng.choices([t[0] for t in table], weights=[t[1] for t in table])[0]
    if kind in ("copy", "pickle"):
        return {"op": kind, "src": src, "dst": dst}
    if kind == "join":
        return {"op": "join", "src": src, "other": rng.choice(joinable), "dst": dst, "via": rng.choice(["join", "or"])}
    if kind == "rename":
        pool = outs + roots
        if rng.random() < 0.15:
            pool = pool + [a for f in p.functions for a in f.parameters]
        chosen = rng.sample(sorted(set(pool)), min(len(set(pool)), rng.choice([1, 1, 2])))
        return {"op": "rename", "src": src, "dst": dst, "map": [[n, f"{n}_R{k}"] for n in chosen]}
    if kind == "rename_x":
        form = rename_form(rng, p, f"{k}", uniform_only=ent.kind == "map")
        if form is None:
            return {"op": "copy", "src": src, "dst": dst}
        return dict({"op": "rename_x", "src": src, "dst": dst}, **form)
    if kind == "scope":
        return {"op": "scope", "src": src, "dst": dst, "scope": rng.choice(["S", "T", "sc"])}
    if kind == "unscope":
        return {"op": "scope", "src": src, "dst": dst, "scope": None}
    if kind == "scope_sel":
        return dict({"op": "scope_sel", "src": src, "dst": dst}, **scope_form(rng, p, roots, outs))
    if kind == "split":
        return {"op": "split", "src": src, "dst": dst, "out": rng.choice(outs)}
    if kind == "add_axis":
        # a root whose tag (its name in the generated pipeline) another root shares (a scoped copy joined with its original)
        # cannot be given its own value by the tag-keyed inputs: not proposed
        tagc = [ent.tags.get(r, r) for r in roots]
        cands = ([r for r in roots if ent.tags.get(r, r) in ent.inputs] if ent.kind == "map"
                 else [r for r in roots if tagc.count(ent.tags.get(r, r)) == 1])
        if not cands:
            return {"op": "copy", "src": src, "dst": dst}
        return {"op": "add_axis", "src": src, "dst": dst, "param": rng.choice(cands), "axis": f"w{len(names)}", "K": rng.choice([1, 2, 2, 3])}
    if kind == "simplify":
        leaves = [R.at_least_tuple(f.output_name)[0] for f in p.leaf_nodes]
        o = rng.choice(leaves) if rng.random() < 0.75 else rng.choice(outs)
        return {"op": "simplify", "src": src, "dst": dst, "out": o, "conservative": rng.random() < 0.3}
    if kind == "nest":
        fs = list(p.functions)
        f = rng.choice(fs)
        group = [f]
        for _ in range(rng.choice([1, 1, 2])):
            # grow along graph edges most of the time, so that the selection has one leaf
            preds = [g for h in group for g in p.graph.predecessors(h) if g in fs and g not in group]
            succs = [g for h in group for g in p.graph.successors(h) if g in fs and g not in group]
            pool = (preds + succs) if rng.random() < 0.8 and (preds or succs) else [g for g in fs if g not in group]
            if pool:
                group.append(rng.choice(pool))
        sel = [R.at_least_tuple(g.output_name)[0] for g in group]
        inner = sorted({o for g in group for o in R.at_least_tuple(g.output_name)})
        consumed = {a for g in fs if g not in group for a in g.parameters if a in inner and a not in g.bound}
        op = {"op": "nest", "src": src, "dst": dst, "sel": sel, "out": None}
        r = rng.random()
        if r < 0.25:
            # a chosen subset that keeps the leaf's outputs and everything consumed outside (valid)
            inner_graph_leaves = [g for g in group if not any(a in R.at_least_tuple(g.output_name) and a not in h.bound for h in group if h is not g for a in h.parameters)]
            keep = set(consumed) | {o for g in inner_graph_leaves[:1] for o in R.at_least_tuple(g.output_name)}
            keep |= {o for o in inner if rng.random() < 0.3}
            op["out"] = sorted(keep) or None
            if op["out"] and len(op["out"]) > 1 and rng.random() < 0.4:
                rng.shuffle(op["out"])               # `output_name` need not be in alphabetical order
        elif r < 0.32 and len(inner) > 1:
            op["out"] = sorted(rng.sample(inner, rng.randint(1, len(inner) - 1)))
            op["malformed"] = not (consumed <= set(op["out"]))
        elif r < 0.5:
            # ext5: EXACTLY the tuple of a multi-output leaf of the selection, in its own order (then the inner pipeline's result
            # dictionary has the nest's output_name as a key: the raw return value of the leaf)
            inner_leaves = [g for g in group if isinstance(g.output_name, tuple)
                            and not any(a in g.output_name and a not in h.bound for h in group if h is not g for a in h.parameters)]
            if inner_leaves:
                op["out"] = list(inner_leaves[0].output_name)
                op["malformed"] = not (consumed <= set(op["out"]))
        if rng.random() < 0.12:
            op["via"] = "ctor"               # ext5: NestedPipeFunc(functions, output_name) built by hand, then a new Pipeline
        if op["out"] is not None and len(op["out"]) == 1 and rng.random() < 0.4:
            op["tuple1"] = True              # ext5: output_name=("o",) - a 1-tuple is a tuple name (the wrapper packs, the picker unpacks)
        return op
    if kind == "mutate":
        if rng.random() < 0.3:
            mx = propose_rename_mutation(rng, runner, src, f"{k}s")
            if mx is not None:
                return mx
        return propose_mutation(rng, runner, src, f"{k}s") or {"op": "copy", "src": src, "dst": dst}
    raise AssertionError(kind)


def rename_form(rng, p, uid, uniform_only=False, funcs=None):
    """The arguments of one `update_renames` call: keys in terms of the current or the original names, overwrite or not, 0-3 keys;
    new names are fresh, the key's own original name, a name this very call frees (the name of a parameter that the overwrite sends
    home, or the current name of another key: cycles a->b, b->a), or an earlier name.  Calls that would make two names of one function
    (or two outputs of the pipeline) equal are avoided (captures are outside the property); `uniform_only`: the call must be ONE injective
    renaming of the whole pipeline.  `funcs`: restrict to these functions (a function-level call)."""
    fs = list(funcs if funcs is not None else p.functions)
    pairs = [pr for f in fs for pr in R.fn_pairs(f)]
    if not pairs:
        return None
    for _attempt in range(8):
        from_original = rng.random() < 0.4
        overwrite = rng.random() < 0.5
        keys_pool = sorted({(o if from_original else c) for c, o in pairs})
        r = rng.random()
        n = 0 if (overwrite and r < 0.25) else rng.choice([1, 1, 2, 2, 3])
        keys = rng.sample(keys_pool, min(n, len(keys_pool)))
        cur_of = {}
        for c, o in pairs:
            cur_of.setdefault(o if from_original else c, []).append((c, o))
        m = {}
        freed = sorted({c for c, o in pairs if c != o and overwrite and (o if from_original else c) not in keys} |
                       {c for k_ in keys for c, _ in cur_of[k_]})
        for k_ in keys:
            c0, o0 = cur_of[k_][0]
            r = rng.random()
            if r < 0.35:
                new = f"{k_.replace('.', '_')}_X{uid}"
            elif r < 0.5:
                new = o0                                  # back to (or staying at) its original name
            elif r < 0.85 and freed:
                new = rng.choice(freed)                   # a name this call frees: swaps, cycles, hand-overs
            else:
                new = rng.choice(sorted({c for c, _ in pairs} | {o for _, o in pairs}))
            if "." in new and any("." in x and x.count(".") > 1 for x in [new]):
                continue
            m[k_] = new
        # prediction (names only): no two names of one function equal, no output produced twice
        pred = [R.predict_names(f, m, from_original, overwrite) for f in p.functions] if funcs is None else \
               [R.predict_names(f, m, from_original, overwrite) if any(f is g for g in fs) else {c: c for c, _ in R.fn_pairs(f)} for f in p.functions]
        ok = True
        outs_new = []
        rel = set()
        for f, pm in zip(p.functions, pred):
            names_new = [pm[c] for c, _ in R.fn_pairs(f)]
            ok = ok and len(set(names_new)) == len(names_new)
            outs_new += [pm[c] for c in R.at_least_tuple(f.output_name)]
            rel |= set(pm.items())
        ok = ok and len(set(outs_new)) == len(outs_new)
        if ok and uniform_only:
            functional, inj = R.uniform(rel, None)
            ok = functional and inj
        if ok and (m or overwrite):
            return {"map": [[k_, v] for k_, v in m.items()], "from_original": from_original, "overwrite": overwrite}
    return None


def propose_rename_mutation(rng, runner, target, uid):
    """`update_renames(..., update_from, overwrite)` in place: on the pipeline, or on ONE of its functions."""
    ent = runner.env[target]
    p = ent.p
    if ent.kind == "call" and rng.random() < 0.35:
        f = rng.choice(list(p.functions))
        form = rename_form(rng, p, uid, funcs=[f])
        if form is None:
            return None
        return dict({"op": "mut_frename", "target": target, "out": R.at_least_tuple(f.output_name)[0]}, **form)
    form = rename_form(rng, p, uid, uniform_only=ent.kind == "map")
    return None if form is None else dict({"op": "mut_rename_x", "target": target}, **form)


def gen_rename_case(rng, k_case):
    """Rename histories on functions with bound values: rename -> bind -> rename with overwrite / update_from, update_scope on top,
    cycles in one call; new objects and in-place calls; everything is observed after every step."""
    desc = pipegen.gen_dag(rng, max_funcs=rng.choice([1, 2, 2, 3]), p_tuple=0.25, p_bound=0.55, p_default=0.3,
                           p_rename=rng.choice([0.0, 0.1, 0.3]), p_nullary=0.0)
    PK.assign(rng, desc["funcs"])      # ext5: an output of a function with a custom output_picker renamed, renamed again, reset, scoped
    env = [["p0", {"kind": "call", "desc": desc, "explicit_defaults": rng.random() < 0.5}]]
    runner = R.Runner(env)
    if runner.halted:          # (ext5) building the generated pipeline raised: reported by the runner, nothing to rewrite
        return {"env": env, "ops": []}, runner
    ops = []
    for k in range(rng.choice([2, 3, 3, 4])):
        names = list(runner.env)
        src = names[-1]
        ent = runner.env[src]
        p = ent.p
        try:
            r = rng.random()
            if r < 0.55:
                form = rename_form(rng, p, f"{k}")
                op = None if form is None else dict({"op": "rename_x", "src": src, "dst": f"p{len(names)}x"}, **form)
            elif r < 0.7:
                op = propose_rename_mutation(rng, runner, src, f"{k}")
            elif r < 0.82:
                f = rng.choice(list(p.functions))
                free = [a for a in f.parameters if a not in f.bound and a not in f.defaults]
                op = None if not free else {"op": "set_bound", "target": src, "out": R.at_least_tuple(f.output_name)[0],
                                            "map": [[rng.choice(free), {"s": f"newbound:{k}"}]]}
            elif r < 0.92:
                op = dict({"op": "scope_sel", "src": src, "dst": f"p{len(names)}x"},
                          **scope_form(rng, p, runner.roots(p), sorted(p.all_output_names)))
            else:
                op = {"op": "rename", "src": src, "dst": f"p{len(names)}x",
                      "map": [[n, f"{n.replace('.', '_')}_R{k}"] for n in rng.sample(sorted(R.used_names(p)), 1)]}
        except Exception as e:  # noqa: BLE001
            runner.inconsistent(e, ops)
            break
        if op is None:
            continue
        ops.append(op)
        runner.apply(op)
        if runner.halted:
            break
    return {"env": env, "ops": ops}, runner


def scope_form(rng, p, roots, outs):
    """The arguments of one `update_scope` call: every documented form of inputs / outputs / exclude, plain, dotted and removed scopes."""
    roots, outs = sorted(roots), sorted(outs)
    scope = rng.choice(["S", "T", "sc", "S", "T", "A.B", "S.U"]) if rng.random() > 0.1 else None
    bound = sorted({a for f in p.functions for a in f.bound})
    r = rng.random()
    if r < 0.2:
        inputs, outputs, exclude = "*", None, None
    elif r < 0.4:
        inputs, outputs, exclude = None, "*", None
    elif r < 0.65:
        pool_i = roots + ([b for b in bound if rng.random() < 0.7] if bound else [])
        inputs = sorted(rng.sample(pool_i, rng.randint(1, min(2, len(pool_i))))) if pool_i and rng.random() < 0.7 else None
        outputs = sorted(rng.sample(outs, rng.randint(1, min(2, len(outs))))) if outs and (inputs is None or rng.random() < 0.5) else None
        if rng.random() < 0.15:
            inputs, outputs = (outputs, inputs) if rng.random() < 0.5 else ("*", outputs)     # names given in the wrong role are ignored
        exclude = None
    elif r < 0.9:
        pool = roots + outs + bound
        inputs, outputs = rng.choice([("*", "*"), ("*", "*"), ("*", None), (None, "*")])
        exclude = sorted(rng.sample(pool, rng.randint(1, min(2, len(pool))))) if pool else []
    else:
        inputs, outputs, exclude = "*", "*", None
        scope = rng.choice(["A.B", "S.U", "A.B.C"])
    return {"scope": scope, "inputs": inputs, "outputs": outputs, "exclude": exclude}


def live_func_desc(ent, f, name):
    """A fresh term-building function with the current parameters, outputs, defaults, bound values and MapSpec of `f`."""
    params = [[a, a if "." not in a else f"b{j}"] for j, a in enumerate(f.parameters)]
    outs = list(R.at_least_tuple(f.output_name))
    fd = {"name": name, "params": params, "outputs": outs,
          "defaults": sorted([[a, R.terms.enc(v)] for a, v in f.defaults.items() if a not in f.bound], key=lambda kv: kv[0]),
          "bound": sorted([[a, R.terms.enc(v)] for a, v in f.bound.items()], key=lambda kv: kv[0])}
    dn = {x[0] for x in fd["defaults"]}
    fd["params"] = [q for q in params if q[0] not in dn] + [q for q in params if q[0] in dn]
    if len(outs) > 1 and PK.style_of(f) in PK.STYLES:
        fd["picker"] = PK.style_of(f)          # the replacement returns its outputs the way the replaced function does
    if ent.kind == "map":
        ms = f.mapspec
        fd["mapspec"] = None if ms is None else {"inputs": [[a.name, list(a.axes)] for a in ms.inputs], "outputs": [[a.name, list(a.axes)] for a in ms.outputs]}
        fd["mapspec_str"] = None if ms is None else str(ms)
        fd["ret"] = ent.rets.get(ent.labels.get(outs[0], outs[0]))
        fd["internal"] = list(f.internal_shape) if isinstance(getattr(f, "internal_shape", None), tuple) else None
        fd["autogen"] = False
    return fd


def propose_mutation(rng, runner, target, uid, extra=None):
    """One in-place mutation of `target`, chosen with the real object in view; None when none applies."""
    ent = runner.env[target]
    p = ent.p
    outs = sorted(p.all_output_names)
    roots = sorted(runner.roots(p))
    fs = list(p.functions)
    kinds = list(R.MUTATIONS)
    rng.shuffle(kinds)
    if extra and extra.get("after"):
        # the (rewrite, mutation, side) pairs exercised least so far in this run come first
        kinds.sort(key=lambda m: SEEN.get((extra["after"], m, extra["which"]), 0))
    for kind in kinds:
        op = None
        if kind == "set_defaults" and roots:
            op = {"op": kind, "target": target, "map": [[rng.choice(roots), {"s": f"newdefault:{uid}"}]]}
        elif kind == "set_bound":
            f = rng.choice(fs)
            free = [a for a in f.parameters if a not in f.bound and a not in f.defaults and not (f.mapspec and a in f.mapspec.input_names)]
            if free:
                op = {"op": kind, "target": target, "out": R.at_least_tuple(f.output_name)[0], "map": [[rng.choice(free), {"s": f"newbound:{uid}"}]]}
        elif kind == "mut_rename":
            pool = sorted(set(outs + roots))
            chosen = rng.sample(pool, min(len(pool), rng.choice([1, 1, 2])))
            op = {"op": kind, "target": target, "map": [[n, f"{n}_M{uid}"] for n in chosen]}
        elif kind == "mut_scope":
            form = scope_form(rng, p, roots, outs)
            names = R.scope_names(p, form["inputs"], form["outputs"], form["exclude"])
            if names and R.injective(lambda n: R.prepend_scope(form["scope"], n) if n in names else n, R.used_names(p)):
                op = dict({"op": kind, "target": target}, **form)
        elif kind == "mut_drop" and len(fs) >= 2:
            cands = fs if ent.kind == "call" else [f for f in fs if not any(a in R.at_least_tuple(f.output_name) for g in fs for a in g.parameters)]
            if cands:
                op = {"op": kind, "target": target, "out": rng.choice(R.at_least_tuple(rng.choice(cands).output_name))}
        elif kind == "mut_add":
            pool = sorted(set(outs + roots))
            chosen = rng.sample(pool, min(len(pool), rng.randint(1, 2)))
            fd = {"name": f"h{uid}", "params": [[a, a if "." not in a and rng.random() < 0.7 else f"b{j}"] for j, a in enumerate(chosen)],
                  "outputs": [f"z{uid}"] if rng.random() < 0.8 else [f"z{uid}a", f"z{uid}b"], "defaults": [], "bound": []}
            if ent.kind == "call" and rng.random() < 0.4:
                fd["params"].append([f"n{uid}", f"n{uid}"])
                if rng.random() < 0.5:
                    fd["defaults"].append([f"n{uid}", {"s": f"dflt:n{uid}"}])
            if ent.kind == "map":
                fd.update(mapspec=None, mapspec_str=None, ret=None, internal=None, autogen=False)
            PK.assign(rng, [fd])
            op = {"op": kind, "target": target, "func": fd}
        elif kind == "mut_replace":
            f = rng.choice(fs)
            op = {"op": kind, "target": target, "func": live_func_desc(ent, f, f"h{uid}")}
        if op is not None:
            op.update(extra or {})
            if op.get("after"):
                SEEN[(op["after"], kind, op["which"])] = SEEN.get((op["after"], kind, op["which"]), 0) + 1
            return op
    return None


def propose_malformed(rng, runner, k):
    names = list(runner.env)
    src = names[-1]
    ent = runner.env[src]
    outs = sorted(ent.p.all_output_names)
    dst = f"m{k}"
    c = rng.choice(["unused-rename", "unknown-nest", "unknown-split", "unknown-simplify", "capture", "unknown-drop", "unknown-replace", "dup-add",
                    "unused-rename-x", "unused-rename-x-inplace"])
    if c == "unused-rename-x":
        # a key nobody takes, in terms of the current or the original names, with or without overwrite: refused; the source stays as it was
        return {"op": "rename_x", "src": src, "dst": dst, "map": [["nosuchname", "x"]], "from_original": rng.random() < 0.5, "overwrite": rng.random() < 0.5}
    if c == "unused-rename-x-inplace":
        # in place the refusal comes AFTER every function was updated (with overwrite: reset) - counted as `failed-in-place`, outside the property
        return {"op": "mut_rename_x", "target": src, "map": [["nosuchname", "x"]], "from_original": rng.random() < 0.5, "overwrite": rng.random() < 0.5}
    if c == "unknown-drop":
        return {"op": "mut_drop", "target": src, "out": "nosuchoutput"}
    if c == "unknown-replace":
        return {"op": "mut_replace", "target": src, "func": live_func_desc(ent, ent.p.functions[0], f"h{k}m") | {"outputs": ["nosuchoutput"], "mapspec": None, "mapspec_str": None}}
    if c == "dup-add":
        return {"op": "mut_add", "target": src, "func": live_func_desc(ent, ent.p.functions[-1], f"h{k}m")}
    if c == "unused-rename":
        return {"op": "rename", "src": src, "dst": dst, "map": [["nosuchname", "x"]]}
    if c == "unknown-nest":
        return {"op": "nest", "src": src, "dst": dst, "sel": [outs[0], "nosuchoutput"], "out": None}
    if c == "unknown-split":
        return {"op": "split", "src": src, "dst": dst, "out": "nosuchoutput"}
    if c == "unknown-simplify":
        return {"op": "simplify", "src": src, "dst": dst, "out": "nosuchoutput", "conservative": False}
    return {"op": "rename", "src": src, "dst": dst, "map": [["nosuchname2", outs[0]]]}      # unused key onto an existing name


def gen_nestmap_case(rng, k_case):
    """Round 4: a MapSpec pipeline with a (nearly) combinable group; the group is nested, then the nested pipeline goes through 0-2 more
    rewrites (rename, scope, copy, pickle, split, add_mapspec_axis, mutations, another nest / simplify) - each observed under map."""
    desc, info = NM.gen_env(rng)
    env = [["p0", {"kind": "map", "desc": desc}]]
    runner = R.Runner(env)
    if runner.halted:          # (ext5) building the generated pipeline raised: reported by the runner, nothing to rewrite
        return {"env": env, "ops": []}, runner
    runner.counts.append(f"nestmap:shape:{info['shape']}")
    runner.counts.append(f"nestmap:perturbation:{info['perturb']}")
    ops = [NM.nest_op(rng, info, "p0", "p1")]
    try:
        ok = runner.apply(ops[0])
    except Exception as e:  # noqa: BLE001
        runner.inconsistent(e, ops)
        return {"env": env, "ops": ops}, runner
    runner.counts.append(f"nestmap:{'nested' if ok else 'refused'}:{info['shape']}:{info['perturb']}")
    if ok and ops[0]["out"] is not None and ops[0]["out"] != sorted(ops[0]["out"]):
        runner.counts.append("nestmap:output_name-not-sorted")
    for k in range(rng.choice([0, 1, 1, 2])):
        if runner.halted:
            break
        try:
            op = propose(rng, runner, k + 1, allow_mutation=True)
        except Exception as e:  # noqa: BLE001
            runner.inconsistent(e, ops)
            break
        ops.append(op)
        runner.apply(op)
    return {"env": env, "ops": ops}, runner


def gen_split_case(rng, k_case):
    """ext5 (seeded change C10-s3-B: the catch depended on the luck of the DAG generator): pipelines made of 2-3 groups of functions, two of
    which are LINKED ONLY THROUGH A SHARED ROOT ARGUMENT (no function feeds the other) - with a default for that argument declared on one of
    its consumers only (`Pipeline.defaults` serves all of them), on both, or on none - plus, mostly, a really disconnected group; then
    split_disconnected for an output of each kind of group, and 0-2 further ops.  Every piece is called with all roots and with the
    defaulted roots left out (`observe`), which is where a piece that lost a default shows."""
    groups = rng.choice([2, 3, 3])
    funcs = []
    for g in range(groups):
        prev = None
        for i in range(rng.choice([1, 1, 2])):
            params = [f"r{g}{i}"] + ([prev] if prev else []) + ([f"r{g}x"] if rng.random() < 0.3 else [])
            outs = [f"o{g}{i}"] if rng.random() < 0.75 else [f"o{g}{i}a", f"o{g}{i}b"]
            dfl = [[f"r{g}{i}", pipegen.sval(f"dflt:r{g}{i}")]] if rng.random() < 0.25 else []
            f = F(f"f{g}{i}", [q for q in params if q not in [d[0] for d in dfl]] + [d[0] for d in dfl], outs, defaults=dfl)
            funcs.append(f)
            prev = outs[0]
    shape = "unlinked"
    if rng.random() < 0.8:
        a, b = rng.sample(range(groups), 2)
        fa = rng.choice([f for f in funcs if f["name"].startswith(f"f{a}")])
        fb = rng.choice([f for f in funcs if f["name"].startswith(f"f{b}")])
        shape = rng.choice(["default-on-one", "default-on-one", "default-on-both", "no-default"])
        for f, with_default in ((fa, shape != "no-default"), (fb, shape == "default-on-both")):
            if with_default:
                f["params"].append(["s0", "s0"])
                f["defaults"].append(["s0", pipegen.sval("dflt:s0")])
            else:
                dn = {d[0] for d in f["defaults"]}
                f["params"] = [q for q in f["params"] if q[0] not in dn] + [["s0", "s0"]] + [q for q in f["params"] if q[0] in dn]
    pipegen.assign_consts(rng, funcs)
    PK.assign(rng, funcs)
    env = [["p0", {"kind": "call", "desc": {"funcs": funcs}, "explicit_defaults": rng.random() < 0.5}]]
    runner = R.Runner(env)
    if runner.halted:          # (ext5) building the generated pipeline raised: reported by the runner, nothing to rewrite
        return {"env": env, "ops": []}, runner
    runner.counts.append(f"splitgen:{shape}:{groups}-groups")
    ops = []
    firsts = [f["outputs"][0] for f in funcs]
    for j, o in enumerate(rng.sample(firsts, min(len(firsts), rng.choice([1, 2, 2])))):
        ops.append({"op": "split", "src": "p0", "dst": f"p{j + 1}", "out": o})
        runner.apply(ops[-1])
    for k in range(rng.choice([0, 1, 2])):
        if runner.halted:
            break
        try:
            op = propose(rng, runner, k + 3, allow_mutation=True)
        except Exception as e:  # noqa: BLE001
            runner.inconsistent(e, ops)
            break
        ops.append(op)
        runner.apply(op)
    return {"env": env, "ops": ops}, runner


def gen_simplify_case(rng, k_case):
    """s5 (seeded change C10-s5-A: what a combined group exports depended on its POSITION in the list of groups, which is sorted by head name):
    a pipeline of 2-4 classes of functions with equal root arguments feeding each other through head and NON-head outputs, output names in an
    order unrelated to the topology (harness/c10_simpgen.py); simplified_pipeline for the final leaf (70 %) or any output, both modes, possibly
    twice; then 0-2 further ops on the result (incl. another simplify / nest / rename / scope and in-place mutations)."""
    desc, info = SG.gen_desc(rng)
    pipegen.assign_consts(rng, desc["funcs"])
    PK.assign(rng, desc["funcs"])
    env = [["p0", {"kind": "call", "desc": desc, "explicit_defaults": rng.random() < 0.5}]]
    runner = R.Runner(env)
    if runner.halted:
        return {"env": env, "ops": []}, runner
    runner.counts.append(f"simpgen:classes:{info['classes']}:names-{info['names']}")
    ops = []
    outs = sorted(runner.env["p0"].p.all_output_names)
    targets = [info["leaf"] if rng.random() < 0.7 else rng.choice(outs)]
    if rng.random() < 0.3:
        targets.append(rng.choice(outs))
    for j, o in enumerate(targets):
        ops.append({"op": "simplify", "src": "p0", "dst": f"p{j + 1}", "out": o, "conservative": rng.random() < 0.3})
        ok = runner.apply(ops[-1])
        if runner.halted:
            break
        if ok:
            try:
                runner.counts += SG.result_categories(runner.env[ops[-1]["dst"]].p, R.NestedPipeFunc, R.at_least_tuple)
            except Exception as e:  # noqa: BLE001
                runner.counts.append(f"simpgen:unreadable:{exc_enum(e)}")
        else:
            runner.counts.append("simpgen:refused")
    for k in range(rng.choice([0, 0, 0, 1, 2])):
        if runner.halted:
            break
        try:
            op = propose(rng, runner, k + 3, allow_mutation=True)
        except Exception as e:  # noqa: BLE001
            runner.inconsistent(e, ops)
            break
        ops.append(op)
        runner.apply(op)
    return {"env": env, "ops": ops}, runner


P_MUTATE_AFTER = 0.5
SEEN: dict = {}      # (rewrite kind, mutation kind, new|old) -> proposals in this run (reset by `run`; steers the choice only)


def gen_case(rng, k_case):
    kind = "map" if k_case % 4 == 3 else "call"
    env = gen_env(rng, kind)
    runner = R.Runner(env)
    if runner.halted:          # (ext5) building the generated pipeline raised: reported by the runner, nothing to rewrite
        return {"env": env, "ops": []}, runner
    ops = []
    mutated = 0
    for k in range(rng.choice([1, 2, 2, 3, 3, 4])):
        try:
            op = propose(rng, runner, k, allow_mutation=mutated < 2 and k > 0)
        except Exception as e:  # noqa: BLE001   the proposal reads graph / root_args / leaf_nodes of the real objects
            runner.inconsistent(e, ops)
            break
        mutated += op["op"] in R.MUTATIONS
        ops.append(op)
        ok = runner.apply(op)
        if ok and op["op"] not in R.MUTATIONS and runner.last is not None and rng.random() < P_MUTATE_AFTER:
            # independence after mutation: the new or the old object of this rewrite is mutated in place, both are observed again
            rk, new, olds = runner.last
            which = rng.choice(["new", "old"])
            target, pair = (new, rng.choice(olds)) if which == "new" else (rng.choice(olds), new)
            try:
                mop = propose_mutation(rng, runner, target, f"{len(ops)}", {"pair": pair, "after": rk, "which": which})
            except Exception as e:  # noqa: BLE001
                runner.inconsistent(e, ops)
                break
            if mop is not None:
                ops.append(mop)
                runner.apply(mop)
        if runner.halted:
            break
    if rng.random() < 0.12 and not runner.halted:
        op = propose_malformed(rng, runner, len(ops))
        ops.append(op)
        runner.apply(op)
    return {"env": env, "ops": ops}, runner


def rerun(case):
    runner = R.Runner(case["env"])
    for op in case["ops"]:
        if runner.halted:
            break
        if op.get("src", op.get("target")) in runner.env and (op.get("other") is None or op["other"] in runner.env):
            runner.apply(op)
    return runner


# ---------------------------------------------------------------------------------------------- judging
def judge(ctx, case, runner, resp, wresps=()):
    performed = [p["op"]["op"] for p in runner.plan if p["kind"] == "op" and "ok" in p["impl"]]
    model_problems = list(R.judge_model(runner, resp["r"]["steps"])) + list(R.judge_wraps(runner, wresps))
    for c in runner.counts:
        ctx.count(c)
    ctx.count(f"kind:{case['env'][0][1]['kind']}")
    ctx.count(f"history-length:{len(case['ops'])}")
    n_funcs = len(case["env"][0][1]["desc"]["funcs"])
    ctx.record(case, nontrivial=n_funcs >= 2 and any(o not in ("copy", "pickle") for o in performed))
    for what, found, item, impl, model in runner.problems:
        ctx.violation(case, what, found_input=found, item=item, impl=impl, model=model)
    for what, found, item, impl, model in model_problems:
        ctx.violation(case, what, found_input=found, item=item, impl=impl, model=model)


def F(name, params, outputs, defaults=(), bound=()):
    return {"name": name, "params": [list(p) if isinstance(p, (list, tuple)) else [p, p] for p in params], "outputs": list(outputs),
            "defaults": [list(d) for d in defaults], "bound": [list(b) for b in bound]}


def FP(name, params, outputs, picker, **kw):
    """`F` with a custom output_picker style (harness/c10_picker.py)"""
    return dict(F(name, params, outputs, **kw), picker=picker)


def call_env(*funcs):
    return [["p0", {"kind": "call", "desc": {"funcs": list(funcs)}}]]


def BASE3():
    return call_env(F("f0", ["r0"], ["o0"]), F("f1", ["o0", "r1"], ["o1"]), F("f2", ["o1"], ["o2"]))


def MAP2():
    """x0 mapped over by f1 (x0[i] -> y1[i]) and taken whole by f0"""
    return [["p0", {"kind": "map", "desc": {"funcs": [
        {"name": "f0", "params": [["x0", "x0"], ["c1", "c1"]], "outputs": ["y0"], "mapspec": None, "mapspec_str": None, "autogen": False, "ret": None,
         "internal": None, "defaults": [], "bound": []},
        {"name": "f1", "params": [["x0", "x0"]], "outputs": ["y1"], "mapspec": {"inputs": [["x0", ["i"]]], "outputs": [["y1", ["i"]]]},
         "mapspec_str": "x0[i] -> y1[i]", "autogen": False, "ret": None, "internal": None, "defaults": [], "bound": []}],
        "inputs": [["c1", {"s": "in:c1"}], ["x0", {"arr": [[2], [{"s": "e0"}, {"s": "e1"}]]}]], "input_kinds": {"x0": "array"}, "internal": [], "sizes": {"i": 2}}}]]


def MF(name, params, outputs, ms=None, defaults=(), bound=()):
    """A mapgen-format function; `ms` = (inputs, outputs) as [[name, axes]] lists."""
    m = None if ms is None else {"inputs": [list(a) for a in ms[0]], "outputs": [list(a) for a in ms[1]]}
    return {"name": name, "params": [[q, q] for q in params], "outputs": list(outputs), "mapspec": m, "mapspec_str": NM.spec_str(m) if m else None,
            "autogen": False, "ret": None, "internal": None, "defaults": [list(d) for d in defaults], "bound": [list(b) for b in bound]}


def XARR(name, n):
    return {"arr": [[n], [{"f": "in", "k": [["n", {"s": name}], ["at", {"arr": [[1], [q]]}]]} for q in range(n)]]}


def map_env(funcs, inputs, kinds=None):
    return [["p0", {"kind": "map", "desc": {"funcs": funcs, "inputs": inputs, "input_kinds": kinds or {}, "internal": [], "sizes": {}}}]]


def CHAIN(extra_f0=(), extra_f1=(), **kw):
    """x0[i] -> y0[i] -> y1[i], reduced by f2 outside the group"""
    return [MF("f0", ["x0", *extra_f0], ["y0"], ([["x0", ["i"]]], [["y0", ["i"]]]), **kw),
            MF("f1", ["y0", *extra_f1], ["y1"], ([["y0", ["i"]]], [["y1", ["i"]]])),
            MF("f2", ["y1"], ["t2"])]


def PICK3(style, mid=()):
    """f(a, b) -> x;  g(x, a) -> (c, d) with a custom output_picker;  h(c, d) -> e   (the demo of seeded change C10-s3-A)"""
    return call_env(F("f", ["a", "b"], ["x"]), FP("g", ["x", "a"], ["c", "d"], style), F("h", ["c", "d", *mid], ["e"]))


def SH(name, funcs):
    """an environment entry whose functions of one name share ONE callable with the other `SH` entries (harness/c10_join.py)"""
    return [name, {"kind": "call", "shared": True, "desc": {"funcs": funcs}}]


def S0(outputs=("d",), x="x", **kw):
    """the shared step `s0(x, c) -> d` (original names), as configured in one pipeline"""
    return J.F("s0", [[x, "x"], ["c", "c"]], list(outputs), outorig=["d"], **kw)


CORPUS: list = [
    # seeded change C10-s4-B (round 9): two pipelines containing the SAME callable under the same output name, configured differently (another bound
    # value / another default / a renamed input): join and | must refuse (duplicate output) in either order, as a bare PipeFunc operand, and p | p
    {"env": [SH("p0", [S0(bound=[["c", {"s": "bound:c:0"}]]), J.F("p0", [["d", "data"], ["y", "y"]], ["pa"])]),
             SH("q0", [S0(bound=[["c", {"s": "bound:c:1"}]]), J.F("q0", [["d", "data"]], ["qa"])])],
     "ops": [{"op": "join_x", "src": "p0", "others": [{"p": "q0"}], "dst": "j0", "via": "or"},
             {"op": "join_x", "src": "q0", "others": [{"p": "p0"}], "dst": "j1", "via": "join"},
             {"op": "join_x", "src": "p0", "others": [{"f": ["q0", "d"]}], "dst": "j2", "via": "or"},
             {"op": "join_x", "src": "p0", "others": [{"f": ["q0", "qa"]}], "dst": "j3", "via": "or"},
             {"op": "join_x", "src": "p0", "others": [{"p": "p0"}], "dst": "j4", "via": "or"}]},
    {"env": [SH("p0", [S0(), J.F("p0", [["d", "data"], ["y", "y"]], ["pa"])]),
             SH("q0", [S0(defaults=[["c", {"s": "dflt:c:1"}]]), J.F("q0", [["d", "data"]], ["qa"])]),
             SH("r0", [S0(x="x2"), J.F("r0", [["d", "data"]], ["ra"])])],
     "ops": [{"op": "join_x", "src": "p0", "others": [{"p": "q0"}], "dst": "j0", "via": "or"},
             {"op": "join_x", "src": "p0", "others": [{"p": "r0"}], "dst": "j1", "via": "or"},
             {"op": "join_x", "src": "q0", "others": [{"p": "r0"}, {"p": "p0"}], "dst": "j2", "via": "join"}]},
    # the same callable under ANOTHER output name in the second pipeline: accepted, and both configurations keep computing their own values
    # (call, defaults left out, map); three operands; a copy of p reconfigured in place and joined with p (refused)
    {"env": [SH("p0", [S0(bound=[["c", {"s": "bound:c:0"}]]), J.F("p0", [["d", "data"], ["y", "y"]], ["pa"])]),
             SH("q0", [S0(outputs=["d1"], defaults=[["c", {"s": "dflt:c:1"}]]), J.F("q0", [["d1", "data"]], ["qa"])]),
             SH("r0", [J.F("r0", [["qa", "u"], ["pa", "v"]], ["ra"])])],
     "ops": [{"op": "join_x", "src": "p0", "others": [{"p": "q0"}], "dst": "j0", "via": "or"},
             {"op": "join_x", "src": "r0", "others": [{"p": "q0"}, {"p": "p0"}], "dst": "j1", "via": "join"},
             {"op": "copy", "src": "p0", "dst": "c0"},
             {"op": "set_bound", "target": "c0", "out": "pa", "map": [["y", {"s": "newbound"}]]},
             {"op": "join_x", "src": "p0", "others": [{"p": "c0"}], "dst": "j2", "via": "or"}]},
    # `join` validates every PREFIX of the concatenation: two defaults for `z` are refused when the producer of `z` is added after
    # them and accepted when it is added before; p | q and q | p differ; pipelines feeding each other are refused (cycle)
    {"env": [SH("p0", [J.F("f0", ["r0", "z"], ["o0"], defaults=[["z", {"s": "dflt:z:0"}]])]),
             SH("q0", [J.F("g0", ["r1", "z"], ["q0"], defaults=[["z", {"s": "dflt:z:1"}]]), J.F("g1", ["r2"], ["z"])]),
             SH("r0", [J.F("g1", ["r2"], ["z"]), J.F("g0", ["r1", "z"], ["q0"], defaults=[["z", {"s": "dflt:z:1"}]])])],
     "ops": [{"op": "join_x", "src": "p0", "others": [{"p": "q0"}], "dst": "j0", "via": "or"},
             {"op": "join_x", "src": "p0", "others": [{"p": "r0"}], "dst": "j1", "via": "or"},
             {"op": "join_x", "src": "q0", "others": [{"p": "p0"}], "dst": "j2", "via": "or"}]},
    {"env": [SH("p0", [J.F("f0", ["q0", "r0"], ["o0"])]), SH("q0", [J.F("g0", ["o0", "r2"], ["q0"])])],
     "ops": [{"op": "join_x", "src": "p0", "others": [{"p": "q0"}], "dst": "j0", "via": "or"}]},
    # seeded change C10-s5-A: two combined groups, {b, z} (head `z`) and {d, e} (head `e`); the NON-head output `b` of the first is consumed by `g` of
    # the second, and the groups are sorted by head name, so the producing group comes LAST: it must still export `b`.  Control: head `c` < `e`;
    # the consumer with a default for `b` (a lost export would silently be replaced by the default); three groups in reverse alphabetical order
    {"env": call_env(F("f1", ["a"], ["b"]), F("f2", ["b"], ["z"]), F("g", ["b", "z", "x"], ["d"]), F("h", ["d"], ["e"])),
     "ops": [{"op": "simplify", "src": "p0", "dst": "p1", "out": "e", "conservative": False},
             {"op": "simplify", "src": "p0", "dst": "p2", "out": "e", "conservative": True},
             {"op": "simplify", "src": "p0", "dst": "p3", "out": "d", "conservative": False}]},
    {"env": call_env(F("f1", ["a"], ["b"]), F("f2", ["b"], ["c"]), F("g", ["b", "c", "x"], ["d"]), F("h", ["d"], ["e"])),
     "ops": [{"op": "simplify", "src": "p0", "dst": "p1", "out": "e", "conservative": False}]},
    {"env": call_env(F("f1", ["a"], ["b"]), F("f2", ["b"], ["z"]), F("g", ["z", "x", "b"], ["d"], defaults=[["b", {"s": "dflt:b"}]]), F("h", ["d"], ["e"])),
     "ops": [{"op": "simplify", "src": "p0", "dst": "p1", "out": "e", "conservative": False}]},
    {"env": call_env(F("f1", ["a"], ["m1", "m2"]), F("f2", ["m1"], ["z"]), F("g1", ["m2", "z", "x"], ["n"]), F("g2", ["n", "m1"], ["k"]),
                     F("h1", ["n", "k", "m2", "y"], ["c"]), F("h2", ["c"], ["a9"])),
     "ops": [{"op": "simplify", "src": "p0", "dst": "p1", "out": "a9", "conservative": False},
             {"op": "pickle", "src": "p1", "dst": "p2"}]},
    # seeded change C10-s3-A: a nest that exports EXACTLY the tuple of its multi-output leaf, the leaf having a custom output_picker
    # (dict result / reversed tuple / object): nest_funcs with the leaf's tuple, in another order, plus the intermediate (control),
    # NestedPipeFunc built by hand, simplified_pipeline choosing the tuple by itself; then renamed / scoped / pickled
    {"env": PICK3("dict"),
     "ops": [{"op": "nest", "src": "p0", "dst": "p1", "sel": ["x", "c"], "out": ["c", "d"]},
             {"op": "nest", "src": "p0", "dst": "p2", "sel": ["x", "c"], "out": ["d", "c"]},
             {"op": "nest", "src": "p0", "dst": "p3", "sel": ["x", "c"], "out": ["c", "d", "x"]},
             {"op": "nest", "src": "p0", "dst": "p4", "sel": ["x", "c"], "out": ["c", "d"], "via": "ctor"},
             {"op": "simplify", "src": "p0", "dst": "p5", "out": "e", "conservative": False},
             {"op": "pickle", "src": "p1", "dst": "p6"}]},
    {"env": PICK3("rev"),
     "ops": [{"op": "nest", "src": "p0", "dst": "p1", "sel": ["x", "c"], "out": ["c", "d"]},
             {"op": "nest", "src": "p0", "dst": "p2", "sel": ["x", "c"], "out": None},
             {"op": "simplify", "src": "p0", "dst": "p3", "out": "e", "conservative": False},
             {"op": "split", "src": "p0", "dst": "p9", "out": "e"},
             {"op": "copy", "src": "p1", "dst": "p4"}]},
    {"env": PICK3("obj"),
     "ops": [{"op": "nest", "src": "p0", "dst": "p1", "sel": ["x", "c"], "out": ["c", "d"]},
             {"op": "nest", "src": "p1", "dst": "p2", "sel": ["c", "e"], "out": None},
             {"op": "add_axis", "src": "p0", "dst": "p3", "param": "a", "axis": "w", "K": 2},
             {"op": "nest", "src": "p0", "dst": "p4", "sel": ["c", "e"], "out": ["e"], "tuple1": True}]},
    # seeded change C10-s3-B: f0 and f1 are linked only through the root `s0`, whose default is declared on f0 alone; f2 is really disconnected
    {"env": call_env(F("f0", ["r0", "s0"], ["o0"], defaults=[["s0", {"s": "dflt:s0"}]]), F("f1", ["s0", "r1"], ["o1"]), F("f2", ["r2"], ["o2"])),
     "ops": [{"op": "split", "src": "p0", "dst": "p1", "out": "o1"}, {"op": "split", "src": "p0", "dst": "p2", "out": "o2"}]},
    # DF-C10-picker-renamed-output (ext5): a custom output_picker was handed the CURRENT (renamed / scoped) output name
    {"env": PICK3("dict"),
     "ops": [{"op": "rename", "src": "p0", "dst": "p1", "map": [["c", "c_R"]]},
             {"op": "scope", "src": "p0", "dst": "p2", "scope": "S"},
             {"op": "scope_sel", "src": "p0", "dst": "p3", "scope": "T", "inputs": None, "outputs": ["d"], "exclude": None},
             {"op": "nest", "src": "p2", "dst": "p4", "sel": ["S.x", "S.c"], "out": ["S.c", "S.d"]},
             {"op": "rename_x", "src": "p1", "dst": "p5", "map": [], "from_original": False, "overwrite": True}]},
    # DF-C10-nested-map (fixed in /repo by e747271): `Pipeline.map` on ANY pipeline containing a NestedPipeFunc raised AttributeError
    # ('NestedPipeFunc' object has no attribute 'internal_shape'): an element-wise chain nested and mapped; renamed, scoped, pickled afterwards
    {"env": map_env(CHAIN(), [["x0", XARR("x0", 3)]], {"x0": "list"}),
     "ops": [{"op": "nest", "src": "p0", "dst": "p1", "sel": ["y0", "y1"], "out": None},
             {"op": "nest", "src": "p0", "dst": "p2", "sel": ["y0", "y1"], "out": ["y1"]},
             {"op": "rename", "src": "p1", "dst": "p3", "map": [["y1", "y1_R"], ["x0", "x0_R"]]},
             {"op": "scope", "src": "p1", "dst": "p4", "scope": "S"},
             {"op": "pickle", "src": "p1", "dst": "p5"}]},
    # DF-C10-nest-unmapped-param (round 4): a nested function with a parameter that no MapSpec mentions (a default, a constant, a bound value)
    {"env": map_env(CHAIN(extra_f0=["c0"], extra_f1=["c1", "c2"], defaults=[["c0", {"s": "dflt:c0"}]]), [["x0", XARR("x0", 2)], ["c1", {"s": "in:c1"}], ["c2", {"s": "in:c2"}]]),
     "ops": [{"op": "nest", "src": "p0", "dst": "p1", "sel": ["y0", "y1"], "out": None},
             {"op": "set_bound", "target": "p0", "out": "y1", "map": [["c2", {"s": "newbound"}]]},
             {"op": "nest", "src": "p0", "dst": "p2", "sel": ["y0", "y1"], "out": None}]},
    # DF-C10-nest-output-order (round 4): output_name of the nest not in alphabetical order
    {"env": map_env(CHAIN(), [["x0", XARR("x0", 2)]]),
     "ops": [{"op": "nest", "src": "p0", "dst": "p1", "sel": ["y0", "y1"], "out": ["y1", "y0"]}]},
    # DF-C10-nest-array-use (round 4): f1 takes x0 WHOLE while f0 maps over it -> the combined MapSpec handed f1 the element (wrong values);
    # x0[i, :] in f0 and x0[:, i] in f1 -> merged into x0[i, i].  Both are refused now.
    {"env": map_env([MF("f0", ["x0"], ["y0"], ([["x0", ["i"]]], [["y0", ["i"]]])), MF("f1", ["y0", "x0"], ["y1"], ([["y0", ["i"]]], [["y1", ["i"]]]))],
                    [["x0", XARR("x0", 3)]]),
     "ops": [{"op": "nest", "src": "p0", "dst": "p1", "sel": ["y0", "y1"], "out": None}]},
    {"env": map_env([MF("f0", ["x0"], ["y0"], ([["x0", ["i", None]]], [["y0", ["i"]]])),
                     MF("f1", ["y0", "x0"], ["y1"], ([["y0", ["i"]], ["x0", [None, "i"]]], [["y1", ["i"]]]))],
                    [["x0", {"arr": [[2, 2], [{"f": "in", "k": [["n", {"s": "x0"}], ["at", {"arr": [[2], [a, b]]}]]} for a in range(2) for b in range(2)]]}]]),
     "ops": [{"op": "nest", "src": "p0", "dst": "p1", "sel": ["y0", "y1"], "out": None}]},
    # zip + outer product + a tuple output inside the nest; a reduction inside (refused: mix); nest of a nest
    {"env": map_env([MF("f0", ["x0", "x1"], ["y0a", "y0b"], ([["x0", ["i"]], ["x1", ["j"]]], [["y0a", ["i", "j"]], ["y0b", ["i", "j"]]])),
                     MF("f1", ["y0b", "x1"], ["y1"], ([["y0b", ["i", "j"]], ["x1", ["j"]]], [["y1", ["i", "j"]]])),
                     MF("f2", ["y1", "y0a"], ["y2"], ([["y1", ["i", "j"]], ["y0a", ["i", "j"]]], [["y2", ["i", "j"]]])),
                     MF("f3", ["y2"], ["t3"])],
                    [["x0", XARR("x0", 2)], ["x1", XARR("x1", 3)]]),
     "ops": [{"op": "nest", "src": "p0", "dst": "p1", "sel": ["y0a", "y1"], "out": None},
             {"op": "nest", "src": "p1", "dst": "p2", "sel": ["y1", "y2"], "out": ["y2"]},
             {"op": "nest", "src": "p0", "dst": "p3", "sel": ["y2", "t3"], "out": None}]},

    # seeded change C10-s1-A: a function that already has a bound value is copied, then update_bound on the copy / on the original
    {"env": call_env(F("f0", ["r0", "r1", "r2"], ["o0"], bound=[["r1", {"s": "bound:r1:f0"}]]), F("f1", ["o0", "r3"], ["o1"])),
     "ops": [{"op": "copy", "src": "p0", "dst": "p1"},
             {"op": "set_bound", "target": "p1", "out": "o0", "map": [["r2", {"s": "newbound"}]], "pair": "p0", "after": "copy", "which": "new"},
             {"op": "split", "src": "p0", "dst": "p2", "out": "o1"},
             {"op": "set_bound", "target": "p0", "out": "o0", "map": [["r0", {"s": "newbound2"}]], "pair": "p1", "after": "copy", "which": "old"}]},
    # seeded change C10-s2-A: a bound parameter that was renamed earlier; an overwrite drops the rename (2nd op), hands the freed name to another
    # parameter in the same call (3rd); a cycle a<->beta in one call, in place; update_scope on top; a reset of the scoped pipeline in place
    {"env": call_env(F("f", ["a", "b"], ["c"], bound=[["b", {"s": "bound:b"}]]), F("g", ["c", "e"], ["d"], defaults=[["e", {"s": "dflt:e"}]])),
     "ops": [{"op": "rename_x", "src": "p0", "dst": "p1", "map": [["b", "beta"]], "from_original": False, "overwrite": False},
             {"op": "rename_x", "src": "p1", "dst": "p2", "map": [], "from_original": False, "overwrite": True},
             {"op": "rename_x", "src": "p1", "dst": "p3", "map": [["a", "beta"]], "from_original": True, "overwrite": True},
             {"op": "mut_rename_x", "target": "p1", "map": [["a", "beta"], ["beta", "a"]], "from_original": False, "overwrite": False},
             {"op": "scope_sel", "src": "p1", "dst": "p4", "scope": "S", "inputs": "*", "outputs": "*", "exclude": None},
             {"op": "mut_rename_x", "target": "p4", "map": [], "from_original": False, "overwrite": True},
             {"op": "mut_frename", "target": "p3", "out": "d", "map": [["c", "c"], ["e", "eps"]], "from_original": True, "overwrite": True}]},
    # DF-23: simplified_pipeline next to a tuple-output function
    {"env": call_env(F("f0", [], ["o0"]), F("f1", ["r1"], ["o1"]), F("f2", ["o1", "r1"], ["o2a", "o2b"]), F("f3", [], ["o3"]), F("f4", ["o3", "o1"], ["o4"])),
     "ops": [{"op": "simplify", "src": "p0", "dst": "p1", "out": "o2a", "conservative": False},
             {"op": "simplify", "src": "p0", "dst": "p2", "out": "o4", "conservative": False}]},
    # DF-27: a bound parameter of a nested function
    {"env": call_env(F("f0", ["r0", "r1"], ["o0"], bound=[["r1", {"s": "bound:r1:f0"}]]), F("f1", ["o0"], ["o1"])),
     "ops": [{"op": "nest", "src": "p0", "dst": "p1", "sel": ["o0", "o1"], "out": None},
             {"op": "simplify", "src": "p0", "dst": "p2", "out": "o1", "conservative": False}]},
    # DF-28: a tuple-output leaf inside the nest
    {"env": call_env(F("f0", [], ["o0"]), F("f1", ["o0", "r1", "r2"], ["o1a", "o1b"])),
     "ops": [{"op": "nest", "src": "p0", "dst": "p1", "sel": ["o0", "o1a"], "out": None}]},
    # found here: renaming / scoping an output of a NestedPipeFunc
    {"env": call_env(F("f0", ["r0"], ["o0"]), F("f1", ["o0", "r1"], ["o1"]), F("f2", ["o1"], ["o2"])),
     "ops": [{"op": "nest", "src": "p0", "dst": "p1", "sel": ["o0", "o1"], "out": None},
             {"op": "rename", "src": "p1", "dst": "p2", "map": [["o1", "o1_R"]]},
             {"op": "scope", "src": "p1", "dst": "p3", "scope": "S"}]},
    # found here: copying a pipeline whose NestedPipeFunc got a default / a bound value
    {"env": call_env(F("f0", ["r0"], ["o0"]), F("f1", ["o0", "r1"], ["o1"]), F("f2", ["o1"], ["o2"])),
     "ops": [{"op": "nest", "src": "p0", "dst": "p1", "sel": ["o0", "o1"], "out": None},
             {"op": "set_defaults", "target": "p1", "map": [["r0", {"s": "newdefault"}]]},
             {"op": "copy", "src": "p1", "dst": "p2"}]},
    {"env": call_env(F("f0", ["r0"], ["o0"]), F("f1", ["o0", "r1"], ["o1"]), F("f2", ["o1"], ["o2"])),
     "ops": [{"op": "nest", "src": "p0", "dst": "p1", "sel": ["o0", "o1"], "out": None},
             {"op": "set_bound", "target": "p1", "out": "o0", "map": [["r0", {"s": "newbound"}]]},
             {"op": "split", "src": "p1", "dst": "p2", "out": "o2"}, {"op": "pickle", "src": "p1", "dst": "p3"}]},
    # found here: a function-level mutation of an unpickled pipeline leaves its cached structure stale
    {"env": call_env(F("f0", ["r0"], ["o0"]), F("f1", ["o0"], ["o1"])),
     "ops": [{"op": "pickle", "src": "p0", "dst": "p1"}, {"op": "set_bound", "target": "p1", "out": "o1", "map": [["o0", {"s": "newbound"}]]}]},
    # found here: add_mapspec_axis on a root that one function maps over and another takes whole
    {"env": [["p0", {"kind": "map", "desc": {"funcs": [
        {"name": "f0", "params": [["x0", "x0"], ["c1", "c1"]], "outputs": ["y0"], "mapspec": None, "mapspec_str": None, "autogen": False, "ret": None,
         "internal": None, "defaults": [], "bound": []},
        {"name": "f1", "params": [["x0", "x0"]], "outputs": ["y1"], "mapspec": {"inputs": [["x0", ["i"]]], "outputs": [["y1", ["i"]]]},
         "mapspec_str": "x0[i] -> y1[i]", "autogen": False, "ret": None, "internal": None, "defaults": [], "bound": []}],
        "inputs": [["c1", {"s": "in:c1"}], ["x0", {"arr": [[2], [{"s": "e0"}, {"s": "e1"}]]}]], "input_kinds": {"x0": "array"}, "internal": [], "sizes": {"i": 2}}}]],
     "ops": [{"op": "add_axis", "src": "p0", "dst": "p1", "param": "x0", "axis": "w"}]},
    # --- independence after mutation, one case per rewrite kind: the new or the old object is mutated in place, both are observed again
    {"env": BASE3(), "ops": [{"op": "copy", "src": "p0", "dst": "p1"},
                             {"op": "mut_drop", "target": "p1", "out": "o0", "pair": "p0", "after": "copy", "which": "new"},
                             {"op": "mut_replace", "target": "p0", "func": F("h1", ["o0", "r1"], ["o1"]), "pair": "p1", "after": "copy", "which": "old"}]},
    {"env": BASE3(), "ops": [{"op": "pickle", "src": "p0", "dst": "p1"},
                             {"op": "mut_replace", "target": "p1", "func": F("h1", ["r0"], ["o0"]), "pair": "p0", "after": "pickle", "which": "new"},
                             {"op": "set_defaults", "target": "p0", "map": [["r1", {"s": "newdefault"}]], "pair": "p1", "after": "pickle", "which": "old"}]},
    {"env": BASE3() + [["q0", {"kind": "call", "desc": {"funcs": [F("g0", ["o1", "r0"], ["q0"], defaults=[["r0", {"s": "dflt:r0"}]])]}}]],
     "ops": [{"op": "join", "src": "p0", "other": "q0", "dst": "p1", "via": "or"},
             {"op": "mut_add", "target": "p0", "func": F("h1", ["o2", "n1"], ["z1"], defaults=[["n1", {"s": "dflt:n1"}]]), "pair": "p1", "after": "join", "which": "old"},
             {"op": "mut_drop", "target": "p1", "out": "o1", "pair": "q0", "after": "join", "which": "new"}]},
    {"env": BASE3(), "ops": [{"op": "rename", "src": "p0", "dst": "p1", "map": [["o1", "o1_R"], ["r0", "r0_R"]]},
                             {"op": "mut_rename", "target": "p0", "map": [["o1", "o1_M"], ["r1", "r1_M"]], "pair": "p1", "after": "rename", "which": "old"},
                             {"op": "set_bound", "target": "p1", "out": "o1_R", "map": [["r1", {"s": "newbound"}]], "pair": "p0", "after": "rename", "which": "new"}]},
    {"env": BASE3(), "ops": [{"op": "scope", "src": "p0", "dst": "p1", "scope": "S"},
                             {"op": "mut_scope", "target": "p1", "scope": "T", "inputs": "*", "outputs": "*", "exclude": ["S.o1", "S.r1"], "pair": "p0", "after": "scope", "which": "new"},
                             {"op": "mut_scope", "target": "p0", "scope": "A.B", "inputs": ["r0"], "outputs": ["o2"], "exclude": None, "pair": "p1", "after": "scope", "which": "old"}]},
    {"env": BASE3(), "ops": [{"op": "nest", "src": "p0", "dst": "p1", "sel": ["o0", "o1"], "out": None},
                             {"op": "set_bound", "target": "p0", "out": "o1", "map": [["r1", {"s": "newbound"}]], "pair": "p1", "after": "nest", "which": "old"},
                             {"op": "mut_rename", "target": "p1", "map": [["o1", "o1_M"]], "pair": "p0", "after": "nest", "which": "new"}]},
    {"env": call_env(F("f0", ["r0"], ["o0"]), F("f1", ["o0", "r0"], ["o1"]), F("f2", ["o1", "r1"], ["o2"])),
     "ops": [{"op": "simplify", "src": "p0", "dst": "p1", "out": "o2", "conservative": False},
             {"op": "set_defaults", "target": "p1", "map": [["r0", {"s": "newdefault"}]], "pair": "p0", "after": "simplify", "which": "new"},
             {"op": "mut_drop", "target": "p0", "out": "o1", "pair": "p1", "after": "simplify", "which": "old"}]},
    {"env": call_env(F("f0", ["r0"], ["o0"]), F("f1", ["o0"], ["o1"]), F("f2", ["r2"], ["o2a", "o2b"]), F("f3", ["o2b"], ["o3"])),
     "ops": [{"op": "split", "src": "p0", "dst": "p1", "out": "o3"},
             {"op": "mut_drop", "target": "p0", "out": "o2a", "pair": "p1", "after": "split", "which": "old"},
             {"op": "mut_add", "target": "p1", "func": F("h1", [["o3", "a0"], "r2"], ["z1a", "z1b"]), "pair": "p0", "after": "split", "which": "new"}]},
    {"env": MAP2(), "ops": [{"op": "add_axis", "src": "p0", "dst": "p1", "param": "x0", "axis": "w"},
                            {"op": "mut_rename", "target": "p1", "map": [["y1", "y1_M"], ["x0", "x0_M"]], "pair": "p0", "after": "add_axis", "which": "new"},
                            {"op": "mut_scope", "target": "p0", "scope": "S", "inputs": None, "outputs": "*", "exclude": None, "pair": "p1", "after": "add_axis", "which": "old"}]},
    # join / | with clashing defaults for a shared root (refused), with equal defaults (accepted)
    {"env": call_env(F("f0", ["r0", "r1"], ["o0"], defaults=[["r1", {"s": "dflt:r1"}]])) +
            [["q0", {"kind": "call", "desc": {"funcs": [F("g0", ["r1"], ["q0"], defaults=[["r1", {"s": "dflt2:r1"}]])]}}],
             ["q1", {"kind": "call", "desc": {"funcs": [F("g1", ["o0", "r1"], ["q1"], defaults=[["r1", {"s": "dflt:r1"}]])]}}]],
     "ops": [{"op": "join", "src": "p0", "other": "q0", "dst": "p1", "via": "join"}, {"op": "join", "src": "p0", "other": "q0", "dst": "p2", "via": "or"},
             {"op": "join", "src": "p0", "other": "q1", "dst": "p3", "via": "or"}]},
    # nested scopes: a dotted scope, re-scoping and un-scoping a scoped pipeline; a parameter bound in one function and free in another
    {"env": call_env(F("f0", ["r0", "r1"], ["o0"], bound=[["r1", {"s": "bound:r1:f0"}]]), F("f1", ["o0", "r1", "r2"], ["o1a", "o1b"], defaults=[["r2", {"s": "dflt:r2"}]]),
                     F("f2", ["o1a", "r3"], ["o2"], bound=[["r3", {"s": "bound:r3:f2"}]])),
     "ops": [{"op": "scope_sel", "src": "p0", "dst": "p1", "scope": "A.B", "inputs": "*", "outputs": "*", "exclude": None},
             {"op": "scope_sel", "src": "p1", "dst": "p2", "scope": "S", "inputs": "*", "outputs": None, "exclude": ["A.B.r2"]},
             {"op": "scope_sel", "src": "p1", "dst": "p3", "scope": None, "inputs": ["A.B.r0", "r3"], "outputs": ["A.B.o2"], "exclude": None},
             {"op": "scope_sel", "src": "p0", "dst": "p4", "scope": "S", "inputs": ["r1", "r3"], "outputs": None, "exclude": None}]},
    # a renamed NestedPipeFunc with an inherited default, copied
    {"env": call_env(F("f0", [["r0", "a0"]], ["o0"], defaults=[["r0", {"s": "dflt:r0"}]]), F("f1", ["o0", "r1"], ["o1a", "o1b"]), F("f2", ["o1b"], ["o2"])),
     "ops": [{"op": "nest", "src": "p0", "dst": "p1", "sel": ["o0", "o1a"], "out": ["o1a", "o1b"]},
             {"op": "rename", "src": "p1", "dst": "p2", "map": [["r0", "r0_R"], ["o1b", "X"]]},
             {"op": "copy", "src": "p2", "dst": "p3"}]},
]


def run(ctx):
    rng = ctx.rng
    SEEN.clear()
    done = []
    for c in CORPUS:
        case = copy.deepcopy(c)
        done.append((case, rerun(case)))
        ctx.count("corpus")
    for k in range(ctx.n(640, 12000)):
        try:
            case, runner = (gen_rename_case(rng, k) if k % 5 == 4 else gen_nestmap_case(rng, k) if k % 5 == 2 else
                            gen_split_case(rng, k) if k % 10 == 6 else J.gen_join_case(rng, k, R, propose_mutation) if k % 10 == 8 else
                            gen_simplify_case(rng, k) if k % 10 == 0 else gen_case(rng, k))
        except Exception as e:  # noqa: BLE001   the generator builds valid pipelines only
            ctx.count(f"generator-exc:{exc_enum(e)}")
            raise
        done.append((case, runner))
    reqs = [{"m": "rewrite", "a": {"env": r.env_req, "history": r.history}} for _, r in done]
    wreqs = [w[0] for _, r in done for w in r.wraps]       # ext5: `nest_wrap` (PF.Rw.Wrap) on the dictionaries the real inner pipelines returned
    resps = ctx.lean(reqs + wreqs)
    k = len(reqs)
    for (case, runner), resp in zip(done, resps):
        n = len(runner.wraps)
        judge(ctx, case, runner, resp, resps[k:k + n])
        k += n
    for piece, want, got in WS.differences():
        # the code no longer has the shape `PF.Rw.Wrap` mirrors: not a failing input by itself (the behavioural checks above find one; reported last)
        ctx.count(f"wrap-source:changed:{piece}")
        ctx.violation({"env": [], "ops": [], "source": piece}, f"the source of `{piece}` no longer has the shape the model PF.Rw.Wrap mirrors",
                      found_input=False, item="correspondence:nest-wrapper-source", impl=got, model=want)


def replay(ctx, case):
    if case.get("source"):
        for piece, want, got in WS.differences():
            print(f"source of `{piece}`:\n  found:    {got}\n  mirrored: {want}")
        return
    runner = rerun(case)
    resp = ctx.lean([{"m": "rewrite", "a": {"env": runner.env_req, "history": runner.history}}])[0]
    for pl, st in zip(runner.plan, resp["r"]["steps"]):
        print("step:", {k: v for k, v in pl.items() if k != "impl"})
        print("  implementation:", pl["impl"])
        print("  model:", st)
    for pr in runner.problems:
        print("PROPERTY (implementation alone):", pr[0], "\n   got:", pr[3], "\n   expected:", pr[4])
    for pr in R.judge_model(runner, resp["r"]["steps"]):
        print("MODEL:", pr[0])
    if runner.wraps:
        wresps = ctx.lean([w[0] for w in runner.wraps])
        for (req, obs, name, fname), wr in zip(runner.wraps, wresps):
            print(f"nest_wrap `{fname}` in `{name}`: dictionary keys {obs['rd_keys']}")
            print("  implementation:", obs["ret"], obs["outs"])
            print("  model:", wr["r"])
        for pr in R.judge_wraps(runner, wresps):
            print("MODEL:", pr[0])
