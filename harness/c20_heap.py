"""C20, object identity: generated heaps of `Resources` instances that SHARE `extra_args` dict objects, one combinator call, one later
in-place write — the real pipefunc against the heap model `PF.ResH` (lean/PfModel/Model/ResourcesHeap.lean, driver entry `heap`).

A case is  {"m": "heap", "a": {"dicts": [[[k, v], ...], ...],            the dict OBJECTS D[0..]
                               "recs":  [{"f": {fields}, "ex": j}, ...],   instance i = Resources(**f, extra_args=D[j])  (the very object)
                               "op":    {"k": ..., ...},                   one combinator call on instance / dict indices
                               "mut":   {"on": "result"|"dict", ...}}}     afterwards: result.extra_args[k] = v   or   D[ref][k] = v
Observed on both sides, by identity (`is`) and by content: what came back (None / error / operand i itself / a new instance and whether its
`extra_args` IS one of D[..]), every instance and every D[j] after the call, and the same again after the later write.
"""
from __future__ import annotations

import pfimport  # noqa: F401
from pfimport import exc_enum
from pipefunc.resources import Resources

KEYS = ["x", "y", "z", "qos", "late"]
FIELDS = ["cpus", "cpus_per_node", "nodes", "memory", "gpus", "time", "partition"]
# paths on which the code hands out an EXISTING object by design (stated by C20_heap_with_defaults_none / _maybe_with_defaults / _from_dict_alias)
ALIAS_BY_DESIGN = ("from_dict",)


def obs(r: Resources):
    return {"cpus": r.cpus, "cpus_per_node": r.cpus_per_node, "nodes": r.nodes, "memory": r.memory, "gpus": r.gpus, "time": r.time,
            "partition": r.partition, "extra_args": [[k, v] for k, v in r.extra_args.items()], "parallelization_mode": r.parallelization_mode}


def dview(d: dict):
    o = {f: d.get(f) for f in FIELDS}
    o["extra_args"] = [[k, v] for k, v in d.get("extra_args", {}).items()]
    o["parallelization_mode"] = d.get("parallelization_mode", "external")
    return o


def identity_path(op):
    """the call has no second Resources operand and returns the one it has (or None)"""
    if op["k"] == "with_defaults":
        return op.get("default") is None
    if op["k"] == "maybe_with_defaults":
        return op.get("r") is None or op.get("default") is None
    return False


# ------------------------------------------------------------------------------------------------ generation
def gen_heap_case(rng, gen_valid, to_json, gen_memory, gen_time):
    nd = rng.randint(1, 3)
    dicts = []
    for _ in range(nd):
        keys = [] if rng.random() < 0.3 else rng.sample(KEYS, rng.randint(1, 3))
        dicts.append([[k, rng.randint(0, 3)] for k in keys])
    nr = rng.randint(1, 4)
    recs = []
    for _ in range(nr):
        kw = gen_valid(rng)
        kw.pop("extra_args", None)
        recs.append({"f": to_json(kw), "ex": rng.randrange(nd)})
    k = rng.choices(["update", "combine_max", "with_defaults", "maybe_with_defaults", "dict", "dict_roundtrip", "from_dict"],
                    [4, 5, 3, 1, 1, 1, 1])[0]
    if k == "update":
        kw = []
        for _ in range(rng.randint(1, 3)):
            key = rng.choice(["cpus", "gpus", "memory", "time", "partition", "extra_args", "extra_args", "foo", "x", "late"])
            if key in ("cpus", "gpus"):
                v = None if rng.random() < 0.3 else rng.randint(0, 3)
            elif key == "memory":
                v = None if rng.random() < 0.2 else gen_memory(rng)
            elif key == "time":
                v = None if rng.random() < 0.2 else gen_time(rng)
            elif key == "partition":
                v = None if rng.random() < 0.2 else rng.choice(["p", "q"])
            elif key == "extra_args":
                v = {"ref": rng.randrange(nd)}                      # an existing dict object, possibly the receiver's own
            else:
                v = rng.randint(0, 5)
            if key not in [p[0] for p in kw]:
                kw.append([key, v])
        op = {"k": k, "self": rng.randrange(nr), "kw": kw}
    elif k == "combine_max":
        op = {"k": k, "l": [rng.randrange(nr) for _ in range(rng.choice([0, 1, 2, 2, 3, 3, 4, 4]))]}
    elif k == "with_defaults":
        op = {"k": k, "self": rng.randrange(nr), "default": None if rng.random() < 0.15 else rng.randrange(nr)}
    elif k == "maybe_with_defaults":
        op = {"k": k, "r": None if rng.random() < 0.3 else rng.randrange(nr), "default": None if rng.random() < 0.3 else rng.randrange(nr)}
    elif k == "from_dict":
        kw = gen_valid(rng)
        kw.pop("extra_args", None)
        op = {"k": k, "f": to_json(kw), "ex": None if rng.random() < 0.3 else rng.randrange(nd)}
    else:
        op = {"k": k, "self": rng.randrange(nr)}
    a = {"dicts": dicts, "recs": recs, "op": op}
    if rng.random() < 0.9:
        mk = rng.choice(["m", "m", "x", "late"])
        if rng.random() < 0.6:
            a["mut"] = {"on": "result", "k": mk, "v": 9}
        else:
            a["mut"] = {"on": "dict", "ref": rng.randrange(nd), "k": mk, "v": 9}
    return {"m": "heap", "a": a}


def operands_of(a):
    op = a["op"]
    if op["k"] == "combine_max":
        return [a["recs"][i]["f"] for i in op["l"]]
    return []


# ------------------------------------------------------------------------------------------------ the implementation
def run_heap(a, from_json):
    """-> (observation comparable with the driver's answer, failed clauses of the property)"""
    bad = []
    D = [dict((k, v) for k, v in pairs) for pairs in a["dicts"]]
    ops = [Resources(**from_json(r["f"]), extra_args=D[r["ex"]]) for r in a["recs"]]
    op = a["op"]
    k = op["k"]

    def idx(d):
        for j, x in enumerate(D):
            if d is x:
                return j
        return "fresh"

    def snap():
        return {"objs": [{"view": obs(o), "ex": idx(o.extra_args)} for o in ops], "dicts": [[[kk, v] for kk, v in d.items()] for d in D]}

    def inst(i):
        return None if i is None else ops[i]

    before = snap()
    res, err = None, None
    try:
        if k == "update":
            kw = {}
            for key, v in op["kw"]:
                if key == "extra_args":
                    v = D[v["ref"]] if isinstance(v, dict) else dict(v)
                kw[key] = v
            res = ops[op["self"]].update(**kw)
        elif k == "combine_max":
            res = Resources.combine_max([ops[i] for i in op["l"]])
        elif k == "with_defaults":
            res = ops[op["self"]].with_defaults(inst(op.get("default")))
        elif k == "maybe_with_defaults":
            res = Resources.maybe_with_defaults(inst(op.get("r")), inst(op.get("default")))
        elif k == "dict":
            res = ops[op["self"]].dict()
        elif k == "dict_roundtrip":
            res = Resources.from_dict(ops[op["self"]].dict())
        elif k == "from_dict":
            data = from_json(op["f"])
            if op.get("ex") is not None:
                data["extra_args"] = D[op["ex"]]
            res = Resources.from_dict(data)
        else:
            raise AssertionError(k)
    except Exception as e:  # noqa: BLE001
        err = exc_enum(e)

    def res_dict():
        if isinstance(res, Resources):
            return res.extra_args
        if isinstance(res, dict):
            return res.get("extra_args")
        return None

    def res_view():
        if isinstance(res, Resources):
            return obs(res)
        if isinstance(res, dict):
            return dview(res)
        return None

    by_design = k in ALIAS_BY_DESIGN or identity_path(op)
    if err is not None:
        desc = {"err": err}
    elif res is None:
        desc = "none"
    elif isinstance(res, Resources):
        same = [p for p, o in enumerate(ops) if res is o]
        if same:
            desc = {"is": same[0]}
            if not by_design:
                bad.append(f"{k} returned one of its operands, not a new object")
        else:
            desc = {"new": obs(res), "ex": idx(res.extra_args)}
            if desc["ex"] != "fresh" and not by_design:
                bad.append(f"{k}: the result's extra_args IS the dict object of an operand")
    else:
        desc = {"dict": dview(res), "ex": idx(res.get("extra_args")) if "extra_args" in res else None}
        if desc["ex"] not in ("fresh", None):
            bad.append(f"{k}: the extra_args entry IS the dict object of the receiver")
    after_op = snap()
    if after_op != before:
        bad.append(f"{k} changed an operand (fields, identity or content of its extra_args)")
    out = {"res": desc, **after_op}
    mu = a.get("mut")
    if mu is not None:
        view0 = res_view()
        tgt = res_dict() if mu["on"] == "result" else D[mu["ref"]]
        if tgt is None:
            out["after"] = None
        else:
            try:
                tgt[mu["k"]] = mu["v"]
            except Exception as e:  # noqa: BLE001
                bad.append(f"extra_args is not a mutable dict: {type(e).__name__}")
            after_mut = snap()
            out["after"] = {"res_view": res_view(), **after_mut}
            if not by_design:
                if mu["on"] == "result" and after_mut != after_op:
                    bad.append(f"{k}: a later write to the result's extra_args shows through in an operand")
                if mu["on"] == "dict" and res_view() != view0:
                    bad.append(f"{k}: a later write to an operand's extra_args shows through in the result")
    return out, bad


def counters(ctx, a, impl):
    op = a["op"]
    ctx.count(f"heap:op:{op['k']}")
    exs = [r["ex"] for r in a["recs"]]
    ctx.count("heap:shared-dict-object" if len(set(exs)) < len(exs) else "heap:no-sharing")
    if any(not a["dicts"][j] for j in exs):
        ctx.count("heap:operand-with-empty-dict")
    ctx.count(f"heap:operands:{len(op['l'])}" if op["k"] == "combine_max" else f"heap:instances:{len(exs)}")
    if op["k"] == "combine_max":
        seen, late = set(), False
        for n, i in enumerate(op["l"]):
            ks = {kv[0] for kv in a["dicts"][a["recs"][i]["ex"]]}
            if n > 0 and ks - seen:
                late = True
            seen |= ks
        if late:
            ctx.count("heap:combine-new-key-late")
        if len(set(op["l"])) < len(op["l"]):
            ctx.count("heap:combine-repeated-operand")
    if op["k"] == "update":
        if any(key == "extra_args" and v["ref"] == a["recs"][op["self"]]["ex"] for key, v in op["kw"] if key == "extra_args"):
            ctx.count("heap:update-with-own-dict")
        if any(key not in FIELDS + ["extra_args"] for key, _ in op["kw"]):
            ctx.count("heap:update-unknown-key")
    r = impl.get("res") if isinstance(impl, dict) else None
    kind = ("none" if r == "none" else "err" if "err" in r else "operand-itself" if "is" in r
            else ("fresh-dict" if r.get("ex") == "fresh" else "no-dict" if r.get("ex") is None else "aliased-dict")) if r is not None else "?"
    ctx.count(f"heap:result:{kind}")
    mu = a.get("mut")
    ctx.count(f"heap:later-write:{mu['on'] if mu else 'none'}")


def nontrivial(a):
    return bool(a["recs"]) and a.get("mut") is not None
