/-
Lemmas for C19Multi: joining colon-free names with `:` is injective; the array offered for a dependency is unique.
-/
import PfModel.Lemmas.XLabelSet
namespace PF.XLabel
open PF PF.Map

/-- `":".join` on character lists -/
def joinC : List (List Char) → List Char
  | [] => []
  | [w] => w
  | w :: v :: r => w ++ ':' :: joinC (v :: r)

theorem intercalate_eq_joinC : ∀ ws : List (List Char), List.intercalate [':'] ws = joinC ws
  | [] => by simp [List.intercalate, joinC]
  | [w] => by simp [List.intercalate, joinC]
  | w :: v :: r => by
      have ih := intercalate_eq_joinC (v :: r)
      simp only [List.intercalate, List.intersperse_cons_cons, List.flatten_cons] at ih ⊢
      simp [joinC, ← ih]

/-- the first `:` splits: two colon-free words followed by `:` and a rest -/
theorem split_colon : ∀ (w v a b : List Char), ':' ∉ w → ':' ∉ v → w ++ ':' :: a = v ++ ':' :: b → w = v ∧ a = b
  | [], [], a, b, _, _, h => by simpa using h
  | [], c :: v, a, b, _, hv, h => by
      simp only [List.nil_append, List.cons_append, List.cons.injEq] at h
      exact absurd (h.1 ▸ List.mem_cons_self) hv
  | c :: w, [], a, b, hw, _, h => by
      simp only [List.nil_append, List.cons_append, List.cons.injEq] at h
      exact absurd (h.1 ▸ List.mem_cons_self) hw
  | c :: w, d :: v, a, b, hw, hv, h => by
      simp only [List.cons_append, List.cons.injEq] at h
      obtain ⟨h1, h2⟩ := split_colon w v a b (fun m => hw (List.mem_cons_of_mem _ m)) (fun m => hv (List.mem_cons_of_mem _ m)) h.2
      exact ⟨by rw [h.1, h1], h2⟩

theorem joinC_inj : ∀ (ws vs : List (List Char)), ws ≠ [] → vs ≠ [] → (∀ w ∈ ws, ':' ∉ w) → (∀ v ∈ vs, ':' ∉ v) →
    joinC ws = joinC vs → ws = vs
  | [], _, h, _, _, _, _ => absurd rfl h
  | _ :: _, [], _, h, _, _, _ => absurd rfl h
  | [w], [v], _, _, _, _, h => by simpa [joinC] using h
  | [w], v :: v2 :: r, _, _, hw, _, h => by
      simp only [joinC] at h
      exact absurd (h ▸ (List.mem_append_right v List.mem_cons_self)) (hw w List.mem_cons_self)
  | w :: w2 :: r, [v], _, _, _, hv, h => by
      simp only [joinC] at h
      exact absurd (h ▸ (List.mem_append_right w List.mem_cons_self)) (hv v List.mem_cons_self)
  | w :: w2 :: r, v :: v2 :: r', _, _, hw, hv, h => by
      simp only [joinC] at h
      obtain ⟨h1, h2⟩ := split_colon w v _ _ (hw w List.mem_cons_self) (hv v List.mem_cons_self) h
      have := joinC_inj (w2 :: r) (v2 :: r') (by simp) (by simp) (fun x hx => hw x (List.mem_cons_of_mem _ hx))
        (fun x hx => hv x (List.mem_cons_of_mem _ hx)) h2
      rw [h1, this]

/-- **`":".join` is injective on non-empty lists of colon-free names** -/
theorem join_inj (names names' : List String) (hn : names ≠ []) (hn' : names' ≠ []) (hc : ∀ n ∈ names, ':' ∉ n.toList)
    (hc' : ∀ n ∈ names', ':' ∉ n.toList) (h : ":".intercalate names = ":".intercalate names') : names = names' := by
  have h1 := congrArg String.toList h
  rw [String.toList_intercalate, String.toList_intercalate] at h1
  have h2 : joinC (names.map String.toList) = joinC (names'.map String.toList) := by
    rw [← intercalate_eq_joinC, ← intercalate_eq_joinC]; exact h1
  have h3 := joinC_inj _ _ (by simpa using hn) (by simpa using hn')
    (by intro w hw; obtain ⟨n, hn, rfl⟩ := List.mem_map.mp hw; exact hc n hn)
    (by intro w hw; obtain ⟨n, hn, rfl⟩ := List.mem_map.mp hw; exact hc' n hn) h2
  exact (List.map_inj_right (fun a b hab => String.toList_inj.mp hab)).mp h3

/-- the array offered for a dependency is unique -/
theorem arrayFor_unique (inputs : List (String × Val)) (load : String → Option Val) (li : Bool) (x : String) (v v' : Val)
    (ha : ArrayFor inputs load li x v) (ha' : ArrayFor inputs load li x v') : v' = v := by
  rcases ha with ha | ⟨hn, _, hl⟩ <;> rcases ha' with ha' | ⟨hn', _, hl'⟩
  · rw [ha] at ha'; exact (Option.some.inj ha').symm
  · rw [ha] at hn'; cases hn'
  · rw [hn] at ha'; cases ha'
  · rw [hl] at hl'; exact (Option.some.inj hl').symm

/-- a name that has `mapspec_axes` is written in some MapSpec -/
theorem mapspecAxes_some_mem (mss : List MSpec) (n : String) (axes : List (Option String)) (h : mapspecAxes mss n = some axes) :
    ∃ ms ∈ mss, ∃ a ∈ ms.inputs ++ ms.outputs, a.name = n := by
  unfold mapspecAxes at h
  simp only [] at h
  split at h
  · next hany =>
    obtain ⟨s, hs, hn⟩ := List.any_eq_true.mp hany
    obtain ⟨ms, hms, hsm⟩ := List.mem_flatMap.mp (by simpa [allSpecs] using hs : s ∈ mss.flatMap fun ms => ms.inputs ++ ms.outputs)
    exact ⟨ms, hms, s, hsm, by simpa using hn⟩
  · cases h

/-- when no name written in a MapSpec contains `:`, no eligible dependency does -/
theorem source_colon_free (mss : List MSpec) (inputs : List (String × Val)) (load : String → Option Val) (li : Bool)
    (hcolon : ∀ ms ∈ mss, ∀ a ∈ ms.inputs ++ ms.outputs, ':' ∉ a.name.toList) (o x : String) (axes : List String) (v : Val)
    (hs : Source mss inputs load li o x axes v) : ':' ∉ x.toList := by
  obtain ⟨ms, hms, a, ha, rfl⟩ := mapspecAxes_some_mem mss x _ hs.2.1
  exact hcolon ms hms a ha

end PF.XLabel
