import PfModel.Lemmas.XLabelJoin
import PfModel.Props.C19Set
/-!
C19 (round 9) — joined coordinates at the level of the DATASET.  Round 2 left them "characterised by name only": two joined
coordinates of one name, from two DataArrays, were not proved equal (that needs injectivity of the `:`-join).  Here: they are equal
whenever the level names contain no `:` (they are Python identifiers), so `merge(compat="override")` loses nothing for joined
coordinates either, and every coordinate of every merged DataArray is in the dataset UNCHANGED.
-/
namespace PF.C19
open PF PF.Map PF.XLabel

/-- **A joined name determines the coordinate.** Two joined coordinates of one name — of the DataArrays of any two outputs, same
    MapSpecs, inputs, loader, `load_intermediate` — whose level names contain no `:` are equal: same levels in the same order, same
    dimension, same arrays. -/
theorem C19_multi_coord_unique (mss : List MSpec) (inputs : List (String × Val)) (load : String → Option Val) (li : Bool)
    (o o' : String) (da da' : DataArray) (h : xarrayOf mss inputs load li o = .ok da) (h' : xarrayOf mss inputs load li o' = .ok da')
    (c c' : Coord) (hc : c ∈ da.coords) (hc' : c' ∈ da'.coords) (hname : c'.name = c.name)
    (names names' : List String) (arrays arrays' : List Val) (hv : c.val = .multi names arrays) (hv' : c'.val = .multi names' arrays')
    (hcolon : ∀ n ∈ names, ':' ∉ n.toList) (hcolon' : ∀ n ∈ names', ':' ∉ n.toList) : c' = c := by
  have key : ∀ (o : String) (da : DataArray), xarrayOf mss inputs load li o = .ok da → ∀ c ∈ da.coords, ∀ names arrays,
      c.val = .multi names arrays → c.name = ":".intercalate names ∧ 2 ≤ names.length ∧ names.length = arrays.length ∧
        c.dims.length = 1 ∧ ∀ (k : Nat) x v, names[k]? = some x → arrays[k]? = some v → Source mss inputs load li o x c.dims v := by
    intro o da h c hc names arrays hv
    rcases C19_coords_sound mss inputs load li o da h c hc with ⟨w, hw, _⟩ | ⟨ns, as, hm, h1, h2, h3, h4, h5⟩
    · rw [hv] at hw; cases hw
    · rw [hv] at hm; cases hm; exact ⟨h1, h2, h3, h4, h5⟩
  obtain ⟨hn, h2, hl, _, hs⟩ := key o da h c hc names arrays hv
  obtain ⟨hn', h2', hl', _, hs'⟩ := key o' da' h' c' hc' names' arrays' hv'
  have hnames : names' = names := by
    apply join_inj names' names (by intro e; rw [e] at h2'; simp at h2') (by intro e; rw [e] at h2; simp at h2) hcolon' hcolon
    rw [← hn', ← hn, hname]
  subst hnames
  -- the dimension: from level 0
  have h0 : 0 < names'.length := by omega
  have hdims : c'.dims = c.dims := by
    obtain ⟨_, hf, _⟩ := hs 0 names'[0] (arrays[0]'(by omega)) (List.getElem?_eq_getElem h0) (List.getElem?_eq_getElem (by omega))
    obtain ⟨_, hf', _⟩ := hs' 0 names'[0] (arrays'[0]'(by omega)) (List.getElem?_eq_getElem h0) (List.getElem?_eq_getElem (by omega))
    rw [hf] at hf'
    exact ((List.map_inj_right (fun _ _ h => Option.some.inj h)).mp (Option.some.inj hf')).symm
  have harr : arrays' = arrays := by
    apply List.ext_getElem (by omega)
    intro k hk' hk
    have hkn : k < names'.length := by omega
    obtain ⟨_, _, ha⟩ := hs k names'[k] arrays[k] (List.getElem?_eq_getElem hkn) (List.getElem?_eq_getElem hk)
    obtain ⟨_, _, ha'⟩ := hs' k names'[k] arrays'[k] (List.getElem?_eq_getElem hkn) (List.getElem?_eq_getElem hk')
    exact arrayFor_unique inputs load li _ _ _ ha ha'
  cases c; cases c'
  simp only [] at hname hdims hv hv'
  subst hname hdims hv hv' harr
  rfl

/-- **Every coordinate of every merged DataArray is in the dataset unchanged** (plain or joined), when input names contain no `:`:
    strengthens `C19_dataset_coords_complete`, which said so for plain coordinates and gave joined ones by name only. -/
theorem C19_dataset_coords_exact (mss : List MSpec) (inputs : List (String × Val)) (load : String → Option Val)
    (outputNames : List String) (li : Bool) (ds : Dataset) (h : xarrayDataset mss inputs load outputNames li = .ok ds)
    (hcolon : ∀ ms ∈ mss, ∀ a ∈ ms.inputs ++ ms.outputs, ':' ∉ a.name.toList)
    (o : String) (ho : o ∈ msOutOf mss outputNames) (da : DataArray) (hx : xarrayOf mss inputs load li o = .ok da)
    (hvar : ∃ var ∈ ds.vars, var.name = o) (c : Coord) (hc : c ∈ da.coords) : c ∈ ds.coords := by
  have hlevels : ∀ o da, xarrayOf mss inputs load li o = .ok da → ∀ c ∈ da.coords, ∀ names arrays, c.val = .multi names arrays →
      ∀ n ∈ names, ':' ∉ n.toList := by
    intro o da hx c hc names arrays hv n hn
    rcases C19_coords_sound mss inputs load li o da hx c hc with ⟨w, hw, _⟩ | ⟨ns, as, hm, _, _, hl, _, hs⟩
    · rw [hv] at hw; cases hw
    · rw [hv] at hm; cases hm
      obtain ⟨k, hk, rfl⟩ := List.getElem_of_mem hn
      exact source_colon_free mss inputs load li hcolon o _ _ _
        (hs k names[k] (arrays[k]'(by omega)) (List.getElem?_eq_getElem hk) (List.getElem?_eq_getElem (by omega)))
  obtain ⟨_, c', hc', hname, hplain⟩ := C19_dataset_coords_complete mss inputs load outputNames li ds h o ho da hx hvar c hc
  obtain ⟨o', _, da', hx', hcda', _⟩ := C19_dataset_coords_sound mss inputs load outputNames li ds h c' hc'
  have hcc : c' = c := by
    rcases C19_coords_sound mss inputs load li o da hx c hc with ⟨v, hv, hsrc⟩ | ⟨ns, as, hm, hjoin, h2, _⟩
    · rcases C19_coords_sound mss inputs load li o' da' hx' c' hcda' with ⟨v', hv', _⟩ | ⟨ns', as', hm', hjoin', h2', _⟩
      · exact hplain v v' hv hv'
      · have := colon_in_join ns' h2'
        rw [← hjoin', hname] at this
        exact absurd this (source_colon_free mss inputs load li hcolon o _ _ _ hsrc)
    · rcases C19_coords_sound mss inputs load li o' da' hx' c' hcda' with ⟨v', hv', hsrc'⟩ | ⟨ns', as', hm', _⟩
      · have := colon_in_join ns h2
        rw [← hjoin, ← hname] at this
        exact absurd this (source_colon_free mss inputs load li hcolon o' _ _ _ hsrc')
      · exact C19_multi_coord_unique mss inputs load li o o' da da' hx hx' c c' hc hcda' hname ns ns' as as' hm hm'
          (hlevels o da hx c hc ns as hm) (hlevels o' da' hx' c' hcda' ns' as' hm')
  exact hcc ▸ hc'

/-! ### non-vacuity: `x0[i], x1[i] -> y0[i]` and `x0[i], x1[i], x2[j] -> y1[i, j]`: the joined coordinate `x0:x1` of both DataArrays -/
def mz0 : MSpec := ⟨[⟨"x0", [some "i"]⟩, ⟨"x1", [some "i"]⟩], [⟨"y0", [some "i"]⟩]⟩
def mz1 : MSpec := ⟨[⟨"x0", [some "i"]⟩, ⟨"x1", [some "i"]⟩, ⟨"x2", [some "j"]⟩], [⟨"y1", [some "i", some "j"]⟩]⟩
def insZ : List (String × Val) := [("x0", .arr [2] [.int 5, .int 3]), ("x1", .arr [2] [.str "a", .str "b"]), ("x2", .arr [1] [.int 7])]

example : ((xarrayOf [mz0, mz1] insZ (fun _ => some .none) true "y0").toOption.map fun da => da.coords.map fun c => (c.name, c.dims)) =
    some [("x0:x1", ["i"])] := by decide
example : ((xarrayOf [mz0, mz1] insZ (fun _ => some .none) true "y1").toOption.map fun da => da.coords.map fun c => (c.name, c.dims)) =
    some [("x0:x1", ["i"]), ("x2", ["j"])] := by decide
/-- the hypothesis of `C19_dataset_coords_exact` -/
example : ∀ ms ∈ [mz0, mz1], ∀ a ∈ ms.inputs ++ ms.outputs, ':' ∉ a.name.toList := by decide
/-- without it the join is not injective: `["a:b", "c"]` and `["a", "b:c"]` -/
example : ":".intercalate ["a:b", "c"] = ":".intercalate ["a", "b:c"] := by decide

end PF.C19
