import PfModel.Lemmas.RewriteSub
/-! Nesting a group of functions into one `NestedPipeFunc` preserves every value the new pipeline returns: lemmas for
`C10_nest`. -/
namespace PF.Rw
open PF PF.Pipe

/-! ### how a parameter is resolved -/

theorem resolve_val_iff (gs : List Func) (kw : List (String × Val)) (g : Func) (p : String) (v : Val) :
    resolve gs kw g p = .val v ↔
      alookup g.bound p = some v ∨ (alookup g.bound p = none ∧ alookup kw p = some v) ∨
      (alookup g.bound p = none ∧ alookup kw p = none ∧ producer gs p = none ∧ pdefault gs p = some v) := by
  unfold resolve
  cases alookup g.bound p with
  | some w => simp
  | none =>
    cases alookup kw p with
    | some w => simp
    | none =>
      cases producer gs p with
      | some c => simp
      | none => cases pdefault gs p <;> simp

theorem resolve_upstream_iff (gs : List Func) (kw : List (String × Val)) (g : Func) (p : String) :
    resolve gs kw g p = .upstream ↔ alookup g.bound p = none ∧ alookup kw p = none ∧ ∃ c, producer gs p = some c := by
  unfold resolve
  cases alookup g.bound p with
  | some w => simp
  | none =>
    cases alookup kw p with
    | some w => simp
    | none =>
      cases producer gs p with
      | some c => simp
      | none => cases pdefault gs p <;> simp

/-- the new side delivered `v` for parameter `p` -/
def NewArg (gs : List Func) (kw : List (String × Val)) (g : Func) (r : String → Except Err Val) (p : String) (v : Val) : Prop :=
  resolve gs kw g p = .val v ∨ (resolve gs kw g p = .upstream ∧ r p = .ok v)

/-- the original pipeline delivers `v` for parameter `p` of `g` -/
def OldArg (fs : List RFunc) (kw : List (String × Val)) (g : Func) (p : String) (v : Val) : Prop :=
  resolve (cores fs) kw g p = .val v ∨ (resolve (cores fs) kw g p = .upstream ∧ ∃ m, eval fs kw m p = .ok v)

/-- if every argument the new side delivered is what the original delivers, the original evaluates the same argument list -/
theorem composeArgs_transfer (fs : List RFunc) (kw : List (String × Val)) (g : Func)
    (gs' : List Func) (kw' : List (String × Val)) (g' : Func) (r' : String → Except Err Val) :
    ∀ (ps : List (String × String)) (a : List (String × Val)), composeArgsWith r' gs' kw' g' ps = .ok a →
      (∀ p ∈ ps, ∀ v, NewArg gs' kw' g' r' p.1 v → OldArg fs kw g p.1 v) →
      ∃ m, composeArgsWith (eval fs kw m) (cores fs) kw g ps = .ok a := by
  intro ps
  induction ps with
  | nil => intro a h _; exact ⟨0, by simpa [composeArgsWith] using h⟩
  | cons e es ih =>
    obtain ⟨p, orig⟩ := e
    intro a h H
    have Hes : ∀ q ∈ es, ∀ v, NewArg gs' kw' g' r' q.1 v → OldArg fs kw g q.1 v := fun q hq => H q (List.mem_cons_of_mem _ hq)
    have Hp := H (p, orig) (by simp)
    simp only [] at Hp
    -- what the new side delivered for `p`, and the rest
    have hnew : ∃ v rest, NewArg gs' kw' g' r' p v ∧ composeArgsWith r' gs' kw' g' es = .ok rest ∧ a = (orig, v) :: rest := by
      simp only [composeArgsWith] at h
      split at h
      · simp at h
      · next v hv =>
        split at h
        · simp at h
        · next rest hr => simp at h; exact ⟨v, rest, Or.inl hv, hr, h.symm⟩
      · next hu =>
        split at h
        · simp at h
        · next v hv =>
          split at h
          · simp at h
          · next rest hr => simp at h; exact ⟨v, rest, Or.inr ⟨hu, hv⟩, hr, h.symm⟩
    obtain ⟨v, rest, hna, hrest, rfl⟩ := hnew
    obtain ⟨m2, hm2⟩ := ih rest hrest Hes
    rcases Hp v hna with hv | ⟨hu, m1, hm1⟩
    · exact ⟨m2, by simp [composeArgsWith, hv, hm2]⟩
    · refine ⟨max m1 m2, ?_⟩
      have a1 := eval_mono fs kw (Nat.le_max_left m1 m2) hm1
      have a2 := composeArgsWith_mono (cores fs) kw (eval fs kw m2) (eval fs kw (max m1 m2))
        (fun o v h => eval_mono fs kw (Nat.le_max_right m1 m2) h) g es rest hm2
      simp [composeArgsWith, hu, a1, a2]

/-- what a successful argument evaluation returns: every entry was delivered for a parameter, every parameter has an entry -/
theorem composeArgs_lookup (gs' : List Func) (kw' : List (String × Val)) (g' : Func) (r' : String → Except Err Val) :
    ∀ (ps : List (String × String)) (a : List (String × Val)), composeArgsWith r' gs' kw' g' ps = .ok a →
      (∀ p val, alookup a p = some val → ∃ q ∈ ps, q.2 = p ∧ NewArg gs' kw' g' r' q.1 val) ∧
      (∀ q ∈ ps, (alookup a q.2).isSome) := by
  intro ps
  induction ps with
  | nil =>
    intro a h
    simp [composeArgsWith] at h
    subst h
    exact ⟨fun p val hh => by simp [alookup] at hh, fun q hq => by cases hq⟩
  | cons e es ih =>
    obtain ⟨p, orig⟩ := e
    intro a h
    have hnew : ∃ v rest, NewArg gs' kw' g' r' p v ∧ composeArgsWith r' gs' kw' g' es = .ok rest ∧ a = (orig, v) :: rest := by
      simp only [composeArgsWith] at h
      split at h
      · simp at h
      · next v hv =>
        split at h
        · simp at h
        · next rest hr => simp at h; exact ⟨v, rest, Or.inl hv, hr, h.symm⟩
      · next hu =>
        split at h
        · simp at h
        · next v hv =>
          split at h
          · simp at h
          · next rest hr => simp at h; exact ⟨v, rest, Or.inr ⟨hu, hv⟩, hr, h.symm⟩
    obtain ⟨v, rest, hna, hrest, rfl⟩ := hnew
    obtain ⟨ih1, ih2⟩ := ih rest hrest
    constructor
    · intro q val hq
      simp only [alookup] at hq
      split at hq
      · next e => cases hq; exact ⟨(p, orig), by simp, e, hna⟩
      · obtain ⟨q', hq', e, hn⟩ := ih1 q val hq
        exact ⟨q', List.mem_cons_of_mem _ hq', e, hn⟩
    · intro q hq
      rcases List.mem_cons.mp hq with rfl | hq
      · simp [alookup]
      · simp only [alookup]
        split
        · rfl
        · exact ih2 q hq

/-! ### sorted, de-duplicated name lists -/

theorem mem_insertSortedS (x y : String) (l : List String) : y ∈ insertSortedS x l ↔ y = x ∨ y ∈ l := by
  induction l with
  | nil => simp [insertSortedS]
  | cons a as ih =>
    simp only [insertSortedS]
    split
    · simp
    · split
      · next e => subst e; simp
      · simp only [List.mem_cons, ih]
        constructor
        · rintro (h | h | h)
          · exact Or.inr (Or.inl h)
          · exact Or.inl h
          · exact Or.inr (Or.inr h)
        · rintro (h | h | h)
          · exact Or.inr (Or.inl h)
          · exact Or.inl h
          · exact Or.inr (Or.inr h)

theorem mem_sortDedup (l : List String) (y : String) : y ∈ sortDedup l ↔ y ∈ l := by
  unfold sortDedup
  suffices h : ∀ acc, y ∈ l.foldl (fun acc x => insertSortedS x acc) acc ↔ y ∈ acc ∨ y ∈ l by simpa using h []
  induction l with
  | nil => intro acc; simp
  | cons a as ih =>
    intro acc
    simp only [List.foldl_cons, ih, mem_insertSortedS, List.mem_cons]
    constructor
    · rintro ((h | h) | h)
      · exact Or.inr (Or.inl h)
      · exact Or.inl h
      · exact Or.inr (Or.inr h)
    · rintro (h | h | h)
      · exact Or.inl (Or.inr h)
      · exact Or.inl (Or.inl h)
      · exact Or.inr h

theorem mem_nestParams (S : List RFunc) (p : String) :
    p ∈ nestParams S ↔ (∃ g ∈ S, p ∈ freeParams g) ∧ ¬ (∃ h ∈ S, p ∈ h.core.outputs) := by
  unfold nestParams allOutputs
  rw [mem_sortDedup]
  simp only [List.mem_filter, List.mem_flatMap, Bool.not_eq_true', List.contains_eq_mem, decide_eq_false_iff_not]

theorem rproducer_isSome (fs : List RFunc) (p : String) (h : ∃ g ∈ fs, p ∈ g.core.outputs) : ∃ c, rproducer fs p = some c := by
  obtain ⟨g, hg, hp⟩ := h
  cases hr : rproducer fs p with
  | some c => exact ⟨c, rfl⟩
  | none =>
    unfold rproducer at hr
    rw [List.find?_eq_none] at hr
    exact absurd (by simpa using hp) (hr g hg)

theorem rproducer_mem (fs : List RFunc) (p : String) (c : RFunc) (h : rproducer fs p = some c) : c ∈ fs ∧ p ∈ c.core.outputs := by
  unfold rproducer at h
  exact ⟨List.mem_of_find?_eq_some h, by simpa using List.find?_some h⟩

theorem producer_some_of (fs : List RFunc) (p : String) (h : ∃ g ∈ fs, p ∈ g.core.outputs) : ∃ c, producer (cores fs) p = some c := by
  obtain ⟨c, hc⟩ := rproducer_isSome fs p h
  exact ⟨c.core, by rw [producer_cores, hc]; rfl⟩

theorem producer_none_of (fs : List RFunc) (p : String) (h : ¬ ∃ g ∈ fs, p ∈ g.core.outputs) : producer (cores fs) p = none := by
  rw [producer_cores]
  cases hr : rproducer fs p with
  | none => rfl
  | some c => exact absurd ⟨c, (rproducer_mem fs p c hr).1, (rproducer_mem fs p c hr).2⟩ h

theorem producer_some_mem (fs : List RFunc) (p : String) (c : Func) (h : producer (cores fs) p = some c) :
    ∃ g ∈ fs, p ∈ g.core.outputs := by
  rw [producer_cores] at h
  cases hr : rproducer fs p with
  | none => rw [hr] at h; cases h
  | some g => exact ⟨g, (rproducer_mem fs p g hr).1, (rproducer_mem fs p g hr).2⟩

/-! ### the nest -/

/-- what `mkNest S out = .ok N` establishes about `N` -/
structure IsNest (S : List RFunc) (N : RFunc) : Prop where
  params : N.core.params = (nestParams S).map fun p => (p, p)
  bound : N.core.bound = []
  defaults : N.core.defaults = (pdefaults (cores S)).filter fun kv => (nestParams S).contains kv.1
  orig : N.outOrig = N.core.outputs
  outs : ∀ o ∈ N.core.outputs, ∃ h ∈ S, o ∈ h.core.outputs
  body : ∃ leaf, N.body = some (nestBody S leaf)

theorem mkNest_isNest (S : List RFunc) (out : Option (List String)) (N : RFunc) (h : mkNest S out = .ok N) : IsNest S N := by
  unfold mkNest at h
  split at h
  · cases h
  · split at h
    · cases h
    · split at h
      · next lf _ =>
        simp only [] at h
        split at h
        · cases h
        · next hsub =>
          simp only [Except.ok.injEq] at h
          subst h
          refine ⟨rfl, rfl, rfl, rfl, ?_, ⟨_, rfl⟩⟩
          intro o ho
          simp only [Bool.or_eq_true, Bool.not_eq_true', not_or, Bool.not_eq_true, Bool.not_eq_false] at hsub
          have := List.all_eq_true.mp hsub.2 o ho
          simp only [List.contains_eq_mem, decide_eq_true_eq] at this
          have := (mem_sortDedup _ o).mp this
          simpa [allOutputs, List.mem_flatMap] using this
      · cases h

/-- the value `val` of name `p` in the original pipeline: keyword, else upstream, else pipeline default -/
def ValOld (fs : List RFunc) (kw : List (String × Val)) (p : String) (val : Val) : Prop :=
  alookup kw p = some val ∨
  (alookup kw p = none ∧ (∃ c, producer (cores fs) p = some c) ∧ ∃ m, eval fs kw m p = .ok val) ∨
  (alookup kw p = none ∧ producer (cores fs) p = none ∧ pdefault (cores fs) p = some val)

section inner
variable (fs S : List RFunc) (kw args : List (String × Val))
  (hS : ∀ g ∈ S, g ∈ fs) (hu : UniqueOutR fs)
  (hK : ∀ p, (∃ c, producer (cores fs) p = some c) → alookup kw p = none)
  (hA1 : ∀ p val, alookup args p = some val → ValOld fs kw p val)
  (hA2 : ∀ g ∈ S, ∀ p ∈ freeParams g, (∃ h ∈ S, p ∈ h.core.outputs) ∨ (alookup args p).isSome)
include hS hu hK hA1 hA2

/-- evaluating the nested functions on the arguments the nest received gives what the original pipeline gives -/
theorem eval_inner : ∀ (k : Nat) (q : String) (w : Val), eval S args k q = .ok w → ∃ m, eval fs kw m q = .ok w := by
  intro k
  induction k with
  | zero => intro q w h; simp [eval] at h
  | succ k ih =>
    intro q w h
    rw [eval_succ] at h
    split at h
    · simp at h
    · next g hg =>
      obtain ⟨hgS, hqg⟩ := rproducer_mem S q g hg
      have hgfs := hS g hgS
      have hprod : rproducer fs q = some g := (rproducer_some_iff fs hu q g).mpr ⟨hgfs, hqg⟩
      split at h
      · simp at h
      · next a ha =>
        have key : ∃ m, composeArgsWith (eval fs kw m) (cores fs) kw g.core g.core.params = .ok a := by
          apply composeArgs_transfer fs kw g.core (cores S) args g.core (eval S args k) g.core.params a ha
          intro p hp v hnew
          rcases hnew with hv | ⟨hup, hr⟩
          · rcases (resolve_val_iff _ _ _ _ _).mp hv with hb | ⟨hb, hk⟩ | ⟨hb, hk, hpn, _⟩
            · exact Or.inl ((resolve_val_iff _ _ _ _ _).mpr (Or.inl hb))
            · rcases hA1 p.1 v hk with h1 | ⟨h1, h2, m, h3⟩ | ⟨h1, h2, h3⟩
              · exact Or.inl ((resolve_val_iff _ _ _ _ _).mpr (Or.inr (Or.inl ⟨hb, h1⟩)))
              · exact Or.inr ⟨(resolve_upstream_iff _ _ _ _).mpr ⟨hb, h1, h2⟩, m, h3⟩
              · exact Or.inl ((resolve_val_iff _ _ _ _ _).mpr (Or.inr (Or.inr ⟨hb, h1, h2, h3⟩)))
            · exfalso
              rcases hA2 g hgS p.1 (mem_freeParams g p hp hb) with hex | hsome
              · obtain ⟨c, hc⟩ := producer_some_of S p.1 hex
                rw [hpn] at hc; cases hc
              · rw [hk] at hsome; simp at hsome
          · obtain ⟨hb, hk, c, hc⟩ := (resolve_upstream_iff _ _ _ _).mp hup
            obtain ⟨m, hm⟩ := ih p.1 v hr
            obtain ⟨g', hg', hpg'⟩ := producer_some_mem S p.1 c hc
            have hsome := producer_some_of fs p.1 ⟨g', hS g' hg', hpg'⟩
            exact Or.inr ⟨(resolve_upstream_iff _ _ _ _).mpr ⟨hb, hK p.1 hsome, hsome⟩, m, hm⟩
        obtain ⟨m, hm⟩ := key
        exact ⟨m + 1, by rw [eval_succ, hprod]; simp only [hm]; exact h⟩

end inner

section outer
variable (fs : List RFunc) (inG : RFunc → Bool) (Ns : List RFunc) (kw : List (String × Val))
  (hNs : ∀ N ∈ Ns, ∃ sel : RFunc → Bool, (∀ g ∈ fs, sel g = true → inG g = true) ∧ IsNest (fs.filter sel) N)
  (hu : UniqueOutR fs) (hc : ConsistentDefaults (cores fs))
  (hK : ∀ p, (∃ c, producer (cores fs) p = some c) → alookup kw p = none)
  (hret : ∀ p, (∃ g ∈ fs, inG g = true ∧ p ∈ g.core.outputs) →
    ((∃ f ∈ fs, inG f = false ∧ p ∈ freeParams f) ∨ (∃ N ∈ Ns, ∃ q ∈ N.core.params, q.1 = p)) → ∃ N ∈ Ns, p ∈ N.core.outputs)

/-- a pipeline default of the pipeline with the nested functions is a pipeline default of the original -/
theorem pdefault_nests
    (hNs : ∀ N ∈ Ns, ∃ sel : RFunc → Bool, (∀ g ∈ fs, sel g = true → inG g = true) ∧ IsNest (fs.filter sel) N)
    (hc : ConsistentDefaults (cores fs)) (p : String) (v : Val)
    (hd : pdefault (cores (fs.filter (fun f => !inG f) ++ Ns)) p = some v)
    (hp : producer (cores fs) p = none) : pdefault (cores fs) p = some v := by
  apply (pdefault_eq_some_iff (cores fs) hc p v).mpr
  have hm := List.mem_reverse.mp (alookup_some_mem _ _ _ hd)
  obtain ⟨c, hcm, hcd, hcb, _⟩ := (mem_pdefaults _ p v).mp hm
  obtain ⟨f, hf, rfl⟩ := List.mem_map.mp hcm
  rcases List.mem_append.mp hf with hf | hf
  · exact (mem_pdefaults _ p v).mpr ⟨f.core, List.mem_map.mpr ⟨f, (List.mem_filter.mp hf).1, rfl⟩, hcd, hcb, by rw [hp]; rfl⟩
  · obtain ⟨sel, _, hN⟩ := hNs f hf
    rw [hN.defaults] at hcd
    have hcd' := (List.mem_filter.mp hcd).1
    obtain ⟨c', hc'm, hc'd, hc'b, _⟩ := (mem_pdefaults _ p v).mp hcd'
    obtain ⟨f', hf', rfl⟩ := List.mem_map.mp hc'm
    exact (mem_pdefaults _ p v).mpr ⟨f'.core, List.mem_map.mpr ⟨f', (List.mem_filter.mp hf').1, rfl⟩, hc'd, hc'b, by rw [hp]; rfl⟩

include hNs hu hc hK hret

/-- **Nesting is sound**: whatever the pipeline with the `NestedPipeFunc`s (one or several, their groups possibly
    overlapping) returns is what the original returns -/
theorem eval_nests : ∀ (n : Nat) (o : String) (v : Val),
    eval (fs.filter (fun f => !inG f) ++ Ns) kw n o = .ok v → ∃ m, eval fs kw m o = .ok v := by
  intro n
  induction n with
  | zero => intro o v h; simp [eval] at h
  | succ n ih =>
    intro o v h
    -- names produced in the new pipeline are produced in the original
    have hprodNew : ∀ p c, producer (cores (fs.filter (fun f => !inG f) ++ Ns)) p = some c → ∃ c', producer (cores fs) p = some c' := by
      intro p c hpc
      obtain ⟨g, hg, hpg⟩ := producer_some_mem _ p c hpc
      rcases List.mem_append.mp hg with hg | hg
      · exact producer_some_of fs p ⟨g, (List.mem_filter.mp hg).1, hpg⟩
      · obtain ⟨sel, _, hN⟩ := hNs g hg
        obtain ⟨h', hh', hph'⟩ := hN.outs p hpg
        exact producer_some_of fs p ⟨h', (List.mem_filter.mp hh').1, hph'⟩
    -- a consumed name that the new pipeline does not produce is not produced in the original either
    have hnoProd : ∀ p, producer (cores (fs.filter (fun f => !inG f) ++ Ns)) p = none →
        ((∃ f ∈ fs, inG f = false ∧ p ∈ freeParams f) ∨ (∃ N ∈ Ns, ∃ q ∈ N.core.params, q.1 = p)) → producer (cores fs) p = none := by
      intro p hpn hcons
      apply producer_none_of
      rintro ⟨g, hg, hpg⟩
      cases hsg : inG g with
      | false =>
        have : ∃ c, producer (cores (fs.filter (fun f => !inG f) ++ Ns)) p = some c :=
          producer_some_of _ p ⟨g, List.mem_append_left _ (List.mem_filter.mpr ⟨hg, by simp [hsg]⟩), hpg⟩
        rw [hpn] at this; obtain ⟨_, h⟩ := this; cases h
      | true =>
        obtain ⟨N', hN', hpN'⟩ := hret p ⟨g, hg, hsg, hpg⟩ hcons
        have : ∃ c, producer (cores (fs.filter (fun f => !inG f) ++ Ns)) p = some c :=
          producer_some_of _ p ⟨N', List.mem_append_right _ hN', hpN'⟩
        rw [hpn] at this; obtain ⟨_, h⟩ := this; cases h
    -- a function outside the groups resolves its parameters as before
    have hrestArg : ∀ f ∈ fs, inG f = false → ∀ p ∈ f.core.params, ∀ w,
        NewArg (cores (fs.filter (fun f => !inG f) ++ Ns)) kw f.core (eval (fs.filter (fun f => !inG f) ++ Ns) kw n) p.1 w →
        OldArg fs kw f.core p.1 w := by
      intro f hf hsel p hp w hnew
      rcases hnew with hv | ⟨hup, hr⟩
      · rcases (resolve_val_iff _ _ _ _ _).mp hv with hb | ⟨hb, hk⟩ | ⟨hb, hk, hpn, hd⟩
        · exact Or.inl ((resolve_val_iff _ _ _ _ _).mpr (Or.inl hb))
        · exact Or.inl ((resolve_val_iff _ _ _ _ _).mpr (Or.inr (Or.inl ⟨hb, hk⟩)))
        · have hpo := hnoProd p.1 hpn (Or.inl ⟨f, hf, hsel, mem_freeParams f p hp hb⟩)
          exact Or.inl ((resolve_val_iff _ _ _ _ _).mpr (Or.inr (Or.inr ⟨hb, hk, hpo, pdefault_nests fs inG Ns hNs hc p.1 w hd hpo⟩)))
      · obtain ⟨hb, hk, c, hcp⟩ := (resolve_upstream_iff _ _ _ _).mp hup
        obtain ⟨m, hm⟩ := ih p.1 w hr
        exact Or.inr ⟨(resolve_upstream_iff _ _ _ _).mpr ⟨hb, hk, hprodNew p.1 c hcp⟩, m, hm⟩
    rw [eval_succ] at h
    split at h
    · simp at h
    · next f hf =>
      obtain ⟨hfmem, hof⟩ := rproducer_mem _ o f hf
      split at h
      · simp at h
      · next a ha =>
        rcases List.mem_append.mp hfmem with hfr | hfN
        · -- a function that was not nested
          obtain ⟨hffs, hself⟩ := List.mem_filter.mp hfr
          have hself' : inG f = false := by simpa using hself
          obtain ⟨m, hm⟩ := composeArgs_transfer fs kw f.core _ kw f.core _ f.core.params a ha (hrestArg f hffs hself')
          have hprod : rproducer fs o = some f := (rproducer_some_iff fs hu o f).mpr ⟨hffs, hof⟩
          exact ⟨m + 1, by rw [eval_succ, hprod]; simp only [hm]; exact h⟩
        · -- a nested function
          obtain ⟨sel, _, hN⟩ := hNs f hfN
          obtain ⟨hl1, hl2⟩ := composeArgs_lookup _ kw f.core _ f.core.params a ha
          obtain ⟨leaf, hbody⟩ := hN.body
          -- the value is the inner evaluation
          have hinner : eval (fs.filter sel) a (fuelOf (fs.filter sel)) o = .ok v := by
            unfold outVal origOf at h
            rw [hN.orig, alookup_zip_self] at h
            simp only [hof, ↓reduceIte, hbody] at h
            unfold nestBody at h
            split at h
            · cases h
            · exact h
          apply eval_inner fs (fs.filter sel) kw a (fun g hg => (List.mem_filter.mp hg).1) hu hK _ _ _ o v hinner
          · -- every argument of the nest is the original pipeline's value of that name
            intro p val hpv
            obtain ⟨q, hq, hq2, hnew⟩ := hl1 p val hpv
            have hq0 := hq
            rw [hN.params] at hq
            obtain ⟨p', hp', rfl⟩ := List.mem_map.mp hq
            simp only [] at hq2 hnew
            subst hq2
            rcases hnew with hv | ⟨hup, hr⟩
            · rcases (resolve_val_iff _ _ _ _ _).mp hv with hb | ⟨_, hk⟩ | ⟨_, hk, hpn, hd⟩
              · rw [hN.bound] at hb; simp [alookup] at hb
              · exact Or.inl hk
              · have hpo := hnoProd p' hpn (Or.inr ⟨f, hfN, (p', p'), hq0, rfl⟩)
                exact Or.inr (Or.inr ⟨hk, hpo, pdefault_nests fs inG Ns hNs hc p' val hd hpo⟩)
            · obtain ⟨_, hk, c, hcp⟩ := (resolve_upstream_iff _ _ _ _).mp hup
              obtain ⟨m, hm⟩ := ih p' val hr
              exact Or.inr (Or.inl ⟨hk, hprodNew p' c hcp, m, hm⟩)
          · -- and the nest received every name its functions need from outside
            intro g hg p hp
            by_cases hex : ∃ h ∈ fs.filter sel, p ∈ h.core.outputs
            · exact Or.inl hex
            · right
              have hmem : p ∈ nestParams (fs.filter sel) := (mem_nestParams _ _).mpr ⟨⟨g, hg, hp⟩, hex⟩
              have := hl2 (p, p) (by rw [hN.params]; exact List.mem_map.mpr ⟨p, hmem, rfl⟩)
              simpa using this

end outer

/-- the decidable form of "every consumed inner output is exposed by a nested function" (what the driver checks) -/
theorem retainsAll_spec (fs : List RFunc) (inG : RFunc → Bool) (Ns : List RFunc) (h : retainsAll fs inG Ns = true) :
    ∀ p, (∃ g ∈ fs, inG g = true ∧ p ∈ g.core.outputs) →
      ((∃ f ∈ fs, inG f = false ∧ p ∈ freeParams f) ∨ (∃ N ∈ Ns, ∃ q ∈ N.core.params, q.1 = p)) → ∃ N ∈ Ns, p ∈ N.core.outputs := by
  intro p ⟨g, hg, hgi, hpg⟩ hcons
  unfold retainsAll at h
  rw [List.all_eq_true] at h
  have hp : p ∈ allOutputs (fs.filter inG) := by
    unfold allOutputs
    exact List.mem_flatMap.mpr ⟨g, List.mem_filter.mpr ⟨hg, hgi⟩, hpg⟩
  have := h p hp
  have hc : ((fs.any fun f => !inG f && (freeParams f).contains p) || (Ns.any fun N => N.core.params.any fun q => decide (q.1 = p))) = true := by
    rcases hcons with ⟨f, hf, hfi, hpf⟩ | ⟨N, hN, q, hq, hqp⟩
    · apply Bool.or_eq_true_iff.mpr; left
      exact List.any_eq_true.mpr ⟨f, hf, by simp [hfi, hpf]⟩
    · apply Bool.or_eq_true_iff.mpr; right
      exact List.any_eq_true.mpr ⟨N, hN, List.any_eq_true.mpr ⟨q, hq, by simp [hqp]⟩⟩
  rw [hc] at this
  simp only [Bool.not_true, Bool.false_or] at this
  obtain ⟨N, hN, hpN⟩ := List.any_eq_true.mp this
  exact ⟨N, hN, by simpa using hpN⟩

theorem buildNests_mem : ∀ (l : List (List RFunc × List String)) (Ns : List RFunc), buildNests l = .ok Ns →
    ∀ N ∈ Ns, ∃ e ∈ l, mkNest e.1 (some e.2) = .ok N := by
  intro l
  induction l with
  | nil => intro Ns h N hN; simp [buildNests] at h; subst h; cases hN
  | cons e es ih =>
    obtain ⟨g, outs⟩ := e
    intro Ns h N hN
    simp only [buildNests] at h
    split at h
    · cases h
    · next N0 hN0 =>
      split at h
      · cases h
      · next Ns' hNs' =>
        injection h with h
        subst h
        rcases List.mem_cons.mp hN with rfl | hN
        · exact ⟨(g, outs), by simp, hN0⟩
        · obtain ⟨e, he, hm⟩ := ih Ns' hNs' N hN
          exact ⟨e, List.mem_cons_of_mem _ he, hm⟩

end PF.Rw
