import PfModel.DriverVal
import PfModel.Model.ResumeFS
import PfModel.Model.ResumePar
import PfModel.Model.ResumeParFail
import PfModel.Model.ResumeKey
/-! Driver for C05: `map.run_on` (the resumable runner on a given folder state), `map.events` (event list of a run into an
    empty folder), `map.resume` (crash the fresh run after `crash` events, then run again on what is left). -/
open Lean PF PF.Drv PF.Map PF.ResumeFS

def getASpec (j : Json) : R ASpec := do
  let (n, ax) ← asPair asStr (asList (asOpt asStr)) j
  return { name := n, axes := ax }

def getMSpec (j : Json) : R MSpec := do
  return { inputs := ← listF getASpec j "inputs", outputs := ← listF getASpec j "outputs" }

def getMFunc (j : Json) : R MFunc := do
  return { name := ← strF j "name", params := ← listF (asPair asStr asStr) j "params", outputs := ← listF asStr j "outputs",
           mapspec := ← optF getMSpec j "mapspec", ret := ← optF (asList asNat) j "ret", internal := ← optF (asList asNat) j "internal",
           defaults := (← optF getKw j "defaults").getD [], bound := (← optF getKw j "bound").getD [] }

partial def getPath (j : Json) : R Path := do
  match ← asArr j with
  | [.str "runInfo"] => return .runInfo
  | [.str "defaults"] => return .defaults
  | [.str "input", n] => return .input (← asStr n)
  | [.str "cell", o, li] => return .cell (← asStr o) (← asNat li)
  | [.str "single", o] => return .single (← asStr o)
  | [.str "dictArr", o] => return .dictArr (← asStr o)
  | [.str "tmp", p] => return .tmp (← getPath p)
  | _ => .error s!"path expected: {j.compress}"

def putPath : Path → Json
  | .runInfo => jArr [jStr "runInfo"]
  | .defaults => jArr [jStr "defaults"]
  | .input n => jArr [jStr "input", jStr n]
  | .cell o li => jArr [jStr "cell", jStr o, jNat li]
  | .single o => jArr [jStr "single", jStr o]
  | .dictArr o => jArr [jStr "dictArr", jStr o]
  | .tmp p => jArr [jStr "tmp", putPath p]

def getDir (j : Json) : R Dir := do
  match ← asArr j with
  | [.str "root"] => return .root
  | [.str "inputs"] => return .inputs
  | [.str "defaults"] => return .defaults
  | [.str "outputs"] => return .outputs
  | [.str "arr", o] => return .arr (← asStr o)
  | _ => .error s!"dir expected: {j.compress}"

def putDir : Dir → Json
  | .root => jArr [jStr "root"]
  | .inputs => jArr [jStr "inputs"]
  | .defaults => jArr [jStr "defaults"]
  | .outputs => jArr [jStr "outputs"]
  | .arr o => jArr [jStr "arr", jStr o]

def getContent (j : Json) : R Content :=
  match j with
  | .str "P" => .ok .torn
  | _ => do return .complete (← getVal (← fld j "C"))

/-- `{"files": [[path, "P" | {"C": v}], …], "dirs": [dir, …]}` -/
def getFS (j : Json) : R FS := do
  let files ← listF (asPair getPath getContent) j "files"
  let dirs ← listF getDir j "dirs"
  return { files := fun p => (files.find? (·.1 = p)).map (·.2), dirs := fun d => dirs.contains d }

def getCfg (j : Json) : R Cfg := do
  return { legacy := (← optF asBool j "legacy").getD false, dict := (← optF asBool j "dict").getD false,
           other := (← optF (asList asStr) j "other").getD [], failAt := ← optF asNat j "fail_at" }

def putEv : Ev → Json
  | .mkdirp d => jArr [jStr "mkdirp", putDir d]
  | .begin p => jArr [jStr "begin", putPath p]
  | .chunk p => jArr [jStr "chunk", putPath p]
  | .commit p v => jArr [jStr "commit", putPath p, putVal v]
  | .rename p q => jArr [jStr "rename", putPath p, putPath q]
  | .unlink p => jArr [jStr "unlink", putPath p]
  | .rmtree => jArr [jStr "rmtree"]
  | .call fn li args => jArr [jStr "call", jStr fn, jNat li, putKw args]

def putRErr : RErr → Json
  | .map (.value w) => jObj [("err", jStr "ValueError"), ("why", jStr w)]
  | .map (.type w) => jObj [("err", jStr "TypeError"), ("why", jStr w)]
  | .map (.index w) => jObj [("err", jStr "IndexError"), ("why", jStr w)]
  | .map (.key w) => jObj [("err", jStr "KeyError"), ("why", jStr w)]
  | .map .fuel => jObj [("err", jStr "RecursionError")]
  | .corrupt p => jObj [("err", jStr "corrupt"), ("path", putPath p)]
  | .notFound p => jObj [("err", jStr "FileNotFoundError"), ("path", putPath p)]
  | .refused => jObj [("err", jStr "ValueError"), ("why", jStr "could not load previous run info")]
  | .raised fn => jObj [("err", jStr "raised"), ("fn", jStr fn)]

def putCallRec (c : CallRec) : Json := jArr [jStr c.fn, jNat c.li, putKw c.args]

def putRun (r : Run) : Json :=
  jObj [("events", jList putEv r.evs), ("calls", jList putCallRec r.calls),
        ("result", match r.res with
          | .error e => putRErr e
          | .ok x => jObj [("outputs", putKw x.outputs)])]

structure Req where
  cfg : Cfg
  fsd : List MFunc
  inputs : List (String × Val)
  internal : List (String × List Nat)

def getReq (a : Json) : R Req := do
  return { cfg := ← getCfg ((fld? a "cfg").getD (jObj [])), fsd := ← listF getMFunc a "funcs", inputs := ← getKw (← fld a "inputs"),
           internal := (← optF (asList (asPair asStr (asList asNat))) a "internal").getD [] }

/-- a scheduler given as data: for generation `g` the order (indices into the submitted bodies) in which the bodies ran;
    anything that is not a permutation of the bodies' indices falls back to submission order -/
def permSched (orders : List (List Nat)) : Sched := fun g bs pe =>
  match orders[g]? with
  | some o =>
    if o.length = bs.length && o.all (· < bs.length) && (o.eraseDups.length = o.length) then (o.filterMap (bs[·]?)).flatten ++ pe
    else bs.flatten ++ pe
  | none => bs.flatten ++ pe

/-- `[[key, val], …]` → `KDict` -/
def getKDict (j : Json) : R PF.ResumeKey.KDict := asList (asPair (asList asNat) getVal) j
def putKDict (d : PF.ResumeKey.KDict) : Json := jList (jPair (jList jNat) putVal) d
def getCells (j : Json) : R (List (Nat × Val)) := asList (asPair asNat getVal) j
def putCells (c : List (Nat × Val)) : Json := jList (jPair jNat putVal) c

def handle (m : String) (a : Json) : R Json := do
  match m with
  | "map.run_on" =>
    let q ← getReq a
    let fs ← getFS (← fld a "fs")
    return putRun (runOn q.cfg fs q.fsd q.inputs q.internal)
  | "map.par_events" =>
    -- the pool runner into an empty folder, bodies of generation g in the order `orders[g]`
    let q ← getReq a
    let orders ← listF (asList asNat) a "orders"
    return putRun (runOnP q.cfg (permSched orders) FS.empty q.fsd q.inputs q.internal)
  | "map.par_fail_events" =>
    -- the pool runner on a folder state (default: empty) when the user call `cfg.fail_at` (global SUBMISSION index) raises:
    -- bodies of generation g in the order `orders[g]`; in the failing generation `orders[g]` lists the bodies that ran
    let q ← getReq a
    let orders ← listF (asList asNat) a "orders"
    let fs ← match fld? a "fs" with
      | some j => getFS j
      | none => pure FS.empty
    return putRun (runOnPF q.cfg (permSched orders) (pickSched orders) fs q.fsd q.inputs q.internal)
  | "map.events" =>
    let q ← getReq a
    return putRun (runFresh q.cfg q.fsd q.inputs q.internal)
  | "map.resume" =>
    -- crash the uninterrupted run (no failing call) after `crash` events; resume with the request's configuration
    let q ← getReq a
    let k ← natF a "crash"
    let fresh := runFresh { q.cfg with failAt := none } q.fsd q.inputs q.internal
    let fs := crashAt FS.empty fresh.evs k
    let again := runOn q.cfg fs q.fsd q.inputs q.internal
    return jObj [("n_events", jNat fresh.evs.length), ("resumed", putRun again)]
  | "key.of_index" =>
    -- `_shape_to_key(shape, li)` / `np.unravel_index(li, shape)`
    return jList jNat (shapeToKey (← listF asNat a "shape") (← natF a "li"))
  | "key.file_of" =>
    -- `FileArray._key_to_file(key)`: the number in the file name
    return jNat (PF.ResumeKey.fileOfKey (← listF asNat a "shape") (← listF asNat a "key"))
  | "dict.store" =>
    -- the dict (insertion order) and the files after dumping `cells` in order, each under the key of its linear index
    let shape ← listF asNat a "shape"
    let cells ← getCells (← fld a "cells")
    return jObj [("dict", putKDict (PF.ResumeKey.kStore shape cells)), ("files", putCells (PF.ResumeKey.fStore shape cells))]
  | "dict.view" =>
    -- what a resumed run sees of a persisted dict, by linear index
    let shape ← listF asNat a "shape"
    let d ← getKDict (← fld a "dict")
    let n := prod shape
    return jObj [("has", jList jBool ((List.range n).map (PF.ResumeKey.kHasIndex shape d))),
                 -- `[v]` = the value, `[]` = KeyError (a stored `None` is `[null]`)
                 ("get", jList (fun o => jList putVal o.toList) ((List.range n).map (PF.ResumeKey.kGetFromIndex shape d))),
                 ("mask", jList jBool (PF.ResumeKey.kMaskLinear shape d)),
                 ("cells", putCells (PF.ResumeKey.kLoadCells shape d)),
                 ("sorted", jList putVal (PF.ResumeKey.sortedValues d))]
  | _ => .error s!"unknown entry {m}"

def main : IO Unit := loop handle
