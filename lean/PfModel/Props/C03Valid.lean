import PfModel.Props.C03Deps
import PfModel.Props.C12Edit
/-!
C03 (proof round 7) — the standing hypothesis `UniqueOutputs fs` of every whole-run theorem of C03, discharged.

Every theorem of C03 about a whole run (`C03_map_eq_sequential`, `C03_map_schedule_independent`, `C03_once_map`,
`C03_calls_perm`, `C03_barrier`, `C03_count_*`, `C03_consumed_complete`, …) assumes `UniqueOutputs fs` ("no two functions
share an output name — `Pipeline` validation").  That it *is* what the validation checks was prose.  Here:

* `C03_unique_outputs_iff` — `UniqueOutputs` is exactly the decidable check `PF.Validate.uniqueOutputs` of C12's model
  (`validate_unique_output_names_of`, re-run by the lazy `Pipeline.graph` at the start of every `map`);
* `C03_accepted_wellformed` — by C12's reject-and-complete theorem (`C12_startMap2_iff`): whenever the start of `map` does not
  refuse the request, `UniqueOutputs fs` holds and the run's own acyclicity check passes;
* `C03_accepted_schedule_independent`, `C03_accepted_consumed_complete` — the two clauses of the property text with "the start
  of `map` accepts the request" in place of the hypothesis (for every `Req`/executor argument whatsoever that is accepted).
-/
namespace PF.C03
open PF PF.Map PF.Sched PF.SchedC PF.Validate

/-- **`UniqueOutputs` is what `validate_unique_output_names_of` checks.** -/
theorem C03_unique_outputs_iff (fs : List MFunc) : uniqueOutputs fs = true ↔ UniqueOutputs fs := by
  unfold UniqueOutputs
  induction fs with
  | nil => simp [uniqueOutputs]
  | cons f rest ih =>
    simp only [uniqueOutputs, Bool.and_eq_true, Bool.not_eq_eq_eq_not, Bool.not_true, List.any_eq_false, List.pairwise_cons, ih]
    refine and_congr_left fun _ => ?_
    simp only [allOutputs, List.contains_iff_mem, List.mem_flatMap, not_exists, not_and]
    constructor
    · intro h b hb o ho hob; exact h o ho b hb hob
    · intro h o ho b hb hob; exact h b hb o ho hob

/-- **An accepted request is well-formed for C03.** If the start of `Pipeline.map` (C12's `startMap2`: executor gate, the
    lazily recomputed `graph` / `topological_generations`, input and storage validation) does not refuse, then output names
    are unique and Kahn layering leaves no residue. -/
theorem C03_accepted_wellformed (fs : List MFunc) (r : Req) (ex : ExecArg) (hacc : ¬ Refused (startMap2 fs r ex).2) :
    UniqueOutputs fs ∧ (generations fs).flatten.length = fs.length := by
  have hl : ¬ LazyFault fs := fun h => hacc ((PF.C12.C12_startMap2_iff fs r ex).mpr (Or.inr (Or.inl h)))
  unfold LazyFault at hl
  constructor
  · apply (C03_unique_outputs_iff fs).mp
    cases hu : uniqueOutputs fs with
    | true => rfl
    | false => exact absurd (Or.inl hu) hl
  · cases ha : acyclic fs with
    | true => simpa [acyclic] using ha
    | false => exact absurd (Or.inr (Or.inr ha)) hl

/-- **Executor, storage and schedule independence for every accepted request** (no hypothesis on the pipeline). -/
theorem C03_accepted_schedule_independent (fs : List MFunc) (r : Req) (ex : ExecArg) (hacc : ¬ Refused (startMap2 fs r ex).2)
    (inputs : List (String × Val)) (ui : List (String × List Nat))
    (dumpSub dumpSub' : String → Bool) (sched sched' : Scheds) (hs : ValidScheds sched) (hs' : ValidScheds sched') :
    (runMapSched fs inputs ui dumpSub sched).map (·.1) = (runMapSched fs inputs ui dumpSub' sched').map (·.1) ∧
    (runMapSched fs inputs ui dumpSub sched).map (·.1) = specMap fs inputs ui :=
  have huo := (C03_accepted_wellformed fs r ex hacc).1
  ⟨C03_map_schedule_independent fs inputs ui dumpSub dumpSub' sched sched' hs hs' huo,
   C03_map_eq_denotation fs inputs ui dumpSub sched hs huo⟩

/-- **"Never before all values it consumes are complete" for every accepted request.** -/
theorem C03_accepted_consumed_complete (fs : List MFunc) (r : Req) (ex : ExecArg) (hacc : ¬ Refused (startMap2 fs r ex).2)
    (inputs : List (String × Val)) (ui : List (String × List Nat))
    (dumpSub : String → Bool) (sched : Scheds) (hs : ValidScheds sched)
    (res : MapResult) (trs : List GenTrace) (h : runMapSched fs inputs ui dumpSub sched = .ok (res, trs))
    (g j k : Nat) (l1 l2 : List (Nat × TaskId)) (hlog : runLog 0 trs = l1 ++ (g, (j, k)) :: l2) :
    ∃ gen f, (generations fs)[g]? = some gen ∧ gen[j]? = some f ∧ k < demanded res.shapes res.masks f ∧
      ∀ p ∈ f.params.map (·.1), alookup f.bound p = none → ∀ hf ∈ fs, p ∈ hf.outputs →
        ∃ (g' : Nat) (gen' : List MFunc) (j' : Nat), g' < g ∧ (generations fs)[g']? = some gen' ∧ gen'[j']? = some hf ∧
          ∀ k', k' < demanded res.shapes res.masks hf → (g', (j', k')) ∈ l1 :=
  C03_consumed_complete fs inputs ui dumpSub sched hs (C03_accepted_wellformed fs r ex hacc).1 res trs h g j k l1 l2 hlog

/-! ### non-vacuity and witnesses -/

private def el (n : String) (ins : List String) (out : String) : MFunc :=
  { name := n, params := ins.map fun p => (p, p), outputs := [out],
    mapspec := some { inputs := ins.map fun p => ⟨p, [some "i"]⟩, outputs := [⟨out, [some "i"]⟩] },
    ret := none, internal := none, defaults := [], bound := [] }
private def exFs : List MFunc := [el "t" ["y", "z"] "s", el "g" ["y"] "z", el "f" ["x"] "y"]
private def exIn : List (String × Val) := [("x", .arr [2] [.int 1, .int 2])]
private def rq (inputs : List (String × Val)) : Req :=
  { inputs := inputs, internal := [], storage := "dict", folder := true, cleanup := false, executor := true, parallel := true,
    order := [], prev := none }

/-- an accepted parallel request on a three-generation map pipeline (executor dictionary with a default) -/
example : (startMap2 exFs (rq exIn) (.dict ["s", ""])).2 = .ok () := by decide
example : ¬ Refused (startMap2 exFs (rq exIn) (.dict ["s", ""])).2 := by
  rw [refused_iff_not_ok]; exact fun h => h (by decide)
example : uniqueOutputs exFs = true := by decide
/-- both directions of the iff are inhabited: a duplicate output name fails the check, and `UniqueOutputs` -/
example : uniqueOutputs [el "f" ["x"] "y", el "h" ["x"] "y"] = false := by decide
example : ¬ UniqueOutputs [el "f" ["x"] "y", el "h" ["x"] "y"] := by
  rw [← C03_unique_outputs_iff]; decide
/-- … and such a pipeline is refused at the start of `map` -/
example : Refused (startMap2 [el "f" ["x"] "y", el "h" ["x"] "y"] (rq exIn) .bare).2 :=
  (PF.C12.C12_startMap2_iff _ _ _).mpr (Or.inr (Or.inl (Or.inl (by decide))))

end PF.C03
