import PfModel.Props.C17Count
import PfModel.Lemmas.SweepRootArgs
/-!
# C17, proof round 2: `root_args` is the reachable root set

`C17_count_deps_reach` (round 3) says *which* functions `count_sweep` iterates over, and hands each of them `rootArgs fs d`
(the model of `pipeline.root_args(dep)`: the all-roots entry of the exponential search `arg_combinations`, C02).  That this is
"the root arguments the dependency depends on" — the `root-argument tuple` of the property text — was compared case by case
with `depsSpec`, not proved.  Here it is proved, from the complete-frontier invariant of C02 (`argCombinations_ccut`; see
`Lemmas/SweepRootCut.lean` for why that invariant is a copy), and chained with `countDeps` into a statement of exactly the
shape of `C17_deps_spec`, so that the model of the code and the reachability specification are characterised by the same
predicate.
-/
namespace PF.C17
open PF.Sweep PF.Sweep.RootCut

/-- **`root_args` = the reachable root set.**  For a well-formed pipeline (`WFp`: unique names, unique outputs, acyclic) whose
    graph nodes have distinct sort keys (`KeyInj`: decidable; true whenever names contain no comma), `root_args(o)` lists
    exactly the names without a producer that are non-bound parameters of the producer of `o` or of one of its strict
    ancestors. -/
theorem C17_root_args_reach (fs : List PF.Pipe.Func) (rank : String → Nat) (hw : PF.Pipe.WFp fs rank) (hki : KeyInj fs)
    (o : String) (c : List String) (h : PF.Pipe.rootArgs fs o = some c) :
    ∃ i, PF.Pipe.producerIdx fs o = some i ∧
      ∀ p, p ∈ c ↔ (PF.Pipe.Node.root p ∈ PF.Pipe.preds fs i ∨
        ∃ k, PF.Pipe.Reach fs i k ∧ PF.Pipe.Node.root p ∈ PF.Pipe.preds fs k) :=
  rootArgs_reach fs rank hw hki o c h

/-- **count_sweep, which dependencies with which root arguments** (the pipeline part at user level).  For a well-formed
    pipeline of single-output functions: `count_sweep` iterates over exactly the strict ancestors `js` of the producer of the
    requested output, each once, and the root arguments it groups the combinations of dependency `j` by are exactly the root
    names that are non-bound parameters of `j` or of one of `j`'s strict ancestors.  This is word for word the conclusion of
    `C17_deps_spec` about the specification `depsSpec` (there under `ordered fs`, here under `WFp` / `KeyInj`). -/
theorem C17_count_deps_roots (fs : List PF.Pipe.Func) (rank : String → Nat) (hw : PF.Pipe.WFp fs rank) (hki : KeyInj fs)
    (hsingle : ∀ f ∈ fs, ∃ q, f.outputs = [q]) (o : String) (deps : List (String × List Key))
    (h : countDeps fs o = some deps) :
    ∃ (i : Nat) (js : List Nat) (roots : Nat → List String), PF.Pipe.producerIdx fs o = some i ∧ js.Nodup ∧
      (∀ j, j ∈ js ↔ PF.Pipe.Reach fs i j) ∧
      deps = js.map (fun j => (",".intercalate (PF.Pipe.funcAt fs j).outputs, roots j)) ∧
      ∀ j ∈ js, ∀ p, p ∈ roots j ↔
        (PF.Pipe.Node.root p ∈ PF.Pipe.preds fs j ∨ ∃ k, PF.Pipe.Reach fs j k ∧ PF.Pipe.Node.root p ∈ PF.Pipe.preds fs k) := by
  unfold countDeps at h
  cases hi : PF.Pipe.producerIdx fs o with
  | none => simp [hi] at h
  | some i =>
    simp only [hi] at h
    have hlt : i < fs.length := PF.Pipe.producerIdx_lt hi
    have hmemjs : ∀ j, j ∈ PF.Pipe.funcDeps fs (fs.length * fs.length + 2) [i] [] ↔ PF.Pipe.Reach fs i j :=
      fun j => PF.Pipe.mem_funcDeps_iff fs i j hlt
    refine ⟨i, _, fun j => (PF.Pipe.rootArgs fs (",".intercalate (PF.Pipe.funcAt fs j).outputs)).getD [], rfl,
      PF.Pipe.funcDeps_nodup fs i _, hmemjs, ?_, ?_⟩
    · -- the `mapM` returns the map
      generalize PF.Pipe.funcDeps fs (fs.length * fs.length + 2) [i] [] = js at h
      induction js generalizing deps with
      | nil =>
        simp only [List.mapM_nil, Option.pure_def, Option.some.injEq] at h
        subst h; simp
      | cons j r ih =>
        simp only [List.mapM_cons, Option.pure_def, Option.bind_eq_bind] at h
        cases h1 : PF.Pipe.rootArgs fs (",".intercalate (PF.Pipe.funcAt fs j).outputs) with
        | none => simp [h1] at h
        | some ra =>
          cases h2 : r.mapM (fun j => (PF.Pipe.rootArgs fs (",".intercalate (PF.Pipe.funcAt fs j).outputs)).map
              fun r => (",".intercalate (PF.Pipe.funcAt fs j).outputs, r)) with
          | none => simp [h1, h2] at h
          | some ds =>
            simp [h1, h2] at h
            subst h
            simp [h1, ih ds h2]
    · intro j hj p
      have hr : PF.Pipe.Reach fs i j := (hmemjs j).mp hj
      -- `j` is the producer of a name, hence of its own (single) output name
      have hstep : ∃ k, PF.Pipe.Step fs k j := by
        cases hr with
        | one hs => exact ⟨_, hs⟩
        | more _ hs => exact ⟨_, hs⟩
      obtain ⟨k, hs⟩ := hstep
      obtain ⟨q, orig, _, _, hq⟩ := mem_preds fs k _ hs.1
      have hidx : PF.Pipe.producerIdx fs q = some j := by
        rcases hq with ⟨j0, h0, he⟩ | ⟨_, he⟩
        · cases he; exact h0
        · cases he
      obtain ⟨_, hmem, hqo, _⟩ := producerIdx_some fs hw.uniq q j hidx
      obtain ⟨q', hq'⟩ := hsingle _ hmem
      rw [hq'] at hqo
      simp at hqo; subst hqo
      have hname : ",".intercalate (PF.Pipe.funcAt fs j).outputs = q := by rw [hq']; rfl
      simp only [hname]
      cases hra : PF.Pipe.rootArgs fs q with
      | none =>
        -- impossible: the `mapM` succeeded
        exfalso
        generalize PF.Pipe.funcDeps fs (fs.length * fs.length + 2) [i] [] = js at h hj
        induction js generalizing deps with
        | nil => cases hj
        | cons j' r ih =>
          simp only [List.mapM_cons, Option.pure_def, Option.bind_eq_bind] at h
          cases h1 : PF.Pipe.rootArgs fs (",".intercalate (PF.Pipe.funcAt fs j').outputs) with
          | none => simp [h1] at h
          | some ra =>
            cases h2 : r.mapM (fun j => (PF.Pipe.rootArgs fs (",".intercalate (PF.Pipe.funcAt fs j).outputs)).map
                fun r => (",".intercalate (PF.Pipe.funcAt fs j).outputs, r)) with
            | none => simp [h1, h2] at h
            | some ds =>
              rcases List.mem_cons.mp hj with rfl | hj'
              · rw [hname, hra] at h1; cases h1
              · exact ih ds h2 hj'
      | some c =>
        obtain ⟨j1, hj1, hiff⟩ := rootArgs_reach fs rank hw hki q c hra
        rw [hidx] at hj1
        cases hj1
        simpa using hiff p

/-- **The model of the code and the reachability specification agree.**  For a well-formed pipeline of single-output functions
    listed producers first (`ordered`), what `count_sweep` iterates over (`countDeps`: `func_dependencies` + `root_args`) and the
    specification `depsSpec` name the same dependencies, and for each dependency the same root arguments (as sets).  The
    per-case three-way comparison of the harness (code / `countDeps` / `depsSpec`) is hereby a theorem on its model side. -/
theorem C17_count_deps_agree_spec (fs : List PF.Pipe.Func) (rank : String → Nat) (hw : PF.Pipe.WFp fs rank) (hki : KeyInj fs)
    (hsingle : ∀ f ∈ fs, ∃ q, f.outputs = [q]) (hordered : ordered fs = true) (o : String)
    (deps spec : List (String × List Key)) (h : countDeps fs o = some deps) (hs : depsSpec fs o = some spec) :
    (∀ n, n ∈ deps.map Prod.fst ↔ n ∈ spec.map Prod.fst) ∧
      ∀ d ∈ deps, ∀ e ∈ spec, d.1 = e.1 → ∀ p, p ∈ d.2 ↔ p ∈ e.2 := by
  obtain ⟨i, js, roots, hi, _, hjs, hdeps, hroots⟩ := C17_count_deps_roots fs rank hw hki hsingle o deps h
  obtain ⟨i', js', roots', hi', _, hjs', hspec, hroots'⟩ := C17_deps_spec fs o spec hordered hs
  rw [hi] at hi'; cases hi'
  subst hdeps; subst hspec
  constructor
  · intro n
    simp only [List.map_map, List.mem_map, Function.comp]
    constructor
    · rintro ⟨j, hj, rfl⟩; exact ⟨j, (hjs' j).mpr ((hjs j).mp hj), rfl⟩
    · rintro ⟨j, hj, rfl⟩; exact ⟨j, (hjs j).mpr ((hjs' j).mp hj), rfl⟩
  · intro d hd e he hde p
    obtain ⟨j, hj, rfl⟩ := List.mem_map.mp hd
    obtain ⟨j', hj', rfl⟩ := List.mem_map.mp he
    simp only at hde
    have e1 := reach_name_idx fs hw.uniq hsingle ((hjs j).mp hj)
    have e2 := reach_name_idx fs hw.uniq hsingle ((hjs' j').mp hj')
    rw [hde, e2] at e1
    cases e1
    simp only
    rw [hroots j hj p, hroots' j hj' p]

/-! ### non-vacuity (the pipeline `cfs` of `Props/C17Count.lean`: `c(a)`, `d(c, b)`, `e(d, c)`) -/

/-- `decide`-style witness: the example pipeline is well formed (rank `c` < `d` < `e`) -/
theorem C17_roots_wf_witness : PF.Pipe.WFp cfs crank := by
  refine ⟨?_, ?_, ?_⟩
  · intro f hf g hg e; simp [cfs] at hf hg; rcases hf with rfl | rfl | rfl <;> rcases hg with rfl | rfl | rfl <;> simp_all
  · intro f hf g hg o h1 h2; simp [cfs] at hf hg; rcases hf with rfl | rfl | rfl <;> rcases hg with rfl | rfl | rfl <;> simp_all
  · intro f hf p hp g hg hb
    simp [cfs] at hf
    rcases hf with rfl | rfl | rfl <;> simp at hp <;> rcases hp with rfl | rfl <;>
      simp [PF.Pipe.producer, cfs] at hg <;> subst hg <;> simp [crank]

example : KeyInj cfs := by decide
example : ∀ f ∈ cfs, ∃ q, f.outputs = [q] := by
  intro f hf; simp [cfs] at hf; rcases hf with rfl | rfl | rfl <;> simp
example : PF.Pipe.rootArgs cfs "e" = some ["a", "b"] ∧ PF.Pipe.rootArgs cfs "c" = some ["a"] := by decide
example : countDeps cfs "e" = some [("d", ["a", "b"]), ("c", ["a"])] := by decide
example : ordered cfs = true ∧ depsSpec cfs "e" = some [("d", ["a", "b"]), ("c", ["a"])] := by decide

end PF.C17
