import PfModel.Lemmas.ErrorsStore
import PfModel.Props.C05
import PfModel.Props.C13
/-!
C13 (extension) — what the run folder holds after a user function raised, and that a re-run picks up from there.

`store` in `runGensE … = .raised g' r log store` (and in `runGensA`) is the model of the storage after the failed run: the
complete outputs of the generations before `g'` and, of generation `g'`, the elements the workers had written.
`folderOf inputs store` is that store as a folder state of the resume model of C05 (`PF.ResumeFS`).
-/
namespace PF.C13
open PF PF.Map PF.Errors PF.ResumeFS

/-- **Every element stored after a failure is right** (clause "results completed before the failure remain loadable", at
    the level of single elements, every mode, every schedule — fair or not): every slot of the store a raised run leaves is
    a sub-slot of the slot the failure-free run stores for the same output — same shape and mask, and every stored element
    is the element the failure-free run stores at that index; a stored whole value is the failure-free value. -/
theorem C13_stored_cells_right (mode : Mode) (fails : Oracle) (sched : Nat → List Nat) (R : Env → MFunc → M FuncResult)
    (gens : List (List MFunc)) (env : Env) (g g' : Nat) (r : Raised) (log : List Task) (store : List (String × Slot))
    (rsAll : List FuncResult) (envF : Env)
    (h : runGensE mode fails sched R gens env g = .raised g' r log store) (hfull : runGensWith R gens env = .ok (rsAll, envF)) :
    SubStore store envF.store := by
  rw [← runGensG_genE] at h
  exact runGensG_store_sub fails R _ (genFacts_genE mode fails sched R) (genSlotsSub_genE mode fails sched R)
    gens env g g' r log store rsAll envF h hfull

/-- the same for `map_async`, every pool schedule and loop order -/
theorem C13_async_stored_cells_right (fails : Oracle) (sched loopo : Nat → List Nat) (R : Env → MFunc → M FuncResult)
    (gens : List (List MFunc)) (env : Env) (g g' : Nat) (r : Raised) (log : List Task) (store : List (String × Slot))
    (rsAll : List FuncResult) (envF : Env)
    (h : runGensA fails sched loopo R gens env g = .raised g' r log store) (hfull : runGensWith R gens env = .ok (rsAll, envF)) :
    SubStore store envF.store :=
  runGensG_store_sub fails R _ (genFacts_poolGenA fails sched loopo R) (genSlotsSub_poolGenA fails sched loopo R)
    gens env g g' r log store rsAll envF h hfull

/-- which elements a filtered slot holds: exactly those of the original whose index passes the filter -/
theorem C13_kept_cells (p : Nat → Bool) (cells : List (Nat × Val)) (li : Nat) :
    cellLookup (cells.filter fun c => p c.1) li = if p li then cellLookup cells li else none := by
  induction cells with
  | nil => simp [cellLookup]
  | cons c cs ih =>
    obtain ⟨k, w⟩ := c
    simp only [List.filter_cons]
    by_cases hp : p k = true
    · simp only [hp, ↓reduceIte, cellLookup]
      by_cases hk : k = li
      · subst hk; simp [hp]
      · simp only [hk, ↓reduceIte]; exact ih
    · simp only [hp, Bool.false_eq_true, ↓reduceIte, cellLookup]
      by_cases hk : k = li
      · subst hk; simp only [↓reduceIte]; rw [ih]; simp [hp]
      · simp only [hk, ↓reduceIte]; exact ih

/-- **Sequential run: which elements of the failing generation are stored.**  When a sequential generation raises, the
    generation is `pre ++ f :: post` where every function of `pre` ran completely (its element arrays are stored whole; a
    whole-value output is *not* stored — `_process_generation` never ran), `f` is the failing function, its invocations are
    `ts0 ++ t :: ts1` with `t` the raising one, and of `f`'s outputs exactly the elements with external linear index
    `< ts0.length` — those computed before the failing invocation — are stored; nothing of `post`. -/
theorem C13_seq_failing_cells (fails : Oracle) (R : Env → MFunc → M FuncResult) (env : Env) : ∀ (gen : List MFunc) (r : Raised)
    (log : List Task) (slots : List (String × Slot)), seqGen fails R env gen = .raised r log slots →
    ∃ pre f post r0 ts0 t ts1 x, gen = pre ++ f :: post ∧ R env f = .ok r0 ∧ tasksOf f r0 = ts0 ++ t :: ts1 ∧
      (∀ u ∈ ts0, failOf fails u = none) ∧ failOf fails t = some x ∧ r = raisedOf t x ∧
      slots = pre.flatMap (fun f' => match R env f' with | .ok r' => keepSlots (fun _ => true) false r'.slots | .error _ => []) ++
              keepSlots (fun li => li < ts0.length) false r0.slots := by
  intro gen
  induction gen with
  | nil => intro r log slots h; simp [seqGen] at h
  | cons f rest ih =>
    intro r log slots h
    simp only [seqGen] at h
    cases hr : R env f with
    | error e => simp [hr] at h
    | ok r0 =>
      simp only [hr] at h
      cases hff : firstFail fails (tasksOf f r0) with
      | some tx =>
        obtain ⟨t, x⟩ := tx
        simp only [hff] at h
        injection h with h1 h2 h3
        obtain ⟨ts0, e, hpre, ts1, e2⟩ := upToFail_spec fails _ t x hff
        obtain ⟨_, _, _, _, hx⟩ := firstFail_spec fails _ t x hff
        refine ⟨[], f, rest, r0, ts0, t, ts1, x, rfl, hr, e2, hpre, hx, h1.symm, ?_⟩
        rw [← h3, e]
        simp
      | none =>
        simp only [hff] at h
        cases hs : seqGen fails R env rest with
        | ok a b => simp [hs] at h
        | refused e => simp [hs] at h
        | hang l => simp [hs] at h
        | raised rr log' sl =>
          simp only [hs] at h
          injection h with h1 h2 h3
          obtain ⟨pre, f', post, r1, ts0, t, ts1, x, e, hr1, ets, hpre, hx, hrr, hsl⟩ := ih rr log' sl hs
          refine ⟨f :: pre, f', post, r1, ts0, t, ts1, x, by simp [e], hr1, ets, hpre, hx, by rw [← h1, hrr], ?_⟩
          rw [← h3, hsl]
          simp [hr]

/-- the folder of a store that is part of the failure-free store satisfies the folder invariant of C05 -/
theorem C13_folder_good (fsd : List MFunc) (inputs : List (String × Val)) (ui : List (String × List Nat))
    (st : List (String × Slot)) (hsub : SubStore st (freshSlots fsd inputs ui)) : C05.Good fsd inputs ui (folderOf inputs st) := by
  constructor
  · intro p hp
    cases p with
    | tmp q => simp [Path.isTmp] at hp
    | runInfo => exact Or.inr ⟨_, rfl, trivial⟩
    | defaults => exact Or.inr ⟨_, rfl, trivial⟩
    | dictArr o => exact Or.inl rfl
    | input n =>
      simp only [folderOf]
      cases alookup inputs n with
      | none => exact Or.inl rfl
      | some v => exact Or.inr ⟨v, rfl, trivial⟩
    | cell o li =>
      simp only [folderOf]
      cases hl : alookup st o with
      | none => exact Or.inl rfl
      | some s =>
        cases s with
        | single v => exact Or.inl rfl
        | array sh mk cells =>
          simp only []
          cases hc : cellLookup cells li with
          | none => exact Or.inl rfl
          | some v =>
            refine Or.inr ⟨v, rfl, ?_⟩
            obtain ⟨s', hm, hs⟩ := hsub o _ (alookup_some_mem _ _ _ hl)
            cases s' with
            | single w => exact hs.elim
            | array sh' mk' c' => exact ⟨_, hm, hs.2.2 li v hc⟩
    | single o =>
      simp only [folderOf]
      cases hl : alookup st o with
      | none => exact Or.inl rfl
      | some s =>
        cases s with
        | array sh mk cells => exact Or.inl rfl
        | single v =>
          refine Or.inr ⟨v, rfl, ?_⟩
          obtain ⟨s', hm, hs⟩ := hsub o _ (alookup_some_mem _ _ _ hl)
          cases s' with
          | array sh' mk' c' => exact hs.elim
          | single w => exact ⟨_, hm, hs⟩
  · intro _
    refine ⟨fun n hn => ?_, _, rfl⟩
    simp only [folderOf]
    cases hl : alookup inputs n with
    | none => exact absurd hn ((alookup_none_iff inputs n).mp hl)
    | some v => exact ⟨v, rfl⟩

/-- **After a failure, resuming completes** (ties C13 to `C05_resume` / `C05_raise`).  Let a `Pipeline.map` — sequential or
    in an executor, any schedule — raise, leaving the store `store`, for a request on which the failure-free run succeeds
    with outputs `r0.outputs` (distinct output names).  Then the folder holding `store` satisfies the invariant of C05, hence a
    re-run on it with `cleanup=False` in which nothing raises (any storage configuration of the repaired write protocol)
    completes with exactly the outputs of the failure-free run, and calls a user function only for elements that the failed
    run had not stored. -/
theorem C13_resume_completes (mode : Mode) (fails : Oracle) (sched : Nat → List Nat)
    (fsd : List MFunc) (inputs : List (String × Val)) (ui : List (String × List Nat)) (r0 : MapResult)
    (shapes : List (String × List Nat)) (masks : List (String × List Bool))
    (h0 : runMap fsd inputs ui = .ok r0) (hnd : ((freshSlots fsd inputs ui).map (·.1)).Nodup)
    (hpre : preRun fsd inputs ui = .ok (shapes, masks))
    (g' : Nat) (r : Raised) (log : List Task) (store : List (String × Slot))
    (h : runGensE mode fails sched (runFuncWith opArray fsd shapes masks) (generations fsd) { inputs := inputs, store := [] } 0 =
      .raised g' r log store)
    (cfg : Cfg) (hl : cfg.legacy = false) (hf : cfg.failAt = none) :
    SubStore store (freshSlots fsd inputs ui) ∧
    (∃ x, (runOn cfg (folderOf inputs store) fsd inputs ui).res = .ok x ∧ x.outputs = r0.outputs) ∧
    (∀ c ∈ (runOn cfg (folderOf inputs store) fsd inputs ui).calls,
      ∃ f ∈ (generations fsd).flatten, c.fn = f.name ∧ doneInC cfg (folderOf inputs store) f c.li = false) := by
  obtain ⟨shapes', masks', rs, envF, hpre', hloop, _⟩ := runMap_unfold fsd inputs ui r0 h0
  rw [hpre] at hpre'
  injection hpre' with hpre'; injection hpre' with e1 e2
  subst e1; subst e2
  have hfresh : freshSlots fsd inputs ui = envF.store := by
    have := runGensWith_store _ _ _ _ _ hloop
    simp only [List.nil_append] at this
    simp [freshSlots, pfLoop, hpre, hloop, this]
  have hsub : SubStore store (freshSlots fsd inputs ui) := by
    rw [hfresh]
    exact C13_stored_cells_right mode fails sched _ _ _ 0 g' r log store rs envF h hloop
  have hgood := C13_folder_good fsd inputs ui store hsub
  obtain ⟨_, b, c⟩ := C05.C05_resume cfg hl fsd inputs ui r0 h0 hnd _ hgood
  refine ⟨hsub, ?_, b⟩
  rcases c with c | ⟨hne, _⟩
  · exact c
  · exact absurd hf hne

/-! ## non-vacuity -/

/-- per stored output: which elements are present (`false` = masked) -/
def storeSummary : Errors.Outcome → List (String × List Bool)
  | .raised _ _ _ stored => stored.map fun (o, v) =>
      (o, match v with | .arr _ es => es.map (fun e => match e with | .masked => false | _ => true) | _ => [true])
  | _ => []

/-- sequential, `g0` raises at its second element (index 1): exactly the element 0 of `y` is stored, nothing of `w`, `z` -/
example : storeSummary (runMapE .seq orc (fun _ => []) [g0, g1, g2] [("x", x3)] []) = [("y", [true, false, false])] := by decide
/-- executor, all six tasks of generation 0 run: of `y` the elements 0 and 2 are stored, of `w` the elements 1 and 2 -/
example : storeSummary (runMapE .pool orc (fun _ => [5, 4, 3, 2, 1, 0]) [g0, g1, g2] [("x", x3)] []) =
    [("y", [true, false, true]), ("w", [false, true, true])] := by decide
/-- the hypotheses of `C13_resume_completes` are satisfiable -/
example : ((freshSlots [g0, g1, g2] [("x", x3)] []).map (·.1)) = ["y", "w", "z"] := by decide
example : (preRun [g0, g1, g2] [("x", x3)] []).toOption.isSome = true := by decide
example : (runMap [g0, g1, g2] [("x", x3)] []).toOption.isSome = true := by decide
/-- … and the resumed run on that folder makes exactly the calls for what is missing: `g0` at 1, 2 — element 2 was not
    reached —, all of `g1`, and `g2` -/
example : (match runGensE .seq orc (fun _ => []) (runFuncWith opArray [g0, g1, g2] [("x", [3]), ("y", [3]), ("w", [3])] [("x", [true]), ("y", [true]), ("w", [true])])
      (generations [g0, g1, g2]) { inputs := [("x", x3)], store := [] } 0 with
    | .raised _ _ _ store => (runOn {} (folderOf [("x", x3)] store) [g0, g1, g2] [("x", x3)] []).calls.map fun c => (c.fn, c.li)
    | _ => []) = [("g0", 1), ("g0", 2), ("g1", 0), ("g1", 1), ("g1", 2), ("g2", 0)] := by decide

end PF.C13
