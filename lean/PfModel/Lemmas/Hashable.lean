import PfModel.Model.Hashable
/-! Helper lemmas for C15 (`Model/Hashable.lean`). -/
namespace PF.Hashable

/-! ### induction principles for the rose tree -/
theorem PV.ind {P : PV → Prop} (hatom : ∀ a, P (.atom a))
    (hnode : ∀ k xs, (∀ x ∈ xs, P x) → P (.node k xs)) : ∀ v, P v := by
  intro v
  refine PV.rec (motive_1 := P) (motive_2 := fun xs => ∀ x ∈ xs, P x) hatom (fun k xs ih => hnode k xs ih) ?_ ?_ v
  · intro x hx; cases hx
  · intro x xs hx hxs y hy
    cases hy with
    | head => exact hx
    | tail _ h => exact hxs y h

/-- also gives the hypothesis for grandchildren (the values inside the item tuples of a mapping) -/
theorem PV.ind2 {P : PV → Prop} (hatom : ∀ a, P (.atom a))
    (hnode : ∀ k xs, (∀ x ∈ xs, P x) → (∀ x ∈ xs, ∀ k' ys, x = .node k' ys → ∀ y ∈ ys, P y) → P (.node k xs)) :
    ∀ v, P v := by
  have h : ∀ v, P v ∧ (∀ k' ys, v = .node k' ys → ∀ y ∈ ys, P y) := by
    intro v
    induction v using PV.ind with
    | hatom a => exact ⟨hatom a, by intro k' ys h; cases h⟩
    | hnode k xs ih =>
      refine ⟨hnode k xs (fun x hx => (ih x hx).1) (fun x hx => (ih x hx).2), ?_⟩
      intro k' ys h y hy
      cases h
      exact (ih y hy).1
  exact fun v => (h v).1

/-! ### `cmp` is antisymmetric and transitive -/
theorem cmpNL_swap : ∀ s t, cmpNL t s = (cmpNL s t).swap
  | [], [] => rfl
  | [], _ :: _ => rfl
  | _ :: _, [] => rfl
  | a :: as, b :: bs => by
    simp only [cmpNL]
    have ih := cmpNL_swap as bs
    by_cases h1 : a < b
    · have : ¬ b < a := by omega
      simp [h1, this, Cmp.swap]
    · by_cases h2 : b < a
      · simp [h1, h2, Cmp.swap]
      · simp [h1, h2, ih]

theorem cmpNL_trans : ∀ s t u, cmpNL s t = .lt → cmpNL t u = .lt → cmpNL s u = .lt
  | [], [], _, h, _ => by simp [cmpNL] at h
  | [], _ :: _, [], _, h => by simp [cmpNL] at h
  | [], _ :: _, _ :: _, _, _ => rfl
  | _ :: _, [], _, h, _ => by simp [cmpNL] at h
  | _ :: _, _ :: _, [], _, h => by simp [cmpNL] at h
  | a :: as, b :: bs, c :: cs, h1, h2 => by
    simp only [cmpNL] at h1 h2 ⊢
    have ih := cmpNL_trans as bs cs
    by_cases ab : a < b
    · by_cases bc : b < c
      · have : a < c := by omega
        simp [this]
      · by_cases cb : c < b
        · simp [bc, cb] at h2
        · have : a < c := by omega
          simp [this]
    · by_cases ba : b < a
      · simp [ab, ba] at h1
      · simp only [ab, ba, if_false] at h1
        by_cases bc : b < c
        · have : a < c := by omega
          simp [this]
        · by_cases cb : c < b
          · simp [bc, cb] at h2
          · simp only [bc, cb, if_false] at h2
            have e1 : ¬ a < c := by omega
            have e2 : ¬ c < a := by omega
            simp only [e1, e2, if_false]
            exact ih h1 h2

theorem cmpAtom_swap (a b : Atom) : cmpAtom b a = (cmpAtom a b).swap := by
  cases a <;> cases b <;> simp only [cmpAtom] <;> try rfl
  case num.num r h r' h' =>
    by_cases h1 : r < r'
    · have : ¬ r' < r := by omega
      simp [h1, this, Cmp.swap]
    · by_cases h2 : r' < r
      · simp [h1, h2, Cmp.swap]
      · by_cases h3 : h < h'
        · have : ¬ h' < h := by omega
          simp [h1, h2, h3, this, Cmp.swap]
        · by_cases h4 : h' < h
          · simp [h1, h2, h3, h4, Cmp.swap]
          · simp [h1, h2, h3, h4, Cmp.swap]
  case str.str s t => exact cmpNL_swap s t
  case bytes.bytes s t => exact cmpNL_swap s t

theorem cmpAtom_trans (a b c : Atom) : cmpAtom a b = .lt → cmpAtom b c = .lt → cmpAtom a c = .lt := by
  intro h1 h2
  cases a <;> cases b <;> simp only [cmpAtom] at h1 <;> try (exact absurd h1 (by decide))
  case num.num r h r' h' =>
    cases c <;> simp only [cmpAtom] at h2 <;> try (exact absurd h2 (by decide))
    rename_i r'' h''
    simp only [cmpAtom]
    by_cases a1 : r < r'
    · by_cases b1 : r' < r''
      · have : r < r'' := by omega
        simp [this]
      · by_cases b2 : r'' < r'
        · simp [b1, b2] at h2
        · have : r < r'' := by omega
          simp [this]
    · by_cases a2 : r' < r
      · simp [a1, a2] at h1
      · have e : r = r' := by omega
        subst e
        by_cases b1 : r < r''
        · simp [b1]
        · by_cases b2 : r'' < r
          · simp [b1, b2] at h2
          · simp only [a1, if_false] at h1
            simp only [b1, b2, if_false] at h2 ⊢
            by_cases c1 : h < h'
            · by_cases d1 : h' < h''
              · have : h < h'' := by omega
                simp [this]
              · by_cases d2 : h'' < h' <;> simp [d1, d2] at h2
            · by_cases c2 : h' < h <;> simp [c1, c2] at h1
  case str.str s t =>
    cases c <;> simp only [cmpAtom] at h2 <;> try (exact absurd h2 (by decide))
    exact cmpNL_trans _ _ _ h1 h2
  case bytes.bytes s t =>
    cases c <;> simp only [cmpAtom] at h2 <;> try (exact absurd h2 (by decide))
    exact cmpNL_trans _ _ _ h1 h2

theorem cmp_swap : ∀ x y : PV, cmp y x = (cmp x y).swap := by
  intro x
  refine PV.rec (motive_1 := fun x => ∀ y, cmp y x = (cmp x y).swap)
    (motive_2 := fun xs => ∀ ys, cmpL ys xs = (cmpL xs ys).swap) ?_ ?_ ?_ ?_ x
  · intro a y
    cases y with
    | atom b => simp only [cmp]; exact cmpAtom_swap a b
    | node k ys => cases k <;> simp [cmp, Cmp.swap]
  · intro k xs ih y
    cases y with
    | atom b => cases k <;> simp [cmp, Cmp.swap]
    | node k' ys =>
      cases k <;> cases k' <;> simp only [cmp, Cmp.swap]
      exact ih ys
  · intro ys; cases ys <;> simp [cmpL, Cmp.swap]
  · intro x xs ihx ihxs ys
    cases ys with
    | nil => simp [cmpL, Cmp.swap]
    | cons y ys =>
      simp only [cmpL]
      by_cases e : x = y
      · subst e; simp [ihxs]
      · have e' : ¬ y = x := fun h => e h.symm
        simp [e, e', ihx]

theorem cmp_irrefl (x : PV) : cmp x x ≠ .lt := by
  intro h
  have := cmp_swap x x
  rw [h] at this
  simp [Cmp.swap] at this

theorem cmp_trans : ∀ x y z : PV, cmp x y = .lt → cmp y z = .lt → cmp x z = .lt := by
  intro x
  refine PV.rec (motive_1 := fun x => ∀ y z, cmp x y = .lt → cmp y z = .lt → cmp x z = .lt)
    (motive_2 := fun xs => ∀ ys zs, cmpL xs ys = .lt → cmpL ys zs = .lt → cmpL xs zs = .lt) ?_ ?_ ?_ ?_ x
  · intro a y z h1 h2
    cases y with
    | node k ys => cases k <;> simp [cmp] at h1
    | atom b =>
      cases z with
      | node k zs => cases k <;> simp [cmp] at h2
      | atom c => simp only [cmp] at *; exact cmpAtom_trans a b c h1 h2
  · intro k xs ih y z h1 h2
    cases y with
    | atom b => cases k <;> simp [cmp] at h1
    | node k' ys =>
      cases z with
      | atom c => cases k' <;> simp [cmp] at h2
      | node k'' zs =>
        cases k <;> cases k' <;> simp only [cmp] at h1 <;> try (exact absurd h1 (by decide))
        cases k'' <;> simp only [cmp] at h2 <;> try (exact absurd h2 (by decide))
        simp only [cmp]
        exact ih ys zs h1 h2
  · intro ys zs h1 h2
    cases ys with
    | nil => simp [cmpL] at h1
    | cons y ys =>
      cases zs with
      | nil => simp [cmpL] at h2
      | cons z zs => rfl
  · intro x xs ihx ihxs ys zs h1 h2
    cases ys with
    | nil => simp [cmpL] at h1
    | cons y ys =>
      cases zs with
      | nil => simp [cmpL] at h2
      | cons z zs =>
        simp only [cmpL] at h1 h2 ⊢
        by_cases e1 : x = y
        · subst e1
          simp only [if_true] at h1
          by_cases e2 : x = z
          · subst e2
            simp only [if_true] at h2 ⊢
            exact ihxs ys zs h1 h2
          · simp only [e2, if_false] at h2 ⊢
            exact h2
        · simp only [e1, if_false] at h1
          by_cases e2 : y = z
          · subst e2
            simp only [e1, if_false]
            exact h1
          · simp only [e2, if_false] at h2
            have h3 := ihx y z h1 h2
            have e3 : ¬ x = z := by
              intro e; subst e
              have := cmp_swap x y
              rw [h1, h2] at this
              simp [Cmp.swap] at this
            simp only [e3, if_false]
            exact h3

/-! ### sorting: the result does not depend on the order of the input -/
theorem pairwiseB_iff (r : PV → PV → Bool) (xs : List PV) :
    pairwiseB r xs = true ↔ xs.Pairwise (fun x y => r x y = true) := by
  induction xs with
  | nil => simp [pairwiseB]
  | cons x xs ih => simp [pairwiseB, List.pairwise_cons, ih, List.all_eq_true]

theorem pairwiseB_perm (r : PV → PV → Bool) (hs : ∀ x y, r x y = true → r y x = true) {xs ys : List PV}
    (h : xs.Perm ys) : pairwiseB r xs = pairwiseB r ys := by
  rw [Bool.eq_iff_iff, pairwiseB_iff, pairwiseB_iff]
  exact h.pairwise_iff (fun {x y} => hs x y)

theorem strictB_symm (x y : PV) : strictB x y = true → strictB y x = true := by
  unfold strictB
  rw [cmp_swap x y]
  cases cmp x y <;> simp [Cmp.swap]

theorem strictB_cases {x y : PV} (h : strictB x y = true) : cmp x y = .lt ∨ cmp y x = .lt := by
  unfold strictB at h
  rw [cmp_swap x y]
  cases hc : cmp x y <;> simp [hc, Cmp.swap] at h ⊢

theorem insertP_perm (p : PV × PV) (ps : List (PV × PV)) : (insertP p ps).Perm (p :: ps) := by
  induction ps with
  | nil => exact List.Perm.refl _
  | cons q qs ih =>
    simp only [insertP]
    split
    · exact List.Perm.refl _
    · exact (List.Perm.cons q ih).trans (List.Perm.swap p q qs)

theorem isort_perm (ps : List (PV × PV)) : (isort ps).Perm ps := by
  induction ps with
  | nil => exact List.Perm.refl _
  | cons p ps ih => exact (insertP_perm p (isort ps)).trans (List.Perm.cons p ih)

def LtP (p q : PV × PV) : Prop := cmp p.1 q.1 = .lt

theorem insertP_sorted (p : PV × PV) (ps : List (PV × PV)) (hs : ∀ q ∈ ps, strictB p.1 q.1 = true)
    (hp : ps.Pairwise LtP) : (insertP p ps).Pairwise LtP := by
  induction ps with
  | nil => simp [insertP]
  | cons q qs ih =>
    rw [List.pairwise_cons] at hp
    simp only [insertP]
    split
    · rename_i hlt
      refine List.pairwise_cons.2 ⟨?_, List.pairwise_cons.2 hp⟩
      intro r hr
      cases hr with
      | head => exact hlt
      | tail _ hr => exact cmp_trans _ _ _ hlt (hp.1 r hr)
    · rename_i hnlt
      have hq : cmp q.1 p.1 = .lt := by
        rcases strictB_cases (hs q (List.mem_cons_self)) with h | h
        · exact absurd h hnlt
        · exact h
      refine List.pairwise_cons.2 ⟨?_, ih (fun r hr => hs r (List.mem_cons_of_mem _ hr)) hp.2⟩
      intro r hr
      have := (insertP_perm p qs).subset hr
      cases this with
      | head => exact hq
      | tail _ hr' => exact hp.1 r hr'

theorem isort_sorted (ps : List (PV × PV)) (hs : (ps.map Prod.fst).Pairwise (fun x y => strictB x y = true)) :
    (isort ps).Pairwise LtP := by
  induction ps with
  | nil => simp [isort]
  | cons p ps ih =>
    simp only [List.map_cons, List.pairwise_cons] at hs
    simp only [isort]
    refine insertP_sorted p (isort ps) ?_ (ih hs.2)
    intro q hq
    have hq' := (isort_perm ps).subset hq
    exact hs.1 q.1 (List.mem_map_of_mem hq')

theorem isort_eq_of_perm {ps qs : List (PV × PV)} (h : ps.Perm qs)
    (hs : (ps.map Prod.fst).Pairwise (fun x y => strictB x y = true)) : isort ps = isort qs := by
  have hs' : (qs.map Prod.fst).Pairwise (fun x y => strictB x y = true) :=
    ((h.map Prod.fst).pairwise_iff (fun {x y} => strictB_symm x y)).1 hs
  refine List.Perm.eq_of_pairwise (le := LtP) ?_ (isort_sorted ps hs) (isort_sorted qs hs')
    ((isort_perm ps).trans (h.trans (isort_perm qs).symm))
  intro a b _ _ h1 h2
  unfold LtP at h1 h2
  have := cmp_swap a.1 b.1
  rw [h1, h2] at this
  simp [Cmp.swap] at this

/-- `sorted` of a set / of the items of a mapping does not depend on the iteration order -/
theorem sortP_perm {ps qs : List (PV × PV)} (h : ps.Perm qs) : sortP ps = sortP qs := by
  have hk := h.map Prod.fst
  unfold sortP
  simp only []
  rw [pairwiseB_perm strictB strictB_symm hk,
    pairwiseB_perm (fun x y => decide (cmp x y ≠ .partialOrd)) (by
      intro x y; rw [cmp_swap x y]; cases cmp x y <;> simp [Cmp.swap]) hk,
    pairwiseB_perm (fun x y => decide (cmp x y ≠ .typeErr)) (by
      intro x y; rw [cmp_swap x y]; cases cmp x y <;> simp [Cmp.swap]) hk]
  split
  · rename_i hst
    rw [isort_eq_of_perm h.symm ((pairwiseB_iff _ _).1 hst)]
  · rfl

theorem sortP_ok_perm {ps s : List (PV × PV)} (h : sortP ps = .ok s) : s.Perm ps := by
  unfold sortP at h
  simp only [] at h
  split at h
  · cases h; exact isort_perm ps
  · split at h
    · cases h
    · split at h <;> cases h

/-! ### the conversion of the children as a map over the list -/
inductive All2 {α β : Type} (R : α → β → Prop) : List α → List β → Prop
  | nil : All2 R [] []
  | cons {x y xs ys} : R x y → All2 R xs ys → All2 R (x :: xs) (y :: ys)

/-- the conversion of one child: `(sort key, converted child)` -/
def conv1 (esc : Bool) : Mode → PV → Except Err (PV × PV)
  | .elem, x => match key esc x with
    | .ok c => .ok (x, c)
    | .error e => .error e
  | .item, .node .tuple [k, v] => match key esc v with
    | .ok c => .ok (k, tup [k, c])
    | .error e => .error e
  | .item, _ => .error .malformed
  | .rawItem, .node .tuple [k, v] => .ok (k, tup [k, v])
  | .rawItem, _ => .error .malformed
  | .rawAtom, x => if isAtom x then .ok (x, x) else .error .malformed
  | .leaf, _ => .error .malformed

def mapE (f : PV → Except Err (PV × PV)) : List PV → Except Err (List (PV × PV))
  | [] => .ok []
  | x :: xs => match f x with
    | .error e => .error e
    | .ok c => match mapE f xs with
      | .error e => .error e
      | .ok cs => .ok (c :: cs)

theorem convElems_eq (esc : Bool) (xs : List PV) : convElems esc xs = mapE (conv1 esc .elem) xs := by
  induction xs with
  | nil => simp [convElems, mapE]
  | cons x xs ih =>
    simp only [convElems, mapE, conv1, ih]
    cases key esc x <;> simp only [bind, Except.bind]
    cases mapE (conv1 esc Mode.elem) xs <;> rfl

theorem convItems_eq (esc : Bool) (xs : List PV) : convItems esc xs = mapE (conv1 esc .item) xs := by
  induction xs with
  | nil => simp [convItems, mapE]
  | cons x xs ih =>
    cases x with
    | atom a => simp [convItems, mapE, conv1]
    | node k ys =>
      by_cases hk : k = .tuple
      · subst hk
        match ys with
        | [] => simp [convItems, mapE, conv1]
        | [_] => simp [convItems, mapE, conv1]
        | [k, v] =>
          simp only [convItems, mapE, conv1, ih]
          cases key esc v <;> simp only [bind, Except.bind]
          cases mapE (conv1 esc Mode.item) xs <;> rfl
        | _ :: _ :: _ :: _ => simp [convItems, mapE, conv1]
      · cases k <;> simp_all [convItems, mapE, conv1]

theorem rawItems_eq (xs : List PV) : rawItems xs = mapE (conv1 esc .rawItem) xs := by
  induction xs with
  | nil => simp [rawItems, mapE]
  | cons x xs ih =>
    cases x with
    | atom a => simp [rawItems, mapE, conv1]
    | node k ys =>
      by_cases hk : k = .tuple
      · subst hk
        match ys with
        | [] => simp [rawItems, mapE, conv1]
        | [_] => simp [rawItems, mapE, conv1]
        | [k, v] =>
          simp only [rawItems, mapE, conv1, ih]
          simp only [bind, Except.bind]
          cases mapE (conv1 esc Mode.rawItem) xs <;> rfl
        | _ :: _ :: _ :: _ => simp [rawItems, mapE, conv1]
      · cases k <;> simp_all [rawItems, mapE, conv1]

theorem rawAtoms_eq (xs : List PV) : rawAtoms xs = mapE (conv1 esc .rawAtom) xs := by
  induction xs with
  | nil => simp [rawAtoms, mapE]
  | cons x xs ih =>
    simp only [rawAtoms, mapE, conv1, ih]
    cases isAtom x <;> simp only [bind, Except.bind, if_true, if_false, Bool.false_eq_true]
    cases mapE (conv1 esc Mode.rawAtom) xs <;> rfl

/-- the shape of `key`: an object that is returned as it is, or the tagged tuple built from the converted children -/
theorem key_node (esc : Bool) (k : Kind) (xs : List PV) (r : PV) (h : key esc (.node k xs) = .ok r) :
    ((hashable (.node k xs) && !(esc && markerHeaded (.node k xs))) = true ∧ r = .node k xs) ∨
    ((hashable (.node k xs) && !(esc && markerHeaded (.node k xs))) = false ∧
      ∃ cs s, mapE (conv1 esc k.mode) xs = .ok cs ∧ sortIf k cs = .ok s ∧
        r = tagged k.cls (k.wrap (s.map Prod.snd))) := by
  unfold key at h
  split at h
  · rename_i hraw; left; cases h; exact ⟨hraw, rfl⟩
  · rename_i hraw
    right
    refine ⟨by simpa using hraw, ?_⟩
    have fin : ∀ cs, finish k cs = .ok r → ∃ s, sortIf k cs = .ok s ∧ r = tagged k.cls (k.wrap (s.map Prod.snd)) := by
      intro cs hf
      unfold finish at hf
      cases hs : sortIf k cs with
      | error e => rw [hs] at hf; cases hf
      | ok s => rw [hs] at hf; cases hf; exact ⟨s, rfl, rfl⟩
    split at h
    · rename_i hm
      rw [convElems_eq, ← hm] at h
      cases hc : mapE (conv1 esc k.mode) xs with
      | error e => rw [hc] at h; cases h
      | ok cs => rw [hc] at h; obtain ⟨s, h1, h2⟩ := fin cs h; exact ⟨cs, s, rfl, h1, h2⟩
    · rename_i hm
      rw [convItems_eq, ← hm] at h
      cases hc : mapE (conv1 esc k.mode) xs with
      | error e => rw [hc] at h; cases h
      | ok cs => rw [hc] at h; obtain ⟨s, h1, h2⟩ := fin cs h; exact ⟨cs, s, rfl, h1, h2⟩
    · rename_i hm
      rw [rawItems_eq (esc := esc), ← hm] at h
      cases hc : mapE (conv1 esc k.mode) xs with
      | error e => rw [hc] at h; cases h
      | ok cs => rw [hc] at h; obtain ⟨s, h1, h2⟩ := fin cs h; exact ⟨cs, s, rfl, h1, h2⟩
    · rename_i hm
      rw [rawAtoms_eq (esc := esc), ← hm] at h
      cases hc : mapE (conv1 esc k.mode) xs with
      | error e => rw [hc] at h; cases h
      | ok cs => rw [hc] at h; obtain ⟨s, h1, h2⟩ := fin cs h; exact ⟨cs, s, rfl, h1, h2⟩
    · rename_i hm
      cases xs with
      | nil => obtain ⟨s, h1, h2⟩ := fin [] h; exact ⟨[], s, rfl, h1, h2⟩
      | cons x xs => cases h

/-! ### facts about `mapE`, `All2` and permutations -/
theorem mapE_all2 {f : PV → Except Err (PV × PV)} : ∀ {xs cs}, mapE f xs = .ok cs → All2 (fun x c => f x = .ok c) xs cs
  | [], cs, h => by simp [mapE] at h; cases h; exact .nil
  | x :: xs, cs, h => by
    simp only [mapE] at h
    cases hx : f x with
    | error e => rw [hx] at h; cases h
    | ok c =>
      rw [hx] at h
      cases hxs : mapE f xs with
      | error e => rw [hxs] at h; cases h
      | ok cs' => rw [hxs] at h; cases h; exact .cons hx (mapE_all2 hxs)

theorem all2_mapE {f : PV → Except Err (PV × PV)} {xs cs} (h : All2 (fun x c => f x = .ok c) xs cs) : mapE f xs = .ok cs := by
  induction h with
  | nil => rfl
  | cons hx _ ih => simp [mapE, hx, ih]

theorem All2.flip {α β : Type} {R : α → β → Prop} {xs ys} (h : All2 R xs ys) : All2 (fun y x => R x y) ys xs := by
  induction h with
  | nil => exact .nil
  | cons h _ ih => exact .cons h ih

theorem All2.mono {α β : Type} {R S : α → β → Prop} {xs ys} (h : All2 R xs ys) (hrs : ∀ x ∈ xs, ∀ y ∈ ys, R x y → S x y) :
    All2 S xs ys := by
  induction h with
  | nil => exact .nil
  | cons h _ ih =>
    exact .cons (hrs _ List.mem_cons_self _ List.mem_cons_self h)
      (ih (fun x hx y hy => hrs x (List.mem_cons_of_mem _ hx) y (List.mem_cons_of_mem _ hy)))

theorem All2.perm_right {α β : Type} {R : α → β → Prop} {cs s : List β} (hp : cs.Perm s) :
    ∀ {xs : List α}, All2 R xs cs → ∃ xs', xs.Perm xs' ∧ All2 R xs' s := by
  induction hp with
  | nil => intro xs h; exact ⟨xs, .refl _, h⟩
  | cons c _ ih =>
    intro xs h
    cases h with
    | cons hx hxs =>
      obtain ⟨xs', hp', h'⟩ := ih hxs
      exact ⟨_ :: xs', hp'.cons _, .cons hx h'⟩
  | swap a b l =>
    intro xs h
    cases h with
    | cons hx hxs =>
      cases hxs with
      | cons hy hys => exact ⟨_, List.Perm.swap _ _ _, .cons hy (.cons hx hys)⟩
  | trans _ _ ih1 ih2 =>
    intro xs h
    obtain ⟨xs1, hp1, h1⟩ := ih1 h
    obtain ⟨xs2, hp2, h2⟩ := ih2 h1
    exact ⟨xs2, hp1.trans hp2, h2⟩

theorem All2.perm_left {α β : Type} {R : α → β → Prop} {xs xs' : List α} (hp : xs.Perm xs') {cs : List β}
    (h : All2 R xs cs) : ∃ cs', cs.Perm cs' ∧ All2 R xs' cs' := by
  obtain ⟨cs', hp', h'⟩ := All2.perm_right hp h.flip
  exact ⟨cs', hp', h'.flip⟩

/-! ### facts about `Equiv` -/
theorem equivL_of_all2 {xs ys : List PV} (h : All2 Equiv xs ys) : EquivL xs ys := by
  induction h with
  | nil => exact .nil
  | cons h _ ih => exact .cons _ _ _ _ h ih

theorem all2_of_equivL : ∀ {xs ys : List PV}, EquivL xs ys → All2 Equiv xs ys
  | [], _, h => by cases h; exact .nil
  | x :: xs, _, h => by cases h with | cons _ _ _ _ h1 h2 => exact .cons h1 (all2_of_equivL h2)

theorem all2_refl {R : PV → PV → Prop} : ∀ {xs : List PV}, (∀ x ∈ xs, R x x) → All2 R xs xs
  | [], _ => .nil
  | x :: xs, h => .cons (h x List.mem_cons_self) (all2_refl (fun y hy => h y (List.mem_cons_of_mem _ hy)))

theorem permIf_refl (k : Kind) (xs : List PV) : (if k.ordered then xs = xs else xs.Perm xs) := by
  split
  · rfl
  · exact .refl _

theorem Equiv.refl : ∀ a, Equiv a a := by
  intro a
  induction a using PV.ind with
  | hatom a => exact .atom a
  | hnode k xs ih => exact .node k xs xs xs xs (permIf_refl k xs) (equivL_of_all2 (all2_refl ih)) (permIf_refl k xs)

/-- congruence for an ordered container -/
theorem Equiv.ordered {k : Kind} (hk : k.ordered = true) {xs ys : List PV} (h : All2 Equiv xs ys) :
    Equiv (.node k xs) (.node k ys) :=
  .node k xs xs ys ys (by simp [hk]) (equivL_of_all2 h) (by simp [hk])

/-! ### injectivity of the pieces -/
theorem tagged_inj {c c' : Cls} {p p' : PV} (h : tagged c p = tagged c' p') : c = c' ∧ p = p' := by
  simp [tagged, tup] at h
  exact h

theorem markerHeaded_tagged (c : Cls) (p : PV) : markerHeaded (tagged c p) = true := by
  simp [tagged, tup, markerHeaded]

theorem natAtom_inj {n m : Nat} (h : natAtom n = natAtom m) : n = m := by
  simp [natAtom] at h
  omega

theorem map_natAtom_inj : ∀ {a b : List Nat}, a.map natAtom = b.map natAtom → a = b
  | [], [], _ => rfl
  | [], _ :: _, h => by simp at h
  | _ :: _, [], h => by simp at h
  | x :: a, y :: b, h => by
    simp only [List.map_cons, List.cons.injEq] at h
    rw [natAtom_inj h.1, map_natAtom_inj h.2]

theorem wrap_inj {k k' : Kind} {A B : List PV} (hc : k.cls = k'.cls) (hw : k.wrap A = k'.wrap B) :
    k = k' ∧ (k.mode ≠ .leaf → A = B) := by
  cases k <;> cases k' <;> simp only [Kind.cls, reduceCtorEq] at hc
  case ndarray.ndarray sh dt sh' dt' =>
    simp only [Kind.wrap, tup, PV.node.injEq, List.cons.injEq, PV.atom.injEq, Atom.str.injEq, and_true, true_and] at hw
    obtain ⟨h1, h2, h3⟩ := hw
    have h1' := map_natAtom_inj h1
    subst h1'; subst h2; subst h3
    simp
  case deque.deque m1 m2 =>
    simp only [Kind.wrap, tup, PV.node.injEq, List.cons.injEq, and_true, true_and] at hw
    obtain ⟨h1, h2⟩ := hw
    subst h2
    cases m1 <;> cases m2 <;> simp_all [natAtom]
    omega
  all_goals
    simp only [Kind.wrap, tup, PV.node.injEq, List.cons.injEq, PV.atom.injEq, Atom.str.injEq, and_true, true_and] at hw
    simp_all [Kind.mode]

/-! ### the shape of one converted child -/
theorem conv1_elem {esc : Bool} {x : PV} {p : PV × PV} (h : conv1 esc .elem x = .ok p) :
    ∃ c, key esc x = .ok c ∧ p = (x, c) := by
  simp only [conv1] at h
  cases hc : key esc x with
  | error e => rw [hc] at h; cases h
  | ok c => rw [hc] at h; cases h; exact ⟨c, rfl, rfl⟩

theorem conv1_item {esc : Bool} {x : PV} {p : PV × PV} (h : conv1 esc .item x = .ok p) :
    ∃ k v c, x = tup [k, v] ∧ key esc v = .ok c ∧ p = (k, tup [k, c]) := by
  cases x with
  | atom a => simp [conv1] at h
  | node k ys =>
    by_cases hk : k = .tuple
    · subst hk
      match ys, h with
      | [], h => simp [conv1] at h
      | [_], h => simp [conv1] at h
      | [k, v], h =>
        simp only [conv1] at h
        cases hc : key esc v with
        | error e => rw [hc] at h; cases h
        | ok c => rw [hc] at h; cases h; exact ⟨k, v, c, rfl, hc, rfl⟩
      | _ :: _ :: _ :: _, h => simp [conv1] at h
    · cases k <;> simp_all [conv1]

theorem conv1_rawItem {esc : Bool} {x : PV} {p : PV × PV} (h : conv1 esc .rawItem x = .ok p) :
    ∃ k v, x = tup [k, v] ∧ p = (k, x) := by
  cases x with
  | atom a => simp [conv1] at h
  | node k ys =>
    by_cases hk : k = .tuple
    · subst hk
      match ys, h with
      | [], h => simp [conv1] at h
      | [_], h => simp [conv1] at h
      | [k, v], h =>
        simp only [conv1] at h
        cases h; exact ⟨k, v, rfl, rfl⟩
      | _ :: _ :: _ :: _, h => simp [conv1] at h
    · cases k <;> simp_all [conv1]

theorem conv1_rawAtom {esc : Bool} {x : PV} {p : PV × PV} (h : conv1 esc .rawAtom x = .ok p) :
    isAtom x = true ∧ p = (x, x) := by
  simp only [conv1] at h
  cases hc : isAtom x with
  | false => rw [hc] at h; simp at h
  | true => rw [hc] at h; simp at h; exact ⟨rfl, h.symm⟩

theorem conv1_leaf {esc : Bool} {x : PV} {p : PV × PV} (h : conv1 esc .leaf x = .ok p) : False := by
  simp [conv1] at h

theorem ordered_eq_not_sorted (k : Kind) : k.ordered = !k.sorted := by cases k <;> rfl

theorem sortIf_perm {k : Kind} {cs s : List (PV × PV)} (h : sortIf k cs = .ok s) :
    (if k.ordered then s = cs else s.Perm cs) := by
  unfold sortIf at h
  rw [ordered_eq_not_sorted]
  cases hk : k.sorted
  · rw [hk] at h; simp at h; simp [h]
  · rw [hk] at h; simp only [if_true] at h; simp only [Bool.not_true, Bool.false_eq_true, if_false]; exact sortP_ok_perm h

theorem permIf_mem {k : Kind} {xs xs' : List PV} (h : if k.ordered then xs = xs' else xs.Perm xs') {x : PV} (hx : x ∈ xs') :
    x ∈ xs := by
  split at h
  · rw [h]; exact hx
  · exact h.symm.subset hx

/-- the children listed in the order of the (sorted) converted list -/
theorem reorder {k : Kind} {R : PV → PV × PV → Prop} {xs : List PV} {cs s : List (PV × PV)} (h : All2 R xs cs)
    (hs : sortIf k cs = .ok s) : ∃ xs', (if k.ordered then xs = xs' else xs.Perm xs') ∧ All2 R xs' s := by
  have hp := sortIf_perm hs
  cases hk : k.ordered
  · rw [hk] at hp; simp only [Bool.false_eq_true, if_false] at hp ⊢
    exact All2.perm_right hp.symm h
  · rw [hk] at hp; simp only [if_true] at hp ⊢
    exact ⟨xs, rfl, hp ▸ h⟩

theorem all2_equiv_of_conv {C : PV → PV × PV → Prop} {xs ys : List PV} :
    ∀ {sa sb : List (PV × PV)}, All2 C xs sa → All2 C ys sb → sa.map Prod.snd = sb.map Prod.snd →
    (∀ x ∈ xs, ∀ y p q, C x p → C y q → p.2 = q.2 → Equiv x y) → All2 Equiv xs ys := by
  intro sa sb ha
  induction ha generalizing ys sb with
  | nil =>
    intro hb he _
    cases hb with
    | nil => exact .nil
    | cons _ _ => simp at he
  | cons hx _ ih =>
    intro hb he hpt
    cases hb with
    | nil => simp at he
    | cons hy hys =>
      simp only [List.map_cons, List.cons.injEq] at he
      exact .cons (hpt _ List.mem_cons_self _ _ _ hx hy he.1)
        (ih hys he.2 (fun x hx => hpt x (List.mem_cons_of_mem _ hx)))

theorem conv1_inj {m : Mode} {x y : PV} {p q : PV × PV} (hx : conv1 true m x = .ok p) (hy : conv1 true m y = .ok q)
    (hpq : p.2 = q.2)
    (ihx : ∀ y r, key true x = .ok r → key true y = .ok r → Equiv x y)
    (ihc : ∀ k' zs, x = .node k' zs → ∀ v ∈ zs, ∀ y r, key true v = .ok r → key true y = .ok r → Equiv v y) :
    Equiv x y := by
  cases m with
  | elem =>
    obtain ⟨c, hc, rfl⟩ := conv1_elem hx
    obtain ⟨c', hc', rfl⟩ := conv1_elem hy
    simp only at hpq; subst hpq
    exact ihx y c hc hc'
  | item =>
    obtain ⟨k, v, c, rfl, hc, rfl⟩ := conv1_item hx
    obtain ⟨k', v', c', rfl, hc', rfl⟩ := conv1_item hy
    simp only [tup, PV.node.injEq, List.cons.injEq, and_true, true_and] at hpq
    obtain ⟨rfl, rfl⟩ := hpq
    have hv : Equiv v v' := ihc .tuple [k, v] rfl v (by simp) v' c hc hc'
    exact Equiv.ordered rfl (.cons (Equiv.refl k) (.cons hv .nil))
  | rawItem =>
    obtain ⟨k, v, rfl, rfl⟩ := conv1_rawItem hx
    obtain ⟨k', v', rfl, rfl⟩ := conv1_rawItem hy
    simp only at hpq; rw [hpq]; exact Equiv.refl _
  | rawAtom =>
    obtain ⟨_, rfl⟩ := conv1_rawAtom hx
    obtain ⟨_, rfl⟩ := conv1_rawAtom hy
    simp only at hpq; rw [hpq]; exact Equiv.refl _
  | leaf => exact (conv1_leaf hx).elim

theorem atom_ne_tagged {a : Atom} {c : Cls} {p : PV} : PV.atom a ≠ tagged c p := by
  simp [tagged, tup]

/-- equal keys only for the same value (the repaired code) -/
theorem key_injective : ∀ a b r, key true a = .ok r → key true b = .ok r → Equiv a b := by
  intro a
  induction a using PV.ind2 with
  | hatom a =>
    intro b r ha hb
    simp only [key] at ha
    cases ha
    cases b with
    | atom b' => simp only [key] at hb; cases hb; exact .atom _
    | node k ys =>
      rcases key_node true k ys _ hb with ⟨_, h⟩ | ⟨_, cs, s, _, _, h⟩
      · cases h
      · exact absurd h atom_ne_tagged
  | hnode k xs ih ih2 =>
    intro b r ha hb
    cases b with
    | atom b' =>
      simp only [key] at hb
      cases hb
      rcases key_node true k xs _ ha with ⟨_, h⟩ | ⟨_, cs, s, _, _, h⟩
      · cases h
      · exact absurd h atom_ne_tagged
    | node k' ys =>
      rcases key_node true k xs r ha with ⟨hra, rfl⟩ | ⟨hra, csa, sa, hca, hsa, rfl⟩
      · rcases key_node true k' ys _ hb with ⟨hrb, h⟩ | ⟨hrb, csb, sb, hcb, hsb, h⟩
        · rw [← h]; exact Equiv.refl _
        · rw [h, markerHeaded_tagged] at hra; simp at hra
      · rcases key_node true k' ys _ hb with ⟨hrb, h⟩ | ⟨hrb, csb, sb, hcb, hsb, h⟩
        · rw [← h, markerHeaded_tagged] at hrb; simp at hrb
        · obtain ⟨hc, hw⟩ := tagged_inj h
          obtain ⟨rfl, hAB⟩ := wrap_inj hc hw
          by_cases hleaf : k.mode = .leaf
          · rw [hleaf] at hca hcb
            have hx : xs = [] := by
              cases xs with
              | nil => rfl
              | cons x xs => simp [mapE, conv1] at hca
            have hy : ys = [] := by
              cases ys with
              | nil => rfl
              | cons y ys => simp [mapE, conv1] at hcb
            rw [hx, hy]; exact Equiv.refl _
          · have hAB := hAB hleaf
            obtain ⟨xs', hpx, hax⟩ := reorder (mapE_all2 hca) hsa
            obtain ⟨ys', hpy, hay⟩ := reorder (mapE_all2 hcb) hsb
            have hall : All2 Equiv xs' ys' := by
              refine all2_equiv_of_conv hax hay hAB ?_
              intro x hx y p q hxp hyq hpq
              have hxm := permIf_mem hpx hx
              exact conv1_inj hxp hyq hpq (ih x hxm) (ih2 x hxm)
            refine .node k xs xs' ys' ys hpx (equivL_of_all2 hall) ?_
            split at hpy
            · simp [*]
            · simp [*]; exact hpy.symm

/-! ### the key is hashable -/
theorem hashableL_iff {xs : List PV} : hashableL xs = true ↔ ∀ x ∈ xs, hashable x = true := by
  induction xs with
  | nil => simp [hashableL]
  | cons x xs ih => simp [hashableL, ih]

theorem wfL_iff {xs : List PV} : wfL xs = true ↔ ∀ x ∈ xs, wf x = true := by
  induction xs with
  | nil => simp [wfL]
  | cons x xs ih => simp [wfL, ih]

theorem comparableL_iff {xs : List PV} : comparableL xs = true ↔ ∀ x ∈ xs, comparable x = true := by
  induction xs with
  | nil => simp [comparableL]
  | cons x xs ih => simp [comparableL, ih]

theorem itemsOk_mem : ∀ {xs : List PV}, itemsOk xs = true → ∀ x ∈ xs, ∃ k v, x = tup [k, v] ∧ hashable k = true
  | [], _, x, hx => by cases hx
  | y :: ys, h, x, hx => by
    have key : (∃ k v, y = tup [k, v] ∧ hashable k = true) ∧ itemsOk ys = true := by
      cases y with
      | atom a => simp [itemsOk] at h
      | node k zs =>
        by_cases hk : k = .tuple
        · subst hk
          match zs, h with
          | [], h => simp [itemsOk] at h
          | [_], h => simp [itemsOk] at h
          | [k, v], h => simp only [itemsOk, Bool.and_eq_true] at h; exact ⟨⟨k, v, rfl, h.1⟩, h.2⟩
          | _ :: _ :: _ :: _, h => simp [itemsOk] at h
        · cases k <;> simp_all [itemsOk]
    cases hx with
    | head => exact key.1
    | tail _ hx => exact itemsOk_mem key.2 x hx

theorem hashable_tagged (c : Cls) (p : PV) : hashable (tagged c p) = hashable p := by
  simp [tagged, tup, hashable, hashableL, Kind.hashableKind]

theorem hashable_tup (xs : List PV) : hashable (tup xs) = hashableL xs := by
  simp [tup, hashable, Kind.hashableKind]

theorem hashableL_natAtoms (l : List Nat) : hashableL (l.map natAtom) = true := by
  induction l with
  | nil => rfl
  | cons n l ih => simp [hashableL, natAtom, hashable, ih]

theorem hashable_wrap (k : Kind) (body : List PV) (h : hashableL body = true) : hashable (k.wrap body) = true := by
  cases k <;> simp [Kind.wrap, hashable_tup, hashableL, hashable, h, hashableL_natAtoms, natAtom]
  case deque ml => cases ml <;> simp [hashable, natAtom]

theorem All2.mem_right {α β : Type} {R : α → β → Prop} {xs : List α} {ys : List β} (h : All2 R xs ys) :
    ∀ y ∈ ys, ∃ x ∈ xs, R x y := by
  induction h with
  | nil => intro y hy; cases hy
  | cons hxy _ ih =>
    intro y hy
    cases hy with
    | head => exact ⟨_, List.mem_cons_self, hxy⟩
    | tail _ hy => obtain ⟨x, hx, hr⟩ := ih y hy; exact ⟨x, List.mem_cons_of_mem _ hx, hr⟩

theorem sortIf_mem {k : Kind} {cs s : List (PV × PV)} (h : sortIf k cs = .ok s) {p : PV × PV} (hp : p ∈ s) : p ∈ cs := by
  have := sortIf_perm h
  split at this
  · rw [← this]; exact hp
  · exact this.subset hp

theorem wf_children {k : Kind} {xs : List PV} (h : wf (.node k xs) = true) : ∀ x ∈ xs, wf x = true := by
  unfold wf at h
  simp only [Bool.and_eq_true] at h
  exact wfL_iff.1 h.1

theorem wf_item {k v : PV} (h : wf (tup [k, v]) = true) : wf v = true := by
  simp [tup, wf, wfL] at h
  exact h.2

/-- the converted child is hashable, given that the keys of its own children are -/
theorem conv1_hashable {esc : Bool} {k : Kind} {xs : List PV} (hwf : wf (.node k xs) = true) {x : PV} (hx : x ∈ xs)
    {p : PV × PV} (hp : conv1 esc k.mode x = .ok p)
    (ihx : ∀ r, wf x = true → key esc x = .ok r → hashable r = true)
    (ihc : ∀ k' zs, x = .node k' zs → ∀ v ∈ zs, ∀ r, wf v = true → key esc v = .ok r → hashable r = true) :
    hashable p.2 = true := by
  have hwx := wf_children hwf x hx
  cases hm : k.mode with
  | elem =>
    rw [hm] at hp
    obtain ⟨c, hc, rfl⟩ := conv1_elem hp
    exact ihx c hwx hc
  | item =>
    rw [hm] at hp
    obtain ⟨kk, v, c, rfl, hc, rfl⟩ := conv1_item hp
    have hio : itemsOk xs = true := by
      cases k <;> simp [Kind.mode] at hm <;> (unfold wf at hwf; simp only [Bool.and_eq_true] at hwf; exact hwf.2)
    obtain ⟨k2, v2, he, hk2⟩ := itemsOk_mem hio _ hx
    simp only [tup, PV.node.injEq, List.cons.injEq, and_true, true_and] at he
    obtain ⟨rfl, rfl⟩ := he
    have hv := ihc .tuple [kk, v] rfl v (by simp) c (wf_item hwx) hc
    simp [hashable_tup, hashableL, hk2, hv]
  | rawItem =>
    rw [hm] at hp
    obtain ⟨kk, v, rfl, rfl⟩ := conv1_rawItem hp
    have hh : hashableL xs = true := by
      cases k <;> simp [Kind.mode] at hm
      unfold wf at hwf; simp only [Bool.and_eq_true] at hwf; exact hwf.2.2
    exact hashableL_iff.1 hh _ hx
  | rawAtom =>
    rw [hm] at hp
    obtain ⟨ha, rfl⟩ := conv1_rawAtom hp
    cases x with
    | atom a => rfl
    | node _ _ => simp [isAtom] at ha
  | leaf => rw [hm] at hp; exact (conv1_leaf hp).elim

/-- `to_hashable` returns a hashable key -/
theorem key_hashable (esc : Bool) : ∀ v r, wf v = true → key esc v = .ok r → hashable r = true := by
  intro v
  induction v using PV.ind2 with
  | hatom a => intro r _ h; simp only [key] at h; cases h; rfl
  | hnode k xs ih ih2 =>
    intro r hwf h
    rcases key_node esc k xs r h with ⟨hraw, rfl⟩ | ⟨_, cs, s, hcs, hs, rfl⟩
    · simp only [Bool.and_eq_true] at hraw; exact hraw.1
    · rw [hashable_tagged]
      apply hashable_wrap
      rw [hashableL_iff]
      intro c hc
      obtain ⟨p, hp, rfl⟩ := List.mem_map.1 hc
      obtain ⟨x, hx, hxp⟩ := (mapE_all2 hcs).mem_right p (sortIf_mem hs hp)
      exact conv1_hashable hwf hx hxp (ih x hx) (ih2 x hx)

/-! ### the key does not depend on the iteration order of sets and mappings -/
theorem key_node_eq (esc : Bool) (k : Kind) (xs : List PV) :
    key esc (.node k xs) =
      if hashable (.node k xs) && !(esc && markerHeaded (.node k xs)) then .ok (.node k xs)
      else match mapE (conv1 esc k.mode) xs with
        | .ok cs => finish k cs
        | .error e => .error e := by
  conv => lhs; unfold key
  split
  · rfl
  · cases hm : k.mode with
    | elem => simp only [convElems_eq, bind, Except.bind]; cases mapE (conv1 esc Mode.elem) xs <;> rfl
    | item => simp only [convItems_eq, bind, Except.bind]; cases mapE (conv1 esc Mode.item) xs <;> rfl
    | rawItem => simp only [rawItems_eq (esc := esc), bind, Except.bind]; cases mapE (conv1 esc Mode.rawItem) xs <;> rfl
    | rawAtom => simp only [rawAtoms_eq (esc := esc), bind, Except.bind]; cases mapE (conv1 esc Mode.rawAtom) xs <;> rfl
    | leaf =>
      cases xs with
      | nil => simp [mapE]
      | cons x xs => simp [mapE, conv1]

theorem equiv_atom_inv {a : Atom} {b : PV} (h : Equiv (.atom a) b) : b = .atom a := by cases h; rfl

theorem equiv_node_inv {k : Kind} {xs : List PV} {b : PV} (h : Equiv (.node k xs) b) :
    ∃ xs' ys' ys, b = .node k ys ∧ (if k.ordered then xs = xs' else xs.Perm xs') ∧ All2 Equiv xs' ys' ∧
      (if k.ordered then ys' = ys else ys'.Perm ys) := by
  cases h with
  | node _ _ xs' ys' ys h1 h2 h3 => exact ⟨xs', ys', ys, rfl, h1, all2_of_equivL h2, h3⟩

theorem equiv_pair_inv {k v y : PV} (h : Equiv (tup [k, v]) y) : ∃ k' v', y = tup [k', v'] ∧ Equiv k k' ∧ Equiv v v' := by
  obtain ⟨xs', ys', ys, rfl, h1, h2, h3⟩ := equiv_node_inv h
  simp only [Kind.ordered, if_true] at h1 h3
  subst h1; subst h3
  cases h2 with
  | cons hk h2 =>
    cases h2 with
    | cons hv h2 =>
      cases h2
      exact ⟨_, _, rfl, hk, hv⟩

theorem all2_hashable {xs ys : List PV} (h : All2 Equiv xs ys)
    (ih : ∀ x ∈ xs, ∀ y, Equiv x y → hashable x = hashable y ∧ (hashable x = true → x = y)) :
    hashableL xs = hashableL ys ∧ (hashableL xs = true → xs = ys) := by
  induction h with
  | nil => exact ⟨rfl, fun _ => rfl⟩
  | cons hxy _ ih2 =>
    obtain ⟨h1, h2⟩ := ih _ List.mem_cons_self _ hxy
    obtain ⟨h3, h4⟩ := ih2 (fun x hx => ih x (List.mem_cons_of_mem _ hx))
    refine ⟨by simp only [hashableL, h1, h3], ?_⟩
    intro hh
    simp only [hashableL, Bool.and_eq_true] at hh
    rw [h2 hh.1, h4 hh.2]

/-- hashable values contain no set or mapping: the same value is the identical value -/
theorem equiv_hashable : ∀ a b, Equiv a b → hashable a = hashable b ∧ (hashable a = true → a = b) := by
  intro a
  induction a using PV.ind with
  | hatom a => intro b h; rw [equiv_atom_inv h]; exact ⟨rfl, fun _ => rfl⟩
  | hnode k xs ih =>
    intro b h
    obtain ⟨xs', ys', ys, rfl, h1, h2, h3⟩ := equiv_node_inv h
    cases hk : k.hashableKind with
    | false => simp [hashable, hk]
    | true =>
      have ho : k.ordered = true := by cases k <;> simp_all [Kind.hashableKind, Kind.ordered]
      simp only [ho, if_true] at h1 h3
      subst h1; subst h3
      obtain ⟨e1, e2⟩ := all2_hashable h2 ih
      refine ⟨by simp only [hashable, hk, e1], ?_⟩
      intro hh
      simp only [hashable, hk, Bool.true_and] at hh
      rw [e2 hh]

/-- converting an equivalent child gives the same converted child, and the same sort key when that is hashable -/
theorem conv1_congr {m : Mode} {x y : PV} {p : PV × PV} (he : Equiv x y) (hp : conv1 true m x = .ok p)
    (ihx : ∀ y r, Equiv x y → key true x = .ok r → key true y = .ok r)
    (ihc : ∀ k' zs, x = .node k' zs → ∀ v ∈ zs, ∀ y r, Equiv v y → key true v = .ok r → key true y = .ok r)
    (hitem : m = .item → ∀ k v, x = tup [k, v] → hashable k = true)
    (hraw : m = .rawItem → hashable x = true) :
    ∃ q, conv1 true m y = .ok q ∧ q.2 = p.2 ∧ (hashable p.1 = true → q.1 = p.1) := by
  cases m with
  | elem =>
    obtain ⟨c, hc, rfl⟩ := conv1_elem hp
    refine ⟨(y, c), by simp [conv1, ihx y c he hc], rfl, ?_⟩
    intro hh
    exact ((equiv_hashable x y he).2 hh).symm
  | item =>
    obtain ⟨k, v, c, rfl, hc, rfl⟩ := conv1_item hp
    obtain ⟨k', v', rfl, hk, hv⟩ := equiv_pair_inv he
    have hkk : k = k' := (equiv_hashable k k' hk).2 (hitem rfl k v rfl)
    subst hkk
    have hc' := ihc .tuple [k, v] rfl v (by simp) v' c hv hc
    exact ⟨(k, tup [k, c]), by simp [conv1, tup, hc'], rfl, fun _ => rfl⟩
  | rawItem =>
    obtain ⟨k, v, rfl, rfl⟩ := conv1_rawItem hp
    have := (equiv_hashable _ _ he).2 (hraw rfl)
    subst this
    exact ⟨_, hp, rfl, fun _ => rfl⟩
  | rawAtom =>
    obtain ⟨ha, rfl⟩ := conv1_rawAtom hp
    cases x with
    | atom a => rw [equiv_atom_inv he]; exact ⟨_, hp, rfl, fun _ => rfl⟩
    | node _ _ => simp [isAtom] at ha
  | leaf => exact (conv1_leaf hp).elim

def ConvRel (p q : PV × PV) : Prop := q.2 = p.2 ∧ (hashable p.1 = true → q.1 = p.1)

theorem all2_congr {m : Mode} {xs ys : List PV} (h : All2 Equiv xs ys) :
    ∀ {cs : List (PV × PV)}, All2 (fun x p => conv1 true m x = .ok p) xs cs →
    (∀ x ∈ xs, ∀ y p, Equiv x y → conv1 true m x = .ok p → ∃ q, conv1 true m y = .ok q ∧ ConvRel p q) →
    ∃ cs', All2 (fun y q => conv1 true m y = .ok q) ys cs' ∧ All2 ConvRel cs cs' := by
  induction h with
  | nil => intro cs hc _; cases hc; exact ⟨[], .nil, .nil⟩
  | cons hxy _ ih =>
    intro cs hc hpt
    cases hc with
    | cons hx hxs =>
      obtain ⟨q, hq, hr⟩ := hpt _ List.mem_cons_self _ _ hxy hx
      obtain ⟨cs', h1, h2⟩ := ih hxs (fun x hx => hpt x (List.mem_cons_of_mem _ hx))
      exact ⟨q :: cs', .cons hq h1, .cons hr h2⟩

theorem convRel_snd {cs cs' : List (PV × PV)} (h : All2 ConvRel cs cs') : cs'.map Prod.snd = cs.map Prod.snd := by
  induction h with
  | nil => rfl
  | cons h _ ih => simp [h.1, ih]

theorem convRel_eq {cs cs' : List (PV × PV)} (h : All2 ConvRel cs cs') (hh : ∀ p ∈ cs, hashable p.1 = true) : cs' = cs := by
  induction h with
  | nil => rfl
  | @cons p q _ _ h _ ih =>
    have h1 := h.1
    have h2 := h.2 (hh _ List.mem_cons_self)
    have : q = p := Prod.ext h2 h1
    rw [this, ih (fun p hp => hh p (List.mem_cons_of_mem _ hp))]

/-- the sort keys of a sorted container are hashable values (set elements, mapping keys) -/
theorem sortKey_hashable {k : Kind} {xs : List PV} (hwf : wf (.node k xs) = true) (hs : k.sorted = true) {x : PV} (hx : x ∈ xs)
    {p : PV × PV} (hp : conv1 true k.mode x = .ok p) : hashable p.1 = true := by
  cases k <;> simp [Kind.sorted] at hs <;> simp only [Kind.mode] at hp <;> unfold wf at hwf <;>
    simp only [Bool.and_eq_true] at hwf
  case set =>
    obtain ⟨c, _, rfl⟩ := conv1_elem hp
    exact hashableL_iff.1 hwf.2 _ hx
  case dict =>
    obtain ⟨kk, v, c, rfl, _, rfl⟩ := conv1_item hp
    obtain ⟨k2, v2, he, hk2⟩ := itemsOk_mem hwf.2 _ hx
    simp only [tup, PV.node.injEq, List.cons.injEq, and_true, true_and] at he
    rw [he.1]; exact hk2
  case ddict =>
    obtain ⟨kk, v, c, rfl, _, rfl⟩ := conv1_item hp
    obtain ⟨k2, v2, he, hk2⟩ := itemsOk_mem hwf.2 _ hx
    simp only [tup, PV.node.injEq, List.cons.injEq, and_true, true_and] at he
    rw [he.1]; exact hk2
  case counter =>
    obtain ⟨kk, v, rfl, rfl⟩ := conv1_rawItem hp
    obtain ⟨k2, v2, he, hk2⟩ := itemsOk_mem hwf.2.1 _ hx
    simp only [tup, PV.node.injEq, List.cons.injEq, and_true, true_and] at he
    rw [he.1]; exact hk2

/-- equal values (up to iteration order) get the same key -/
theorem key_equiv : ∀ a b, Equiv a b → wf a = true → ∀ r, key true a = .ok r → key true b = .ok r := by
  intro a
  induction a using PV.ind2 with
  | hatom a => intro b h _ r hr; rw [equiv_atom_inv h]; exact hr
  | hnode k xs ih ih2 =>
    intro b he hwf r hr
    obtain ⟨hh1, hh2⟩ := equiv_hashable _ _ he
    obtain ⟨xs', ys', ys, rfl, h1, h2, h3⟩ := equiv_node_inv he
    cases hha : hashable (.node k xs) with
    | true => rw [← hh2 hha]; exact hr
    | false =>
      have hhb : hashable (.node k ys) = false := by rw [← hh1]; exact hha
      rcases key_node true k xs r hr with ⟨hraw, _⟩ | ⟨_, cs, s, hcs, hs, rfl⟩
      · simp [hha] at hraw
      · have hwx := wf_children hwf
        -- the children of `a`, re-listed
        obtain ⟨cs1, hp1, hc1⟩ : ∃ cs1, (if k.ordered then cs = cs1 else cs.Perm cs1) ∧
            All2 (fun x p => conv1 true k.mode x = .ok p) xs' cs1 := by
          cases ho : k.ordered
          · simp only [ho, Bool.false_eq_true, if_false] at h1 ⊢
            exact All2.perm_left h1 (mapE_all2 hcs)
          · simp only [ho, if_true] at h1 ⊢
            exact ⟨cs, rfl, h1 ▸ mapE_all2 hcs⟩
        have hmem' : ∀ x ∈ xs', x ∈ xs := fun x hx => permIf_mem h1 hx
        -- pointwise equivalent children
        obtain ⟨cs2, hc2, hrel⟩ := all2_congr h2 hc1 (by
          intro x hx y p hxy hp
          have hxm := hmem' x hx
          refine conv1_congr hxy hp (fun y r h' => ih x hxm y h' (hwx x hxm) r) ?_ ?_ ?_
          · intro k' zs hxe v hv y r h'
            have : wf v = true := by
              have hwn := hwx x hxm
              rw [hxe] at hwn
              exact wf_children hwn v hv
            exact ih2 x hxm k' zs hxe v hv y h' this r
          · intro hm kk v hxe
            have hio : itemsOk xs = true := by
              cases k <;> simp [Kind.mode] at hm <;> (unfold wf at hwf; simp only [Bool.and_eq_true] at hwf; exact hwf.2)
            obtain ⟨k2, v2, he2, hk2⟩ := itemsOk_mem hio _ hxm
            rw [hxe] at he2
            simp only [tup, PV.node.injEq, List.cons.injEq, and_true, true_and] at he2
            rw [he2.1]; exact hk2
          · intro hm
            have hh : hashableL xs = true := by
              cases k <;> simp [Kind.mode] at hm
              unfold wf at hwf; simp only [Bool.and_eq_true] at hwf; exact hwf.2.2
            exact hashableL_iff.1 hh _ hxm)
        -- the children of `b`
        obtain ⟨cs3, hp3, hc3⟩ : ∃ cs3, (if k.ordered then cs2 = cs3 else cs2.Perm cs3) ∧
            All2 (fun x p => conv1 true k.mode x = .ok p) ys cs3 := by
          cases ho : k.ordered
          · simp only [ho, Bool.false_eq_true, if_false] at h3 ⊢
            exact All2.perm_left h3 hc2
          · simp only [ho, if_true] at h3 ⊢
            exact ⟨cs2, rfl, h3 ▸ hc2⟩
        rw [key_node_eq]
        simp only [hhb, Bool.false_and, Bool.false_eq_true, if_false, all2_mapE hc3]
        -- same sorted body
        unfold finish
        have : sortIf k cs3 = .ok s ∨ ∃ s3, sortIf k cs3 = .ok s3 ∧ s3.map Prod.snd = s.map Prod.snd := by
          cases ho : k.ordered
          · left
            have hsd : k.sorted = true := by rw [ordered_eq_not_sorted] at ho; simpa using ho
            simp only [ho, Bool.false_eq_true, if_false] at hp1 hp3
            have hkeys : ∀ p ∈ cs1, hashable p.1 = true := by
              intro p hp
              obtain ⟨x, hx, hxp⟩ := hc1.mem_right p hp
              exact sortKey_hashable hwf hsd (hmem' x hx) hxp
            have e := convRel_eq hrel hkeys
            subst e
            unfold sortIf at hs ⊢
            simp only [hsd, if_true] at hs ⊢
            rw [← sortP_perm (hp1.trans hp3)]; exact hs
          · right
            have hsd : k.sorted = false := by rw [ordered_eq_not_sorted] at ho; simpa using ho
            simp only [ho, if_true] at hp1 hp3
            subst hp1; subst hp3
            unfold sortIf at hs ⊢
            simp only [hsd, Bool.false_eq_true, if_false] at hs ⊢
            cases hs
            exact ⟨cs2, rfl, convRel_snd hrel⟩
        rcases this with h | ⟨s3, h, hsnd⟩
        · rw [h]
        · simp only [h, hsnd]

/-! ### the key is defined when the sorted collections are strictly ordered -/
theorem mapE_total {f : PV → Except Err (PV × PV)} : ∀ {xs : List PV}, (∀ x ∈ xs, ∃ p, f x = .ok p) → ∃ cs, mapE f xs = .ok cs
  | [], _ => ⟨[], rfl⟩
  | x :: xs, h => by
    obtain ⟨p, hp⟩ := h x List.mem_cons_self
    obtain ⟨cs, hcs⟩ := mapE_total (fun y hy => h y (List.mem_cons_of_mem _ hy))
    exact ⟨p :: cs, by simp [mapE, hp, hcs]⟩

theorem conv1_fst {esc : Bool} {m : Mode} {x : PV} {p : PV × PV} (h : conv1 esc m x = .ok p) : p.1 = sortKey1 m x := by
  cases m with
  | elem => obtain ⟨c, _, rfl⟩ := conv1_elem h; cases x <;> rfl
  | item => obtain ⟨k, v, c, rfl, _, rfl⟩ := conv1_item h; rfl
  | rawItem => obtain ⟨k, v, rfl, rfl⟩ := conv1_rawItem h; rfl
  | rawAtom => obtain ⟨_, rfl⟩ := conv1_rawAtom h; cases x <;> rfl
  | leaf => exact (conv1_leaf h).elim

theorem conv_fst {esc : Bool} {m : Mode} {xs : List PV} {cs : List (PV × PV)}
    (h : All2 (fun x p => conv1 esc m x = .ok p) xs cs) : cs.map Prod.fst = xs.map (sortKey1 m) := by
  induction h with
  | nil => rfl
  | cons hx _ ih => simp [conv1_fst hx, ih]

theorem key_defined : ∀ v, wf v = true → comparable v = true → ∃ r, key true v = .ok r := by
  intro v
  induction v using PV.ind2 with
  | hatom a => intro _ _; exact ⟨.atom a, by simp [key]⟩
  | hnode k xs ih ih2 =>
    intro hwf hcmp
    rw [key_node_eq]
    split
    · exact ⟨_, rfl⟩
    · unfold comparable at hcmp
      simp only [Bool.and_eq_true] at hcmp
      have hcx := comparableL_iff.1 hcmp.1
      have hwx := wf_children hwf
      have hc : ∀ x ∈ xs, ∃ p, conv1 true k.mode x = .ok p := by
        intro x hx
        cases hm : k.mode with
        | elem =>
          obtain ⟨r, hr⟩ := ih x hx (hwx x hx) (hcx x hx)
          exact ⟨(x, r), by simp [conv1, hr]⟩
        | item =>
          have hio : itemsOk xs = true := by
            cases k <;> simp [Kind.mode] at hm <;> (unfold wf at hwf; simp only [Bool.and_eq_true] at hwf; exact hwf.2)
          obtain ⟨kk, v, rfl, _⟩ := itemsOk_mem hio _ hx
          have hcv : comparable v = true := by
            have := hcx _ hx
            simp [tup, comparable, comparableL, Kind.sorted] at this
            exact this.2
          obtain ⟨r, hr⟩ := ih2 _ hx .tuple [kk, v] rfl v (by simp) (wf_item (hwx _ hx)) hcv
          exact ⟨(kk, tup [kk, r]), by simp [conv1, tup, hr]⟩
        | rawItem =>
          have hio : itemsOk xs = true := by
            cases k <;> simp [Kind.mode] at hm
            unfold wf at hwf; simp only [Bool.and_eq_true] at hwf; exact hwf.2.1
          obtain ⟨kk, v, rfl, _⟩ := itemsOk_mem hio _ hx
          exact ⟨(kk, tup [kk, v]), by simp [conv1, tup]⟩
        | rawAtom =>
          have ha : xs.all isAtom = true := by
            cases k <;> simp [Kind.mode] at hm <;> (unfold wf at hwf; simp only [Bool.and_eq_true] at hwf; exact hwf.2)
          have := List.all_eq_true.1 ha x hx
          exact ⟨(x, x), by simp [conv1, this]⟩
        | leaf =>
          have he : xs.isEmpty = true := by
            cases k <;> simp [Kind.mode] at hm
            unfold wf at hwf; simp only [Bool.and_eq_true] at hwf; exact hwf.2
          simp [List.isEmpty_iff] at he
          subst he; cases hx
      obtain ⟨cs, hcs⟩ := mapE_total hc
      simp only [hcs]
      unfold finish sortIf
      cases hsd : k.sorted
      · exact ⟨tagged k.cls (k.wrap (cs.map Prod.snd)), by simp⟩
      · have hp : pairwiseB strictB (cs.map Prod.fst) = true := by
          rw [conv_fst (mapE_all2 hcs)]
          simpa [hsd] using hcmp.2
        exact ⟨tagged k.cls (k.wrap ((isort cs).map Prod.snd)), by simp [sortP, hp]⟩

theorem Equiv.symm : ∀ a b, Equiv a b → Equiv b a := by
  intro a
  induction a using PV.ind with
  | hatom a => intro b h; rw [equiv_atom_inv h]; exact .atom a
  | hnode k xs ih =>
    intro b h
    obtain ⟨xs', ys', ys, rfl, h1, h2, h3⟩ := equiv_node_inv h
    have h2' : All2 Equiv ys' xs' :=
      (h2.mono (S := fun x y => Equiv y x) (fun x hx y _ hxy => ih x (permIf_mem h1 hx) y hxy)).flip
    refine .node k ys ys' xs' xs ?_ (equivL_of_all2 h2') ?_
    · split at h3
      · simp [*]
      · simp [*]; exact h3.symm
    · split at h1
      · simp [*]
      · simp [*]; exact h1.symm

/-! ### the memo table -/
def Memo.Inv (m : Memo) : Prop := ∀ e ∈ m.entries, key true e.2.1 = .ok e.1

theorem Memo.lookup_some {k : PV} : ∀ {es : List (PV × PV × Nat)} {a : PV} {r : Nat},
    Memo.lookup k es = some (a, r) → (k, a, r) ∈ es
  | [], _, _, h => by simp [Memo.lookup] at h
  | (k', a', r') :: es, a, r, h => by
    simp only [Memo.lookup] at h
    split at h
    · rename_i hk; cases h; rw [hk]; exact List.mem_cons_self
    · exact List.mem_cons_of_mem _ (Memo.lookup_some h)

end PF.Hashable
