import PfModel.Lemmas.MapTotalRun
import PfModel.Props.C03
/-!
C03 (round 9) — what a consumer receives for a parameter it takes with `:` does not depend on the LENGTH of the sliced axis.

The runner's model is storage-free: a task body computes `selectArgs` on the complete arrays of the earlier generations
(`C03_body_reads_earlier`), and `selectArgs` indexes with `indexVal` — NumPy basic indexing with integers and full slices,
which is what `FileArray.__getitem__` (`_file.py:124-171`) and `DictArray.__getitem__` (`_dict.py:67-112`: `reshape(new_shape)`
over the *sliced* axes) implement.  The statement below is the part of that specification the seeded change C03-s4-B broke
(`squeeze()` instead of `reshape(new_shape)` in the dict backend): every `:` axis survives with its own length — also when
that length is 1 — and every integer-indexed axis disappears — also when the array has length 1 there.
-/
namespace PF.C03
open PF PF.Map

/-- **A `:` slice keeps its axis, whatever its length.** Indexing an array of shape `sh` with a key that has at least one `:`
    yields an array (never a bare element, never a 0-d array) whose shape lists, in order, the lengths of exactly the `:` axes:
    its rank is the number of `:` in the key, it has one element per index of those axes. -/
theorem C03_slice_keeps_axes (sh : List Nat) (elems : List Val) (key : List (Option Nat)) (hl : key.length = sh.length)
    (hs : key.all Option.isSome = false) :
    ∃ data, indexVal (.arr sh elems) key = some (.arr (slicedShape key sh) data) ∧
      slicedShape key sh = ((key.zip sh).filter fun ks => ks.1.isNone).map (·.2) ∧
      (slicedShape key sh).length = (key.filter Option.isNone).length ∧
      data.length = prod (slicedShape key sh) := by
  have hshape : ∀ (key : List (Option Nat)) (sh : List Nat), key.length = sh.length →
      slicedShape key sh = ((key.zip sh).filter fun ks => ks.1.isNone).map (·.2) ∧
      (slicedShape key sh).length = (key.filter Option.isNone).length := by
    intro key
    induction key with
    | nil => intro sh _; cases sh <;> simp [slicedShape]
    | cons k ks ih =>
      intro sh h
      cases sh with
      | nil => simp at h
      | cons d ds =>
        have := ih ds (by simpa using h)
        cases k with
        | none => exact ⟨by simp [slicedShape, this.1], by simp [slicedShape, this.2]⟩
        | some v => exact ⟨by simp [slicedShape, this.1], by simp [slicedShape, this.2]⟩
  refine ⟨(allIdx (slicedShape key sh)).map fun s => elems.getD (ravel sh (fillKey key s)) .none, ?_, (hshape key sh hl).1,
    (hshape key sh hl).2, by simp [PF.C01.length_allIdx]⟩
  simp [indexVal, hl, hs]

/-- the trigger of the seeded change: `y[i, :]` at `i = 0` of an array of shape `(3, 1)` is an array of shape `(1,)` -/
example : (indexVal (.arr [3, 1] [.int 5, .int 10, .int 15]) [some 0, none]).bind shapeOf = some [1] := by decide
/-- … `y[:, j]` at `j = 0` of shape `(1, 2)` has shape `(1,)`, and `y[:, :]` of shape `(1, 1)` has shape `(1, 1)` -/
example : (indexVal (.arr [1, 2] [.int 5, .int 7]) [none, some 0]).bind shapeOf = some [1] := by decide
example : (indexVal (.arr [1, 1] [.int 5]) [none, none]).bind shapeOf = some [1, 1] := by decide
/-- the hypothesis is needed: a key of integers only yields the element, not an array -/
example : (indexVal (.arr [3, 1] [.int 5, .int 10, .int 15]) [some 1, some 0]).bind shapeOf = none := by decide

end PF.C03
