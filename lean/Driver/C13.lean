import PfModel.DriverVal
import PfModel.Model.Errors
import PfModel.Model.ErrorsAsync
import PfModel.Model.ErrorsStore
import PfModel.Model.ErrorsKinds
import PfModel.Model.ErrorsProto
import PfModel.Model.ErrorsFile
import PfModel.Model.ErrorsOwed
/-! Driver for C13 (`call.fail`, `map.fail`, `map.owed`): the failure models of `PfModel/Model/Errors.lean`. -/
open Lean PF PF.Drv PF.Errors PF.Errors.File

/-- keyword arguments compared up to order: sort by name, compare the printed JSON -/
def kwKey (kw : List (String × Val)) : String :=
  (putKw (kw.mergeSort fun a b => a.1 ≤ b.1)).compress

def getExn (j : Json) : R Exn := do
  return { cls := ← strF j "cls", args := ← listF getVal j "args" }

def putExn (x : Exn) : Json := jObj [("cls", jStr x.cls), ("args", jArr (x.args.map putVal))]

/-- `[{"f": name, "kw": [[k, v], …] | null, "exn": {"cls": …, "args": […]}}, …]`: the first matching entry decides;
    `kw: null` matches every invocation of `f` -/
def getOracle (j : Json) : R Oracle := do
  let entries ← asList (fun e => do
    let f ← strF e "f"
    let kw ← optF getKw e "kw"
    let x ← getExn (← fld e "exn")
    return (f, kw.map kwKey, x)) j
  return fun name kw =>
    (entries.find? fun (f, k, _) => f = name && (match k with | none => true | some k => k = kwKey kw)).map (·.2.2)

/-- the classes the oracle marks `"base": true` (deriving from `BaseException` only) -/
def getBaseClasses (j : Json) : R (List String) := do
  let entries ← asList (fun e => do
    let x ← fld e "exn"
    let b := (← optF (fun v => match v with | Json.bool b => pure b | _ => .error "base: bool expected") x "base").getD false
    return (← strF x "cls", b)) j
  return (entries.filter (·.2)).map (·.1)

/-- the classes the oracle marks `"stop": true` (deriving from `StopIteration`) -/
def getStopClasses (j : Json) : R (List String) := do
  let entries ← asList (fun e => do
    let x ← fld e "exn"
    let b := (← optF (fun v => match v with | Json.bool b => pure b | _ => .error "stop: bool expected") x "stop").getD false
    return (← strF x "cls", b)) j
  return (entries.filter (·.2)).map (·.1)

/-- the flag `k` (`"base"`, `"stop"`) of the exceptions the renaming table maps to -/
def getRenameFlag (a : Json) (k : String) : R (List String) := do
  match ← optF (asList (asPair pure pure)) a "rename" with
  | none => return []
  | some tbl =>
    let entries ← tbl.mapM fun ((_, x) : Json × Json) => do
      let b := (← optF (fun v => match v with | Json.bool b => pure b | _ => .error s!"{k}: bool expected") x k).getD false
      return (← strF x "cls", b)
    return (entries.filter (·.2)).map (·.1)

def exnKey (x : Exn) : String := (putExn x).compress

/-- `"rename": [[from, to], …]`: the renaming `h` of `mapOracle` as a finite table (identity elsewhere) -/
def getRename (a : Json) : R (Option (Exn → Exn)) := do
  match ← optF (asList (asPair getExn getExn)) a "rename" with
  | none => return none
  | some tbl =>
    let keyed := tbl.map fun (f, t) => (exnKey f, t)
    return some fun x => match keyed.find? (·.1 = exnKey x) with | some (_, t) => t | none => x

def putAwaited (stopCls : List String) (x : Exn) : Json :=
  let a := awaitExn (fun x => stopCls.contains x.cls) x
  jObj [("exn", putExn a.exn), ("cause", jOpt putExn a.cause)]

def putSnap (s : Snapshot) : Json := jObj [("fname", jStr s.fname), ("exn", putExn s.exn), ("kwargs", putKw s.kwargs)]

/-- `surface`: is the raised object seen by the `except Exception` sites (note + snapshot) -/
def putAnnotated (baseCls : List String) (r : Raised) : List (String × Json) :=
  let s := surface (fun x => !(baseCls.contains x.cls)) r
  [("annotated", Json.bool (s.note.isSome && s.snap.isSome))]

/-- a value with its kind: `{"a": val}` | `{"k": "tuple"|"list", "xs": […]}` | `{"k": "dict", "keys": […], "xs": […]}` |
    `{"k": "inst", "cls": …, "fields": […], "xs": […]}` -/
partial def getPV (j : Json) : R PV := do
  match j.getObjVal? "a" with
  | .ok a => return .atom (← getVal a)
  | .error _ =>
    let xs ← listF getPV j "xs"
    match ← strF j "k" with
    | "tuple" => return .node .tuple xs
    | "list" => return .node .list xs
    | "dict" =>
      let keys ← listF asStr j "keys"
      if keys.length ≠ xs.length then .error "dict: keys and values differ in number" else return .node (.dict keys) xs
    | "inst" =>
      let fields ← listF asStr j "fields"
      if fields.length ≠ xs.length then .error "inst: fields and values differ in number" else return .node (.inst (← strF j "cls") fields) xs
    | k => .error s!"unknown value kind {k}"

partial def putPV : PV → Json
  | .atom v => jObj [("a", putVal v)]
  | .node .tuple xs => jObj [("k", jStr "tuple"), ("xs", jArr (xs.map putPV))]
  | .node .list xs => jObj [("k", jStr "list"), ("xs", jArr (xs.map putPV))]
  | .node (.dict keys) xs => jObj [("k", jStr "dict"), ("keys", jList jStr keys), ("xs", jArr (xs.map putPV))]
  | .node (.inst c fields) xs => jObj [("k", jStr "inst"), ("cls", jStr c), ("fields", jList jStr fields), ("xs", jArr (xs.map putPV))]

def getMeta (j : Json) : R Meta := do
  return { traceback := ← strF j "traceback", timestamp := ← strF j "timestamp", user := ← strF j "user", machine := ← strF j "machine",
           ip := ← strF j "ip_address", cwd := ← strF j "current_directory" }

def putMeta (m : Meta) : Json :=
  jObj [("traceback", jStr m.traceback), ("timestamp", jStr m.timestamp), ("user", jStr m.user), ("machine", jStr m.machine),
        ("ip_address", jStr m.ip), ("current_directory", jStr m.cwd)]

def putSnapFile (s : SnapFile) : Json :=
  jObj [("fname", jStr s.fname), ("exn", putExn s.exn), ("args", jArr (s.args.map putPV)),
        ("kwargs", jArr (s.kwargs.map fun kv => jArr [jStr kv.1, putPV kv.2])), ("meta", putMeta s.info)]

def putOutcome : Option (Except Exn Unit) → Json
  | some (.error x) => putExn x
  | some (.ok _) => jStr "returned"
  | none => jStr "unreadable"

def metaNone : Meta := { traceback := "", timestamp := "", user := "", machine := "", ip := "", cwd := "" }

/-- `"boxed": [names]`: the arguments the harness hands over as `DBox` instances (`terms.box_some`) -/
def getBoxed (a : Json) : R (List String) := do return (← optF (asList asStr) a "boxed").getD []

/-- the raised object; `reproduce` is evaluated THROUGH THE FILE (`saveFile` / `loadFile` / `reproduceFile`, `C13_snapshot_file`) with the
    argument kinds the harness uses -/
def putRaised (fails : Oracle) (r : Raised) (boxed : List String := []) : List (String × Json) :=
  [("exn", putExn r.exn), ("noteFunc", jStr r.noteFunc), ("noteKw", putKw r.noteKw), ("snap", putSnap r.snap),
   ("reproduce", match reproduce fails r.snap with | .error x => putExn x | .ok _ => Json.null),
   ("reproduceFile", putOutcome (reproduceFile fails (saveFile (ofSnapshot (boxNamed boxed) metaNone r.snap))))]

def getFunc (j : Json) : R Pipe.Func := do
  return { name := ← strF j "name", params := ← listF (asPair asStr asStr) j "params", outputs := ← listF asStr j "outputs",
           defaults := (← optF getKw j "defaults").getD [], bound := (← optF getKw j "bound").getD [] }

def putPErr : Pipe.Err → Json
  | .fuel => jObj [("err", jStr "RecursionError")]
  | .missing _ => jObj [("err", jStr "ValueError")]
  | .noFunc _ => jObj [("err", jStr "KeyError")]
  | .unused ps => jObj [("err", jStr "UnusedParametersError"), ("unused", jList jStr ps)]
  | .outputInKwargs => jObj [("err", jStr "ValueError")]
  | .mapspec => jObj [("err", jStr "RuntimeError")]

def getReq (j : Json) : R Pipe.Req := do
  match j with
  | .str s => return .name s
  | _ => return .whole (← asList asStr j)

def getASpec (j : Json) : R Map.ASpec := do
  let (n, ax) ← asPair asStr (asList (asOpt asStr)) j
  return { name := n, axes := ax }

def getMSpec (j : Json) : R Map.MSpec := do
  return { inputs := ← listF getASpec j "inputs", outputs := ← listF getASpec j "outputs" }

def getMFunc (j : Json) : R Map.MFunc := do
  return { name := ← strF j "name", params := ← listF (asPair asStr asStr) j "params", outputs := ← listF asStr j "outputs",
           mapspec := ← optF getMSpec j "mapspec", ret := ← optF (asList asNat) j "ret", internal := ← optF (asList asNat) j "internal",
           defaults := (← optF getKw j "defaults").getD [], bound := (← optF getKw j "bound").getD [] }

def putMErr : Map.Err → Json
  | .value w => jObj [("err", jStr "ValueError"), ("why", jStr w)]
  | .type w => jObj [("err", jStr "TypeError"), ("why", jStr w)]
  | .index w => jObj [("err", jStr "IndexError"), ("why", jStr w)]
  | .key w => jObj [("err", jStr "KeyError"), ("why", jStr w)]
  | .fuel => jObj [("err", jStr "RecursionError")]

def putTask (t : Task) : Json := jArr [jStr t.f.name, putKw t.c.args]
def putInv (c : Call.Inv) : Json := jArr [jStr c.1, putKw c.2]

def handle (m : String) (a : Json) : R Json := do
  match m with
  | "call.fail" =>
    let fs ← listF getFunc a "funcs"
    let kw ← getKw (← fld a "kw")
    let req ← getReq (← fld a "out")
    let fails0 ← getOracle (← fld a "fail")
    -- `"rename"`: the user functions raise `h x` where the listed oracle raises `x` (`mapOracle`, `C13_class_parametric_call`)
    let fails := match ← getRename a with | some h => mapOracle h fails0 | none => fails0
    let baseCls := (← getBaseClasses (← fld a "fail")) ++ (← getRenameFlag a "base")
    let boxed ← getBoxed a
    match Call.runTopE fails fs kw req with
    | .refused e => return putPErr e
    | .value o => return jObj [("value", putVal o.value), ("calls", jList jStr o.calls)]
    | .raised r calls =>
      return jObj ([("raised", Json.bool true), ("calls", jList putInv calls),
                    ("pipelineSnap", jOpt putSnap (Call.pipelineSnapshot fails calls))] ++ putAnnotated baseCls r ++ putRaised fails r boxed)
  | "map.fail" =>
    let fs ← listF getMFunc a "funcs"
    let inputs ← getKw (← fld a "inputs")
    let internal := (← optF (asList (asPair asStr (asList asNat))) a "internal").getD []
    let fails0 ← getOracle (← fld a "fail")
    -- `"rename"`: the user functions raise `h x` where the listed oracle raises `x` (`mapOracle`, `C13_class_parametric`)
    let fails := match ← getRename a with | some h => mapOracle h fails0 | none => fails0
    let baseCls := (← getBaseClasses (← fld a "fail")) ++ (← getRenameFlag a "base")
    let stopCls := (← getStopClasses (← fld a "fail")) ++ (← getRenameFlag a "stop")
    let boxed ← getBoxed a
    let modeS ← strF a "mode"
    let mode ← match modeS with
      | "seq" => pure Mode.seq
      | "pool" => pure Mode.pool
      | "async" => pure Mode.pool
      | s => .error s!"unknown mode {s}"
    -- the order in which the pool runs the tasks of each generation; default: a fair one (submission order)
    let scheds := (← optF (asList (asList asNat)) a "sched").getD []
    let sched : Nat → List Nat := fun g => match scheds[g]? with | some σ => σ | none => List.range 4096
    -- the order in which the event loop observes the completions (`map_async` only); default: submission order
    let loops := (← optF (asList (asList asNat)) a "loop").getD []
    let loopo : Nat → List Nat := fun g => match loops[g]? with | some ρ => ρ | none => List.range 4096
    let pre := match Map.validateInputs fs inputs, Map.mapShapes fs inputs (Map.constructInternal fs internal) with
      | .ok _, .ok sm => some sm
      | _, _ => none
    match (if modeS = "async" then runMapA fails sched loopo fs inputs internal else runMapE mode fails sched fs inputs internal) with
    | .refused e => return putMErr e
    | .hang g log => return jObj [("hang", jNat g), ("log", jList putTask log)]
    | .done r =>
      return jObj [("done", Json.bool true), ("stored", putKw r.stored), ("calls", jList (fun c => jArr [jStr c.name, putKw c.args]) r.calls),
                   ("gens", jList (jList jStr) r.gens)]
    | .raised g r log stored =>
      -- the specification, evaluated alongside (`C13_surface` says they agree)
      let spec : Json :=
        match Map.validateInputs fs inputs, Map.mapShapes fs inputs (Map.constructInternal fs internal) with
        | .ok _, .ok (shapes, masks) =>
          match specGens fails (Map.runFuncWith Map.opArray fs shapes masks) (Map.generations fs) { inputs := inputs, store := [] } 0 with
          | .ok (some (g', r')) => jObj ([("gen", jNat g')] ++ putRaised fails r')
          | _ => Json.null
        | _, _ => Json.null
      let snapP := pipelineSnapshot fails log
      -- `map_async`: the invocations whose exception may surface (`C13_async_surface`)
      let cands : Json :=
        match pre with
        | some (shapes, masks) =>
          match specGensA fails (Map.runFuncWith Map.opArray fs shapes masks) (Map.generations fs) { inputs := inputs, store := [] } 0 with
          | .ok (some (g', cs)) => jObj [("gen", jNat g'), ("of", jList (fun (c : Task × Exn) => jObj (putRaised fails (raisedOf c.1 c.2))) cs)]
          | _ => Json.null
        | none => Json.null
      -- the re-run on the folder the failed run left (`C13_resume_completes`): no failure, `cleanup=False`, sequential
      let resume : Json :=
        match pre with
        | some (shapes, masks) =>
          let out := if modeS = "async"
            then runGensA fails sched loopo (Map.runFuncWith Map.opArray fs shapes masks) (Map.generations fs) { inputs := inputs, store := [] } 0
            else runGensE mode fails sched (Map.runFuncWith Map.opArray fs shapes masks) (Map.generations fs) { inputs := inputs, store := [] } 0
          match out with
          | .raised _ _ _ store =>
            let run := ResumeFS.runOn {} (folderOf inputs store) fs inputs internal
            jObj [("calls", jList (fun (c : ResumeFS.CallRec) => jArr [jStr c.fn, putKw c.args]) run.calls),
                  ("outputs", match run.res with | .ok x => putKw x.outputs | .error _ => Json.null)]
          | _ => Json.null
        | none => Json.null
      return jObj ([("raised", Json.bool true), ("candidates", cands), ("resume", resume), ("gen", jNat g), ("log", jList putTask log), ("stored", putKw stored),
                    ("gens", jList (jList jStr) ((Map.generations fs).map fun g => g.map (·.name))),
                    ("pipelineSnap", jOpt putSnap snapP), ("funcSnap", jOpt putSnap (funcSnapshot fails r.noteFunc log)), ("spec", spec)] ++
                   -- `map_async`: what `await` hands to the caller (`awaitExn`, `C13_await_kinds`)
                   (if modeS = "async" then [("awaited", putAwaited stopCls r.exn)] else []) ++ putAnnotated baseCls r ++ putRaised fails r boxed)
  | "map.owed" =>
    -- the elements the invocations `"completed": [[fname, kw], …]` produced (`owedStore`, `Props/C13Owed.lean`): what "results completed
    -- before the failure remain loadable" owes when THESE invocations completed (the harness reads them off the implementation's call log)
    let fs ← listF getMFunc a "funcs"
    let inputs ← getKw (← fld a "inputs")
    let internal := (← optF (asList (asPair asStr (asList asNat))) a "internal").getD []
    let completed ← listF (asPair asStr getKw) a "completed"
    let keys := completed.map fun (f, kw) => (f, kwKey kw)
    let done : Task → Bool := fun t => keys.contains (t.f.name, kwKey t.c.args)
    match Map.validateInputs fs inputs, Map.mapShapes fs inputs (Map.constructInternal fs internal) with
    | .ok _, .ok (shapes, masks) =>
      if (Map.generations fs).flatten.length ≠ fs.length then return putMErr (.value "cyclic pipeline") else
      match Map.runGensWith (Map.runFuncWith Map.opArray fs shapes masks) (Map.generations fs) { inputs := inputs, store := [] } with
      | .ok (rs, _) =>
        let owed := owedStore done ((Map.generations fs).flatten.zip rs)
        return jObj [("owed", putKw (owed.map fun (o, s) => (o, s.toVal))), ("elements", jNat (owed.foldl (fun n (_, s) =>
          n + (match s with | .array _ _ cells => cells.length | .single _ => 0)) 0))]
      | .error e => return putMErr e
    | .error e, _ => return putMErr e
    | _, .error e => return putMErr e
  | "snap.file" =>
    -- `ErrorSnapshot.save_to_file` / `load_from_file` on a snapshot whose argument values have kinds (`Model/ErrorsFile.lean`, `Props/C13File.lean`)
    let s : SnapFile := { fname := ← strF a "fname", exn := ← getExn (← fld a "exn"), args := ← listF getPV a "args",
                          kwargs := ← listF (asPair asStr getPV) a "kwargs", info := ← getMeta (← fld a "meta") }
    -- the wrapped function raises `exn` exactly when it is called with the values of the snapshot (what it SEES of them: `unbox`)
    let key := kwKey s.toSnapshot.kwargs
    let fails : Oracle := fun name kw => if name = s.fname && kwKey kw = key then some s.exn else none
    let file := saveFile s
    let viaAsdict := saveWith asdict s
    return jObj [("tokens", jNat file.length), ("loaded", jOpt putSnapFile (loadFile file)),
                 ("seen", putKw s.toSnapshot.kwargs),
                 ("reproduce", putOutcome (reproduceFile fails file)),
                 ("hasInst", Json.bool s.hasInst),
                 ("asdict", jOpt putSnapFile (loadFile viaAsdict)),
                 ("asdictSeen", jOpt (fun (t : SnapFile) => putKw t.toSnapshot.kwargs) (loadFile viaAsdict)),
                 ("asdictReproduce", putOutcome (reproduceFile fails viaAsdict)),
                 ("truncatedLoads", Json.bool ((loadFile file.dropLast).isSome || (loadFile (file.drop 1)).isSome))]
  | _ => .error s!"unknown entry {m}"

def main : IO Unit := loop handle
