import PfModel.Lemmas.RewriteAxisGo2
import PfModel.Lemmas.PipelineTotal
/-!
`add_mapspec_axis` on a pipeline without prior MapSpecs (part 11): an acyclicity witness (`HeightF`: a height that decreases
along every edge, bounded by the number of functions) gives the recursion enough fuel and makes `topoOrder` list every function.
-/
namespace PF.Rw
open PF PF.Map PF.C01 PF.Rw.Ax

/-- **acyclicity witness**: a height on functions (named by their outputs) that strictly decreases from producer to consumer
    and is bounded by the number of functions -/
structure HeightF (fs : List RFunc) (h : List String → Nat) : Prop where
  dec : ∀ g ∈ fs, ∀ y ∈ freeParams g, ∀ g' ∈ fs, y ∈ g'.core.outputs → h g.core.outputs < h g'.core.outputs
  bound : ∀ g ∈ fs, h g.core.outputs ≤ fs.length

/-- the fuel the recursion needs when started on `x` -/
def needOf (fs : List RFunc) (h : List String → Nat) (x : String) : Nat :=
  match rproducer fs x with
  | some g => h g.core.outputs
  | none => fs.length + 1

theorem needOf_dec (fs : List RFunc) (h : List String → Nat) (hh : HeightF fs h) (hu : UniqueOutR fs) :
    ∀ g ∈ fs, ∀ y ∈ freeParams g, ∀ o ∈ g.core.outputs, needOf fs h o < needOf fs h y := by
  intro g hg y hy o ho
  have ho' : rproducer fs o = some g := (rproducer_some_iff fs hu o g).mpr ⟨hg, ho⟩
  unfold needOf
  rw [ho']
  cases hy' : rproducer fs y with
  | none => simp only []; have := hh.bound g hg; omega
  | some g' =>
    obtain ⟨hg', hyg'⟩ := rproducer_mem fs y g' hy'
    exact hh.dec g hg y hy g' hg' hyg'

theorem exists_max (h : List String → Nat) : ∀ (l : List RFunc), l ≠ [] →
    ∃ g ∈ l, ∀ r ∈ l, h r.core.outputs ≤ h g.core.outputs := by
  intro l
  induction l with
  | nil => intro hl; exact absurd rfl hl
  | cons a as ih =>
    intro _
    cases as with
    | nil => exact ⟨a, List.mem_cons_self, fun r hr => by simp at hr; subst hr; exact Nat.le_refl _⟩
    | cons b bs =>
      obtain ⟨g, hg, hmax⟩ := ih (by simp)
      by_cases hc : h g.core.outputs ≤ h a.core.outputs
      · refine ⟨a, List.mem_cons_self, ?_⟩
        intro r hr
        rcases List.mem_cons.mp hr with rfl | hr
        · exact Nat.le_refl _
        · exact Nat.le_trans (hmax r hr) hc
      · refine ⟨g, List.mem_cons_of_mem _ hg, ?_⟩
        intro r hr
        rcases List.mem_cons.mp hr with rfl | hr
        · omega
        · exact hmax r hr

/-- `topoOrder` lists (the first output of) every function of an acyclic pipeline -/
theorem topoOrder_cov (fs : List RFunc) (h : List String → Nat) (hh : HeightF fs h) :
    ∀ (fuel : Nat) (done : List String) (rest : List RFunc), (∀ g ∈ rest, g ∈ fs) →
      (∀ g ∈ fs, (∀ r ∈ rest, r.core.outputs ≠ g.core.outputs) → ∀ o ∈ g.core.outputs, o ∈ done) →
      rest.length ≤ fuel → ∀ g ∈ rest, g.core.outputs.headD "" ∈ topoOrder fs fuel done rest := by
  intro fuel
  induction fuel with
  | zero =>
    intro done rest _ _ hlen g hg
    have : rest = [] := List.eq_nil_of_length_eq_zero (by omega)
    rw [this] at hg; cases hg
  | succ fuel ih =>
    intro done rest hsub hinv hlen g hg
    unfold topoOrder
    have hne : rest ≠ [] := by intro e; rw [e] at hg; cases hg
    have h1 : rest.isEmpty = false := by cases rest with | nil => exact absurd rfl hne | cons _ _ => rfl
    simp only [h1, Bool.false_eq_true, ↓reduceIte]
    generalize hready : (rest.filter fun f => (freeParams f).all fun p => (rproducer fs p).isNone || done.contains p) = ready
    -- a function of maximal height is ready
    obtain ⟨gm, hgm, hmax⟩ := exists_max h rest hne
    have hgmr : gm ∈ ready := by
      rw [← hready]
      apply List.mem_filter.mpr
      refine ⟨hgm, ?_⟩
      apply List.all_eq_true.mpr
      intro y hy
      cases hp : rproducer fs y with
      | none => rfl
      | some g' =>
        obtain ⟨hg', hyg'⟩ := rproducer_mem fs y g' hp
        have hlt := hh.dec gm (hsub gm hgm) y hy g' hg' hyg'
        have : y ∈ done := by
          apply hinv g' hg' _ y hyg'
          intro r hr e
          have := hmax r hr
          rw [e] at this
          omega
        simp [this]
    have h2 : ready.isEmpty = false := by cases ready with | nil => cases hgmr | cons _ _ => rfl
    simp only [h2, Bool.false_eq_true, ↓reduceIte]
    rw [List.mem_append]
    by_cases hsame : ready.any (sameF g) = true
    · left
      obtain ⟨rd, hrd, hs⟩ := List.any_eq_true.mp hsame
      have : g.core.outputs = rd.core.outputs := by simpa [sameF] using hs
      rw [this]
      exact List.mem_map.mpr ⟨rd, hrd, rfl⟩
    · right
      have hsame' : ready.any (sameF g) = false := by
        cases hb : ready.any (sameF g) with
        | false => rfl
        | true => exact absurd hb hsame
      apply ih
      · intro r hr; exact hsub r (List.mem_filter.mp hr).1
      · intro g' hg' hdiff o ho
        rw [List.mem_append]
        by_cases hall : ∀ r ∈ rest, r.core.outputs ≠ g'.core.outputs
        · exact Or.inl (hinv g' hg' hall o ho)
        · right
          have : ∃ r ∈ rest, r.core.outputs = g'.core.outputs := by
            apply Classical.byContradiction
            intro hn
            exact hall (fun r hr e => hn ⟨r, hr, e⟩)
          obtain ⟨r, hr, hre⟩ := this
          -- `r` was removed: it shares its outputs with a ready function
          have hrm : ready.any (sameF r) = true := by
            cases hb : ready.any (sameF r) with
            | true => rfl
            | false =>
              exact absurd hre (hdiff r (List.mem_filter.mpr ⟨hr, by simp [hb]⟩))
          obtain ⟨rd, hrd, hs⟩ := List.any_eq_true.mp hrm
          have hrr : r.core.outputs = rd.core.outputs := by simpa [sameF] using hs
          rw [List.mem_flatMap]
          exact ⟨rd, hrd, by rw [← hrr, hre]; exact ho⟩
      · have hlt : (rest.filter fun f => !(ready.any (sameF f))).length < rest.length := by
          have := PF.Pipe.filter_length_lt (fun f => !(ready.any (sameF f))) (fun _ => true) rest (by simp)
            ⟨gm, hgm, rfl, by
              have : ready.any (sameF gm) = true := List.any_eq_true.mpr ⟨gm, hgmr, by simp [sameF]⟩
              simp [this]⟩
          have e : rest.filter (fun _ => true) = rest := List.filter_eq_self.mpr (by simp)
          rw [e] at this
          exact this
        omega
      · exact List.mem_filter.mpr ⟨hg, by simp [hsame']⟩

end PF.Rw
