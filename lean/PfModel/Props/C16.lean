import PfModel.Lemmas.Typing
import PfModel.Lemmas.TypingSem
/-!
C16 — Type-annotation validation agrees with subtype compatibility.
Property theorems only; the model is `Model/Typing.lean` (`compat` mirrors `is_type_compatible`, `edgeOk`/`construct` mirror
`validate_consistent_type_annotations`), the relation `Sub`, the value semantics `HasTy` and the helper lemmas are in
`Lemmas/Typing.lean`.
-/
namespace PF.C16
open PF.Typing

/-! ### agreement with the declarative subtype relation -/

/-- everything `is_type_compatible` accepts is derivable in the subtype relation `Sub` of the statement -/
theorem C16_sound (a b : Ty) : compat a b = true → Sub a b := compat_sub a b

/-- everything derivable in `Sub` is accepted -/
theorem C16_complete (a b : Ty) : Sub a b → compat a b = true := sub_compat

/-- `is_type_compatible(A, B)` holds exactly when `A` is a subtype of `B` under covariant generics -/
theorem C16_iff (a b : Ty) : compat a b = true ↔ Sub a b := ⟨compat_sub a b, sub_compat⟩

/-! ### agreement with the value semantics -/

/-- "every value of type A is acceptable where B is required": if `is_type_compatible(A, B)` holds and `A` has no gradual part
    (`Clean`: no missing annotation, TypeVar, unparametrised generic or element-less object array, which are accepted by fiat),
    then every value of `A` is a value of `B` (`HasTy`: `Lemmas/TypingSem.lean`). -/
theorem C16_semantic (a b : Ty) (h : compat a b = true) (hc : Clean a) : ∀ v, HasTy a v → HasTy b v := compat_sem a b h hc

/-- The converse, on classes, `Any` and unions of classes: an inclusion of value sets is accepted.
    PARTIAL: the converse is not proved for generics.  With unions below a generic it is false of every syntactic rule that
    obeys the statement's "a union target needs one" (witness below: every value of `tuple[int | str]` is a value of
    `tuple[int] | tuple[str]`); for union-free generics it is expected to hold (the harness' reference relation agrees on all
    generated pairs) but needs a witness value per annotation and is not carried by a theorem.
    EXTENSION (round 2): that missing part is now proved -- `C16_semantic_complete_generics` / `C16_semantic_iff_generics`
    (`Props/C16Sem.lean`) carry the converse for covariant generics of any depth without unions below generics; this theorem is
    kept as the special case. -/
theorem C16_semantic_complete_partial (a b : Ty) (ha : Flat a = true) (hb : Flat b = true) (h : ∀ v, HasTy a v → HasTy b v) :
    compat a b = true := flat_complete a b ha hb h

/-- the witness for the limit of `C16_semantic_complete_partial`: a semantic inclusion that `compat` (and `Sub`) reject -/
theorem C16_union_below_generic_witness :
    compat (.gen .tuple [.union [.base .int, .base .str]]) (.union [.gen .tuple [.base .int], .gen .tuple [.base .str]]) = false ∧
    ∀ v, HasTy (.gen .tuple [.union [.base .int, .base .str]]) v →
         HasTy (.union [.gen .tuple [.base .int], .gen .tuple [.base .str]]) v := by
  constructor
  · simp [compat, compatAny, compatZip, compatAll, Base.sub]
  · intro v hv
    cases v <;> simp only [HasTy] at hv <;> try exact hv.elim
    rename_i xs
    match xs, hv with
    | [x], hv =>
      simp only [ZipHas, AnyHas, HasTy] at hv ⊢
      rcases hv.1 with h | h | h
      · exact Or.inl ⟨h, trivial⟩
      · exact Or.inr (Or.inl ⟨h, trivial⟩)
      · exact h.elim
    | [], hv => simp [ZipHas] at hv
    | _ :: _ :: _, hv => simp [ZipHas] at hv

/-- `Clean` cannot be dropped from `C16_semantic`: a missing annotation is accepted for `int` although not all values are ints -/
theorem C16_gradual_witness : compat .noann (.base .int) = true ∧ ¬ (∀ v, HasTy .noann v → HasTy (.base .int) v) := by
  refine ⟨by simp [compat], fun h => ?_⟩
  have := h (.str "") (by simp [HasTy])
  simp [HasTy, baseHas] at this

/-- non-vacuity of `C16_semantic`: `list[bool] | None` is clean and accepted for `Annotated[list[int] | None | str, m]` -/
example : Clean (.union [.gen .list [.base .bool], .base .none]) ∧
    compat (.union [.gen .list [.base .bool], .base .none]) (.annot (.union [.gen .list [.base .int], .base .none, .base .str])) = true := by
  simp [Clean, CleanL, compat, compatAll, compatAny, compatZip, Base.sub]
/-- non-vacuity of `C16_semantic_complete_partial` -/
example : Flat (.union [.base .bool, .base .none]) = true ∧ Flat (.union [.base .int, .base .none, .base .str]) = true := by
  simp [Flat, Ty.isBase]

/-! ### the algebraic clauses -/

/-- reflexive -/
theorem C16_refl (a : Ty) : compat a a = true := compat_refl a

/-- `Any` accepts everything -/
theorem C16_any_top (a : Ty) : compat a .any = true := compat_any_r a

/-- a missing annotation is compatible with everything, on either side -/
theorem C16_missing (a : Ty) : compat .noann a = true ∧ compat a .noann = true := ⟨compat_noann_l a, compat_noann_r a⟩

/-- a union source needs all members accepted -/
theorem C16_union_left (as : List Ty) (b : Ty) : compat (.union as) b = true ↔ ∀ a ∈ as, compat a b = true := compat_union_l as b

/-- a union target needs one member that accepts: sufficient for every source ... -/
theorem C16_union_right_intro (a : Ty) (bs : List Ty) : (∃ b ∈ bs, compat a b = true) → compat a (.union bs) = true := by
  rintro ⟨b, hb, h⟩; exact compat_union_r hb h

/-- ... and necessary for every source that is a class, `Any`, a generic, an object array or an `Array`
    (a union, `Annotated[union]`, TypeVar or missing source is split / accepted before the target is looked at) -/
theorem C16_union_right (a : Ty) (bs : List Ty)
    (ha : (∃ x, a = .base x) ∨ a = .any ∨ a = .ndarr ∨ (∃ g ts, a = .gen g ts) ∨ (∃ e, a = .array e)) :
    compat a (.union bs) = true ↔ ∃ b ∈ bs, compat a b = true := by
  rcases ha with ⟨x, rfl⟩ | rfl | rfl | ⟨g, ts, rfl⟩ | ⟨e, rfl⟩ <;> (unfg; exact compatAny_iff)

/-- generics are covariant in their arguments, of equal arity; `Array` is covariant -/
theorem C16_covariant (g : Gen) (a b : Ty) (as bs : List Ty) :
    compat (.gen g (a :: as)) (.gen g (b :: bs)) = (as.length == bs.length && (compat a b && compatZip as bs)) ∧
    compat (.gen g [a]) (.gen g [b]) = compat a b ∧
    compat (.array a) (.array b) = compat a b := by
  refine ⟨?_, ?_, ?_⟩
  · unfg; rw [compatZip]; simp
  · unfg; rw [compatZip, compatZip] <;> simp
  · unfg

/-- parametrised generics of different arity are incompatible (DF-19 (a)) -/
theorem C16_arity (g h : Gen) (as bs : List Ty) (ha : as ≠ []) (hb : bs ≠ []) (hl : as.length ≠ bs.length) :
    compat (.gen g as) (.gen h bs) = false := by
  unfg; cases as <;> cases bs <;> simp_all

/-- plain `Annotated` is transparent on the source side (definitionally) and on the target side -/
theorem C16_annotated (p b a q : Ty) : compat (.annot p) b = compat p b ∧ (compat a q = true → compat a (.annot q) = true) :=
  ⟨by rw [compat], compat_annot_r⟩

/-- TypeVars: a source TypeVar and a free target TypeVar accept; a bounded target is its bound; a constrained target accepts
    what one constraint accepts, and a union is accepted member by member -/
theorem C16_typevar (a t : Ty) (cs : List Ty) :
    compat a .tvFree = true ∧ compat a (.tvBound t) = compat a t ∧
    ((∃ c ∈ cs, compat a c = true) → compat a (.tvConstr cs) = true) :=
  ⟨compat_tvFree_r a, compat_tvBound a t, fun ⟨_, hc, h⟩ => compat_tvConstr_intro hc h⟩

/-! ### pipelines -/

/-- a pipeline whose every edge passes the edge check is accepted -/
theorem C16_pipeline_accept (es : List Edge) (h : ∀ e ∈ es, edgeOk e = true) (v : Bool) : construct v es = .ok := by
  unfold construct; cases v <;> simp [List.all_eq_true.mpr h]

/-- an edge between explicitly annotated functions with user-written MapSpecs of a map (not generated, no internal shape) whose
    (wrapped) output annotation is not a subtype of the parameter annotation makes construction fail with `TypeError` -/
theorem C16_pipeline_reject (es : List Edge) (e : Edge) (he : e ∈ es) (hg : mapspecIsGenerated e = false)
    (hi : withInternalShape e = false) (hs : ¬ Sub (wrapOut e) e.inp) : construct true es = .typeError := by
  have hc : compat (wrapOut e) e.inp = false := by
    cases h : compat (wrapOut e) e.inp
    · rfl
    · exact absurd (compat_sub _ _ h) hs
  have : es.all edgeOk = false := by
    rw [Bool.eq_false_iff]; intro hall
    have := List.all_eq_true.mp hall e he
    simp [edgeOk, hg, hi, hc] at this
  simp [construct, this]

/-- nothing is rejected when `validate_type_annotations=False` -/
theorem C16_pipeline_off (es : List Edge) : construct false es = .ok := by simp [construct]

/-- an output consumed through a reduction counts as `Array` of its element type (unless it already is an object array or is
    missing); an element-wise or direct edge compares the annotations as they are -/
theorem C16_reduction_wraps (e : Edge) :
    (axisIsReduced e = true → isObjArr e.out = false → e.out ≠ .noann → wrapOut e = .array e.out) ∧
    (axisIsReduced e = false → wrapOut e = e.out) := by
  constructor
  · intro h1 h2 h3
    unfold wrapOut; rw [h1, h2]
    cases h : e.out <;> simp_all
  · intro h; unfold wrapOut; rw [h]; simp

/-- what "reduced" means for user-written MapSpecs: the producer maps the output and the consumer either does not index it or
    takes whole slices (`:`) of it -/
theorem C16_reduced_iff (e : Edge) (p c : MSpec) (hp : e.prod = some p) (hc : e.cons = some c) :
    axisIsReduced e = true ↔
      e.param ∈ p.outs.map Prod.fst ∧ (alookup e.param c.ins = none ∨ ∃ axes, alookup e.param c.ins = some axes ∧ none ∈ axes) := by
  unfold axisIsReduced; rw [hp, hc]
  cases h : alookup e.param c.ins <;> simp [h]

/-! ### non-vacuity and the recorded defects (the model is the repaired behaviour) -/

/-- DF-19 (a): `tuple[int, str]` is not accepted for `tuple[int]` -/
example : compat (.gen .tuple [.base .int, .base .str]) (.gen .tuple [.base .int]) = false := by simp [compat]
/-- DF-19 (b): `bool → Annotated[int, m]` accepted, `int → Annotated[bool, m]` rejected -/
example : compat (.base .bool) (.annot (.base .int)) = true ∧ compat (.base .int) (.annot (.base .bool)) = false := by
  simp [compat, Base.sub]
/-- DF-19 (d): `Annotated[int | str, m] → int | str` -/
example : compat (.annot (.union [.base .int, .base .str])) (.union [.base .int, .base .str]) = true := by
  simp [compat, compatAll, compatAny, Base.sub]
/-- DF-19 (e): `Array[str]` is not accepted for `Annotated[Array[int] | None, m]` -/
example : compat (.array (.base .str)) (.annot (.union [.array (.base .int), .base .none])) = false := by
  simp [compat, compatAny, Base.sub]
/-- DF-19 (f): `Array[str]` is not accepted by `TypeVar("U", Array[int], str)`, `int | str` is accepted by `TypeVar("U", int, str)` -/
example : compat (.array (.base .str)) (.tvConstr [.array (.base .int), .base .str]) = false ∧
    compat (.union [.base .int, .base .str]) (.tvConstr [.base .int, .base .str]) = true := by
  simp [compat, compatAny, compatAll, Base.sub]
/-- `C16_pipeline_reject` is not vacuous: a reduction of `int` results consumed as plain `int` -/
example : ¬ Sub (wrapOut ⟨"y", .base .int, .base .int, some ⟨[("x", [some "i"])], [("y", ["i"])], false⟩, none⟩) (.base .int) := by
  intro h
  have := sub_compat h
  simp [wrapOut, axisIsReduced, isObjArr, compat] at this
/-- ... and the same output is accepted as `Array[int]` -/
example : edgeOk ⟨"y", .base .int, .array (.base .int), some ⟨[("x", [some "i"])], [("y", ["i"])], false⟩, none⟩ = true := by
  simp [edgeOk, wrapOut, axisIsReduced, isObjArr, compat, alookup, mapspecIsGenerated, withInternalShape, Base.sub]

end PF.C16
