import PfModel.Model.PipeCacheKeys
import PfModel.Props.C09
/-!
C09 — what the cache key of `Pipeline._run` lists (round 4, after the seeded changes C09-s3-A / C09-s3-B).

* the key of a cached function names EVERY root argument of the requested output, each with the value the call uses for it
  (`C09_key_lists_every_root`); when one of them is neither supplied nor a default the cached function itself knows there is
  no key at all (`C09_no_key_when_root_unresolved`, `C09_upstream_default_gives_no_key`) — in particular for a function
  downstream of the owner of a defaulted parameter when the call relies on that default;
* leaving such an argument out of the key instead (`computeKeySkip`) is not transparent: a closed witness history
  `call, update_defaults, equal call` returns the stale value (`C09_skipping_absent_root_stale`), while the pinned key computation
  agrees with the uncached twin on it (`C09_refusing_absent_root_transparent`, an instance of `C09_update_defaults_safe`);
* "equal arguments" at the pipeline's own layer: the key does not depend on the order in which the keywords were passed
  (`C09_key_ignores_keyword_order`).  (That `to_hashable` gives equal keys to equal VALUES however they were built — dict
  insertion order — is C15's `C15_sorted_ties_order_irrelevant`; the C09 harness now generates such values.)
-/
namespace PF.C09
open PF PF.Pipe PF.PipeCache

theorem C09_aux_collect_lists {H} (view : String → Option Val) (h : Val → H) :
    ∀ xs items, collect view h xs = some items →
      items.map (·.1) = xs ∧ ∀ x ∈ xs, ∃ v, view x = some v ∧ (x, h v) ∈ items := by
  intro xs
  induction xs with
  | nil =>
    intro items hc
    simp only [collect, Option.some.injEq] at hc
    subst hc
    exact ⟨rfl, fun x hx => by cases hx⟩
  | cons y ys ih =>
    intro items hc
    simp only [collect] at hc
    cases hv : view y with
    | none => simp [hv] at hc
    | some a =>
      simp only [hv] at hc
      cases hr : collect view h ys with
      | none => simp [hr] at hc
      | some r =>
        simp only [hr, Option.some.injEq] at hc
        subst hc
        obtain ⟨h1, h2⟩ := ih r hr
        refine ⟨by simp [h1], ?_⟩
        intro x hx
        rcases List.mem_cons.mp hx with rfl | hx
        · exact ⟨a, hv, List.mem_cons_self⟩
        · obtain ⟨v, hv', hm⟩ := h2 x hx
          exact ⟨v, hv', List.mem_cons_of_mem _ hm⟩

/-- **The key lists every root argument.**  Whenever `_run` has a key for a cached function, the key's names are exactly
    `root_args(output)` (in that order), and each is paired with the hashable of the value this call uses for it (the supplied
    keyword, else the function's default).  No root argument the result depends on is ever left out of a key. -/
theorem C09_key_lists_every_root {H} (h : Val → H) (fs : List Func) (kw : List (String × Val)) (f : Func) (o : String) (K : Key H)
    (hk : computeKey h fs kw f o = some K) :
    K.outs = f.outputs ∧ K.items.map (·.1) = rootsOf fs o ∧
      ∀ x ∈ rootsOf fs o, ∃ v, keyView fs f kw x = some v ∧ (x, h v) ∈ K.items := by
  obtain ⟨_, hc, ho⟩ := computeKey_some h fs kw f o K hk
  obtain ⟨h1, h2⟩ := C09_aux_collect_lists (keyView fs f kw) h _ _ hc
  exact ⟨ho, h1, h2⟩

theorem C09_aux_collect_none {H} (view : String → Option Val) (h : Val → H) (x : String) (hv : view x = none) :
    ∀ xs, x ∈ xs → collect view h xs = none := by
  intro xs
  induction xs with
  | nil => intro hx; cases hx
  | cons y ys ih =>
    intro hx
    simp only [collect]
    cases hy : view y with
    | none => rfl
    | some a =>
      simp only []
      rcases List.mem_cons.mp hx with rfl | hx
      · rw [hv] at hy; cases hy
      · rw [ih hx]

/-- **No key when a root argument is unresolved** (`compute_cache_key` returns `None`): the function is then neither looked up
    nor stored for this call. -/
theorem C09_no_key_when_root_unresolved {H} (h : Val → H) (fs : List Func) (kw : List (String × Val)) (f : Func) (o x : String)
    (hx : x ∈ rootsOf fs o) (hv : keyView fs f kw x = none) : computeKey h fs kw f o = none := by
  unfold computeKey
  split
  · rfl
  · rw [C09_aux_collect_none (keyView fs f kw) h x hv _ hx]

theorem C09_aux_alookup_none_of_not_key {β} (l : List (String × β)) (x : String) (hx : ∀ kv ∈ l, kv.1 ≠ x) : alookup l x = none := by
  induction l with
  | nil => rfl
  | cons e es ih =>
    obtain ⟨k, v⟩ := e
    simp only [alookup]
    split
    · next e => exact absurd e (hx (k, v) List.mem_cons_self)
    · exact ih fun kv hkv => hx kv (List.mem_cons_of_mem _ hkv)

/-- **A default owned by another function gives no key.**  A root argument that the call does not supply and that the cached
    function does not take itself (it reaches the function only through an upstream function, whose default the call relies on)
    is not in the function's key view, so the function has no key for this call: it is executed and nothing is stored.  This is
    why an `update_defaults` of that parameter cannot leave a stale entry of the downstream function behind. -/
theorem C09_upstream_default_gives_no_key {H} (h : Val → H) (fs : List Func) (kw : List (String × Val)) (f : Func) (o x : String)
    (hx : x ∈ rootsOf fs o) (hkw : alookup kw x = none) (hp : ∀ pq ∈ f.params, pq.1 ≠ x) (hd : ∀ kv ∈ f.defaults, kv.1 ≠ x) :
    computeKey h fs kw f o = none := by
  apply C09_no_key_when_root_unresolved h fs kw f o x hx
  unfold keyView funcDefaults
  rw [hkw]
  simp only []
  apply C09_aux_alookup_none_of_not_key
  intro kv hkv
  rcases List.mem_append.mp hkv with hm | hm
  · obtain ⟨pq, hpq, he⟩ := List.mem_filterMap.mp hm
    cases hpd : pdefault fs pq.1 with
    | none => simp [hpd] at he
    | some w =>
      simp only [hpd, Option.map_some, Option.some.injEq] at he
      subst he
      exact hp pq hpq
  · exact hd kv (List.mem_filter.mp hm).1

/-! ### keyword order -/

theorem C09_aux_alookup_perm {β} (l l' : List (String × β)) (hp : l.Perm l') (hn : (akeys l).Nodup) (x : String) :
    alookup l x = alookup l' x := by
  induction hp with
  | nil => rfl
  | cons e _ ih =>
    obtain ⟨k, v⟩ := e
    simp only [akeys, List.map_cons, List.nodup_cons] at hn
    simp only [alookup]
    split
    · rfl
    · exact ih hn.2
  | swap a b l =>
    obtain ⟨ka, va⟩ := a
    obtain ⟨kb, vb⟩ := b
    simp only [akeys, List.map_cons, List.nodup_cons, List.mem_cons, not_or] at hn
    simp only [alookup]
    by_cases h1 : kb = x
    · by_cases h2 : ka = x
      · exact absurd (h1.trans h2.symm) hn.1.1
      · simp [h1, h2]
    · by_cases h2 : ka = x <;> simp [h1, h2]
  | trans p1 _ ih1 ih2 =>
    have hn' : (akeys _).Nodup := (List.Perm.nodup_iff (List.Perm.map (fun kv : String × β => kv.1) p1)).mp hn
    rw [ih1 hn, ih2 hn']

/-- **The key does not depend on the order of the keywords.**  Two calls that pass the same keyword arguments in another order
    (`p(a=1, b=2)` and `p(b=2, a=1)`: equal arguments) get the same key for every function — the same `None`, or the same
    entry — so the second finds what the first stored. -/
theorem C09_key_ignores_keyword_order {H} (h : Val → H) (fs : List Func) (kw kw' : List (String × Val)) (f : Func) (o : String)
    (hp : kw.Perm kw') (hn : (akeys kw).Nodup) : computeKey h fs kw f o = computeKey h fs kw' f o := by
  have hv : keyView fs f kw = keyView fs f kw' := by
    funext x
    unfold keyView
    rw [C09_aux_alookup_perm kw kw' hp hn x]
  have hi : intermediateSupplied fs kw o = intermediateSupplied fs kw' o := by
    unfold intermediateSupplied
    rw [Bool.eq_iff_iff]
    simp only [List.any_eq_true]
    have hk : (akeys kw).Perm (akeys kw') := List.Perm.map _ hp
    constructor
    · rintro ⟨k, hk1, hk2⟩; exact ⟨k, hk.mem_iff.mp hk1, hk2⟩
    · rintro ⟨k, hk1, hk2⟩; exact ⟨k, hk.mem_iff.mpr hk1, hk2⟩
  unfold computeKey
  rw [hv, hi]

/-- non-vacuity: two orders of the same two keywords on the chain `g(a)→c`, `f(c,a)→d` … -/
example : computeKey hS [gB, fD] [("a", .str "1"), ("zz", .str "0")] fD "d" =
    computeKey hS [gB, fD] [("zz", .str "0"), ("a", .str "1")] fD "d" :=
  C09_key_ignores_keyword_order hS _ _ _ fD "d" (List.Perm.swap _ _ _) (by decide)

/-! ### the seeded alternative: leaving the unresolved argument out of the key -/

/-- `g(a, b=B0) → c`: the owner of the defaulted parameter `b` -/
def gAB : Func := ⟨"g", [("a", "a"), ("b", "b")], ["c"], [("b", .str "B0")], []⟩
/-- `f(c, x=X0) → d`: downstream of `g`; it does not take `b` -/
def fCX : Func := ⟨"f", [("c", "c"), ("x", "x")], ["d"], [("x", .str "X0")], []⟩

/-- `p("d", a=1)`, `p.update_defaults({"b": "B1"})`, `p("d", a=1)` -/
def hDefault : List Step :=
  [.call "d" [("a", .str "1")] false, .mutate (.updateDefaults [("b", .str "B1")]), .call "d" [("a", .str "1")] false]

/-- the pinned key computation has no key for `f` in this call (`b` is a root argument of `d` that `f` cannot resolve) but one for `g` -/
theorem C09_downstream_of_default_has_no_key :
    computeKey hS [gAB, fCX] [("a", .str "1")] fCX "d" = none ∧
    computeKey hS [gAB, fCX] [("a", .str "1")] gAB "c" = some ⟨["c"], [("a", "1"), ("b", "B0")]⟩ ∧
    computeKeySkip hS [gAB, fCX] [("a", .str "1")] fCX "d" = some ⟨["d"], [("a", "1"), ("x", "X0")]⟩ := by
  refine ⟨?_, ?_, ?_⟩ <;> decide

/-- non-vacuity of `C09_key_lists_every_root` (a key exists for `g`) and of `C09_no_key_when_root_unresolved` (none for `f`) -/
example : ∃ K, computeKey hS [gAB, fCX] [("a", .str "1")] gAB "c" = some K ∧ K.items.map (·.1) = rootsOf [gAB, fCX] "c" :=
  ⟨_, C09_downstream_of_default_has_no_key.2.1, (C09_key_lists_every_root hS _ _ gAB "c" _ C09_downstream_of_default_has_no_key.2.1).2.1⟩
example : computeKey hS [gAB, fCX] [("a", .str "1")] fCX "d" = none :=
  C09_no_key_when_root_unresolved hS _ _ fCX "d" "b" (by decide) (by decide)

/-- non-vacuity of `C09_upstream_default_gives_no_key`: its hypotheses hold of `f`, `d`, `b` on this pipeline -/
example : computeKey hS [gAB, fCX] [("a", .str "1")] fCX "d" = none :=
  C09_upstream_default_gives_no_key hS _ _ fCX "d" "b" (by decide) rfl (by decide) (by decide)

/-- **Seeded change C09-s3-A is not transparent** (`computeKeySkip`: an unresolved root argument is left out of the key instead
    of refusing the key): after `update_defaults` of `b` the equal call is served the entry of `f` computed with the old default
    `B0`; the uncached twin computes with `B1`. -/
theorem C09_skipping_absent_root_stale :
    valsC (fun fs => computeKeySkip hS fs) [gAB, fCX] hDefault =
      [some (.app "f" [("c", .app "g" [("a", .str "1"), ("b", .str "B0")]), ("x", .str "X0")]), none,
       some (.app "f" [("c", .app "g" [("a", .str "1"), ("b", .str "B0")]), ("x", .str "X0")])] ∧
    valsU [gAB, fCX] hDefault =
      [some (.app "f" [("c", .app "g" [("a", .str "1"), ("b", .str "B0")]), ("x", .str "X0")]), none,
       some (.app "f" [("c", .app "g" [("a", .str "1"), ("b", .str "B1")]), ("x", .str "X0")])] := by
  constructor <;> rfl

/-- the pinned key computation on the same history returns what the twin returns (`C09_update_defaults_safe` in general) -/
theorem C09_refusing_absent_root_transparent :
    valsC (fun fs => computeKey hS fs) [gAB, fCX] hDefault = valsU [gAB, fCX] hDefault := by
  rfl

end PF.C09
