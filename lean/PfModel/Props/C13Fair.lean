import PfModel.Lemmas.ErrorsFair
import PfModel.Props.C13Snap
/-!
# C13 (proof round) — the fairness hypothesis, settled: exactly when a run in an executor does not return

Clause: "… and the call returns instead of hanging".  `C13_no_hang`, `C13_surface`, `C13_schedule_independent` and
`C13_surface_map` assume `FairSched` (the pool runs EVERY submitted task of every generation on the failure-free path) — the
report's "fairness of the pool is a hypothesis".  That hypothesis is sufficient but not necessary (the pool is shut down
after the first exception: tasks behind it need not run, generations behind it are never submitted), so a sceptical reader
asks what exactly is assumed about the pool.  Here:

* `Stuck fails σ tasks` — in submission order, a task the pool never runs is reached by `Future.result()` before any raising
  task — is EXACTLY when one generation waits for ever (`C13_gen_hang_iff`), and a generation that is not stuck raises /
  completes as the specification says (`C13_gen_not_stuck_spec`);
* `Stuck` is decidable by one scan (`C13_stuck_scan`, `stuckFrom`);
* `Returns` (no generation that the run REACHES is stuck) is EXACTLY "the run never hangs" (`C13_returns_iff`,
  `C13_map_returns_iff` for the whole of `run_map`), it is implied by `FairSched` (`C13_fair_returns`), and it suffices for
  the surface theorems (`C13_surface_exact`, `C13_surface_map_exact`, `C13_schedule_independent_exact`): the old theorems
  are corollaries, their hypothesis is now the weakest possible one.
-/
namespace PF.C13
open PF PF.Map PF.Errors

/-- **one generation in an executor waits for ever iff the schedule is stuck**: some position `j` of the submission order is
    never run while every earlier position ran and did not raise -/
theorem C13_gen_hang_iff (fails : Oracle) (σ : List Nat) (R : Env → MFunc → M FuncResult) (env : Env) (gen : List MFunc) :
    (∃ log, poolGen fails σ R env gen = .hang log) ↔
      ∃ rs, runGenWith R env gen = .ok rs ∧ Stuck fails σ (genTasks (gen.zip rs)) := by
  constructor
  · rintro ⟨log, h⟩
    cases hrs : runGenWith R env gen with
    | error e => simp [poolGen, hrs] at h
    | ok rs =>
      refine ⟨rs, rfl, ?_⟩
      apply Classical.byContradiction
      intro hns
      have hspec := poolGen_spec_exact fails σ R env gen rs hrs hns
      simp only [GenSpec, h] at hspec
      cases hff : firstFail fails (genTasks (gen.zip rs)) with
      | some tx => obtain ⟨t, x⟩ := tx; rw [hff] at hspec; obtain ⟨_, _, e⟩ := hspec; cases e
      | none => rw [hff] at hspec; obtain ⟨_, e⟩ := hspec; cases e
  · rintro ⟨rs, hrs, hs⟩
    exact poolGen_stuck fails σ R env gen rs hrs hs

/-- a generation whose schedule is not stuck raises the first failing invocation in submission order, or completes with the
    failure-free results — `Fair` is not needed -/
theorem C13_gen_not_stuck_spec (fails : Oracle) (σ : List Nat) (R : Env → MFunc → M FuncResult) (env : Env) (gen : List MFunc)
    (rs : List FuncResult) (h : runGenWith R env gen = .ok rs) (hns : ¬ Stuck fails σ (genTasks (gen.zip rs))) :
    match firstFail fails (genTasks (gen.zip rs)) with
    | some (t, x) => ∃ log slots, poolGen fails σ R env gen = .raised (raisedOf t x) log slots
    | none => ∃ log, poolGen fails σ R env gen = .ok rs log :=
  poolGen_spec_exact fails σ R env gen rs h hns

/-- **`Stuck` is decidable**: one scan of the submission order (`stuckFrom`: `true` at the first position the pool never runs,
    `false` at the first raising task that ran) — the hypothesis `¬ Stuck` can be evaluated on any concrete generation -/
theorem C13_stuck_scan (fails : Oracle) (σ : List Nat) (tasks : List Task) :
    Stuck fails σ tasks ↔ stuckFrom fails σ tasks 0 = true :=
  stuck_iff_stuckFrom fails σ tasks

/-- a fair schedule is never stuck, whatever fails -/
theorem C13_fair_not_stuck (fails : Oracle) (σ : List Nat) (tasks : List Task) (hf : Fair σ tasks.length) :
    ¬ Stuck fails σ tasks :=
  fair_not_stuck fails σ tasks hf

/-- the hypothesis of `C13_no_hang` / `C13_surface` implies `Returns`, for every oracle -/
theorem C13_fair_returns (fails : Oracle) (sched : Nat → List Nat) (R : Env → MFunc → M FuncResult)
    (gens : List (List MFunc)) (env : Env) (g : Nat) (h : FairSched sched R gens env g) : Returns fails sched R gens env g :=
  fairSched_returns fails sched R gens env g h

/-- **"the call returns instead of hanging", exactly**: the run in an executor never waits for ever iff no generation it
    reaches is stuck.  (`C13_no_hang` is the direction ← composed with `C13_fair_returns`.) -/
theorem C13_returns_iff (fails : Oracle) (sched : Nat → List Nat) (R : Env → MFunc → M FuncResult)
    (gens : List (List MFunc)) (env : Env) (g : Nat) :
    (∀ g' log, runGensE .pool fails sched R gens env g ≠ .hang g' log) ↔ Returns fails sched R gens env g :=
  ⟨no_hang_returns fails sched R gens env g, returns_no_hang fails sched R gens env g⟩

/-- **`C13_surface` under the weakest hypothesis**: whenever the run returns at all it raises exactly what the specification
    names, in the generation it names -/
theorem C13_surface_exact (mode : Mode) (fails : Oracle) (sched : Nat → List Nat) (R : Env → MFunc → M FuncResult)
    (gens : List (List MFunc)) (env : Env) (g g' : Nat) (r : Raised)
    (hret : mode = .pool → Returns fails sched R gens env g)
    (h : specGens fails R gens env g = .ok (some (g', r))) :
    ∃ log store, runGensE mode fails sched R gens env g = .raised g' r log store :=
  surface_exact mode fails sched R gens env g g' r hret h

/-- the surfaced exception is the same under any two schedules under which the run returns — fair or not -/
theorem C13_schedule_independent_exact (fails : Oracle) (sched sched' : Nat → List Nat) (R : Env → MFunc → M FuncResult)
    (gens : List (List MFunc)) (env : Env) (g g' : Nat) (r : Raised)
    (hf : ∀ g1 log, runGensE .pool fails sched R gens env g ≠ .hang g1 log)
    (hf' : ∀ g1 log, runGensE .pool fails sched' R gens env g ≠ .hang g1 log)
    (h : specGens fails R gens env g = .ok (some (g', r))) :
    (∃ log store, runGensE .pool fails sched R gens env g = .raised g' r log store) ∧
    (∃ log store, runGensE .pool fails sched' R gens env g = .raised g' r log store) :=
  ⟨surface_exact .pool fails sched R gens env g g' r (fun _ => no_hang_returns fails sched R gens env g hf) h,
   surface_exact .pool fails sched' R gens env g g' r (fun _ => no_hang_returns fails sched' R gens env g hf') h⟩

/-- **the whole of `run_map` in an executor returns iff `Returns`** on the pipeline's own generations (a request that fails
    validation is refused, which is a return) -/
theorem C13_map_returns_iff (fails : Oracle) (sched : Nat → List Nat) (fs : List MFunc) (inputs : List (String × Val))
    (ui : List (String × List Nat)) :
    (∀ g log, runMapE .pool fails sched fs inputs ui ≠ .hang g log) ↔
      ∀ shapes masks, validateInputs fs inputs = .ok () → (generations fs).flatten.length = fs.length →
        mapShapes fs inputs (constructInternal fs ui) = .ok (shapes, masks) →
        Returns fails sched (runFuncWith opArray fs shapes masks) (generations fs) { inputs := inputs, store := [] } 0 := by
  constructor
  · intro h shapes masks hv hc hm
    apply no_hang_returns
    intro g' log hrun
    apply h g' log
    unfold runMapE
    have : ¬ (generations fs).flatten.length ≠ fs.length := by simp [hc]
    simp only [hv, hm, if_neg this, hrun]
  · intro h g log hrun
    unfold runMapE at hrun
    cases hv : validateInputs fs inputs with
    | error e => simp [hv] at hrun
    | ok u =>
      cases u
      simp only [hv] at hrun
      by_cases hc : (generations fs).flatten.length = fs.length
      · have : ¬ (generations fs).flatten.length ≠ fs.length := by simp [hc]
        simp only [if_neg this] at hrun
        cases hm : mapShapes fs inputs (constructInternal fs ui) with
        | error e => simp [hm] at hrun
        | ok sm =>
          obtain ⟨shapes, masks⟩ := sm
          simp only [hm] at hrun
          have hret := h shapes masks hv hc hm
          cases hr : runGensE .pool fails sched (runFuncWith opArray fs shapes masks) (generations fs)
              { inputs := inputs, store := [] } 0 with
          | hang g1 l1 => exact returns_no_hang fails sched _ _ _ 0 hret g1 l1 hr
          | ok a b c => simp [hr] at hrun
          | refused e => simp [hr] at hrun
          | raised a b c d => simp [hr] at hrun
      · have : (generations fs).flatten.length ≠ fs.length := hc
        rw [if_pos this] at hrun; cases hrun

/-- `C13_surface_map` under the weakest hypothesis -/
theorem C13_surface_map_exact (mode : Mode) (fails : Oracle) (sched : Nat → List Nat) (fs : List MFunc) (inputs : List (String × Val))
    (ui : List (String × List Nat)) (shapes : List (String × List Nat)) (masks : List (String × List Bool)) (g' : Nat) (r : Raised)
    (hv : validateInputs fs inputs = .ok ()) (hc : (generations fs).flatten.length = fs.length)
    (hm : mapShapes fs inputs (constructInternal fs ui) = .ok (shapes, masks))
    (hret : mode = .pool → Returns fails sched (runFuncWith opArray fs shapes masks) (generations fs) { inputs := inputs, store := [] } 0)
    (hs : specGens fails (runFuncWith opArray fs shapes masks) (generations fs) { inputs := inputs, store := [] } 0 = .ok (some (g', r))) :
    ∃ log stored, runMapE mode fails sched fs inputs ui = .raised g' r log stored := by
  obtain ⟨log, store, e⟩ := surface_exact mode fails sched _ _ _ 0 g' r hret hs
  unfold runMapE
  simp only [hv, hm, e]
  have : ¬ (generations fs).flatten.length ≠ fs.length := by simp [hc]
  simp only [if_neg this]
  exact ⟨_, _, rfl⟩

/-! ## non-vacuity and witnesses (generation 0 of `[g0, g1, g2]`: positions 0-2 are `g0`, 3-5 are `g1`; `orc` raises at 1 and 3) -/

def outKind : RunOut → String × Nat × String
  | .raised g r _ _ => ("raised", g, r.exn.cls)
  | .ok _ _ _ => ("ok", 0, "")
  | .refused _ => ("refused", 0, "")
  | .hang g _ => ("hang", g, "")

def gens012 : List (List MFunc) := generations [g0, g1, g2]

/-- `Returns` holds for an UNFAIR schedule (tasks 2-5 never run): hypothesis of `C13_surface_exact` /
    `C13_schedule_independent_exact` where `FairSched` fails — the run raises `g0`'s ValueError -/
example : Returns orc (fun _ => [0, 1]) RR gens012 env0 0 := by
  apply (C13_returns_iff orc (fun _ => [0, 1]) RR gens012 env0 0).mp
  intro g' log h
  have hk : outKind (runGensE .pool orc (fun _ => [0, 1]) RR gens012 env0 0) = ("raised", 0, "ValueError") := by decide
  rw [h] at hk; simp [outKind] at hk
/-- … and `FairSched` really fails there: position 2 of generation 0 is not in the schedule -/
example : ¬ FairSched (fun _ => [0, 1]) RR gens012 env0 0 := by
  intro h
  have hk : (runGenWith RR env0 [g0, g1]).toOption.map (fun rs => (genTasks ([g0, g1].zip rs)).length) = some 6 := by decide
  have hg : gens012 = [[g0, g1], [g2]] := by rfl
  rw [hg] at h
  simp only [FairSched] at h
  cases hrs : runGenWith RR env0 [g0, g1] with
  | error e => simp [hrs, Except.toOption] at hk
  | ok rs =>
    simp only [hrs, Except.toOption, Option.map] at hk h
    have := h.1 2 (by injection hk with hk; omega)
    simp at this
/-- a stuck schedule (position 0 never runs): `Returns` fails and the run hangs — the hypothesis cannot be dropped -/
example : ¬ Returns orc (fun _ => [1, 2]) RR gens012 env0 0 := by
  intro hret
  have hk : outKind (runGensE .pool orc (fun _ => [1, 2]) RR gens012 env0 0) = ("hang", 0, "") := by decide
  cases hr : runGensE .pool orc (fun _ => [1, 2]) RR gens012 env0 0 with
  | hang g l => exact (C13_returns_iff orc _ RR gens012 env0 0).mpr hret g l hr
  | ok a b c => simp [hr, outKind] at hk
  | refused e => simp [hr, outKind] at hk
  | raised a b c d => simp [hr, outKind] at hk
/-- `Stuck` on a concrete task list (hypothesis of the ← direction of `C13_gen_hang_iff`): position 0 is not scheduled -/
example : Stuck orc [1, 2] [⟨g0, ⟨"g0", [("a", .int 1)]⟩⟩, ⟨g0, ⟨"g0", [("a", .int 2)]⟩⟩] :=
  ⟨0, by decide, by decide, fun i hi => absurd hi (by omega)⟩
/-- not stuck although unfair (hypothesis of `C13_gen_not_stuck_spec`): the raising task at position 1 ran, position 2 did not -/
example : ¬ Stuck orc [0, 1] [⟨g0, ⟨"g0", [("a", .int 1)]⟩⟩, ⟨g0, ⟨"g0", [("a", .int 2)]⟩⟩, ⟨g0, ⟨"g0", [("a", .int 3)]⟩⟩] := by
  rintro ⟨j, hj, hnot, hpre⟩
  have hj3 : j < 3 := hj
  have : j = 2 := by
    rcases (by omega : j = 0 ∨ j = 1 ∨ j = 2) with h | h | h
    · subst h; simp at hnot
    · subst h; simp at hnot
    · exact h
  subst this
  have := (hpre 1 (by omega)).2 _ rfl
  simp [failOf, orc, g0] at this
/-- the same two witnesses through the decision procedure of `C13_stuck_scan`; and: a raising task that ran does not help when
    an earlier position never runs (position 0 missing, the raising position 1 ran) -/
example : Stuck orc [1, 2] [⟨g0, ⟨"g0", [("a", .int 1)]⟩⟩, ⟨g0, ⟨"g0", [("a", .int 2)]⟩⟩] := by decide
example : ¬ Stuck orc [0, 1] [⟨g0, ⟨"g0", [("a", .int 1)]⟩⟩, ⟨g0, ⟨"g0", [("a", .int 2)]⟩⟩, ⟨g0, ⟨"g0", [("a", .int 3)]⟩⟩] := by decide
example : ¬ Stuck never [1, 0] [⟨g0, ⟨"g0", [("a", .int 1)]⟩⟩, ⟨g0, ⟨"g0", [("a", .int 2)]⟩⟩] := by decide
example : Stuck never [0, 1] [⟨g0, ⟨"g0", [("a", .int 1)]⟩⟩, ⟨g0, ⟨"g0", [("a", .int 2)]⟩⟩, ⟨g0, ⟨"g0", [("a", .int 3)]⟩⟩] := by decide
/-- `Fair` (hypothesis of `C13_fair_not_stuck`) -/
example : Fair [2, 1, 0] 3 := by intro j hj; have : j = 0 ∨ j = 1 ∨ j = 2 := by omega
                                 rcases this with h | h | h <;> subst h <;> simp
/-- `FairSched` (hypothesis of `C13_fair_returns`) on the running example: submission order, both generations -/
example : FairSched (fun _ => [0, 1, 2, 3, 4, 5]) RR [[g0, g1], [g2]] env0 0 := by
  have hk : (match runGenWith RR env0 [g0, g1] with
      | .error _ => none
      | .ok rs => some ((genTasks ([g0, g1].zip rs)).length,
          match runGenWith RR { env0 with store := env0.store ++ rs.flatMap (·.slots) } [g2] with
          | .error _ => none
          | .ok rs2 => some (genTasks ([g2].zip rs2)).length)) = some (6, some 1) := by decide
  have hfair : ∀ n, n ≤ 6 → Fair [0, 1, 2, 3, 4, 5] n := by
    intro n hn j hj
    have : j = 0 ∨ j = 1 ∨ j = 2 ∨ j = 3 ∨ j = 4 ∨ j = 5 := by omega
    rcases this with h | h | h | h | h | h <;> subst h <;> simp
  simp only [FairSched]
  cases hrs : runGenWith RR env0 [g0, g1] with
  | error e => trivial
  | ok rs =>
    simp only [hrs] at hk ⊢
    cases hrs2 : runGenWith RR { env0 with store := env0.store ++ rs.flatMap (·.slots) } [g2] with
    | error e => simp [hrs2] at hk
    | ok rs2 =>
      simp only [hrs2] at hk ⊢
      injection hk with hk; injection hk with h1 h2; injection h2 with h2
      exact ⟨hfair _ (by omega), hfair _ (by omega), trivial⟩
/-- whole `run_map`: the unfair schedule returns (raises), the stuck one hangs (both sides of `C13_map_returns_iff`) -/
example : summary (runMapE .pool orc (fun _ => [0, 1]) [g0, g1, g2] [("x", x3)] []) =
    ("raised", 0, "ValueError", ["g0", "x"], ["g0", "g0"]) := by decide
example : summary (runMapE .pool orc (fun _ => [1, 2]) [g0, g1, g2] [("x", x3)] []) = ("hang", 0, "", [], ["g0", "g0"]) := by decide
/-- hypotheses of `C13_surface_map_exact` together (validation, acyclic, shapes, `Returns` for the unfair schedule via the iff) -/
example : validateInputs [g0, g1, g2] [("x", x3)] = .ok () ∧ (generations [g0, g1, g2]).flatten.length = 3 := by
  exact ⟨by rfl, by decide⟩

end PF.C13
