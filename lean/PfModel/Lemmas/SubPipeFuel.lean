import PfModel.Lemmas.SubPipe
/-! Fuel sufficiency of the worklist of `PF.Sub` (`_find_nodes_between`): with the fuel `fuelFor` hands it, `dfs` always ends
with an empty stack, so `reachSet` always returns a set and `subpipeline` never answers `.fuel`.
Potential: `|stack| + (d+1) · #{nodes below n not yet kept}`; every pop lowers it by at least one. -/
namespace PF.Sub
open PF

/-- number of nodes below `n` that are not kept yet -/
def unkept (n : Nat) (keep : List Nat) : Nat := ((List.range n).filter fun j => !keep.contains j).length

theorem filter_snoc_length (keep : List Nat) (i : Nat) (hk : i ∉ keep) : ∀ (l : List Nat), l.Nodup → i ∈ l →
    (l.filter fun j => !(keep ++ [i]).contains j).length + 1 = (l.filter fun j => !keep.contains j).length := by
  intro l
  induction l with
  | nil => intro _ h; cases h
  | cons a l ih =>
    intro hnd hi
    have hal : a ∉ l := (List.nodup_cons.mp hnd).1
    have hl : l.Nodup := (List.nodup_cons.mp hnd).2
    have hhead1 : (!(keep ++ [i]).contains a) = (!keep.contains a && !decide (a = i)) := by simp
    by_cases hia : i = a
    · subst hia
      have hsame : (l.filter fun j => !(keep ++ [i]).contains j) = (l.filter fun j => !keep.contains j) := by
        apply List.filter_congr
        intro j hj
        have : j ≠ i := fun h => hal (h ▸ hj)
        simp [this]
      have h1 : (!(keep ++ [i]).contains i) = false := by simp
      have h2 : (!keep.contains i) = true := by simp [hk]
      rw [List.filter_cons, List.filter_cons, h1, h2, hsame]
      simp
    · have hil : i ∈ l := by
        rcases List.mem_cons.mp hi with h | h
        · exact absurd h hia
        · exact h
      have := ih hl hil
      have hne : a ≠ i := fun h => hia h.symm
      have h1 : (!(keep ++ [i]).contains a) = (!keep.contains a) := by simp [hne]
      rw [List.filter_cons, List.filter_cons, h1]
      split
      · simp only [List.length_cons]; omega
      · exact this

theorem unkept_snoc (n : Nat) (keep : List Nat) (i : Nat) (hi : i < n) (hk : i ∉ keep) :
    unkept n (keep ++ [i]) + 1 = unkept n keep :=
  filter_snoc_length keep i hk (List.range n) List.nodup_range (List.mem_range.mpr hi)

theorem unkept_le (n : Nat) (keep : List Nat) : unkept n keep ≤ n := by
  unfold unkept
  have := List.length_filter_le (fun j => !keep.contains j) (List.range n)
  simpa using this

/-- with enough fuel the worklist ends with an empty stack: the result is closed and contains the stack and what was kept -/
theorem dfs_complete (pre : Nat → List Nat) (n d : Nat) (hpre : ∀ i, ∀ j ∈ pre i, j < n) (hd : ∀ i, (pre i).length ≤ d) :
    ∀ (fuel : Nat) (stack keep : List Nat), (∀ i ∈ stack, i < n) → stack.length + (d + 1) * unkept n keep < fuel →
      (∀ i ∈ keep, ∀ j ∈ pre i, j ∈ keep ∨ j ∈ stack) →
      (∀ i ∈ dfs pre fuel stack keep, ∀ j ∈ pre i, j ∈ dfs pre fuel stack keep) ∧
      (∀ i ∈ stack, i ∈ dfs pre fuel stack keep) ∧ (∀ i ∈ keep, i ∈ dfs pre fuel stack keep) := by
  intro fuel
  induction fuel with
  | zero => intro stack keep _ h; omega
  | succ f ih =>
    intro stack keep hs hm hinv
    cases stack with
    | nil =>
      simp only [dfs]
      refine ⟨?_, (by intro i hi; cases hi), fun i hi => hi⟩
      intro i hi j hj
      rcases hinv i hi j hj with h | h
      · exact h
      · cases h
    | cons a rest =>
      simp only [dfs]
      split
      · next hc =>
        have hak : a ∈ keep := by simpa using hc
        have := ih rest keep (fun i hi => hs i (List.mem_cons_of_mem _ hi)) (by simp only [List.length_cons] at hm; omega)
          (by
            intro i hi j hj
            rcases hinv i hi j hj with h | h
            · exact Or.inl h
            · rcases List.mem_cons.mp h with h | h
              · exact Or.inl (h ▸ hak)
              · exact Or.inr h)
        refine ⟨this.1, ?_, this.2.2⟩
        intro i hi
        rcases List.mem_cons.mp hi with h | h
        · exact this.2.2 i (h ▸ hak)
        · exact this.2.1 i h
      · next hc =>
        have hak : a ∉ keep := by simpa using hc
        have han : a < n := hs a (List.mem_cons_self ..)
        have hu := unkept_snoc n keep a han hak
        have hda := hd a
        have := ih (pre a ++ rest) (keep ++ [a])
          (by
            intro i hi
            rcases List.mem_append.mp hi with h | h
            · exact hpre a i h
            · exact hs i (List.mem_cons_of_mem _ h))
          (by
            simp only [List.length_cons, List.length_append] at hm ⊢
            rw [← hu, Nat.mul_succ] at hm
            omega)
          (by
            intro i hi j hj
            rcases List.mem_append.mp hi with h | h
            · rcases hinv i h j hj with h2 | h2
              · exact Or.inl (List.mem_append_left _ h2)
              · rcases List.mem_cons.mp h2 with h3 | h3
                · exact Or.inl (List.mem_append_right _ (by simp [h3]))
                · exact Or.inr (List.mem_append_right _ h3)
            · simp only [List.mem_singleton] at h
              subst h
              exact Or.inr (List.mem_append_left _ hj))
        refine ⟨this.1, ?_, fun i hi => this.2.2 i (List.mem_append_left _ hi)⟩
        intro i hi
        rcases List.mem_cons.mp hi with h | h
        · exact this.2.2 i (List.mem_append_right _ (by simp [h]))
        · exact this.2.1 i (List.mem_append_right _ h)

/-- **`reachSet` answers** whenever the fuel exceeds `|init| + (d+1)·n` (all nodes below `n`, at most `d` predecessors each) -/
theorem reachSet_total (pre : Nat → List Nat) (n d : Nat) (hpre : ∀ i, ∀ j ∈ pre i, j < n) (hd : ∀ i, (pre i).length ≤ d)
    (init : List Nat) (hinit : ∀ i ∈ init, i < n) (fuel : Nat) (hf : init.length + (d + 1) * n < fuel) :
    ∃ K, reachSet pre init fuel = some K := by
  have hle := unkept_le n []
  have hmul : (d + 1) * unkept n [] ≤ (d + 1) * n := Nat.mul_le_mul_left _ hle
  have := dfs_complete pre n d hpre hd fuel init [] hinit (by omega) (by intro i hi; cases hi)
  refine ⟨dfs pre fuel init [], ?_⟩
  unfold reachSet
  simp only
  rw [if_pos]
  simp only [Bool.and_eq_true, List.all_eq_true, closed, List.contains_eq_mem, decide_eq_true_eq]
  exact ⟨this.2.1, this.1⟩

theorem reach_lt (pre : Nat → List Nat) (n : Nat) (hpre : ∀ i, ∀ j ∈ pre i, j < n) (init : List Nat)
    (hinit : ∀ i ∈ init, i < n) (i : Nat) (h : Reach pre init i) : i < n := by
  induction h with
  | base i hi => exact hinit i hi
  | step i j _ hj _ => exact hpre i j hj

theorem le_foldl_max : ∀ (l : List Nat) (a : Nat), a ≤ l.foldl max a ∧ ∀ x ∈ l, x ≤ l.foldl max a := by
  intro l
  induction l with
  | nil => intro a; exact ⟨Nat.le_refl _, by intro x hx; cases hx⟩
  | cons b l ih =>
    intro a
    simp only [List.foldl_cons]
    obtain ⟨h1, h2⟩ := ih (max a b)
    refine ⟨Nat.le_trans (Nat.le_max_left a b) h1, ?_⟩
    intro x hx
    rcases List.mem_cons.mp hx with h | h
    · subst h; exact Nat.le_trans (Nat.le_max_right a x) h1
    · exact h2 x h

section generic
variable {α : Type} (nd : α → Node)

/-- the largest number of graph parameters of a function -/
def maxDeps (fs : List α) : Nat := (fs.map fun f => (nd f).deps.length).foldl max 0

theorem fuelFor_eq (fs : List α) (k : Nat) : fuelFor nd fs k = k + fs.length * (maxDeps nd fs + fs.length + 2) + 1 := rfl

theorem prodIdx_lt (fs : List α) (o : String) (j : Nat) (h : prodIdx nd fs o = some j) : j < fs.length := by
  unfold prodIdx at h
  exact (List.findIdx?_eq_some_iff_getElem.mp h).1

theorem predsIdx_lt (fs : List α) (cut : String → Bool) (i : Nat) : ∀ j ∈ predsIdx nd fs cut i, j < fs.length := by
  intro j hj
  unfold predsIdx at hj
  split at hj
  · cases hj
  · obtain ⟨p, _, hp⟩ := List.mem_filterMap.mp hj
    split at hp
    · cases hp
    · exact prodIdx_lt nd fs p j hp

theorem predsIdx_length (fs : List α) (cut : String → Bool) (i : Nat) : (predsIdx nd fs cut i).length ≤ maxDeps nd fs := by
  unfold predsIdx
  split
  · simp
  · next f hf =>
    refine Nat.le_trans (List.length_filterMap_le _ _) ?_
    exact (le_foldl_max (fs.map fun f => (nd f).deps.length) 0).2 _ (List.mem_map.mpr ⟨f, List.mem_of_getElem? hf, rfl⟩)

theorem succsIdx_lt (fs : List α) (i : Nat) : ∀ j ∈ succsIdx nd fs i, j < fs.length := by
  intro j hj
  exact List.mem_range.mp (List.mem_filter.mp hj).1

theorem succsIdx_length (fs : List α) (i : Nat) : (succsIdx nd fs i).length ≤ fs.length := by
  unfold succsIdx
  exact Nat.le_trans (List.length_filter_le _ _) (by simp)

theorem rootConsumers_lt (fs : List α) (r : String) : ∀ j ∈ rootConsumers nd fs r, j < fs.length := by
  intro j hj
  exact List.mem_range.mp (List.mem_filter.mp hj).1

theorem rootConsumers_length (fs : List α) (r : String) : (rootConsumers nd fs r).length ≤ fs.length := by
  unfold rootConsumers
  exact Nat.le_trans (List.length_filter_le _ _) (by simp)

/-- **the backward worklist of `subpipeline` never runs out of fuel** -/
theorem reachSet_preds_total (fs : List α) (cut : String → Bool) (out : List Nat) (hout : ∀ i ∈ out, i < fs.length) :
    ∃ K, reachSet (predsIdx nd fs cut) out (fuelFor nd fs out.length) = some K := by
  apply reachSet_total (predsIdx nd fs cut) fs.length (maxDeps nd fs) (predsIdx_lt nd fs cut) (predsIdx_length nd fs cut) out hout
  rw [fuelFor_eq, Nat.mul_add, Nat.mul_add, Nat.mul_comm (maxDeps nd fs + 1), Nat.mul_add]
  omega

/-- the forward worklist (`nx.descendants`) never runs out of fuel either -/
theorem reachSet_succs_total (fs : List α) (init : List Nat) (hinit : ∀ i ∈ init, i < fs.length) (hlen : init.length ≤ fs.length) :
    ∃ K, reachSet (succsIdx nd fs) init (fuelFor nd fs fs.length) = some K := by
  apply reachSet_total (succsIdx nd fs) fs.length fs.length (succsIdx_lt nd fs) (succsIdx_length nd fs) init hinit
  rw [fuelFor_eq, Nat.mul_add, Nat.mul_add, Nat.mul_comm (fs.length + 1), Nat.mul_add]
  omega

theorem downstreamOf_lt (fs : List α) (n : String) (K : List Nat) (h : downstreamOf nd fs n = .ok K) : ∀ i ∈ K, i < fs.length := by
  unfold downstreamOf at h
  split at h
  · next i hi =>
    split at h
    · next K' hK =>
      cases h
      intro j hj
      exact reach_lt _ fs.length (succsIdx_lt nd fs) _ (succsIdx_lt nd fs i) j ((reachSet_iff _ _ _ K hK j).mp hj)
    · cases h
  · split at h
    · cases h
    · split at h
      · next K' hK =>
        cases h
        intro j hj
        exact reach_lt _ fs.length (succsIdx_lt nd fs) _ (rootConsumers_lt nd fs n) j ((reachSet_iff _ _ _ K hK j).mp hj)
      · cases h

theorem downstreamOf_ne_fuel (fs : List α) (n : String) : downstreamOf nd fs n ≠ .error .fuel := by
  unfold downstreamOf
  split
  · next i hi =>
    obtain ⟨K, hK⟩ := reachSet_succs_total nd fs (succsIdx nd fs i) (succsIdx_lt nd fs i) (succsIdx_length nd fs i)
    rw [hK]; intro h; cases h
  · split
    · intro h; cases h
    · obtain ⟨K, hK⟩ := reachSet_succs_total nd fs (rootConsumers nd fs n) (rootConsumers_lt nd fs n) (rootConsumers_length nd fs n)
      rw [hK]; intro h; cases h

theorem mapM_except {β γ ε : Type} (g : β → Except ε γ) : ∀ (l : List β),
    (∀ e, l.mapM g = .error e → ∃ b ∈ l, g b = .error e) ∧
    (∀ r, l.mapM g = .ok r → ∀ y ∈ r, ∃ b ∈ l, g b = .ok y) := by
  intro l
  induction l with
  | nil =>
    refine ⟨?_, ?_⟩
    · intro e h; simp [List.mapM_nil, pure, Except.pure] at h
    · intro r h; simp [List.mapM_nil, pure, Except.pure] at h; subst h; intro y hy; cases hy
  | cons a l ih =>
    refine ⟨?_, ?_⟩
    · intro e h
      simp only [List.mapM_cons, bind, Except.bind] at h
      split at h
      · next e' he => cases h; exact ⟨a, List.mem_cons_self .., he⟩
      · split at h
        · next e' he => cases h; obtain ⟨b, hb, hg⟩ := ih.1 _ he; exact ⟨b, List.mem_cons_of_mem _ hb, hg⟩
        · simp [pure, Except.pure] at h
    · intro r h
      simp only [List.mapM_cons, bind, Except.bind] at h
      split at h
      · cases h
      · next y0 hy0 =>
        split at h
        · cases h
        · next r0 hr0 =>
          simp only [pure, Except.pure] at h
          cases h
          intro y hy
          rcases List.mem_cons.mp hy with h | h
          · subst h; exact ⟨a, List.mem_cons_self .., hy0⟩
          · obtain ⟨b, hb, hg⟩ := ih.2 _ hr0 y h; exact ⟨b, List.mem_cons_of_mem _ hb, hg⟩

theorem outNodes_lt (fs : List α) (I S : Option (List String)) (out : List Nat) (h : outNodes nd fs I S = .ok out) :
    ∀ i ∈ out, i < fs.length := by
  unfold outNodes at h
  cases S with
  | some s =>
    simp only at h
    intro i hi
    obtain ⟨o, _, ho⟩ := (mapM_except _ s).2 out h i hi
    split at ho
    · next j hj => cases ho; exact prodIdx_lt nd fs o _ hj
    · cases ho
  | none =>
    simp only [bind, Except.bind] at h
    split at h
    · cases h
    · next ks hks =>
      simp only [pure, Except.pure] at h
      cases h
      intro i hi
      rw [List.mem_eraseDups] at hi
      obtain ⟨K, hK, hiK⟩ := List.mem_flatten.mp hi
      obtain ⟨n, _, hn⟩ := (mapM_except _ _).2 ks hks K hK
      exact downstreamOf_lt nd fs n K hn i hiK

theorem outNodes_ne_fuel (fs : List α) (I S : Option (List String)) : outNodes nd fs I S ≠ .error .fuel := by
  unfold outNodes
  cases S with
  | some s =>
    simp only
    intro h
    obtain ⟨o, _, ho⟩ := (mapM_except _ s).1 _ h
    split at ho <;> cases ho
  | none =>
    simp only [bind, Except.bind]
    split
    · next e he =>
      intro h
      cases h
      obtain ⟨n, _, hn⟩ := (mapM_except _ _).1 _ he
      exact downstreamOf_ne_fuel nd fs n hn
    · intro h; cases h


theorem mapM_except_mem {β γ ε : Type} (g : β → Except ε γ) : ∀ (l : List β) (r : List γ), l.mapM g = .ok r →
    ∀ b ∈ l, ∃ y ∈ r, g b = .ok y := by
  intro l
  induction l with
  | nil => intro r _ b hb; cases hb
  | cons a l ih =>
    intro r h b hb
    simp only [List.mapM_cons, bind, Except.bind] at h
    split at h
    · cases h
    · next y0 hy0 =>
      split at h
      · cases h
      · next r0 hr0 =>
        simp only [pure, Except.pure] at h
        cases h
        rcases List.mem_cons.mp hb with hb | hb
        · subst hb; exact ⟨y0, List.mem_cons_self .., hy0⟩
        · obtain ⟨y, hy, hg⟩ := ih r0 hr0 b hb; exact ⟨y, List.mem_cons_of_mem _ hy, hg⟩

/-- the functions downstream of a provided name `n` (`nx.descendants(graph, node_mapping[n])`, functions only): reachable over
    consumer edges from the consumers of `n` (of the outputs of its producer, when `n` is an output) -/
def Downstream (fs : List α) (n : String) (j : Nat) : Prop :=
  Reach (succsIdx nd fs) (match prodIdx nd fs n with | some i => succsIdx nd fs i | none => rootConsumers nd fs n) j

theorem downstreamOf_iff (fs : List α) (n : String) (K : List Nat) (h : downstreamOf nd fs n = .ok K) :
    ∀ j, j ∈ K ↔ Downstream nd fs n j := by
  unfold downstreamOf at h
  unfold Downstream
  split at h
  · next i hi =>
    split at h
    · next K' hK => cases h; simp only [hi]; exact reachSet_iff _ _ _ K hK
    · cases h
  · next hi =>
    split at h
    · cases h
    · split at h
      · next K' hK => cases h; simp only [hi]; exact reachSet_iff _ _ _ K hK
      · cases h

theorem outNodes_none_iff (fs : List α) (inp : List String) (out : List Nat) (h : outNodes nd fs (some inp) none = .ok out) :
    ∀ j, j ∈ out ↔ ∃ n ∈ inp, Downstream nd fs n j := by
  unfold outNodes at h
  simp only [bind, Except.bind, Option.getD_some] at h
  split at h
  · cases h
  · next ks hks =>
    simp only [pure, Except.pure] at h
    cases h
    intro j
    rw [List.mem_eraseDups, List.mem_flatten]
    constructor
    · rintro ⟨K, hK, hj⟩
      obtain ⟨n, hn, hd⟩ := (mapM_except _ _).2 ks hks K hK
      exact ⟨n, hn, (downstreamOf_iff nd fs n K hd j).mp hj⟩
    · rintro ⟨n, hn, hj⟩
      obtain ⟨K, hK, hd⟩ := mapM_except_mem _ _ ks hks n hn
      exact ⟨K, hK, (downstreamOf_iff nd fs n K hd j).mpr hj⟩

/-- **`subpipeline` never answers "out of fuel"**: for every pipeline and every request -/
theorem subpipeline_ne_fuel (fs : List α) (I S : Option (List String)) : subpipeline nd fs I S ≠ .error .fuel := by
  unfold subpipeline
  split
  · intro h; cases h
  · split
    · next e he =>
      intro h
      cases h
      exact outNodes_ne_fuel nd fs I S he
    · next out hout =>
      obtain ⟨K, hK⟩ := reachSet_preds_total nd fs (cutOf I) out (outNodes_lt nd fs I S out hout)
      rw [hK]
      simp only
      unfold checkRoots
      split
      · intro h; cases h
      · split
        · intro h; cases h
        · intro h; cases h

end generic
end PF.Sub
