import PfModel.Lemmas.RewriteAxisTop
import PfModel.Lemmas.RewriteNest
/-!
`add_mapspec_axis` on a pipeline without prior MapSpecs (part 8): from `RFunc`s to `PF.Map`: `liftOKb`, the decidable form
of `LiftOK` on the result of `addAxis`, and the pointwise-lifting statement for `addAxis` given `liftOKb`.
-/
namespace PF.Rw
open PF PF.Map PF.C01 PF.Rw.Ax

/-- the function with the MapSpec `τ` chooses for its outputs -/
def setSpecR (τ : List String → Option MSpec) (f : RFunc) : RFunc := { f with mapspec := τ f.core.outputs }

theorem toMFunc_setSpecR (τ : List String → Option MSpec) (f : RFunc) : toMFunc (setSpecR τ f) = withSpec τ (toMFunc f) := rfl

theorem map_toMFunc_setSpecR (τ : List String → Option MSpec) (fs : List RFunc) :
    (fs.map (setSpecR τ)).map toMFunc = (fs.map toMFunc).map (withSpec τ) := by
  simp only [List.map_map]
  apply List.map_congr_left
  intro f _
  rfl

theorem mfree_toMFunc (f : RFunc) : mfree (toMFunc f) = freeParams f := by
  unfold mfree freeParams toMFunc
  apply filterMap_congr'
  intro ⟨a, b⟩ _
  rfl

theorem producer_toMFunc (fs : List RFunc) (x : String) : producer (fs.map toMFunc) x = (rproducer fs x).map toMFunc := by
  induction fs with
  | nil => rfl
  | cons a as ih =>
    simp only [producer, rproducer, List.map_cons, List.find?_cons] at ih ⊢
    by_cases h : x ∈ a.core.outputs
    · simp [toMFunc, h]
    · simp only [toMFunc, h, decide_false] at ih ⊢; exact ih

/-- some function of `fs'` that carries a MapSpec outputs `x` -/
def hasSpec (fs' : List RFunc) (x : String) : Bool := fs'.any fun g => g.mapspec.isSome && g.core.outputs.contains x

/-- **the decidable form of `LiftOK`** on a list of functions `fs'` (the result of `addAxis p axis fs`): every function has
    an output; a function without MapSpec has no non-bound parameter that is `p` or an output of a function with a MapSpec;
    a function with a MapSpec maps exactly those of its non-bound parameters, and all its outputs, along `axis` and nothing else -/
def liftOKb (p axis : String) (fs' : List RFunc) : Bool :=
  fs'.all fun g =>
    !g.core.outputs.isEmpty &&
    match g.mapspec with
    | none => (freeParams g).all fun q => !(q == p || hasSpec fs' q)
    | some ms =>
      ms.outputs == g.core.outputs.map (fun o => (⟨o, [some axis]⟩ : ASpec)) && !ms.inputs.isEmpty &&
      (ms.inputs.all fun a => a.axes == [some axis] && (freeParams g).contains a.name && (a.name == p || hasSpec fs' a.name)) &&
      (freeParams g).all fun q => !(q == p || hasSpec fs' q) || ms.inputs.any (·.name == q)

/-- the functions all differ in their outputs -/
def uniqueOutB (fs : List RFunc) : Bool :=
  fs.all fun g => fs.all fun h => g.core.outputs.all fun x => !h.core.outputs.contains x || h.core.outputs == g.core.outputs

theorem hasSpec_setSpecR (τ : List String → Option MSpec) (fs : List RFunc) (x : String) :
    hasSpec (fs.map (setSpecR τ)) x = isL τ (fs.map toMFunc) x := by
  unfold hasSpec isL
  rw [List.any_map, List.any_map]
  rfl

/-- `liftOKb` on `fs.map (setSpecR τ)` is `LiftOK τ` on the functions as `map` sees them -/
theorem liftOK_of_b (τ : List String → Option MSpec) (fs : List RFunc) (p axis : String)
    (hplain : ∀ f ∈ fs, f.mapspec = none) (hu : uniqueOutB fs = true) (hn : nodupB (fs.map (·.core.name)) = true)
    (hroot : rproducer fs p = none) (hb : liftOKb p axis (fs.map (setSpecR τ)) = true) :
    LiftOK τ (fs.map toMFunc) p axis := by
  have hall : ∀ f ∈ fs, _ := fun f hf => List.all_eq_true.mp hb (setSpecR τ f) (List.mem_map.mpr ⟨f, hf, rfl⟩)
  have hln : ∀ q, (q == p || hasSpec (fs.map (setSpecR τ)) q) = true ↔ LN τ (fs.map toMFunc) p q := by
    intro q
    rw [hasSpec_setSpecR]
    unfold LN
    simp
  refine ⟨?_, ?_, ?_, ?_, ?_, ?_, ?_⟩
  · intro g hg
    obtain ⟨f, hf, rfl⟩ := List.mem_map.mp hg
    exact hplain f hf
  · intro g hg
    obtain ⟨f, hf, rfl⟩ := List.mem_map.mp hg
    have := hall f hf
    simp only [Bool.and_eq_true, Bool.not_eq_eq_eq_not, Bool.not_true] at this
    intro he
    have h1 := this.1
    simp only [setSpecR, toMFunc] at h1 he
    rw [he] at h1; cases h1
  · intro g hg h hh x hxg hxh
    obtain ⟨f1, hf1, rfl⟩ := List.mem_map.mp hg
    obtain ⟨f2, hf2, rfl⟩ := List.mem_map.mp hh
    have := List.all_eq_true.mp (List.all_eq_true.mp (List.all_eq_true.mp hu f1 hf1) f2 hf2) x hxg
    simp only [Bool.or_eq_true, Bool.not_eq_eq_eq_not, Bool.not_true, List.contains_eq_mem, decide_eq_false_iff_not, beq_iff_eq] at this
    rcases this with h | h
    · exact absurd hxh h
    · exact h
  · rw [List.map_map]; exact hn
  · rw [producer_toMFunc, hroot]; rfl
  · intro g hg hm q hq
    obtain ⟨f, hf, rfl⟩ := List.mem_map.mp hg
    have := hall f hf
    have hms : (setSpecR τ f).mapspec = none := hm
    simp only [hms, Bool.and_eq_true] at this
    rw [mfree_toMFunc] at hq
    have := List.all_eq_true.mp this.2 q hq
    intro hl
    rw [(hln q).mpr hl] at this
    cases this
  · intro g hg ms hm
    obtain ⟨f, hf, rfl⟩ := List.mem_map.mp hg
    have := hall f hf
    have hms : (setSpecR τ f).mapspec = some ms := hm
    simp only [hms, Bool.and_eq_true, beq_iff_eq, Bool.not_eq_eq_eq_not, Bool.not_true] at this
    obtain ⟨_, ⟨⟨h1, h2⟩, h3⟩, h4⟩ := this
    refine ⟨h1, ?_, ?_, ?_⟩
    · intro he; rw [he] at h2; cases h2
    · intro a ha
      have := List.all_eq_true.mp h3 a ha
      simp only [Bool.and_eq_true, beq_iff_eq, List.contains_eq_mem, decide_eq_true_eq] at this
      obtain ⟨⟨a1, a2⟩, a3⟩ := this
      rw [mfree_toMFunc]
      exact ⟨a1, a2, (hln a.name).mp (by simpa using a3)⟩
    · intro q hq hl
      rw [mfree_toMFunc] at hq
      have := List.all_eq_true.mp h4 q hq
      rw [(hln q).mpr hl] at this
      simp only [Bool.not_true, Bool.false_or] at this
      obtain ⟨a, ha, han⟩ := List.any_eq_true.mp this
      exact ⟨a, ha, by simpa using han⟩

end PF.Rw
