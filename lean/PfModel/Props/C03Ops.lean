import PfModel.Lemmas.SchedPart
import PfModel.Model.SchedOps
import PfModel.Props.C03
/-!
C03 (extension) — independence at the granularity of *storage operations* inside task bodies (`PF.SchedP.runGenOps`):
every load of every body may see an arbitrary intermediate state of the generation's storage, and the dump operations of
all bodies may hit the storage in any order.  What remains outside the theorem is what happens *inside one* storage
operation (`cloudpickle.dump` racing `os.listdir`, a Manager round-trip).
-/
namespace PF.C03
open PF PF.Map PF.Sched PF.Pieces PF.SchedP

/-- **Loads commute with the dumps of the generation.** Each single load operation of a body returns the same value whatever
    dump operations (of any bodies, complete or not) have been performed before it: a body executed operation by operation
    under *any* views computes what the body executed atomically against the previous generations' store computes. -/
theorem C03_ops_load_independent (fs : List MFunc) (shapes : List (String × List Nat)) (masks : List (String × List Bool))
    (old : List (String × Slot)) (env : Env) (gen : List MFunc) (V : Views) (f : MFunc) (hf : f ∈ gen) (hind : GenIndep gen)
    (plan : PlanP) (k : Nat) :
    bodyRunOps fs shapes masks old env gen V f plan k = bodyRunP fs old env f plan k := by
  have key : ∀ q ∈ f.params, argWhole fs (viewEnvP shapes masks old env gen (V q.1)) f q.1 = argWhole fs env f q.1 := by
    intro q hq
    apply argWhole_viewP
    intro hb h hh
    exact hind f hf h hh q.1 (List.mem_map.mpr ⟨q, hq, rfl⟩) hb
  cases plan with
  | mapped ms sh mk sel todo =>
    simp only [bodyRunOps, bodyRunP]
    cases todo[k]? with
    | none => rfl
    | some li =>
      simp only [selectArgsOps, selectArgs]
      congr 1
      apply mapM_congr'
      intro q hq
      obtain ⟨p, orig⟩ := q
      simp only [key (p, orig) hq]
      rfl
  | single =>
    simp only [bodyRunOps, bodyRunP]
    cases loadedOf old f with
    | some vs => rfl
    | none =>
      simp only [wholeArgsOps, wholeArgs]
      congr 1
      apply mapM_congr'
      intro q hq
      obtain ⟨p, orig⟩ := q
      simp only [key (p, orig) hq]
  | bad e => rfl

/-- **One generation, every interleaving of storage operations = the sequential partial run.** For every previous store,
    fixed indices, `dump_in_subprocess` assignment; for every order `ids` in which the futures resolve (a permutation of the
    submitted futures), every family of views `Vs` (what each load operation saw) and every order `W` in which the single dump
    operations of all bodies were performed (a permutation of the bodies' dumps — dumps of different bodies, and of different
    outputs of one body, may be interleaved arbitrarily): parent-side processing yields exactly the results of the sequential
    generation step.  The operations commute because distinct tasks write distinct cells (`C03_cells_distinct`, disjoint
    outputs) and reads touch earlier generations only (`C03_layer_independent`). -/
theorem C03_ops_gen_eq_sequential (fs : List MFunc) (shapes : List (String × List Nat)) (masks : List (String × List Bool))
    (fixed : Option (List (String × Sel))) (old : List (String × Slot))
    (dumpSub : String → Bool) (env : Env) (gen : List MFunc) (ids : List TaskId) (Vs : TaskId → Views) (W : Dumps)
    (hperm : ids.Perm (idsFromP 0 (plannedP shapes masks fixed old gen)))
    (hW : W.Perm (dumpOps dumpSub fs shapes masks old env gen (plannedP shapes masks fixed old gen) Vs ids))
    (hind : GenIndep gen) (hdis : gen.Pairwise fun a b => ∀ o, o ∈ a.outputs → o ∉ b.outputs) :
    runGenOps .sync fs shapes masks fixed old dumpSub env gen ids Vs W =
      runGenWith (runFuncPart fs shapes masks fixed old) env gen := by
  have hpg := plannedP_mem shapes masks fixed old gen
  have hres : ∀ id, resOps fs shapes masks old env gen (plannedP shapes masks fixed old gen) Vs id =
      resOfP fs old env (plannedP shapes masks fixed old gen) id := by
    intro id
    unfold resOps resOfP
    cases hp : (plannedP shapes masks fixed old gen)[id.1]? with
    | none => rfl
    | some fp =>
      obtain ⟨f, plan⟩ := fp
      exact C03_ops_load_independent fs shapes masks old env gen (Vs id) f (hpg _ _ hp) hind plan id.2
  have hd : dumpOps dumpSub fs shapes masks old env gen (plannedP shapes masks fixed old gen) Vs ids =
      ids.flatMap (wdOfP dumpSub fs old env (plannedP shapes masks fixed old gen)) := by
    unfold dumpOps
    congr 1
    funext id
    unfold wdOfP
    cases hp : (plannedP shapes masks fixed old gen)[id.1]? with
    | none => rfl
    | some fp =>
      obtain ⟨f, plan⟩ := fp
      simp only [C03_ops_load_independent fs shapes masks old env gen (Vs id) f (hpg _ _ hp) hind plan id.2]
  have hmem : ∀ id, validIdP (plannedP shapes masks fixed old gen) id → id ∈ ids := fun id h =>
    hperm.mem_iff.mpr ((mem_idsP_iff_valid _ id).mpr h)
  unfold runGenOps
  exact processGenP_eq dumpSub fs shapes masks fixed old env (plannedP shapes masks fixed old gen) ids _
    (by simp only [hres]) (by intro x; simp only; rw [← hd]; exact hW.mem_iff)
    (posDisjointP_of_pairwise shapes masks fixed old gen hdis) hmem gen 0 (by intro i; simp)

/-- … and under `asyncio.gather` as well, whenever the blocking variant succeeds -/
theorem C03_ops_gen_async (fs : List MFunc) (shapes : List (String × List Nat)) (masks : List (String × List Bool))
    (fixed : Option (List (String × Sel))) (old : List (String × Slot))
    (dumpSub : String → Bool) (env : Env) (gen : List MFunc) (ids : List TaskId) (Vs : TaskId → Views) (W : Dumps)
    (rs : List FuncResult) (h : runGenOps .sync fs shapes masks fixed old dumpSub env gen ids Vs W = .ok rs) :
    runGenOps .gather fs shapes masks fixed old dumpSub env gen ids Vs W = .ok rs := by
  have := processGenP_sim dumpSub old
    { dumps := W, futs := ids.map fun id => (id, resOps fs shapes masks old env gen (plannedP shapes masks fixed old gen) Vs id), ran := ids }
    (plannedP shapes masks fixed old gen) 0
  unfold runGenOps at h ⊢
  rw [h] at this
  exact this

/-! non-vacuity: two element-wise functions in one generation, two elements each, `y` dumped by the workers; the loads of
    every body see a storage into which *other* bodies have already dumped (garbage included), the four dump operations hit the
    storage in an order that interleaves the bodies — and the result is the sequential one -/
private def el (n : String) (ins : List String) (out : String) : MFunc :=
  { name := n, params := ins.map fun p => (p, p), outputs := [out],
    mapspec := some { inputs := ins.map fun p => ⟨p, [some "i"]⟩, outputs := [⟨out, [some "i"]⟩] },
    ret := none, internal := none, defaults := [], bound := [] }
private def exGen : List MFunc := [el "f" ["x"] "y", el "h" ["x"] "w"]
private def exEnv : Env := { inputs := [("x", .arr [2] [.int 1, .int 2])], store := [] }
private def exShapes : List (String × List Nat) := [("x", [2]), ("y", [2]), ("w", [2])]
private def exMasks : List (String × List Bool) := [("x", [true]), ("y", [true]), ("w", [true])]
private def exViews : TaskId → Views := fun id _ => [(("y", 1 - id.2), .str "someone else's half-written element"), (("w", 0), .str "junk")]
private def exIds : List TaskId := [(1, 1), (0, 0), (1, 0), (0, 1)]
private def exW : Dumps :=
  (dumpOps (fun _ => true) [] exShapes exMasks [] exEnv exGen (plannedP exShapes exMasks none [] exGen) exViews exIds).reverse

example : GenIndep exGen := by
  intro f hf h hh p hp hb
  simp [exGen, el] at hf hh
  rcases hf with rfl | rfl <;> rcases hh with rfl | rfl <;> simp_all
example : exW.length = 4 := by decide
example : ((runGenOps .sync [] exShapes exMasks none [] (fun _ => true) exEnv exGen exIds exViews exW).toOption.map
      fun rs => rs.map fun r => r.slots.map fun s => s.2.toVal) =
    ((runGenWith (runFuncPart [] exShapes exMasks none []) exEnv exGen).toOption.map
      fun rs => rs.map fun r => r.slots.map fun s => s.2.toVal) := by rfl

end PF.C03
