/-
Model of a `Pipeline.map(..., run_folder=F, parallel=False)` that may be interrupted and re-run with `cleanup=False`.

The run folder is a map `Path → absent | partial | complete v` (plus the set of directories).  A run emits *events*
(`mkdirp`, `begin` = `open('wb')` truncates, `chunk` = some but not all bytes, `commit` = the last byte is written,
`rename` = `os.replace`, `unlink`, `rmtree`, `call` = a user function is invoked); a crash is a prefix of the event list
(`crashAt`); a resumed run is the same runner (`runOn`) started on the crashed folder: presence of a file is the only
completion marker.

Mirrors: `dump` (`pipefunc/_utils.py:41-52`), `RunInfo.create/_dump_all/dump/load` and `_compare_to_previous_run_info`
(`map/_run_info.py:41-52, 53-83, 146-170, 236-252`), `RunInfo.init_store/_init_arrays` (`:100-127, 324-336`), `FileArray.__init__/
mask_linear/get_from_index/dump` (`map/_storage_array/_file.py:40-62, 86-92, 226-233, 245-262`), `DictArray.load/persist`
(`_dict.py:186-203`), `_existing_and_missing_indices` (`map/_run.py:577-596`), `_run_iteration_and_process/_update_array`
(`:478-537`), `_execute_single/_load_from_store/_dump_single_output` (`:330-362, 750-812`), the generation loop with its
submit and process phases (`:147-160, 848-862, 917-930, 995-1012`), `_maybe_persist_memory` (`:321-328`).

`Cfg.legacy = true` is the write protocol of the pinned tree (plain `open('wb')`, `run_info.json` first, `RunInfo.load`
re-dumps, `DictArray.load` tests the folder, stored single outputs are dumped again); `false` is the repaired protocol.
Everything about shapes, argument selection, and result arrays is `PF.Map` (lean/PfModel/Model/MapRun.lean).
-/
import PfModel.Model.MapRun
namespace PF.ResumeFS
open PF PF.Map

/-- files of a run folder; `tmp p` is the temporary name `dump` writes before renaming it to `p` -/
inductive Path
  | runInfo                                 -- run_info.json
  | defaults                                -- defaults/defaults.cloudpickle
  | input (n : String)                      -- inputs/<n>.cloudpickle
  | cell (o : String) (li : Nat)            -- outputs/<o>/__<li>__.pickle
  | single (o : String)                     -- outputs/<o>.cloudpickle
  | dictArr (o : String)                    -- outputs/<o>/dict_array.cloudpickle
  | tmp (p : Path)                          -- <dir of p>/.<name of p>.<pid>.tmp
  deriving DecidableEq, Repr

inductive Dir
  | root | inputs | defaults | outputs | arr (o : String)
  deriving DecidableEq, Repr

def dirOf : Path → Dir
  | .runInfo => .root
  | .defaults => .defaults
  | .input _ => .inputs
  | .cell o _ => .arr o
  | .single _ => .outputs
  | .dictArr o => .arr o
  | .tmp p => dirOf p

def Path.isTmp : Path → Bool
  | .tmp _ => true
  | _ => false

inductive Content
  | torn                                    -- opened for writing, not all bytes written
  | complete (v : Val)
  deriving Repr

structure FS where
  files : Path → Option Content             -- `none` = absent
  dirs : Dir → Bool

def FS.empty : FS := ⟨fun _ => none, fun _ => false⟩

def FS.set (fs : FS) (p : Path) (c : Option Content) : FS := { fs with files := fun q => if q = p then c else fs.files q }

inductive Ev
  | mkdirp (d : Dir)                        -- `mkdir(parents=True, exist_ok=True)`
  | begin (p : Path)                        -- `open(p, 'wb')`: created or truncated
  | chunk (p : Path)                        -- some, not all, bytes written (a torn write)
  | commit (p : Path) (v : Val)             -- all bytes written
  | rename (p q : Path)                     -- `os.replace(p, q)`
  | unlink (p : Path)
  | rmtree                                  -- `shutil.rmtree(run_folder)` (atomic in the model)
  | call (fn : String) (li : Nat) (args : List (String × Val))   -- user function `fn` invoked for linear index `li`
  deriving Repr

def parents : Dir → List Dir
  | .root => [.root]
  | .inputs => [.root, .inputs]
  | .defaults => [.root, .defaults]
  | .outputs => [.root, .outputs]
  | .arr o => [.root, .outputs, .arr o]

def apply (fs : FS) : Ev → FS
  | .mkdirp d => { fs with dirs := fun x => fs.dirs x || (parents d).contains x }
  | .begin p => fs.set p (some .torn)
  | .chunk p => fs.set p (some .torn)
  | .commit p v => fs.set p (some (.complete v))
  | .rename p q => (fs.set q (fs.files p)).set p none
  | .unlink p => fs.set p none
  | .rmtree => FS.empty
  | .call _ _ _ => fs

def applyAll (fs : FS) (evs : List Ev) : FS := evs.foldl apply fs

/-- the folder after the process died having performed the first `k` events -/
def crashAt (fs : FS) (evs : List Ev) (k : Nat) : FS := applyAll fs (evs.take k)

structure Cfg where
  legacy : Bool := false                    -- write protocol of the pinned tree
  dict : Bool := false                      -- default storage "dict" (persisted at the end) instead of "file_array"
  other : List String := []                 -- functions whose outputs use the *other* storage (`storage={"": …, out: …}`)
  failAt : Option Nat := none               -- the user call with this global index (0-based) raises
  deriving Repr, DecidableEq

inductive RErr
  | map (e : PF.Map.Err)                    -- the request is refused / argument selection fails
  | corrupt (p : Path)                      -- a partially written file is unpickled
  | notFound (p : Path)
  | refused                                 -- "Could not load previous run info … cannot use `cleanup=False`"
  | raised (fn : String)                    -- the user function raised
  deriving Repr, DecidableEq

/-- `dump(obj, path)`: pinned = `mkdir; open('wb'); pickle`; repaired = the same under a temporary name, then `os.replace` -/
def writeEvs (legacy : Bool) (p : Path) (v : Val) : List Ev :=
  if legacy then [.mkdirp (dirOf p), .begin p, .chunk p, .commit p v]
  else [.mkdirp (dirOf p), .begin (.tmp p), .chunk (.tmp p), .commit (.tmp p) v, .rename (.tmp p) p]

/-- `load(path)` -/
def readFile (fs : FS) (p : Path) : Except RErr Val :=
  match fs.files p with
  | none => .error (.notFound p)
  | some .torn => .error (.corrupt p)
  | some (.complete v) => .ok v

def metaVal (what : String) : Val := .str what

/-- `RunInfo._dump_all` (repaired: inputs, defaults, then `run_info.json`; pinned `__post_init__`: `run_info.json` first) -/
def dumpAllEvs (legacy : Bool) (inputs : List (String × Val)) : List Ev :=
  let ins := inputs.flatMap fun (n, v) => writeEvs legacy (.input n) v
  let dfl := writeEvs legacy .defaults (metaVal "defaults")
  let ri := writeEvs legacy .runInfo (metaVal "run_info")
  if legacy then ri ++ ins ++ dfl else ins ++ dfl ++ ri

/-- events emitted (also when the step fails) and its result -/
structure Out (α : Type) where
  evs : List Ev
  res : Except RErr α

/-- `_compare_to_previous_run_info`: nothing to compare without `run_info.json`; otherwise `RunInfo.load` must succeed
    (the comparison itself is between equal requests here: the property is about re-running with the same inputs).
    On the pinned tree the loaded `RunInfo` re-dumps all three kinds of files (DF-33). -/
def compare (legacy : Bool) (fs : FS) (inputs : List (String × Val)) : Out Unit :=
  match fs.files .runInfo with
  | none => ⟨[], .ok ()⟩
  | some .torn => ⟨[], .error .refused⟩
  | some (.complete _) =>
    match inputs.mapM (fun (kv : String × Val) => readFile fs (.input kv.1)), readFile fs .defaults with
    | .ok _, .ok _ => ⟨if legacy then dumpAllEvs true inputs else [], .ok ()⟩
    | _, _ => ⟨[], .error .refused⟩

/-- `RunInfo.storage_class(func.output_name)`: does this function's output live in a `DictArray`? -/
def isDictF (cfg : Cfg) (f : MFunc) : Bool := cfg.dict != cfg.other.contains f.name

/-- functions whose outputs live in storage arrays -/
def isMapped (f : MFunc) : Bool :=
  match f.mapspec with
  | some ms => !ms.inputs.isEmpty
  | none => false

def mappedOutputs (fsd : List MFunc) : List String :=
  ((generations fsd).flatten.filter isMapped).flatMap (·.outputs)

/-- every storage array of the run with its kind (`true` = `DictArray`) -/
def storePlan (cfg : Cfg) (fsd : List MFunc) : List (String × Bool) :=
  ((generations fsd).flatten.filter isMapped).flatMap fun f => f.outputs.map fun o => (o, isDictF cfg f)

/-- the persisted dict of one output: the values by linear index -/
def dictCells : Val → List (Nat × Val)
  | .tup vs => (List.range vs.length).zip vs
  | _ => []

/-- `RunInfo.init_store`: `FileArray.__init__` makes the array's folder; `DictArray.__init__` loads a persisted dict
    (repaired: when the file exists; pinned: when the folder exists).  Returns the in-memory dicts. -/
def initStore (legacy : Bool) (fs : FS) : List (String × Bool) → Out (List (String × List (Nat × Val)))
  | [] => ⟨[], .ok []⟩
  | (o, d) :: rest =>
    if !d then
      let more := initStore legacy fs rest
      ⟨.mkdirp (.arr o) :: more.evs, more.res⟩
    else
      let tryLoad : Bool := if legacy then fs.dirs (.arr o) else (fs.files (.dictArr o)).isSome
      if tryLoad then
        match readFile fs (.dictArr o) with
        | .error e => ⟨[], .error e⟩
        | .ok v =>
          let more := initStore legacy fs rest
          ⟨more.evs, more.res.map ((o, dictCells v) :: ·)⟩
      else
        let more := initStore legacy fs rest
        ⟨more.evs, more.res.map ((o, []) :: ·)⟩

/-- how one function sees the elements stored for its own outputs -/
abbrev View := String → Nat → Option Content

def fileView (fs : FS) : View := fun o li => fs.files (.cell o li)
def dictView (mem : List (String × List (Nat × Val))) : View := fun o li =>
  match alookup mem o with
  | some cells => (cellLookup cells li).map .complete
  | none => none

/-- `_existing_and_missing_indices`: an element is re-run if any of the outputs is missing -/
def isMissing (view : View) (f : MFunc) (li : Nat) : Bool := f.outputs.any fun o => (view o li).isNone

/-- result arrays from the value of every element -/
def opArrayV (shape : List Nat) (mask : List Bool) (val : Nat → Val) : Val :=
  let es := extOf mask shape
  let is := intOf mask shape
  let flat := fill mask es is (fun E I => elemAt mask (val (ravel es E)) I)
  .arr shape ((List.range (prod shape)).map fun j => (flat j).getD .none)

abbrev Row := List (String × Val)            -- the value of every output of one call

structure CallRec where
  fn : String
  li : Nat
  args : List (String × Val)
  deriving Repr

/-- the missing elements, in order (`_maybe_parallel_map` without an executor → `_run_iteration_and_process`): select the
    arguments, call, and (file arrays, `d = false`) dump every output at once; `nc` is the global index of the next user call -/
def runMissing (cfg : Cfg) (d : Bool) (fsd : List MFunc) (env : Env) (f : MFunc) (ms : MSpec) (es : List Nat) :
    List Nat → Nat → Out (List (Nat × Row))
  | [], _ => ⟨[], .ok []⟩
  | li :: rest, nc =>
    match selectArgs fsd env f ms (shapeToKey es li) with
    | .error e => ⟨[], .error (.map e)⟩
    | .ok args =>
      if cfg.failAt = some nc then ⟨[.call f.name li args], .error (.raised f.name)⟩ else
      let row : Row := f.outputs.map fun o => (o, outVal f args o)
      let wr := if d then [] else row.flatMap fun (ov : String × Val) => writeEvs cfg.legacy (.cell ov.1 li) ov.2
      let more := runMissing cfg d fsd env f ms es rest (nc + 1)
      ⟨.call f.name li args :: wr ++ more.evs, more.res.map ((li, row) :: ·)⟩

/-- the existing elements (`get_from_index` for every output) -/
def loadRow (view : View) (f : MFunc) (li : Nat) : Except RErr Row :=
  f.outputs.mapM fun o =>
    match view o li with
    | none => .error (.notFound (.cell o li))
    | some .torn => .error (.corrupt (.cell o li))
    | some (.complete v) => .ok (o, v)

def rowLookup : List (Nat × Row) → Nat → Option Row
  | [], _ => none
  | (k, r) :: rest, i => if k = i then some r else rowLookup rest i

def rowVal (rows : List (Nat × Row)) (o : String) (li : Nat) : Val :=
  match rowLookup rows li with
  | some r => (alookup r o).getD .none
  | none => .none

/-- what one function contributes: events of the submit phase, events of the process phase, number of user calls, result -/
structure FOut where
  subEvs : List Ev
  procEvs : List Ev
  ncalls : Nat
  calls : List CallRec
  res : Except RErr FuncResult

def callsOf (evs : List Ev) : List CallRec :=
  evs.filterMap fun e => match e with | .call fn li args => some ⟨fn, li, args⟩ | _ => none

/-- a function with MapSpec inputs (`_prepare_submit_map_spec`, `_maybe_parallel_map`, `_output_from_mapspec_task`) -/
def stepMapped (cfg : Cfg) (d : Bool) (fsd : List MFunc) (env : Env) (view : View) (nc : Nat) (f : MFunc) (ms : MSpec)
    (shape : List Nat) (mask : List Bool) : FOut :=
  let es := extOf mask shape
  let n := prod es
  let missing := (List.range n).filter (isMissing view f)
  let existing := (List.range n).filter fun li => !isMissing view f li
  let m := runMissing cfg d fsd env f ms es missing nc
  match m.res with
  | .error e => ⟨m.evs, [], missing.length, callsOf m.evs, .error e⟩
  | .ok computed =>
    match existing.mapM (fun li => (loadRow view f li).map fun r => (li, r)) with
    | .error e => ⟨m.evs, [], missing.length, callsOf m.evs, .error e⟩
    | .ok loaded =>
      let rows := computed ++ loaded
      ⟨m.evs, [], missing.length, callsOf m.evs,
       .ok { outputs := f.outputs.map fun o => (o, opArrayV shape mask (rowVal rows o)),
             slots := f.outputs.map fun o => (o, Slot.array shape mask ((List.range n).map fun li => (li, rowVal rows o li))),
             calls := (callsOf m.evs).map fun c => { name := c.fn, args := c.args } }⟩

/-- a function without MapSpec inputs (`_execute_single` in the submit phase, `_dump_single_output` in the process phase) -/
def stepSingle (cfg : Cfg) (fsd : List MFunc) (env : Env) (fs : FS) (nc : Nat) (f : MFunc) : FOut :=
  if f.outputs.all fun o => (fs.files (.single o)).isSome then
    match f.outputs.mapM (fun o => (readFile fs (.single o)).map fun v => (o, v)) with
    | .error e => ⟨[], [], 0, [], .error e⟩
    | .ok outs =>
      ⟨[], if cfg.legacy then outs.flatMap fun (ov : String × Val) => writeEvs true (.single ov.1) ov.2 else [], 0, [],
       .ok { outputs := outs, slots := outs.map fun (ov : String × Val) => (ov.1, Slot.single ov.2), calls := [] }⟩
  else
    match f.params.mapM (fun (po : String × String) => (argWhole fsd env f po.1).map fun v => (po.2, v)) with
    | .error e => ⟨[], [], 0, [], .error (.map e)⟩
    | .ok args =>
      if cfg.failAt = some nc then ⟨[.call f.name 0 args], [], 1, [⟨f.name, 0, args⟩], .error (.raised f.name)⟩ else
      let outs := f.outputs.map fun o => (o, outVal f args o)
      ⟨[.call f.name 0 args], outs.flatMap fun (ov : String × Val) => writeEvs cfg.legacy (.single ov.1) ov.2, 1, [⟨f.name, 0, args⟩],
       .ok { outputs := outs, slots := outs.map fun (ov : String × Val) => (ov.1, Slot.single ov.2), calls := [{ name := f.name, args := args }] }⟩

/-- `_submit_func` + `_process_task`, dispatched as `runFuncWith` does -/
def stepFunc (cfg : Cfg) (fsd : List MFunc) (shapes : List (String × List Nat)) (masks : List (String × List Bool))
    (mem : List (String × List (Nat × Val))) (env : Env) (fs : FS) (nc : Nat) (f : MFunc) : FOut :=
  match f.mapspec with
  | some ms =>
    if ms.inputs.isEmpty then stepSingle cfg fsd env fs nc f else
    match f.outputs.head? with
    | none => ⟨[], [], 0, [], .error (.map (.value "function without outputs"))⟩
    | some o =>
      match alookup shapes o, alookup masks o with
      | some sh, some mk =>
        if sh.length ≠ mk.length then ⟨[], [], 0, [], .error (.map (.value "shape and mask of different rank"))⟩
        else stepMapped cfg (isDictF cfg f) fsd env (if isDictF cfg f then dictView mem else fileView fs) nc f ms sh mk
      | _, _ => ⟨[], [], 0, [], .error (.map (.key o))⟩
  | none => stepSingle cfg fsd env fs nc f

structure GOut where
  subEvs : List Ev
  procEvs : List Ev
  nc : Nat
  calls : List CallRec
  res : Except RErr (List FuncResult)

/-- one generation: every function is submitted (user calls and element dumps happen here), then every function is
    processed (single outputs are dumped here).  All functions read the store of the previous generations (`env`). -/
def runGenR (step : Env → FS → Nat → MFunc → FOut) (env : Env) : FS → Nat → List MFunc → GOut
  | _, nc, [] => ⟨[], [], nc, [], .ok []⟩
  | fs, nc, f :: rest =>
    let o := step env fs nc f
    match o.res with
    | .error e => ⟨o.subEvs, [], nc + o.ncalls, o.calls, .error e⟩
    | .ok r =>
      let g := runGenR step env (applyAll fs o.subEvs) (nc + o.ncalls) rest
      match g.res with
      | .error e => ⟨o.subEvs ++ g.subEvs, [], g.nc, o.calls ++ g.calls, .error e⟩
      | .ok rs => ⟨o.subEvs ++ g.subEvs, o.procEvs ++ g.procEvs, g.nc, o.calls ++ g.calls, .ok (r :: rs)⟩

structure LOut where
  evs : List Ev
  calls : List CallRec
  res : Except RErr (List FuncResult × Env)

/-- the generation loop of `run_map` -/
def runGensR (step : Env → FS → Nat → MFunc → FOut) : List (List MFunc) → Env → FS → Nat → LOut
  | [], env, _, _ => ⟨[], [], .ok ([], env)⟩
  | gen :: rest, env, fs, nc =>
    let g := runGenR step env fs nc gen
    let evs := g.subEvs ++ g.procEvs
    match g.res with
    | .error e => ⟨evs, g.calls, .error e⟩
    | .ok rs =>
      let env' : Env := { env with store := env.store ++ rs.flatMap (·.slots) }
      let l := runGensR step rest env' (applyAll fs evs) g.nc
      ⟨evs ++ l.evs, g.calls ++ l.calls, l.res.map fun (more, envF) => (rs ++ more, envF)⟩

/-- `_maybe_persist_memory`: every dict array is written once, at the very end -/
def persistEvs (legacy : Bool) (store : List (String × Slot)) (plan : List (String × Bool)) : List Ev :=
  plan.flatMap fun (od : String × Bool) =>
    if !od.2 then [] else
    match alookup store od.1 with
    | some (.array _ _ cells) => .mkdirp (.arr od.1) :: writeEvs legacy (.dictArr od.1) (.tup (cells.map (·.2)))
    | _ => []

structure RunResult where
  outputs : List (String × Val)
  calls : List CallRec
  deriving Repr

structure Run where
  evs : List Ev
  calls : List CallRec                       -- user calls made, also when the run fails
  res : Except RErr RunResult

/-- the validation and shape computation that precede everything else (as in `PF.Map.runMapWith`) -/
def preRun (fsd : List MFunc) (inputs : List (String × Val)) (ui : List (String × List Nat)) :
    M (List (String × List Nat) × List (String × List Bool)) := do
  validateInputs fsd inputs
  if (generations fsd).flatten.length ≠ fsd.length then throw (.value "cyclic pipeline")
  mapShapes fsd inputs (constructInternal fsd ui)

/-- `Pipeline.map(inputs, run_folder=F, cleanup=False, parallel=False)` started on the folder state `fs` -/
def runOn (cfg : Cfg) (fs : FS) (fsd : List MFunc) (inputs : List (String × Val)) (ui : List (String × List Nat)) : Run :=
  match preRun fsd inputs ui with
  | .error e => ⟨[], [], .error (.map e)⟩
  | .ok (shapes, masks) =>
    let c := compare cfg.legacy fs inputs
    match c.res with
    | .error e => ⟨c.evs, [], .error e⟩
    | .ok () =>
      let e1 := c.evs ++ dumpAllEvs cfg.legacy inputs
      let fs1 := applyAll fs e1
      let i := initStore cfg.legacy fs1 (storePlan cfg fsd)
      match i.res with
      | .error e => ⟨e1 ++ i.evs, [], .error e⟩
      | .ok mem =>
        let e2 := e1 ++ i.evs
        let fs2 := applyAll fs1 i.evs
        let l := runGensR (stepFunc cfg fsd shapes masks mem) (generations fsd) { inputs := inputs, store := [] } fs2 0
        match l.res with
        | .error e => ⟨e2 ++ l.evs, l.calls, .error e⟩
        | .ok (rs, envF) =>
          ⟨e2 ++ l.evs ++ persistEvs cfg.legacy envF.store (storePlan cfg fsd), l.calls,
           .ok { outputs := rs.flatMap (·.outputs), calls := l.calls }⟩

/-- `_cleanup_run_folder` of `cleanup=True` (`map/_run_info.py`).  Repaired: the run folder is renamed to a unique trash name
    next to it in one `os.replace` — for the run folder that is the single event `rmtree` — and the trash is removed afterwards
    (those unlinks happen outside the run folder).  Pinned: `shutil.rmtree(run_folder)` unlinks the files one by one, in the
    order `os.scandir` yields them — `order` (any order; directories are not part of what a resumed run of the repaired
    protocol looks at). -/
def cleanupEvs (legacy : Bool) (order : List Path) : List Ev :=
  if legacy then order.map .unlink else [.rmtree]

/-- `Pipeline.map(inputs, run_folder=F, cleanup=True)` started on the folder state `fs`: clean up, then run into the empty folder -/
def runClean (cfg : Cfg) (order : List Path) (fsd : List MFunc) (inputs : List (String × Val)) (ui : List (String × List Nat)) : Run :=
  let r := runOn cfg FS.empty fsd inputs ui
  { r with evs := cleanupEvs cfg.legacy order ++ r.evs }

/-- an uninterrupted run into an empty folder (`cleanup=True` on a folder that does not exist) -/
def runFresh (cfg : Cfg) (fsd : List MFunc) (inputs : List (String × Val)) (ui : List (String × List Nat)) : Run :=
  runOn cfg FS.empty fsd inputs ui

/-- an element of a mapped function / a whole un-mapped function is *done* in `fs` when every one of its output files exists -/
def doneIn (fs : FS) (f : MFunc) (li : Nat) : Bool :=
  if isMapped f then f.outputs.all fun o => (fs.files (.cell o li)).isSome
  else f.outputs.all fun o => (fs.files (.single o)).isSome

/-- the same for any storage: an element of a `DictArray` output is stored when the persisted dict of every output exists -/
def doneInC (cfg : Cfg) (fs : FS) (f : MFunc) (li : Nat) : Bool :=
  if isMapped f && isDictF cfg f then f.outputs.all fun o => (fs.files (.dictArr o)).isSome else doneIn fs f li

end PF.ResumeFS
