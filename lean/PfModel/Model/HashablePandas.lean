import PfModel.Model.Hashable
/-!
The two pandas branches of `pipefunc.cache.to_hashable` (`pipefunc/cache.py:786-791`):

    if isinstance(obj, pandas.Series):     return (m, tp, (obj.name, to_hashable(obj.to_dict(), fb)))
    if isinstance(obj, pandas.DataFrame):  return (m, tp, to_hashable(obj.to_dict("list"), fb))

A Series is its name and its rows `(index label, value)` in row order; a DataFrame is its index labels and its columns
`(column label, values in row order)` in column order.  Labels are hashable scalars (`Atom`: numbers, str, bytes, None —
what the harness generates; a `Timestamp` label is outside the model).  Values are read as pandas hands them to the
dict (`Series.to_dict()` / `DataFrame.to_dict("list")` box every value into a Python object), so they are ordinary `PV`s.

`pyDict` is the dict Python builds from a sequence of `(key, value)` pairs: a repeated key keeps its FIRST position and
its LAST value.  Both `to_dict` calls are such a construction, so (a) a repeated index / column label silently drops the
earlier rows / columns, (b) the row order of a Series and the column order of a DataFrame are lost when the `dict` branch
sorts the items, (c) the index of a DataFrame never reaches the key.  (a)–(c) are the known finding
KF-C15-pandas-lossy-key; what the key DOES determine is proved in `Props/C15Pandas.lean`.
-/
namespace PF.Hashable

/-- `d[k] = v` on an insertion-ordered dict: an existing key keeps its position and takes the new value -/
def dictSet (k : Atom) (v : PV) : List (Atom × PV) → List (Atom × PV)
  | [] => [(k, v)]
  | (k', v') :: r => if k' = k then (k', v) :: r else (k', v') :: dictSet k v r

/-- `dict(pairs)` / `{k: v for k, v in pairs}` started from `acc` -/
def pyDictFrom (acc : List (Atom × PV)) : List (Atom × PV) → List (Atom × PV)
  | [] => acc
  | (k, v) :: r => pyDictFrom (dictSet k v acc) r

/-- `dict(pairs)`: first position, last value of a repeated key -/
def pyDict (pairs : List (Atom × PV)) : List (Atom × PV) := pyDictFrom [] pairs

/-- the item tuples `(k, v)` of a dict in insertion order (the children of a `dict` node) -/
def itemsOf (d : List (Atom × PV)) : List PV := d.map fun p => tup [.atom p.1, p.2]

/-- `Series.to_dict()` as a value -/
def seriesDict (rows : List (Atom × PV)) : PV := .node .dict (itemsOf (pyDict rows))

/-- `to_hashable(series)` (`cache.py:788-789`): `(m, tp, (obj.name, to_hashable(obj.to_dict())))`; `c` is the number the
    harness gives the class `pandas.Series`.  A Series is never hashable, so the branch is always reached. -/
def seriesKey (esc : Bool) (c : Nat) (name : PV) (rows : List (Atom × PV)) : Except Err PV :=
  match key esc (seriesDict rows) with
  | .ok k => .ok (tagged (.other c) (tup [name, k]))
  | .error e => .error e

/-- `DataFrame.to_dict("list")` as a value: column label ↦ the list of the column's values -/
def frameDict (cols : List (Atom × List PV)) : PV :=
  .node .dict (itemsOf (pyDict (cols.map fun p => (p.1, .node .list p.2))))

/-- `to_hashable(frame)` (`cache.py:790-791`): `(m, tp, to_hashable(obj.to_dict("list")))`.  The index is an argument
    that the function does not use: that is what the code does. -/
def frameKey (esc : Bool) (c : Nat) (_index : List Atom) (cols : List (Atom × List PV)) : Except Err PV :=
  match key esc (frameDict cols) with
  | .ok k => .ok (tagged (.other c) k)
  | .error e => .error e

end PF.Hashable
