import PfModel.Model.LazyRefuse
import PfModel.Lemmas.LazySession
/-! Helper lemmas for `Props/C18Refused.lean`: the state-threading run (`largsR/lrunR/lrunTopR`) agrees with `largs/lrun/lrunTop`,
    and the state it reaches when the request is REFUSED still satisfies the session invariant. -/
namespace PF.Lazy
open PF PF.Pipe

variable {fs : List Func} {kw : List (String × Val)}

/-! ### agreement -/

theorem largsR_agree (r : String → LSt → Except Err (LArg × LSt)) (rR : String → LSt → LSt × Except Err LArg)
    (h : ∀ o s, r o s = forget (rR o s)) (f : Func) :
    ∀ ps s, largs r fs kw f ps s = forget (largsR rR fs kw f ps s) := by
  intro ps
  induction ps with
  | nil => intro s; rfl
  | cons p ps ih =>
    obtain ⟨p, orig⟩ := p
    intro s
    simp only [largs, largsR]
    cases resolve fs kw f p with
    | missing => rfl
    | val v =>
      simp only []
      rw [ih]
      rcases largsR rR fs kw f ps { s with used := s.used ++ [p] } with ⟨s2, e | rest⟩ <;> rfl
    | upstream =>
      simp only []
      rw [h p s]
      rcases rR p s with ⟨s1, e | a⟩
      · rfl
      · simp only [forget]
        rw [ih]
        rcases largsR rR fs kw f ps { s1 with used := s1.used ++ [p] } with ⟨s2, e | rest⟩ <;> rfl

theorem lrunR_succ (n : Nat) (o : String) (s : LSt) : lrunR fs kw (n+1) o s =
    match alookup s.memo o with
    | some a => (s, .ok a)
    | none =>
      match producer fs o with
      | none => (s, .error (.noFunc o))
      | some f =>
        match cacheLookup s (activeKey fs kw f o s) with
        | some r =>
          match alookup (updateAll f r { s with usedNone := true }).memo o with
          | some a => (updateAll f r { s with usedNone := true }, .ok a)
          | none => (updateAll f r { s with usedNone := true }, .error (.noFunc o))
        | none =>
          match largsR (lrunR fs kw n) fs kw f f.params s with
          | (s1, .error e) => (s1, .error e)
          | (s1, .ok args) =>
            match alookup (updateAll f (.ref s1.nodes.length)
                (cachePut (activeKey fs kw f o s) (.ref s1.nodes.length) (mkNode (.call f args) s1).2)).memo o with
            | some a => (updateAll f (.ref s1.nodes.length)
                (cachePut (activeKey fs kw f o s) (.ref s1.nodes.length) (mkNode (.call f args) s1).2), .ok a)
            | none => (updateAll f (.ref s1.nodes.length)
                (cachePut (activeKey fs kw f o s) (.ref s1.nodes.length) (mkNode (.call f args) s1).2), .error (.noFunc o)) := by
  rw [lrunR]; rfl

theorem lrunR_agree : ∀ (n : Nat) (o : String) (s : LSt), lrun fs kw n o s = forget (lrunR fs kw n o s) := by
  intro n
  induction n with
  | zero => intro o s; rfl
  | succ n ih =>
    intro o s
    rw [lrun_succ, lrunR_succ]
    cases alookup s.memo o with
    | some a => rfl
    | none =>
      simp only []
      cases producer fs o with
      | none => rfl
      | some f =>
        simp only []
        cases cacheLookup s (activeKey fs kw f o s) with
        | some r =>
          simp only []
          cases alookup (updateAll f r { s with usedNone := true }).memo o <;> rfl
        | none =>
          simp only []
          rw [largsR_agree _ _ ih]
          rcases largsR (lrunR fs kw n) fs kw f f.params s with ⟨s1, e | args⟩
          · rfl
          · simp only [forget]
            cases alookup (updateAll f (.ref s1.nodes.length)
                (cachePut (activeKey fs kw f o s) (.ref s1.nodes.length) (mkNode (.call f args) s1).2)).memo o <;> rfl

theorem fin_agree (kw : List (String × Val)) (a : LArg) (s : LSt) : fin kw a s = forget (finishR kw a s) := by
  unfold fin finishR
  split <;> rfl

theorem lrunTopR_whole_eq (fs : List Func) (kw : List (String × Val)) (os : List String) (s : LSt) :
    lrunTopR fs kw (.whole os) s =
    match fs.find? (fun f => f.outputs = os) with
    | none => (s, .error (.noFunc (",".intercalate os)))
    | some f =>
      match cacheLookup { s with memo := kw.map fun (k, v) => (k, LArg.val v), used := [], usedNone := false }
          (wholeKey fs kw f os { s with memo := kw.map fun (k, v) => (k, LArg.val v), used := [], usedNone := false }) with
      | some r => finishR kw r { s with memo := kw.map fun (k, v) => (k, LArg.val v), used := [], usedNone := true }
      | none =>
        match largsR (lrunR fs kw (fuelFor fs)) fs kw f f.params
            { s with memo := kw.map fun (k, v) => (k, LArg.val v), used := [], usedNone := false } with
        | (s1, .error e) => (s1, .error e)
        | (s1, .ok args) =>
          finishR kw (.ref s1.nodes.length)
            (cachePut (wholeKey fs kw f os { s with memo := kw.map fun (k, v) => (k, LArg.val v), used := [], usedNone := false })
              (.ref s1.nodes.length) (mkNode (.call f args) s1).2) := by
  rfl

theorem lrunTopR_name_eq (fs : List Func) (kw : List (String × Val)) (o : String) (s : LSt) :
    lrunTopR fs kw (.name o) s =
    if (alookup kw o).isSome then (s, .error .outputInKwargs) else
    match lrunR fs kw (fuelFor fs) o { s with memo := kw.map fun (k, v) => (k, LArg.val v), used := [], usedNone := false } with
    | (s1, .error e) => (s1, .error e)
    | (s1, .ok a) => finishR kw a s1 := by
  rfl

theorem lrunTop_name_eq (fs : List Func) (kw : List (String × Val)) (o : String) (s : LSt) :
    lrunTop fs kw (.name o) s =
    if (alookup kw o).isSome then .error .outputInKwargs else
    match lrun fs kw (fuelFor fs) o { s with memo := kw.map fun (k, v) => (k, LArg.val v), used := [], usedNone := false } with
    | .error e => .error e
    | .ok (a, s1) => fin kw a s1 := by
  rfl

/-- `lrunTop` is `lrunTopR` with the state of a refused request forgotten -/
theorem lrunTopR_agree (fs : List Func) (kw : List (String × Val)) (req : Req) (s : LSt) :
    lrunTop fs kw req s = forget (lrunTopR fs kw req s) := by
  cases req with
  | name o =>
    rw [lrunTop_name_eq, lrunTopR_name_eq]
    split
    · rfl
    · rw [lrunR_agree]
      rcases lrunR fs kw (fuelFor fs) o { s with memo := kw.map fun (k, v) => (k, LArg.val v), used := [], usedNone := false }
        with ⟨s1, e | a⟩
      · rfl
      · simp only [forget]; exact fin_agree kw a s1
  | whole os =>
    rw [lrunTop_whole_eq, lrunTopR_whole_eq]
    cases fs.find? (fun f => f.outputs = os) with
    | none => rfl
    | some f =>
      simp only []
      cases cacheLookup { s with memo := kw.map fun (k, v) => (k, LArg.val v), used := [], usedNone := false }
          (wholeKey fs kw f os { s with memo := kw.map fun (k, v) => (k, LArg.val v), used := [], usedNone := false }) with
      | some r => simp only []; exact fin_agree kw r _
      | none =>
        simp only []
        rw [largsR_agree _ _ (lrunR_agree (fuelFor fs))]
        rcases largsR (lrunR fs kw (fuelFor fs)) fs kw f f.params
            { s with memo := kw.map fun (k, v) => (k, LArg.val v), used := [], usedNone := false } with ⟨s1, e | args⟩
        · rfl
        · simp only [forget]; exact fin_agree kw _ _

/-! ### the state a refused request leaves -/

/-- the part of the run invariant that outlives a request: what `Sess` needs -/
structure WInv (fs : List Func) (s : LSt) : Prop where
  closed : Closed s.nodes
  cache : CacheSound fs s
  graph : GInv s

theorem Inv.winv {s : LSt} (h : Inv fs kw s) : WInv fs s := ⟨h.closed, h.cache, h.graph⟩

/-- what the recursive lazy evaluator must guarantee when it refuses -/
def RRecSound (fs : List Func) (kw : List (String × Val)) (rR : String → LSt → LSt × Except Err LArg) : Prop :=
  ∀ o s s' e, Inv fs kw s → rR o s = (s', .error e) → Step s s' ∧ WInv fs s'

theorem largsR_refused (r : String → LSt → Except Err (LArg × LSt)) (rR : String → LSt → LSt × Except Err LArg)
    (hag : ∀ o s, r o s = forget (rR o s)) (hr : LRecSound fs kw r) (hrR : RRecSound fs kw rR) (f : Func) :
    ∀ ps s s' e, Inv fs kw s → largsR rR fs kw f ps s = (s', .error e) → Step s s' ∧ WInv fs s' := by
  intro ps
  induction ps with
  | nil => intro s s' e _ h; simp [largsR] at h
  | cons p ps ih =>
    obtain ⟨p, orig⟩ := p
    intro s s' e hi h
    simp only [largsR] at h
    split at h
    · -- the argument is missing: nothing more happened
      simp only [Prod.mk.injEq] at h
      obtain ⟨rfl, _⟩ := h
      exact ⟨Step.refl _, hi.winv⟩
    · next v hv =>
      split at h
      · next s2 e2 hrest =>
        simp only [Prod.mk.injEq, Except.error.injEq] at h
        obtain ⟨rfl, rfl⟩ := h
        have hi' : Inv fs kw { s with used := s.used ++ [p] } := ⟨hi.closed, hi.memo, hi.cache, hi.graph⟩
        exact ih { s with used := s.used ++ [p] } _ _ hi' hrest
      · simp at h
    · next hup =>
      split at h
      · next s1 e1 hrun =>
        simp only [Prod.mk.injEq, Except.error.injEq] at h
        obtain ⟨rfl, rfl⟩ := h
        exact hrR p s _ _ hi hrun
      · next s1 a hrun =>
        have hrun' : r p s = .ok (a, s1) := by rw [hag, hrun]; rfl
        obtain ⟨hs1, hi1, _⟩ := hr p s a s1 hi hrun'
        have hi1' : Inv fs kw { s1 with used := s1.used ++ [p] } := ⟨hi1.closed, hi1.memo, hi1.cache, hi1.graph⟩
        split at h
        · next s2 e2 hrest =>
          simp only [Prod.mk.injEq, Except.error.injEq] at h
          obtain ⟨rfl, rfl⟩ := h
          obtain ⟨hs2, hw⟩ := ih { s1 with used := s1.used ++ [p] } _ _ hi1' hrest
          have hs2' : Step s1 _ := hs2
          exact ⟨hs1.trans hs2', hw⟩
        · simp at h

theorem lrunR_refused {rank : String → Nat} (wf : PipeCache.WF fs rank) : ∀ (n : Nat), RRecSound fs kw (lrunR fs kw n) := by
  intro n
  induction n with
  | zero =>
    intro o s s' e hi h
    simp only [lrunR, Prod.mk.injEq] at h
    obtain ⟨rfl, _⟩ := h
    exact ⟨Step.refl _, hi.winv⟩
  | succ n ihn =>
    intro o s s' e hi h
    rw [lrunR_succ] at h
    split at h
    · simp at h
    · split at h
      · simp only [Prod.mk.injEq] at h
        obtain ⟨rfl, _⟩ := h
        exact ⟨Step.refl _, hi.winv⟩
      · next f hf =>
        split at h
        · next r hr =>
          obtain ⟨key, k', hkey, hmem, hq⟩ := cacheLookup_sound hr
          obtain ⟨k, vals, hk, hd⟩ := hi.cache key r hmem f o kw k' hf (activeKey_some hkey) hq
          have hi' : Inv fs kw { s with usedNone := true } := ⟨hi.closed, hi.memo, hi.cache, hi.graph⟩
          split at h
          · simp at h
          · simp only [Prod.mk.injEq] at h
            obtain ⟨rfl, _⟩ := h
            obtain ⟨hs, _, hcl, hcs, hg, _⟩ := updateAll_spec (fs := fs) (kw := kw) f r vals _ hi' hd
            exact ⟨hs, ⟨hcl, hcs, hg⟩⟩
        · split at h
          · next s1 e1 hargs =>
            simp only [Prod.mk.injEq, Except.error.injEq] at h
            obtain ⟨rfl, rfl⟩ := h
            exact largsR_refused _ _ (lrunR_agree n) (lrun_sound wf n) ihn f f.params s _ _ hi hargs
          · next s1 args hargs =>
            have hargs' : largs (lrun fs kw n) fs kw f f.params s = .ok (args, s1) := by
              rw [largsR_agree _ _ (lrunR_agree n), hargs]; rfl
            obtain ⟨hs1, hi1, k, vals, hk, hdargs⟩ := largs_sound _ (lrun_sound wf n) f f.params s args s1 hi hargs'
            obtain ⟨hi2, hd2⟩ := call_node_sound (f := f) s1 hi1 hdargs
            obtain ⟨hi3, hs3, hn3, _⟩ := cachePut_inv wf (activeKey fs kw f o s) (.ref s1.nodes.length) _ hi2 hf
              (fun k' hk' => activeKey_some hk') hk hd2
            split at h
            · simp at h
            · simp only [Prod.mk.injEq] at h
              obtain ⟨rfl, _⟩ := h
              obtain ⟨hs4, _, hcl, hcs, hg, _⟩ := updateAll_spec (fs := fs) (kw := kw) f (.ref s1.nodes.length) vals _ hi3
                (by rw [hn3]; exact hd2)
              exact ⟨(hs1.trans ((mkNode_step _ s1).trans hs3)).trans hs4, ⟨hcl, hcs, hg⟩⟩

theorem finishR_state {kw : List (String × Val)} {a : LArg} {s s' : LSt} {r : Except Err LArg} (h : finishR kw a s = (s', r)) :
    s' = s := by
  unfold finishR at h
  split at h <;> (simp only [Prod.mk.injEq] at h; exact h.1.symm)

/-- the core fact about a refused lazy call: nodes were only added, nothing was evaluated, the invariant holds -/
theorem lrunTopR_refused {rank : String → Nat} (wf : PipeCache.WF fs rank) {s : LSt} (hs : Sess fs s) {req : Req}
    {s' : LSt} {e : Err} (h : lrunTopR fs kw req s = (s', .error e)) : Step s s' ∧ WInv fs s' := by
  have hw : WInv fs s := ⟨hs.closed, hs.cache, hs.graph⟩
  have hi0 := sess_inv0 kw hs
  cases req with
  | name o =>
    rw [lrunTopR_name_eq] at h
    split at h
    · simp only [Prod.mk.injEq] at h
      obtain ⟨rfl, _⟩ := h
      exact ⟨Step.refl _, hw⟩
    · split at h
      · next s1 e1 hrun =>
        simp only [Prod.mk.injEq, Except.error.injEq] at h
        obtain ⟨rfl, rfl⟩ := h
        obtain ⟨hst, hw'⟩ := lrunR_refused wf (fuelFor fs) o _ _ _ hi0 hrun
        have hst' : Step s _ := hst
        exact ⟨hst', hw'⟩
      · next s1 a hrun =>
        have := finishR_state h
        subst this
        have hrun' : lrun fs kw (fuelFor fs) o
            { s with memo := kw.map fun (k, v) => (k, LArg.val v), used := [], usedNone := false } = .ok (a, s') := by
          rw [lrunR_agree, hrun]; rfl
        obtain ⟨hst, hi, _⟩ := lrun_sound wf (fuelFor fs) o _ a s' hi0 hrun'
        have hst' : Step s _ := hst
        exact ⟨hst', hi.winv⟩
  | whole os =>
    rw [lrunTopR_whole_eq] at h
    split at h
    · simp only [Prod.mk.injEq] at h
      obtain ⟨rfl, _⟩ := h
      exact ⟨Step.refl _, hw⟩
    · next f hfind =>
      have hfm : f ∈ fs := List.mem_of_find?_eq_some hfind
      have hfo : f.outputs = os := by simpa using List.find?_some hfind
      have hprod : ∀ o rest, os = o :: rest → producer fs o = some f := fun o rest e =>
        (producer_some_iff fs wf.uniq o f).mpr ⟨hfm, by rw [hfo, e]; exact List.mem_cons_self⟩
      have hwk : ∀ s0 k', wholeKey fs kw f os s0 = some k' → ∃ o rest, os = o :: rest ∧ cacheKey fs kw f o = some k' := by
        intro s0 k' hk'
        unfold wholeKey at hk'
        split at hk'
        · next o rest => exact ⟨o, rest, rfl, activeKey_some hk'⟩
        · cases hk'
      split at h
      · have := finishR_state h
        subst this
        exact ⟨⟨⟨[], by simp⟩, rfl, rfl⟩, ⟨hs.closed, hs.cache, hs.graph⟩⟩
      · split at h
        · next s1 e1 hargs =>
          simp only [Prod.mk.injEq, Except.error.injEq] at h
          obtain ⟨rfl, rfl⟩ := h
          obtain ⟨hst, hw'⟩ := largsR_refused _ _ (lrunR_agree (fuelFor fs)) (lrun_sound wf (fuelFor fs))
            (lrunR_refused wf (fuelFor fs)) f f.params _ _ _ hi0 hargs
          have hst' : Step s _ := hst
          exact ⟨hst', hw'⟩
        · next s1 args hargs =>
          have := finishR_state h
          subst this
          have hargs' : largs (lrun fs kw (fuelFor fs)) fs kw f f.params
              { s with memo := kw.map fun (k, v) => (k, LArg.val v), used := [], usedNone := false } = .ok (args, s1) := by
            rw [largsR_agree _ _ (lrunR_agree (fuelFor fs)), hargs]; rfl
          obtain ⟨hs1, hi1, k, vals, hk, hdargs⟩ := largs_sound _ (lrun_sound wf (fuelFor fs)) f f.params _ args s1 hi0 hargs'
          obtain ⟨hi2, hd2⟩ := call_node_sound (f := f) s1 hi1 hdargs
          have hs1' : Step s s1 := hs1
          cases hwk' : wholeKey fs kw f os { s with memo := kw.map fun (k, v) => (k, LArg.val v), used := [], usedNone := false } with
          | none =>
            exact ⟨hs1'.trans (mkNode_step _ s1), by simpa [cachePut] using hi2.winv⟩
          | some k' =>
            obtain ⟨o, rest, hos, hck⟩ := hwk _ k' hwk'
            obtain ⟨hi3, hs3, _, _⟩ := cachePut_inv wf (some k') (.ref s1.nodes.length) _ hi2 (hprod o rest hos)
              (fun k'' hk'' => by injection hk'' with hk''; rw [← hk'']; exact hck) hk hd2
            exact ⟨hs1'.trans ((mkNode_step _ s1).trans hs3), hi3.winv⟩

theorem sess_after_w {s s' : LSt} (hs : Sess fs s) (hst : Step s s') (hi : WInv fs s') : Sess fs s' := by
  obtain ⟨⟨ext, hext⟩, hev, _⟩ := hst
  refine ⟨hi.closed, hi.cache, hi.graph, ?_, by rw [hev]; exact hs.log, ?_, by rw [hev]; exact hs.logged⟩
  · intro i w hl
    rw [hev] at hl
    rw [hext]; exact den_ext ext (hs.done i w hl)
  · intro i nd hd hn j hj
    rw [hev] at hd ⊢
    obtain ⟨w, hw⟩ := Option.isSome_iff_exists.mp hd
    have hlt : i < s.nodes.length := den_some_lt (hs.done i w hw)
    rw [hext, List.getElem?_append_left hlt] at hn
    exact hs.xclosed i nd hd hn j hj

end PF.Lazy
