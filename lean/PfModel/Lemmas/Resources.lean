import PfModel.Model.Resources
/-! Helper lemmas for `Props/C20.lean`. -/
namespace PF.Res

/-- A fold of "keep the larger one" steps dominates the start value and every operand, and returns one of them. -/
theorem fold_pick_ge {α ρ : Type} (le : α → α → Prop) (V : α → Prop)
    (pick : Option α → Option α → Option α) (q : ρ → Option α)
    (le_refl : ∀ x, V x → le x x) (le_trans : ∀ x y z, le x y → le y z → le x z)
    (pick_none : ∀ a, pick a none = a)
    (pick_first : ∀ n, pick none (some n) = some n)
    (pick_both : ∀ a n, V a → V n →
      (pick (some a) (some n) = some a ∧ le n a) ∨ (pick (some a) (some n) = some n ∧ le a n))
    (l : List ρ) :
    (∀ r ∈ l, ∀ x, q r = some x → V x) →
    ∀ acc, (∀ x, acc = some x → V x) →
      (∀ x, l.foldl (fun a r => pick a (q r)) acc = some x → V x) ∧
      (∀ x, acc = some x → ∃ y, l.foldl (fun a r => pick a (q r)) acc = some y ∧ le x y) ∧
      (∀ r ∈ l, ∀ x, q r = some x → ∃ y, l.foldl (fun a r => pick a (q r)) acc = some y ∧ le x y) ∧
      (∀ y, l.foldl (fun a r => pick a (q r)) acc = some y → acc = some y ∨ ∃ r ∈ l, q r = some y) := by
  induction l with
  | nil =>
    intro _ acc hacc
    refine ⟨by simpa using hacc, ?_, by simp, by simp⟩
    intro x hx; exact ⟨x, by simpa using hx, le_refl x (hacc x hx)⟩
  | cons r t ih =>
    intro hl acc hacc
    have hr : ∀ x, q r = some x → V x := hl r (by simp)
    have ht : ∀ r' ∈ t, ∀ x, q r' = some x → V x := fun r' h => hl r' (by simp [h])
    -- facts about the one-step result
    have step : (∀ x, pick acc (q r) = some x → V x) ∧
        (∀ x, acc = some x → ∃ y, pick acc (q r) = some y ∧ le x y) ∧
        (∀ x, q r = some x → ∃ y, pick acc (q r) = some y ∧ le x y) ∧
        (∀ y, pick acc (q r) = some y → acc = some y ∨ q r = some y) := by
      cases hq : q r with
      | none =>
        rw [pick_none]
        exact ⟨hacc, fun x hx => ⟨x, hx, le_refl x (hacc x hx)⟩, by simp, fun y hy => Or.inl hy⟩
      | some n =>
        have vn : V n := hr n hq
        cases ha : acc with
        | none =>
          rw [pick_first]
          refine ⟨?_, by simp, ?_, fun y hy => Or.inr hy⟩
          · intro x hx; cases hx; exact vn
          · intro x hx; cases hx; exact ⟨n, rfl, le_refl n vn⟩
        | some a =>
          have va : V a := hacc a ha
          rcases pick_both a n va vn with ⟨e, h⟩ | ⟨e, h⟩
          · rw [e]
            refine ⟨?_, ?_, ?_, fun y hy => Or.inl hy⟩
            · intro x hx; cases hx; exact va
            · intro x hx; cases hx; exact ⟨a, rfl, le_refl a va⟩
            · intro x hx; cases hx; exact ⟨a, rfl, h⟩
          · rw [e]
            refine ⟨?_, ?_, ?_, fun y hy => Or.inr hy⟩
            · intro x hx; cases hx; exact vn
            · intro x hx; cases hx; exact ⟨n, rfl, h⟩
            · intro x hx; cases hx; exact ⟨n, rfl, le_refl n vn⟩
    obtain ⟨s1, s2, s3, s4⟩ := step
    obtain ⟨i1, i2, i3, i4⟩ := ih ht (pick acc (q r)) s1
    simp only [List.foldl_cons]
    refine ⟨i1, ?_, ?_, ?_⟩
    · intro x hx
      obtain ⟨y, hy, hxy⟩ := s2 x hx
      obtain ⟨z, hz, hyz⟩ := i2 y hy
      exact ⟨z, hz, le_trans _ _ _ hxy hyz⟩
    · intro r' hr' x hx
      rcases List.mem_cons.mp hr' with rfl | hin
      · obtain ⟨y, hy, hxy⟩ := s3 x hx
        obtain ⟨z, hz, hyz⟩ := i2 y hy
        exact ⟨z, hz, le_trans _ _ _ hxy hyz⟩
      · exact i3 r' hin x hx
    · intro y hy
      rcases i4 y hy with h | ⟨r', hr', h⟩
      · rcases s4 y h with h' | h'
        · exact Or.inl h'
        · exact Or.inr ⟨r, by simp, h'⟩
      · exact Or.inr ⟨r', by simp [hr'], h⟩

/-- projections of the `combine_max` fold -/
theorem fold_cpus (l : List R) (acc : R) :
    (l.foldl combineStep acc).cpus = l.foldl (fun a r => maxOpt a r.cpus) acc.cpus := by
  induction l generalizing acc with
  | nil => rfl
  | cons r t ih => simp only [List.foldl_cons]; rw [ih]; rfl

theorem fold_gpus (l : List R) (acc : R) :
    (l.foldl combineStep acc).gpus = l.foldl (fun a r => maxOpt a r.gpus) acc.gpus := by
  induction l generalizing acc with
  | nil => rfl
  | cons r t ih => simp only [List.foldl_cons]; rw [ih]; rfl

theorem fold_memory (l : List R) (acc : R) :
    (l.foldl combineStep acc).memory = l.foldl (fun a r => memPick a r.memory) acc.memory := by
  induction l generalizing acc with
  | nil => rfl
  | cons r t ih => simp only [List.foldl_cons]; rw [ih]; rfl

theorem fold_time (l : List R) (acc : R) :
    (l.foldl combineStep acc).time = l.foldl (fun a r => timePick a r.time) acc.time := by
  induction l generalizing acc with
  | nil => rfl
  | cons r t ih => simp only [List.foldl_cons]; rw [ih]; rfl

theorem fold_nodes (l : List R) (acc : R) :
    (l.foldl combineStep acc).nodes = none ∧ (l.foldl combineStep acc).cpusPerNode = none ∨ l = [] := by
  induction l generalizing acc with
  | nil => exact Or.inr rfl
  | cons r t ih =>
    simp only [List.foldl_cons]
    rcases ih (combineStep acc r) with h | h
    · exact Or.inl h
    · subst h; exact Or.inl ⟨rfl, rfl⟩

/-- the orders used to compare memory and time strings -/
def MemLe (a b : String) : Prop := ∃ x y, memSize? a = some x ∧ memSize? b = some y ∧ x ≤ y
def TimeLe (a b : String) : Prop := ∃ x y, timeSecs? a = some x ∧ timeSecs? b = some y ∧ x ≤ y

theorem maxOpt_facts : (∀ a, maxOpt a none = a) ∧ (∀ n, maxOpt none (some n) = some n) ∧
    (∀ a n : Int, (maxOpt (some a) (some n) = some a ∧ n ≤ a) ∨ (maxOpt (some a) (some n) = some n ∧ a ≤ n)) := by
  refine ⟨?_, ?_, ?_⟩
  · intro a; cases a <;> rfl
  · intro n; rfl
  · intro a n
    by_cases h : a ≥ n
    · left; simp [maxOpt, h]
    · right; simp [maxOpt, h]; omega

theorem memPick_facts : (∀ a, memPick a none = a) ∧ (∀ n, memPick none (some n) = some n) ∧
    (∀ a n : String, (memSize? a).isSome → (memSize? n).isSome →
      (memPick (some a) (some n) = some a ∧ MemLe n a) ∨ (memPick (some a) (some n) = some n ∧ MemLe a n)) := by
  refine ⟨?_, ?_, ?_⟩
  · intro a; cases a <;> rfl
  · intro n; rfl
  · intro a n ha hn
    obtain ⟨y, hy⟩ := Option.isSome_iff_exists.mp ha
    obtain ⟨x, hx⟩ := Option.isSome_iff_exists.mp hn
    by_cases h : x > y
    · right
      refine ⟨by simp [memPick, hx, hy, h], y, x, hy, hx, Rat.le_of_lt h⟩
    · left
      refine ⟨by simp [memPick, hx, hy, h], x, y, hx, hy, Rat.not_lt.mp h⟩

theorem timePick_facts : (∀ a, timePick a none = a) ∧ (∀ n, timePick none (some n) = some n) ∧
    (∀ a n : String, (timeSecs? a).isSome → (timeSecs? n).isSome →
      (timePick (some a) (some n) = some a ∧ TimeLe n a) ∨ (timePick (some a) (some n) = some n ∧ TimeLe a n)) := by
  refine ⟨?_, ?_, ?_⟩
  · intro a; cases a <;> rfl
  · intro n; rfl
  · intro a n ha hn
    obtain ⟨y, hy⟩ := Option.isSome_iff_exists.mp ha
    obtain ⟨x, hx⟩ := Option.isSome_iff_exists.mp hn
    by_cases h : x > y
    · right
      refine ⟨by simp [timePick, hx, hy, h], y, x, hy, hx, Nat.le_of_lt h⟩
    · left
      refine ⟨by simp [timePick, hx, hy, h], x, y, hx, hy, Nat.le_of_not_gt h⟩

theorem valid_memory {r : R} (h : Valid r = true) : ∀ m, r.memory = some m → (memSize? m).isSome := by
  intro m hm
  simp only [Valid, Bool.and_eq_true, hm] at h
  exact h.1.1.1.2

theorem valid_time {r : R} (h : Valid r = true) : ∀ t, r.time = some t → (timeSecs? t).isSome := by
  intro t ht
  simp only [Valid, Bool.and_eq_true, ht] at h
  exact h.1.1.2

/-- the record obtained by writing the `dict()` of `a` over `base` -/
def overlay (base a : R) : R :=
  { cpus := a.cpus <|> base.cpus, cpusPerNode := a.cpusPerNode <|> base.cpusPerNode, nodes := a.nodes <|> base.nodes,
    memory := a.memory <|> base.memory, gpus := a.gpus <|> base.gpus, time := a.time <|> base.time,
    partition := a.partition <|> base.partition, extra := a.extra, mode := a.mode }

theorem foldl_toDict (base a : R) : (toDict a).foldl setField base = overlay base a := by
  rcases a with ⟨c, cn, n, m, g, t, p, e, mo⟩
  cases c <;> cases cn <;> cases n <;> cases m <;> cases g <;> cases t <;> cases p <;>
    simp [toDict, optF, setField, overlay]

theorem foldl_toDict_init (a : R) : (toDict a).foldl setField {} = a := by
  rw [foldl_toDict]
  rcases a with ⟨c, cn, n, m, g, t, p, e, mo⟩
  cases c <;> cases cn <;> cases n <;> cases m <;> cases g <;> cases t <;> cases p <;> simp [overlay]

end PF.Res
