import PfModel.Model.Errors
import PfModel.Lemmas.MapRun
/-! Helper lemmas for `Props/C13.lean`. -/
namespace PF.Errors.Call
open PF PF.Pipe PF.Errors

/-- forget the failure machinery: what `Pipe.run` would have answered -/
def Out.toE {α} : Out α → Except Pipe.Err (α × Pipe.St)
  | .ok a s => .ok (a, s.toP)
  | .stop (.model e) _ => .error e
  | .stop (.user _) _ => .error .fuel

theorem argsE_conservative (fs : List Func) (kw : List (String × Val)) (rec : String → St → Out Val)
    (rec' : String → Pipe.St → Except Pipe.Err (Val × Pipe.St)) (h : ∀ p s, (rec p s).toE = rec' p s.toP) (f : Func) :
    ∀ ps s, (argsE rec fs kw f ps s).toE = argsWith rec' fs kw f ps s.toP := by
  intro ps
  induction ps with
  | nil => intro s; simp [argsE, argsWith, Out.toE]
  | cons p ps ih =>
    obtain ⟨p, orig⟩ := p
    intro s
    cases hres : resolve fs kw f p with
    | missing => simp [argsE, argsWith, hres, Out.toE]
    | val v =>
      simp only [argsE, argsWith, hres]
      have := ih { s with used := s.used ++ [p] }
      simp only [St.toP] at this ⊢
      rw [← this]
      cases argsE rec fs kw f ps { s with used := s.used ++ [p] } with
      | ok a s2 => simp [Out.toE, St.toP]
      | stop e s2 => cases e <;> simp [Out.toE]
    | upstream =>
      simp only [argsE, argsWith, hres]
      have hr := h p s
      cases hrec : rec p s with
      | stop e s1 =>
        rw [hrec] at hr
        cases e <;> simp [Out.toE] at hr ⊢ <;> simp [← hr]
      | ok v s1 =>
        rw [hrec] at hr
        simp only [Out.toE] at hr
        simp only [← hr]
        have := ih { s1 with used := s1.used ++ [p] }
        simp only [St.toP] at this ⊢
        rw [← this]
        cases argsE rec fs kw f ps { s1 with used := s1.used ++ [p] } with
        | ok a s2 => simp [Out.toE, St.toP]
        | stop e s2 => cases e <;> simp [Out.toE]

theorem runE_conservative (fs : List Func) (kw : List (String × Val)) :
    ∀ n o s, (runE never fs kw n o s).toE = run fs kw n o s.toP := by
  intro n
  induction n with
  | zero => intro o s; simp [runE, run, Out.toE]
  | succ n ih =>
    intro o s
    have hm : s.toP.memo = s.memo := rfl
    cases hl : alookup s.memo o with
    | some v => simp [runE, run, hm, hl, Out.toE]
    | none =>
      cases hp : producer fs o with
      | none => simp [runE, run, hm, hl, hp, Out.toE]
      | some f =>
        simp only [runE, run, hm, hl, hp]
        have ha := argsE_conservative fs kw (runE never fs kw n) (run fs kw n) ih f f.params s
        rw [← ha]
        cases argsE (runE never fs kw n) fs kw f f.params s with
        | stop e s' => cases e <;> simp [Out.toE]
        | ok args s' =>
          simp only [Out.toE, execE, never]
          cases alookup (outVals f args) o <;> simp [Out.toE, St.toP]


/-! ### the first failure stops the call -/

/-- no logged invocation raised -/
def Clean (fails : Oracle) (calls : List Inv) : Prop := ∀ c ∈ calls, fails c.1 c.2 = none

/-- a user stop is the *last* logged invocation, every earlier one succeeded, and the exception is the oracle's answer for
    exactly that invocation, passed through `handleError` -/
def StopOK (fails : Oracle) (fs : List Func) (e : Stop) (s : St) : Prop :=
  match e with
  | .model _ => Clean fails s.calls
  | .user r => ∃ f args pre, f ∈ fs ∧ s.calls = pre ++ [(f.name, args)] ∧ Clean fails pre ∧ fails f.name args = some r.exn ∧
      r = handleError f.name f.params args r.exn ∧ args.map (·.1) = f.params.map (·.2)

def OutOK {α} (fails : Oracle) (fs : List Func) : Out α → Prop
  | .ok _ s => Clean fails s.calls
  | .stop e s => StopOK fails fs e s

theorem argsE_keys (fs : List Func) (kw : List (String × Val)) (rec : String → St → Out Val) (f : Func) :
    ∀ ps s args s', argsE rec fs kw f ps s = .ok args s' → args.map (·.1) = ps.map (·.2) := by
  intro ps
  induction ps with
  | nil => intro s args s' h; simp [argsE] at h; simp [h.1]
  | cons p ps ih =>
    obtain ⟨p, orig⟩ := p
    intro s args s' h
    cases hres : resolve fs kw f p with
    | missing => simp [argsE, hres] at h
    | val v =>
      simp only [argsE, hres] at h
      cases h2 : argsE rec fs kw f ps { s with used := s.used ++ [p] } with
      | stop e s2 => simp [h2] at h
      | ok rest s2 =>
        simp [h2] at h
        obtain ⟨rfl, _⟩ := h
        simp [ih _ _ _ h2]
    | upstream =>
      simp only [argsE, hres] at h
      cases h1 : rec p s with
      | stop e s1 => simp [h1] at h
      | ok v s1 =>
        simp only [h1] at h
        cases h2 : argsE rec fs kw f ps { s1 with used := s1.used ++ [p] } with
        | stop e s2 => simp [h2] at h
        | ok rest s2 =>
          simp [h2] at h
          obtain ⟨rfl, _⟩ := h
          simp [ih _ _ _ h2]

theorem argsE_inv (fails : Oracle) (fs : List Func) (kw : List (String × Val)) (rec : String → St → Out Val)
    (hrec : ∀ p s, Clean fails s.calls → OutOK fails fs (rec p s)) (f : Func) :
    ∀ ps s, Clean fails s.calls → OutOK fails fs (argsE rec fs kw f ps s) := by
  intro ps
  induction ps with
  | nil => intro s hs; simpa [argsE, OutOK] using hs
  | cons p ps ih =>
    obtain ⟨p, orig⟩ := p
    intro s hs
    cases hres : resolve fs kw f p with
    | missing => simpa [argsE, hres, OutOK, StopOK] using hs
    | val v =>
      simp only [argsE, hres]
      have := ih { s with used := s.used ++ [p] } hs
      cases h2 : argsE rec fs kw f ps { s with used := s.used ++ [p] } with
      | stop e s2 => rw [h2] at this; simpa [OutOK] using this
      | ok rest s2 => rw [h2] at this; simpa [OutOK] using this
    | upstream =>
      simp only [argsE, hres]
      have h1 := hrec p s hs
      cases hr : rec p s with
      | stop e s1 => rw [hr] at h1; simpa [OutOK] using h1
      | ok v s1 =>
        rw [hr] at h1
        simp only [OutOK] at h1
        simp only []
        have := ih { s1 with used := s1.used ++ [p] } h1
        cases h2 : argsE rec fs kw f ps { s1 with used := s1.used ++ [p] } with
        | stop e s2 => rw [h2] at this; simpa [OutOK] using this
        | ok rest s2 => rw [h2] at this; simpa [OutOK] using this

theorem execE_inv (fails : Oracle) (fs : List Func) (f : Func) (hf : f ∈ fs) (args : List (String × Val)) (s : St)
    (hs : Clean fails s.calls) (hk : args.map (·.1) = f.params.map (·.2)) : OutOK fails fs (execE fails f args s) := by
  unfold execE
  cases hx : fails f.name args with
  | some x =>
    simp only [OutOK, StopOK]
    exact ⟨f, args, s.calls, hf, rfl, hs, hx, rfl, hk⟩
  | none =>
    simp only [OutOK]
    intro c hc
    rcases List.mem_append.mp hc with h | h
    · exact hs c h
    · simp at h; subst h; exact hx

theorem runE_inv (fails : Oracle) (fs : List Func) (kw : List (String × Val)) :
    ∀ n o s, Clean fails s.calls → OutOK fails fs (runE fails fs kw n o s) := by
  intro n
  induction n with
  | zero => intro o s hs; simpa [runE, OutOK, StopOK] using hs
  | succ n ih =>
    intro o s hs
    cases hl : alookup s.memo o with
    | some v => simpa [runE, hl, OutOK] using hs
    | none =>
      cases hp : producer fs o with
      | none => simpa [runE, hl, hp, OutOK, StopOK] using hs
      | some f =>
        simp only [runE, hl, hp]
        have hf : f ∈ fs := List.mem_of_find?_eq_some hp
        have ha := argsE_inv fails fs kw (runE fails fs kw n) ih f f.params s hs
        cases hargs : argsE (runE fails fs kw n) fs kw f f.params s with
        | stop e s' => rw [hargs] at ha; simpa [OutOK] using ha
        | ok args s' =>
          rw [hargs] at ha
          simp only [OutOK] at ha
          have hk := argsE_keys fs kw _ f _ _ _ _ hargs
          have he := execE_inv fails fs f hf args s' ha hk
          simp only []
          cases hex : execE fails f args s' with
          | stop e s1 => rw [hex] at he; simpa [OutOK] using he
          | ok u s1 =>
            rw [hex] at he
            simp only [OutOK] at he
            simp only []
            cases alookup (outVals f args) o <;> simpa [OutOK, StopOK] using he

end PF.Errors.Call

namespace PF.Errors
open PF PF.Map

/-! ### first failing task -/

theorem firstFail_spec (fails : Oracle) : ∀ ts t x, firstFail fails ts = some (t, x) →
    ∃ pre post, ts = pre ++ t :: post ∧ (∀ u ∈ pre, failOf fails u = none) ∧ failOf fails t = some x := by
  intro ts
  induction ts with
  | nil => intro t x h; simp [firstFail] at h
  | cons a as ih =>
    intro t x h
    simp only [firstFail] at h
    cases ha : failOf fails a with
    | some y =>
      simp [ha] at h
      obtain ⟨rfl, rfl⟩ := h
      exact ⟨[], as, rfl, by simp, ha⟩
    | none =>
      simp only [ha] at h
      obtain ⟨pre, post, e, hpre, ht⟩ := ih t x h
      refine ⟨a :: pre, post, by simp [e], ?_, ht⟩
      intro u hu
      rcases List.mem_cons.mp hu with rfl | hu
      · exact ha
      · exact hpre u hu

theorem firstFail_none (fails : Oracle) : ∀ ts, firstFail fails ts = none ↔ ∀ t ∈ ts, failOf fails t = none := by
  intro ts
  induction ts with
  | nil => simp [firstFail]
  | cons a as ih =>
    simp only [firstFail]
    cases ha : failOf fails a with
    | some y => simp [ha]
    | none => simp [ha, ih]

theorem firstFail_append (fails : Oracle) (a b : List Task) :
    firstFail fails (a ++ b) = match firstFail fails a with | some r => some r | none => firstFail fails b := by
  induction a with
  | nil => simp [firstFail]
  | cons t ts ih =>
    simp only [List.cons_append, firstFail]
    cases failOf fails t with
    | some y => simp
    | none => simpa using ih

theorem firstFail_never (ts : List Task) : firstFail never ts = none := by
  rw [firstFail_none]; intro t _; rfl

theorem upToFail_spec (fails : Oracle) : ∀ ts t x, firstFail fails ts = some (t, x) →
    ∃ pre, upToFail fails ts = pre ++ [t] ∧ (∀ u ∈ pre, failOf fails u = none) ∧ ∃ post, ts = pre ++ t :: post := by
  intro ts
  induction ts with
  | nil => intro t x h; simp [firstFail] at h
  | cons a as ih =>
    intro t x h
    simp only [firstFail] at h
    cases ha : failOf fails a with
    | some y =>
      simp [ha] at h
      obtain ⟨rfl, rfl⟩ := h
      exact ⟨[], by simp [upToFail, ha], by simp, as, rfl⟩
    | none =>
      simp only [ha] at h
      obtain ⟨pre, e, hpre, post, e2⟩ := ih t x h
      refine ⟨a :: pre, by simp [upToFail, ha, e], ?_, post, by simp [e2]⟩
      intro u hu
      rcases List.mem_cons.mp hu with rfl | hu
      · exact ha
      · exact hpre u hu

theorem upToFail_mem (fails : Oracle) : ∀ ts t, t ∈ upToFail fails ts → t ∈ ts := by
  intro ts
  induction ts with
  | nil => intro t h; simp [upToFail] at h
  | cons a as ih =>
    intro t h
    simp only [upToFail] at h
    cases ha : failOf fails a with
    | some y => simp [ha] at h; simp [h]
    | none =>
      simp only [ha] at h
      rcases List.mem_cons.mp h with rfl | h
      · simp
      · exact List.mem_cons_of_mem _ (ih t h)

theorem mem_tasksOf (f : MFunc) (r : FuncResult) (t : Task) (h : t ∈ tasksOf f r) : t.f = f := by
  unfold tasksOf at h
  obtain ⟨c, _, rfl⟩ := List.mem_map.mp h
  rfl

theorem length_tasksOf (f : MFunc) (r : FuncResult) : (tasksOf f r).length = r.calls.length := by
  simp [tasksOf]

theorem genTasks_cons (f : MFunc) (r : FuncResult) (rest : List (MFunc × FuncResult)) :
    genTasks ((f, r) :: rest) = tasksOf f r ++ genTasks rest := by
  simp [genTasks]

theorem mem_genTasks (frs : List (MFunc × FuncResult)) (t : Task) (h : t ∈ genTasks frs) : ∃ fr ∈ frs, t.f = fr.1 := by
  unfold genTasks at h
  obtain ⟨fr, hfr, ht⟩ := List.mem_flatMap.mp h
  exact ⟨fr, hfr, mem_tasksOf _ _ _ ht⟩

theorem mem_genTasks_zip (gen : List MFunc) (rs : List FuncResult) (t : Task) (h : t ∈ genTasks (gen.zip rs)) : t.f ∈ gen := by
  obtain ⟨fr, hfr, e⟩ := mem_genTasks _ _ h
  obtain ⟨f, r⟩ := fr
  rw [e]
  exact (List.of_mem_zip hfr).1

/-! ### `runGenWith` -/

theorem runGenWith_cons (R : Env → MFunc → M FuncResult) (env : Env) (f : MFunc) (rest : List MFunc) :
    runGenWith R env (f :: rest) =
      match R env f with
      | .error e => .error e
      | .ok r => match runGenWith R env rest with
        | .error e => .error e
        | .ok rs => .ok (r :: rs) := by
  simp only [runGenWith, bind, Except.bind, pure, Except.pure]
  cases R env f with
  | error e => rfl
  | ok r => cases runGenWith R env rest <;> rfl

/-! ### sequential generation -/

/-- what the outcome of a generation must be, given the failure-free results `rs` of its functions -/
def GenSpec (fails : Oracle) (gen : List MFunc) (rs : List FuncResult) (out : GenOut) : Prop :=
  match firstFail fails (genTasks (gen.zip rs)) with
  | some (t, x) => ∃ log slots, out = .raised (raisedOf t x) log slots
  | none => ∃ log, out = .ok rs log

theorem seqGen_spec (fails : Oracle) (R : Env → MFunc → M FuncResult) (env : Env) :
    ∀ gen rs, runGenWith R env gen = .ok rs → GenSpec fails gen rs (seqGen fails R env gen) := by
  intro gen
  induction gen with
  | nil =>
    intro rs h
    simp [runGenWith, pure, Except.pure] at h
    subst h
    simp [GenSpec, genTasks, firstFail, seqGen]
  | cons f rest ih =>
    intro rs h
    rw [runGenWith_cons] at h
    cases hr : R env f with
    | error e => simp [hr] at h
    | ok r =>
      simp only [hr] at h
      cases hrest : runGenWith R env rest with
      | error e => simp [hrest] at h
      | ok rs' =>
        simp [hrest] at h
        subst h
        have ih' := ih rs' hrest
        simp only [GenSpec, List.zip_cons_cons, genTasks_cons, firstFail_append, seqGen, hr] at ih' ⊢
        cases hff : firstFail fails (tasksOf f r) with
        | some tx => obtain ⟨t, x⟩ := tx; exact ⟨_, _, rfl⟩
        | none =>
          simp only []
          cases hf2 : firstFail fails (genTasks (rest.zip rs')) with
          | some tx =>
            obtain ⟨t, x⟩ := tx
            simp only [hf2] at ih'
            obtain ⟨log, slots, e⟩ := ih'
            rw [e]; exact ⟨_, _, rfl⟩
          | none =>
            simp only [hf2] at ih'
            obtain ⟨log, e⟩ := ih'
            rw [e]; exact ⟨_, rfl⟩

/-- facts about a sequential generation that need no hypothesis on the plumbing -/
theorem seqGen_facts (fails : Oracle) (R : Env → MFunc → M FuncResult) (env : Env) : ∀ gen,
    match seqGen fails R env gen with
    | .ok rs log => runGenWith R env gen = .ok rs ∧ (∀ t ∈ log, t.f ∈ gen) ∧ (∀ t ∈ log, failOf fails t = none)
    | .refused _ => True
    | .raised r log _ => (∀ t ∈ log, t.f ∈ gen) ∧
        ∃ pre t x, log = pre ++ [t] ∧ (∀ u ∈ pre, failOf fails u = none) ∧ failOf fails t = some x ∧ r = raisedOf t x
    | .hang _ => False := by
  intro gen
  induction gen with
  | nil => simp [seqGen, runGenWith, pure, Except.pure]
  | cons f rest ih =>
    simp only [seqGen]
    cases hr : R env f with
    | error e => simp
    | ok r =>
      simp only []
      have hmemf : ∀ t ∈ tasksOf f r, t.f ∈ f :: rest := fun t ht => by rw [mem_tasksOf f r t ht]; simp
      cases hff : firstFail fails (tasksOf f r) with
      | some tx =>
        obtain ⟨t, x⟩ := tx
        simp only []
        obtain ⟨pre, e, hpre, post, e2⟩ := upToFail_spec fails _ t x hff
        obtain ⟨_, _, _, _, ht⟩ := firstFail_spec fails _ t x hff
        refine ⟨fun u hu => hmemf u (upToFail_mem fails _ u hu), pre, t, x, e, hpre, ht, rfl⟩
      | none =>
        simp only []
        have hclean := (firstFail_none fails _).mp hff
        cases hs : seqGen fails R env rest with
        | ok rs log =>
          rw [hs] at ih
          obtain ⟨h1, h2, h3⟩ := ih
          simp only []
          refine ⟨by rw [runGenWith_cons, hr, h1], ?_, ?_⟩
          · intro t ht
            rcases List.mem_append.mp ht with ht | ht
            · exact hmemf t ht
            · exact List.mem_cons_of_mem _ (h2 t ht)
          · intro t ht
            rcases List.mem_append.mp ht with ht | ht
            · exact hclean t ht
            · exact h3 t ht
        | refused e => simp
        | raised rr log sl =>
          rw [hs] at ih
          obtain ⟨h2, pre, t, x, e, hpre, ht, hr'⟩ := ih
          simp only []
          refine ⟨?_, tasksOf f r ++ pre, t, x, by simp [e], ?_, ht, hr'⟩
          · intro u hu
            rcases List.mem_append.mp hu with hu | hu
            · exact hmemf u hu
            · exact List.mem_cons_of_mem _ (h2 u hu)
          · intro u hu
            rcases List.mem_append.mp hu with hu | hu
            · exact hclean u hu
            · exact hpre u hu
        | hang log => rw [hs] at ih; exact ih.elim

/-! ### generation in an executor -/

/-- every task position occurs in the schedule: the pool eventually runs everything that was submitted -/
def Fair (σ : List Nat) (n : Nat) : Prop := ∀ j, j < n → j ∈ σ

/-- the future at position `j` after the pool ran the schedule: it holds the result of *its own* task iff the task ran -/
theorem execAll_get (fails : Oracle) (tasks : List Task) : ∀ (σ : List Nat) (a : Futs) (j : Nat),
    execAll fails tasks σ a j =
      match tasks[j]? with
      | some t => if j ∈ σ then some (failOf fails t) else a j
      | none => a j := by
  intro σ
  induction σ with
  | nil => intro a j; simp [execAll]; cases tasks[j]? <;> rfl
  | cons i σ ih =>
    intro a j
    simp only [execAll]
    cases hi : tasks[i]? with
    | some t =>
      simp only []
      rw [ih]
      by_cases hji : j = i
      · subst hji; simp [hi, setFut]
      · cases hj : tasks[j]? with
        | some t' => simp [setFut, hji]
        | none => simp [setFut, hji]
    | none =>
      simp only []
      rw [ih]
      by_cases hji : j = i
      · subst hji; simp [hi]
      · cases hj : tasks[j]? with
        | some t' => simp [hji]
        | none => rfl

/-- each future is pending or holds the result of the task at its own position -/
def Own (fails : Oracle) (futs : Futs) (ts : List Task) (off : Nat) : Prop :=
  ∀ k t, ts[k]? = some t → futs (off + k) = none ∨ futs (off + k) = some (failOf fails t)

/-- every future holds the result of the task at its own position -/
def Done (fails : Oracle) (futs : Futs) (ts : List Task) (off : Nat) : Prop :=
  ∀ k t, ts[k]? = some t → futs (off + k) = some (failOf fails t)

theorem Own.tail {fails futs t ts off} (h : Own fails futs (t :: ts) off) : Own fails futs ts (off + 1) := by
  intro k u hk
  have := h (k + 1) u (by simpa using hk)
  rwa [show off + (k + 1) = off + 1 + k by omega] at this

theorem Done.tail {fails futs t ts off} (h : Done fails futs (t :: ts) off) : Done fails futs ts (off + 1) := by
  intro k u hk
  have := h (k + 1) u (by simpa using hk)
  rwa [show off + (k + 1) = off + 1 + k by omega] at this

theorem Own.left {fails futs a b off} (h : Own fails futs (a ++ b) off) : Own fails futs a off := by
  intro k t hk
  have hlt : k < a.length := by
    rcases Nat.lt_or_ge k a.length with h | h
    · exact h
    · rw [List.getElem?_eq_none (by omega)] at hk; cases hk
  exact h k t (by rw [List.getElem?_append_left hlt]; exact hk)

theorem Own.right {fails futs a b off} (h : Own fails futs (a ++ b) off) : Own fails futs b (off + a.length) := by
  intro k t hk
  have := h (a.length + k) t (by rw [List.getElem?_append_right (by omega)]; simpa using hk)
  rwa [show off + (a.length + k) = off + a.length + k by omega] at this

theorem Done.left {fails futs a b off} (h : Done fails futs (a ++ b) off) : Done fails futs a off := by
  intro k t hk
  have hlt : k < a.length := by
    rcases Nat.lt_or_ge k a.length with h | h
    · exact h
    · rw [List.getElem?_eq_none (by omega)] at hk; cases hk
  exact h k t (by rw [List.getElem?_append_left hlt]; exact hk)

theorem Done.right {fails futs a b off} (h : Done fails futs (a ++ b) off) : Done fails futs b (off + a.length) := by
  intro k t hk
  have := h (a.length + k) t (by rw [List.getElem?_append_right (by omega)]; simpa using hk)
  rwa [show off + (a.length + k) = off + a.length + k by omega] at this

theorem awaitAll_own (fails : Oracle) (futs : Futs) : ∀ ts off, Own fails futs ts off →
    match awaitAll futs ts off with
    | .raised t x => t ∈ ts ∧ failOf fails t = some x
    | _ => True := by
  intro ts
  induction ts with
  | nil => intro off _; simp [awaitAll]
  | cons t ts ih =>
    intro off h
    simp only [awaitAll]
    have h0 := h 0 t (by simp)
    simp only [Nat.add_zero] at h0
    cases hf : futs off with
    | none => simp
    | some v =>
      cases v with
      | some x =>
        simp only []
        rw [hf] at h0
        rcases h0 with h0 | h0
        · cases h0
        · simp at h0; exact ⟨by simp, h0.symm⟩
      | none =>
        simp only []
        have := ih (off + 1) h.tail
        cases hw : awaitAll futs ts (off + 1) with
        | raised u y => rw [hw] at this; exact ⟨List.mem_cons_of_mem _ this.1, this.2⟩
        | allDone => trivial
        | hang => trivial

theorem awaitAll_done (fails : Oracle) (futs : Futs) : ∀ ts off, Done fails futs ts off →
    awaitAll futs ts off = match firstFail fails ts with | some (t, x) => .raised t x | none => .allDone := by
  intro ts
  induction ts with
  | nil => intro off _; simp [awaitAll, firstFail]
  | cons t ts ih =>
    intro off h
    have h0 := h 0 t (by simp)
    simp only [Nat.add_zero] at h0
    simp only [awaitAll, firstFail, h0]
    cases failOf fails t with
    | some x => rfl
    | none => exact ih (off + 1) h.tail

theorem procGen_own (fails : Oracle) (futs : Futs) : ∀ frs off, Own fails futs (genTasks frs) off →
    match procGen futs frs off with
    | .raised r _ => ∃ t x, t ∈ genTasks frs ∧ failOf fails t = some x ∧ r = raisedOf t x
    | _ => True := by
  intro frs
  induction frs with
  | nil => intro off _; simp [procGen]
  | cons fr rest ih =>
    obtain ⟨f, r⟩ := fr
    intro off h
    rw [genTasks_cons] at h
    simp only [procGen]
    have ha := awaitAll_own fails futs (tasksOf f r) off h.left
    cases hw : awaitAll futs (tasksOf f r) off with
    | hang => simp
    | raised t x =>
      rw [hw] at ha
      simp only []
      exact ⟨t, x, by rw [genTasks_cons]; exact List.mem_append_left _ ha.1, ha.2, rfl⟩
    | allDone =>
      simp only []
      have hr := h.right
      rw [length_tasksOf] at hr
      have := ih (off + r.calls.length) hr
      cases hp : procGen futs rest (off + r.calls.length) with
      | ok => simp
      | hang => simp
      | raised rr sl =>
        rw [hp] at this
        obtain ⟨t, x, ht, hx, e⟩ := this
        exact ⟨t, x, by rw [genTasks_cons]; exact List.mem_append_right _ ht, hx, e⟩

theorem procGen_done (fails : Oracle) (futs : Futs) : ∀ frs off, Done fails futs (genTasks frs) off →
    match firstFail fails (genTasks frs) with
    | some (t, x) => ∃ sl, procGen futs frs off = .raised (raisedOf t x) sl
    | none => procGen futs frs off = .ok := by
  intro frs
  induction frs with
  | nil => intro off _; simp [procGen, genTasks, firstFail]
  | cons fr rest ih =>
    obtain ⟨f, r⟩ := fr
    intro off h
    rw [genTasks_cons] at h ⊢
    rw [firstFail_append]
    simp only [procGen, awaitAll_done fails futs _ off h.left]
    cases hff : firstFail fails (tasksOf f r) with
    | some tx => obtain ⟨t, x⟩ := tx; exact ⟨_, rfl⟩
    | none =>
      simp only []
      have hr := h.right
      rw [length_tasksOf] at hr
      have := ih (off + r.calls.length) hr
      cases hf2 : firstFail fails (genTasks rest) with
      | some tx =>
        obtain ⟨t, x⟩ := tx
        rw [hf2] at this
        obtain ⟨sl, e⟩ := this
        simp only [e]; exact ⟨_, rfl⟩
      | none =>
        rw [hf2] at this
        simp only [this]

theorem own_execAll (fails : Oracle) (tasks : List Task) (σ : List Nat) :
    Own fails (execAll fails tasks σ (fun _ => none)) tasks 0 := by
  intro k t hk
  rw [execAll_get]
  simp only [Nat.zero_add, hk]
  by_cases h : k ∈ σ <;> simp [h]

theorem done_execAll (fails : Oracle) (tasks : List Task) (σ : List Nat) (hfair : Fair σ tasks.length) :
    Done fails (execAll fails tasks σ (fun _ => none)) tasks 0 := by
  intro k t hk
  rw [execAll_get]
  simp only [Nat.zero_add, hk]
  have hlt : k < tasks.length := by
    rcases Nat.lt_or_ge k tasks.length with h | h
    · exact h
    · rw [List.getElem?_eq_none (by omega)] at hk; cases hk
  simp [hfair k hlt]

theorem poolGen_spec (fails : Oracle) (σ : List Nat) (R : Env → MFunc → M FuncResult) (env : Env) (gen : List MFunc)
    (rs : List FuncResult) (h : runGenWith R env gen = .ok rs) (hfair : Fair σ (genTasks (gen.zip rs)).length) :
    GenSpec fails gen rs (poolGen fails σ R env gen) := by
  have hd := procGen_done fails _ (gen.zip rs) 0 (done_execAll fails (genTasks (gen.zip rs)) σ hfair)
  simp only [GenSpec, poolGen, h]
  cases hff : firstFail fails (genTasks (gen.zip rs)) with
  | some tx =>
    obtain ⟨t, x⟩ := tx
    rw [hff] at hd
    obtain ⟨sl, e⟩ := hd
    simp only [e]; exact ⟨_, _, rfl⟩
  | none =>
    rw [hff] at hd
    simp only [hd]; exact ⟨_, rfl⟩

theorem mem_filterMap_getElem? {α} (l : List α) (σ : List Nat) (t : α) (h : t ∈ σ.filterMap fun i => l[i]?) : t ∈ l := by
  obtain ⟨i, _, hi⟩ := List.mem_filterMap.mp h
  exact List.mem_of_getElem? hi

/-- facts about a pool generation that need no fairness -/
theorem poolGen_facts (fails : Oracle) (σ : List Nat) (R : Env → MFunc → M FuncResult) (env : Env) (gen : List MFunc) :
    match poolGen fails σ R env gen with
    | .ok rs log => runGenWith R env gen = .ok rs ∧ (∀ t ∈ log, t.f ∈ gen)
    | .refused _ => True
    | .raised r log _ => (∀ t ∈ log, t.f ∈ gen) ∧ ∃ t x, t.f ∈ gen ∧ failOf fails t = some x ∧ r = raisedOf t x
    | .hang log => ∀ t ∈ log, t.f ∈ gen := by
  unfold poolGen
  cases h : runGenWith R env gen with
  | error e => simp
  | ok rs =>
    simp only []
    have hlog : ∀ t ∈ σ.filterMap (fun i => (genTasks (gen.zip rs))[i]?), t.f ∈ gen :=
      fun t ht => mem_genTasks_zip gen rs t (mem_filterMap_getElem? _ σ t ht)
    have ho := procGen_own fails _ (gen.zip rs) 0 (own_execAll fails (genTasks (gen.zip rs)) σ)
    cases hp : procGen (execAll fails (genTasks (gen.zip rs)) σ fun _ => none) (gen.zip rs) 0 with
    | ok => exact ⟨rfl, hlog⟩
    | hang => exact hlog
    | raised r sl =>
      rw [hp] at ho
      obtain ⟨t, x, ht, hx, e⟩ := ho
      exact ⟨hlog, t, x, mem_genTasks_zip gen rs t ht, hx, e⟩

/-! ### both modes, one generation -/

theorem genE_facts (mode : Mode) (fails : Oracle) (σ : List Nat) (R : Env → MFunc → M FuncResult) (env : Env) (gen : List MFunc) :
    match genE mode fails σ R env gen with
    | .ok rs log => runGenWith R env gen = .ok rs ∧ (∀ t ∈ log, t.f ∈ gen)
    | .refused _ => True
    | .raised r log _ => (∀ t ∈ log, t.f ∈ gen) ∧ ∃ t x, t.f ∈ gen ∧ failOf fails t = some x ∧ r = raisedOf t x
    | .hang log => ∀ t ∈ log, t.f ∈ gen := by
  cases mode with
  | pool => exact poolGen_facts fails σ R env gen
  | seq =>
    have := seqGen_facts fails R env gen
    simp only [genE]
    cases h : seqGen fails R env gen with
    | ok rs log => rw [h] at this; exact ⟨this.1, this.2.1⟩
    | refused e => trivial
    | raised r log sl =>
      rw [h] at this
      obtain ⟨hl, pre, t, x, e, _, hx, hr⟩ := this
      exact ⟨hl, t, x, hl t (by simp [e]), hx, hr⟩
    | hang log => rw [h] at this; exact this.elim

theorem genE_spec (mode : Mode) (fails : Oracle) (σ : List Nat) (R : Env → MFunc → M FuncResult) (env : Env) (gen : List MFunc)
    (rs : List FuncResult) (h : runGenWith R env gen = .ok rs) (hfair : mode = .pool → Fair σ (genTasks (gen.zip rs)).length) :
    GenSpec fails gen rs (genE mode fails σ R env gen) := by
  cases mode with
  | seq => exact seqGen_spec fails R env gen rs h
  | pool => exact poolGen_spec fails σ R env gen rs h (hfair rfl)

theorem runGensWith_cons (R : Env → MFunc → M FuncResult) (gen : List MFunc) (rest : List (List MFunc)) (env : Env) :
    runGensWith R (gen :: rest) env =
      match runGenWith R env gen with
      | .error e => .error e
      | .ok rs =>
        match runGensWith R rest { env with store := env.store ++ rs.flatMap (·.slots) } with
        | .error e => .error e
        | .ok (more, envF) => .ok (rs ++ more, envF) := by
  simp only [runGensWith, bind, Except.bind, pure, Except.pure]
  cases runGenWith R env gen with
  | error e => rfl
  | ok rs =>
    simp only []
    cases runGensWith R rest { env with store := env.store ++ rs.flatMap (·.slots) } with
    | error e => rfl
    | ok p => rfl

/-- the schedule of every generation on the failure-free path runs every submitted task -/
def FairSched (sched : Nat → List Nat) (R : Env → MFunc → M FuncResult) : List (List MFunc) → Env → Nat → Prop
  | [], _, _ => True
  | gen :: rest, env, g =>
    match runGenWith R env gen with
    | .error _ => True
    | .ok rs => Fair (sched g) (genTasks (gen.zip rs)).length ∧
        FairSched sched R rest { env with store := env.store ++ rs.flatMap (·.slots) } (g + 1)

theorem tasksOf_calls (f : MFunc) (r : FuncResult) : (tasksOf f r).map (·.c) = r.calls := by
  simp [tasksOf, List.map_map, Function.comp_def]

theorem seqGen_never (R : Env → MFunc → M FuncResult) (env : Env) : ∀ gen,
    match runGenWith R env gen with
    | .error e => seqGen never R env gen = .refused e
    | .ok rs => ∃ log, seqGen never R env gen = .ok rs log ∧ log.map (·.c) = rs.flatMap (·.calls) := by
  intro gen
  induction gen with
  | nil => simp [runGenWith, pure, Except.pure, seqGen]
  | cons f rest ih =>
    rw [runGenWith_cons]
    simp only [seqGen]
    cases hr : R env f with
    | error e => rfl
    | ok r =>
      simp only [firstFail_never]
      cases hrest : runGenWith R env rest with
      | error e => rw [hrest] at ih; simp only [ih]
      | ok rs =>
        rw [hrest] at ih
        obtain ⟨log, e, hl⟩ := ih
        simp only [e]
        exact ⟨_, rfl, by simp [tasksOf_calls, hl]⟩

end PF.Errors
