import PfModel.Props.C10NestMap
/-!
C10 (round 4, continued) — the nested function under `map`, cell by cell, and closed whole-run instances.
-/
namespace PF.C10
open PF PF.Pipe PF.Rw

theorem C10_zip_self_lookup (l : List String) (q : String) (h : q ∈ l) : alookup (l.zip l) q = some q := by
  induction l with
  | nil => cases h
  | cons x xs ih =>
    simp only [List.zip_cons_cons, alookup]
    split
    · next e => rw [e]
    · next ne =>
      rcases List.mem_cons.mp h with h | h
      · exact absurd h.symm ne
      · exact ih h

/-- **Each cell of a nested function under `map` is the ORIGINAL pipeline's value for the arguments of that cell.**
    `NestedPipeFunc(S, out)` accepted (`mkNestM`, MapSpecs allowed), `S ⊆ fs`; for ANY argument list `args` the nest is called with
    (under `map`: the arguments `selectArgs` picks at one external index) that gives every outside name the original's value
    (`ValOld`, for root keywords `kw` under which the original evaluates every nested function): the value `callVal N args q` that
    `runMapR` puts into the cell is `w`, the original pipeline's `pipeline(q, **kw)` — for every output `q` of the nest.
    With an element-wise group and `kw` = the inputs at index `E` this is "the composition of element-wise functions is element-wise". -/
theorem C10_nest_map_cell (fs S : List RFunc) (out : Option (List String)) (N : RFunc) (h : mkNestM S out = .ok N)
    (kw args : List (String × Val)) (rank : String → Nat)
    (hS : ∀ g ∈ S, g ∈ fs) (hu : UniqueOutR fs) (hK : RootKw fs kw) (hne : ∀ g ∈ S, g.core.outputs ≠ [])
    (hA1 : ∀ p val, alookup args p = some val → ValOld fs kw p val)
    (hA2 : ∀ g ∈ S, ∀ p ∈ freeParams g, (∃ h ∈ S, p ∈ h.core.outputs) ∨ (alookup args p).isSome)
    (hac : AcyclicR fs rank) (hEv : ∀ g ∈ S, ∀ q ∈ g.core.outputs, ∃ m w, eval fs kw m q = .ok w)
    (q : String) (hq : q ∈ N.core.outputs) (m : Nat) (w : Val) (hw : eval fs kw m q = .ok w) :
    callVal N args q = w := by
  unfold mkNestM at h
  split at h
  · cases h
  · split at h
    · next lf hlf =>
      simp only [] at h
      split at h
      · cases h
      · next hsub =>
        split at h
        · cases h
        · next msO hc =>
          injection h with h
          subst h
          simp only [] at hq
          have hsub' : (out.getD (sortDedup (allOutputs S))).all (sortDedup (allOutputs S)).contains = true := by
            cases hx : (out.getD (sortDedup (allOutputs S))).all (sortDedup (allOutputs S)).contains with
            | true => rfl
            | false => simp [hx] at hsub
          have hqall : q ∈ sortDedup (allOutputs S) := by
            rw [List.all_eq_true] at hsub'
            simpa using hsub' q hq
          have hqS : ∃ g ∈ S, q ∈ g.core.outputs := by
            have : q ∈ allOutputs S := (mem_sortDedup _ _).mp hqall
            unfold allOutputs at this
            rw [List.mem_flatMap] at this
            exact this
          have hlfS : lf ∈ S := by
            have : lf ∈ leaves S := by rw [hlf]; simp
            unfold leaves at this
            exact (List.mem_filter.mp this).1
          have hleaf : ∃ g ∈ S, lf.core.outputs.headD "" ∈ g.core.outputs := by
            refine ⟨lf, hlfS, ?_⟩
            cases ho : lf.core.outputs with
            | nil => exact absurd ho (hne lf hlfS)
            | cons a t => simp
          obtain ⟨ml, wl, hwl⟩ : ∃ ml wl, eval fs kw ml (lf.core.outputs.headD "") = .ok wl := by
            obtain ⟨g, hg, hgo⟩ := hleaf
            exact hEv g hg _ hgo
          have e1 := C10_nest_body_total fs S kw args rank hS hu hK hA1 hA2 hac hEv _ hleaf ml wl hwl
          have e2 := C10_nest_body_total fs S kw args rank hS hu hK hA1 hA2 hac hEv q hqS m w hw
          unfold callVal
          simp only [Rw.outVal, origOf, C10_zip_self_lookup _ q hq, nestBody, e1, e2]
    · cases h

/-! ### closed instances (kernel-checked): chain with a default + reduction across the boundary; outer product, zip, tuple output -/

private def mf (name : String) (params outs : List String) (ms : Option PF.Map.MSpec) (defaults : List (String × Val) := []) : RFunc :=
  { core := { name := name, params := params.map fun p => (p, p), outputs := outs, defaults := defaults, bound := [] },
    outOrig := outs, body := none, mapspec := ms }

/-- `x[i] -> y[i]` (with a defaulted constant `c`), `y[i] -> z[i]` (with a constant `d`), and `s = h(z)` reducing `z` outside the group -/
def PN : List RFunc :=
  [mf "f" ["x", "c"] ["y"] (some ⟨[⟨"x", [some "i"]⟩], [⟨"y", [some "i"]⟩]⟩) [("c", .str "dflt:c")],
   mf "g" ["y", "d"] ["z"] (some ⟨[⟨"y", [some "i"]⟩], [⟨"z", [some "i"]⟩]⟩),
   mf "h" ["z"] ["s"] none]

/-- `x[i], w[j] -> ya[i, j], yb[i, j]` (tuple output), `yb[i, j], w[j] -> z[i, j]` (zip with `w` along `j`), `t = k(z)` outside -/
def PO : List RFunc :=
  [mf "f" ["x", "w"] ["ya", "yb"] (some ⟨[⟨"x", [some "i"]⟩, ⟨"w", [some "j"]⟩], [⟨"ya", [some "i", some "j"]⟩, ⟨"yb", [some "i", some "j"]⟩]⟩),
   mf "g" ["yb", "w"] ["z"] (some ⟨[⟨"yb", [some "i", some "j"]⟩, ⟨"w", [some "j"]⟩], [⟨"z", [some "i", some "j"]⟩]⟩),
   mf "k" ["z"] ["t"] none]

private def inN : List (String × Val) := [("x", .arr [3] [.str "a", .str "b", .str "c"]), ("d", .int 7)]
private def inO : List (String × Val) := [("x", .arr [2] [.str "a", .str "b"]), ("w", .arr [3] [.int 0, .int 1, .int 2])]
private def pickOuts (names : List String) (r : PF.Map.M PF.Map.MapResult) : Option (List (Option Val)) :=
  r.toOption.map fun m => names.map fun o => alookup m.outputs o

/-- the combined MapSpecs: the un-mapped `c`, `d` are not listed; the outputs come in `output_name` order -/
example : ((nestFuncsM ["y", "z"] none PN).toOption.map fun r => r.map fun f => (f.core.params.map (·.1), f.core.outputs, f.mapspec)) =
    some [(["z"], ["s"], none), (["c", "d", "x"], ["y", "z"], some ⟨[⟨"x", [some "i"]⟩], [⟨"y", [some "i"]⟩, ⟨"z", [some "i"]⟩]⟩)] := by decide
example : ((nestFuncsM ["y", "z"] (some ["z", "y"]) PN).toOption.map fun r => r.map fun f => f.mapspec) =
    some [none, some ⟨[⟨"x", [some "i"]⟩], [⟨"z", [some "i"]⟩, ⟨"y", [some "i"]⟩]⟩] := by decide
example : ((nestFuncsM ["ya", "z"] (some ["z"]) PO).toOption.map fun r => r.map fun f => f.mapspec) =
    some [none, some ⟨[⟨"w", [some "j"]⟩, ⟨"x", [some "i"]⟩], [⟨"z", [some "i", some "j"]⟩]⟩] := by decide
/-- the refusals, each for its reason: a reduction inside the nest (mix), `x` taken whole by `g` while `f` maps over it -/
private def errOf (r : Except Err (List RFunc)) : Option Err := match r with | .error e => some e | .ok _ => none
example : errOf (nestFuncsM ["z", "s"] none PN) = some (.missing "combine:mix") := by decide
example : errOf (nestFuncsM ["y", "z"] none
    [mf "f" ["x"] ["y"] (some ⟨[⟨"x", [some "i"]⟩], [⟨"y", [some "i"]⟩]⟩), mf "g" ["y", "x"] ["z"] (some ⟨[⟨"y", [some "i"]⟩], [⟨"z", [some "i"]⟩]⟩)]) =
    some (.missing "combine:whole") := by decide
example : errOf (nestFuncsM ["y", "z"] none
    [mf "f" ["x"] ["y"] (some ⟨[⟨"x", [some "i", none]⟩], [⟨"y", [some "i"]⟩]⟩),
     mf "g" ["y", "x"] ["z"] (some ⟨[⟨"y", [some "i"]⟩, ⟨"x", [none, some "i"]⟩], [⟨"z", [some "i"]⟩]⟩)]) = some (.missing "combine:axes") := by decide

/-- **closed instance of the whole-run statement** (kernel computation, any-length reasoning is `C10_nest_map_partial`): the map of
    `nest_funcs({y, z})` of `PN` returns for `y`, `z` and the reduction `s` exactly the arrays / value the map of `PN` returns -/
theorem C10_nest_map_witness_chain :
    ((nestFuncsM ["y", "z"] none PN).toOption.bind fun r => pickOuts ["y", "z", "s"] (runMapR r inN [])) =
    pickOuts ["y", "z", "s"] (runMapR PN inN []) ∧
    (pickOuts ["y", "z", "s"] (runMapR PN inN [])).isSome = true := ⟨by rfl, by rfl⟩

/-- the same for the outer product with a tuple output, `output_name = z` only (`ya`, `yb` are dropped; `t` is retained) -/
theorem C10_nest_map_witness_outer :
    ((nestFuncsM ["ya", "z"] (some ["z"]) PO).toOption.bind fun r => pickOuts ["z", "t"] (runMapR r inO [])) =
    pickOuts ["z", "t"] (runMapR PO inO []) ∧
    (pickOuts ["z", "t"] (runMapR PO inO [])).isSome = true := ⟨by rfl, by rfl⟩

/-- `C10_nest_map_spec` applies to `PN` (non-vacuity): the nest is accepted with a combined MapSpec -/
example : ∃ N ms, mkNestM (PN.take 2) none = .ok N ∧ N.mapspec = some ms ∧ specCovered ms = true := by
  unfold mkNestM
  refine ⟨_, _, rfl, rfl, by decide⟩

/-- `C10_nest_map_key` applies: the combined MapSpec of `PN`'s group and the inner `y[i] -> z[i]` -/
example : PF.Map.inputKey ⟨[⟨"x", [some "i"]⟩], [⟨"y", [some "i"]⟩, ⟨"z", [some "i"]⟩]⟩ ⟨"x", [some "i"]⟩ [2] =
    PF.Map.inputKey ⟨[⟨"x", [some "i"]⟩], [⟨"y", [some "i"]⟩]⟩ ⟨"x", [some "i"]⟩ [2] :=
  (C10_nest_map_key _ _ (by decide) (by decide) (by decide) _ _ .none).1

/-- **`runMap (nest S fs) = runMap fs` on the retained outputs — what is proved in general, and what is not.**
    Proved, for every accepted `nest_funcs` (any `S`, any MapSpecs): the new pipeline is `rest ++ [N]`; `N`'s MapSpec is the combined
    one with the guarantees of `C10_nest_map_spec`; and whatever arguments `N` is called with at an index, the cell it produces is the
    value the inner pipeline's `eval` yields for them (`callVal`, here) — by `C10_nest_map_cell` the ORIGINAL pipeline's call value.
    MISSING for the run-level equality: that `runMap fs` of an element-wise group puts into cell `E` of every group output the value
    `eval fs (inputs at E)` — i.e. that the layered run (`runGensWith` over the Kahn layers of `fs`, store look-ups through
    `Slot.toVal`/`indexVal`) of an element-wise group is pointwise the call; the generation structure of `rest ++ [N]` differs from
    that of `fs` (the group collapses into one layer), so the layer-by-layer simulations of `Lemmas/RewriteAxis*` do not transfer.
    It is checked on every generated case (new map = old map on the implementation, both = this model) and on the closed instances above. -/
theorem C10_nest_map_partial (sel : List String) (out : Option (List String)) (fs r : List RFunc) (h : nestFuncsM sel out fs = .ok r) :
    ∃ N, r = fs.filter (fun f => !(sel.any fun o => f.core.outputs.contains o)) ++ [N] ∧
      mkNestM (fs.filter fun f => sel.any fun o => f.core.outputs.contains o) out = .ok N ∧
      ∀ args o v, Rw.outVal N args o = .ok v → callVal N args o = v := by
  unfold nestFuncsM at h
  split at h
  · cases h
  · simp only [] at h
    split at h
    · cases h
    · next N hN =>
      split at h
      · injection h with h
        refine ⟨N, h.symm, hN, ?_⟩
        intro args o v hv
        unfold callVal
        have hb : N.body.isSome = true := by
          unfold mkNestM at hN
          split at hN
          · cases hN
          · split at hN
            · simp only [] at hN
              split at hN
              · cases hN
              · split at hN
                · cases hN
                · injection hN with hN; subst hN; rfl
            · cases hN
        cases hbody : N.body with
        | none => simp [hbody] at hb
        | some b => simp only [hv]
      · cases h

/-- `C10_nest_map_cell` applied to `PN` (every hypothesis a closed, checked fact): the group `{f, g}` with its MapSpecs is nested; for the
    arguments `map` selects at index 0 (`x = "a"`, the constant `d`, the default of `c`) the cell of `z` is the value of the ORIGINAL
    pipeline called with `x = "a", d = 7` -/
example : ∃ N w, mkNestM (PN.take 2) none = .ok N ∧ eval PN [("x", .str "a"), ("d", .int 7)] 5 "z" = .ok w ∧
    callVal N [("c", .str "dflt:c"), ("d", .int 7), ("x", .str "a")] "z" = w := by
  have hs : (mkNestM (PN.take 2) none).toOption.isSome = true := by decide
  cases h : mkNestM (PN.take 2) none with
  | error e => rw [h] at hs; simp [Except.toOption] at hs
  | ok N =>
    have hK : RootKw PN [("x", .str "a"), ("d", .int 7)] := by
      intro p ⟨c, hc⟩
      simp only [alookup]
      split
      · next e =>
        subst e
        have : producer (cores PN) "x" = none := by decide
        rw [this] at hc; cases hc
      · split
        · next e =>
          subst e
          have : producer (cores PN) "d" = none := by decide
          rw [this] at hc; cases hc
        · rfl
    have hdec : ∀ g ∈ PN.take 2, ∀ q ∈ g.core.outputs, (eval PN [("x", .str "a"), ("d", .int 7)] 5 q).toOption.isSome = true := by decide
    have hEv : ∀ g ∈ PN.take 2, ∀ q ∈ g.core.outputs, ∃ m w, eval PN [("x", .str "a"), ("d", .int 7)] m q = .ok w := by
      intro g hg q hq
      have := hdec g hg q hq
      cases he : eval PN [("x", .str "a"), ("d", .int 7)] 5 q with
      | ok w => exact ⟨5, w, he⟩
      | error e => rw [he] at this; simp [Except.toOption] at this
    have hz : (eval PN [("x", .str "a"), ("d", .int 7)] 5 "z").toOption.isSome = true := by decide
    cases hw : eval PN [("x", .str "a"), ("d", .int 7)] 5 "z" with
    | error e => rw [hw] at hz; simp [Except.toOption] at hz
    | ok w =>
      have hA1 : ∀ p val, alookup [("c", Val.str "dflt:c"), ("d", Val.int 7), ("x", Val.str "a")] p = some val →
          ValOld PN [("x", .str "a"), ("d", .int 7)] p val := by
        intro p val h
        simp only [alookup] at h
        split at h
        · next e => subst e; injection h with h; subst h; exact Or.inr (Or.inr ⟨rfl, rfl, rfl⟩)
        · split at h
          · next e => subst e; injection h with h; subst h; exact Or.inl rfl
          · split at h
            · next e => subst e; injection h with h; subst h; exact Or.inl rfl
            · cases h
      have hout : "z" ∈ N.core.outputs := by
        have : ((mkNestM (PN.take 2) none).toOption.map fun N => N.core.outputs) = some ["y", "z"] := by decide
        rw [h] at this
        simp only [Except.toOption, Option.map, Option.some.injEq] at this
        rw [this]; decide
      exact ⟨N, w, rfl, rfl, C10_nest_map_cell PN (PN.take 2) none N h [("x", .str "a"), ("d", .int 7)] _
        (fun s => if s = "y" then 0 else if s = "z" then 1 else 2)
        (fun g hg => List.mem_of_mem_take hg) (C10_dupOutputs_unique PN (by decide)) hK (by decide) hA1 (by decide) ⟨by decide⟩ hEv "z" hout 5 w hw⟩

/-- `C10_nest_map_partial` applies to `PN` -/
example : (nestFuncsM ["y", "z"] none PN).toOption.isSome = true := by decide

end PF.C10
