import PfModel.DriverVal
import PfModel.Model.Sched
import PfModel.Model.SchedPart
import PfModel.Model.SchedExec
import PfModel.Model.SchedOps
import PfModel.Model.SchedCount
import PfModel.Model.SchedCountPart
/-! Driver for C03 (`map.sched`): the parallel map runner `PF.Sched.runMapSched` under a given family of schedules
    (`orders`: per generation the (function name, future position) pairs in execution order) and `dump_in_subprocess`
    assignment (`dump_sub`: output names); reports the result, whether it equals the sequential runner's (`PF.Map.runMap`),
    the barrier on the execution log, and per generation the submitted ids, the execution order, the call log and the dumps. -/
open Lean PF PF.Drv PF.Map PF.Sched PF.Pieces PF.SchedP PF.SchedX PF.SchedC

def getASpec (j : Json) : R ASpec := do
  let (n, ax) ← asPair asStr (asList (asOpt asStr)) j
  return { name := n, axes := ax }

def getMSpec (j : Json) : R MSpec := do
  return { inputs := ← listF getASpec j "inputs", outputs := ← listF getASpec j "outputs" }

def getMFunc (j : Json) : R MFunc := do
  return { name := ← strF j "name", params := ← listF (asPair asStr asStr) j "params", outputs := ← listF asStr j "outputs",
           mapspec := ← optF getMSpec j "mapspec", ret := ← optF (asList asNat) j "ret", internal := ← optF (asList asNat) j "internal",
           defaults := (← optF getKw j "defaults").getD [], bound := (← optF getKw j "bound").getD [] }

def putMErr : PF.Map.Err → Json
  | .value w => jObj [("err", jStr "ValueError"), ("why", jStr w)]
  | .type w => jObj [("err", jStr "TypeError"), ("why", jStr w)]
  | .index w => jObj [("err", jStr "IndexError"), ("why", jStr w)]
  | .key w => jObj [("err", jStr "KeyError"), ("why", jStr w)]
  | .fuel => jObj [("err", jStr "Hang")]

def putCall (c : Call) : Json := jArr [jStr c.name, putKw c.args]
def putId (id : TaskId) : Json := jArr [jNat id.1, jNat id.2]
def putDump (d : DumpEv) : Json := jArr [jStr d.out, jOpt jNat d.idx, jBool d.inWorker]

def putResult (r : MapResult) : Json :=
  jObj [("outputs", putKw r.outputs), ("stored", putKw r.stored),
        ("shapes", jList (jPair jStr (jList jNat)) r.shapes), ("masks", jList (jPair jStr (jList jBool)) r.masks),
        ("calls", jList putCall r.calls), ("gens", jList (jList jStr) r.gens)]

/-- decidable version of `UniqueOutputs` -/
def uniqueOutputs : List MFunc → Bool
  | [] => true
  | f :: rest => rest.all (fun g => f.outputs.all fun o => !g.outputs.contains o) && uniqueOutputs rest

/-- the barrier on the execution log: generation numbers never decrease -/
def barrierOk : List (Nat × TaskId) → Bool
  | (g, _) :: (g', id) :: rest => g ≤ g' && barrierOk ((g', id) :: rest)
  | _ => true

/-- a family of schedules from per-generation lists of (function name, position in the function's futures) in execution
    order; a generation without a list runs in submission order -/
def schedOf (fs : List MFunc) (orders : List (List (String × Nat))) : Scheds := fun g ids =>
  match orders[g]?, (generations fs)[g]? with
  | some ord, some gen => ord.filterMap fun (nm, k) => (gen.findIdx? (·.name = nm)).map fun j => (j, k)
  | _, _ => ids

/-! ### `part.sched`: parallel runs on a non-fresh store / with fixed indices, sync and async awaiting -/

/-- an `int`, or `{"sl": [start, stop, step]}` with `null` for an omitted bound (schema of `Driver/C06.lean`) -/
def getSel (j : Json) : R Sel :=
  match j with
  | .num _ => do return .idx (← asInt j)
  | _ => do
    match ← asList (asOpt asInt) (← fld j "sl") with
    | [a, b, c] => return .slice a b c
    | _ => .error "slice needs three entries"

def getFixed (j : Json) : R (Option (List (String × Sel))) := asOpt (asList (asPair asStr getSel)) j

def putPartRes (r : PartResult) : Json :=
  jObj [("outputs", putKw r.res.outputs), ("calls", jList putCall r.res.calls),
        ("stored", putKw (r.store.map fun (o, s) => (o, s.toVal))),
        ("present", jList (jPair jStr (jOpt (jList jNat))) (r.store.map fun (o, s) => (o, presentOf s)))]

/-- a family of schedules for a partial run from per-generation lists of (function name, external linear index — ignored
    for an un-mapped function) in execution order: the index is translated into the position in `args.missing` -/
def schedOfP (fs : List MFunc) (shapes : List (String × List Nat)) (masks : List (String × List Bool))
    (fixed : Option (List (String × Sel))) (old : List (String × Slot)) (orders : List (List (String × Nat))) : Scheds := fun g ids =>
  match orders[g]?, (generations fs)[g]? with
  | some ord, some gen =>
    ord.filterMap fun (nm, li) =>
      match gen.findIdx? (·.name = nm) with
      | none => none
      | some j =>
        match (gen[j]?).map (planOfP shapes masks fixed old) with
        | some (.mapped _ _ _ _ todo) => (todo.findIdx? (· = li)).map fun k => (j, k)
        | some .single => some (j, 0)
        | _ => none
  | _, _ => ids

/-- one generation at the granularity of storage operations (`runGenOps`), under an adversarial interleaving derived from the
    schedule: every load of a body sees the dumps of *all other* bodies (in reverse), the dump operations land in reverse -/
def opsRunner (mode : Await) (fs : List MFunc) (shapes : List (String × List Nat)) (masks : List (String × List Bool))
    (fixed : Option (List (String × Sel))) (old : List (String × Slot)) (dumpSub : String → Bool) (sched : Scheds)
    (g : Nat) (env : Env) (gen : List MFunc) : M (List FuncResult × GenTrace) := do
  let pg := plannedP shapes masks fixed old gen
  let ids := sched g (idsFromP 0 pg)
  let Vs : TaskId → Views := fun id _ =>
    (dumpOps dumpSub fs shapes masks old env gen pg (fun _ _ => []) (ids.filter (· != id))).reverse
  let W := (dumpOps dumpSub fs shapes masks old env gen pg Vs ids).reverse
  let rs ← runGenOps mode fs shapes masks fixed old dumpSub env gen ids Vs W
  pure (rs, { ids := idsFromP 0 pg, ran := ids, calls := [], dumps := [] })

/-- outputs and stored data of a whole run at operation granularity -/
def opsRun (mode : Await) (fs : List MFunc) (inputs : List (String × Val)) (shapes : List (String × List Nat)) (masks : List (String × List Bool))
    (fixed : Option (List (String × Sel))) (old : List (String × Slot)) (dumpSub : String → Bool) (sched : Scheds) : Json :=
  match runGensG (opsRunner mode fs shapes masks fixed old dumpSub sched) 0 (generations fs) { inputs := inputs, store := [] } with
  | .error e => putMErr e
  | .ok (rs, env, _) => jObj [("outputs", putKw (rs.flatMap (·.outputs))), ("stored", putKw (env.store.map fun (o, s) => (o, s.toVal))),
                              ("calls", jList putCall (rs.flatMap (·.calls)))]

def putTrace (tr : GenTrace) : Json :=
  jObj [("ids", jList putId tr.ids), ("ran", jList putId tr.ran), ("calls", jList putCall tr.calls), ("dumps", jList putDump tr.dumps)]

/-- the parts in order on one folder, stopping at the first refusal; every part is also run sequentially (`runPart`) on the
    same previous store and with the other way of awaiting, and the three answers are compared -/
def runPartsObs (fs : List MFunc) (inputs : List (String × Val)) (ui : List (String × List Nat)) (dumpSub : String → Bool) (mode : Await) :
    List (Option (List (String × Sel)) × List (List (String × Nat))) → List (String × Slot) → R (List Json)
  | [], _ => pure []
  | (fixed, orders) :: ps, old => do
    let sm := match mapShapes fs inputs (constructInternal fs ui) with | .ok sm => sm | .error _ => ([], [])
    let sched := schedOfP fs sm.1 sm.2 fixed old orders
    let seqJ := match runPart fs inputs ui fixed old with | .error e => putMErr e | .ok r => putPartRes r
    -- the transported schedule must be a permutation of the futures the model submits (they depend on the plan only); if it
    -- is not, the tasks the implementation handed to its executors are not the model's futures: reported, not replayed
    let idsOf := (generations fs).map fun gen => idsFromP 0 (plannedP sm.1 sm.2 fixed old gen)
    let bad := (List.zip (List.range idsOf.length) idsOf).filter fun (g, ids) => !((sched g ids).isPerm ids)
    if !bad.isEmpty && (match seqJ with | .obj _ => !(seqJ.getObjVal? "err").isOk | _ => true) then
      return [jObj [("not_perm", jList (fun (gi : Nat × List TaskId) => jObj [("gen", jNat gi.1), ("ids", jList putId gi.2),
                                          ("ran", jList putId (sched gi.1 gi.2))]) bad), ("seq", seqJ)]]
    let other : Await := match mode with | .sync => .gather | .gather => .sync
    let otherJ := match runPartSched other fs inputs ui fixed old dumpSub sched with
      | .error e => putMErr e
      | .ok (r, trs) => jObj [("res", putPartRes r), ("trace", jList putTrace trs)]
    match runPartSched mode fs inputs ui fixed old dumpSub sched with
    | .error e =>
      return [jObj [("part", putMErr e), ("equal", jBool ((putMErr e).compress == seqJ.compress)),
                    ("modes_agree", jBool (match otherJ with | .obj _ => (otherJ.getObjVal? "err").isOk | _ => false))]]
    | .ok (r, trs) =>
      let rJ := putPartRes r
      let opsJ := opsRun mode fs inputs sm.1 sm.2 fixed old dumpSub sched
      let wantOps := jObj [("outputs", putKw r.res.outputs), ("stored", putKw (r.store.map fun (o, s) => (o, s.toVal))),
                           ("calls", jList putCall r.res.calls)]
      let meJ := jObj [("res", rJ), ("trace", jList putTrace trs)]
      let rest ← runPartsObs fs inputs ui dumpSub mode ps r.store
      return jObj [("part", rJ), ("equal", jBool (rJ.compress == seqJ.compress)), ("modes_agree", jBool (meJ.compress == otherJ.compress)),
                   -- round 9: per function (name, `callCount` in the execution-order log, `demandedP`) — `Props/C03CountPart.lean`
                   ("counts", jList (fun (c : String × Nat × Nat) => jArr [jStr c.1, jNat c.2.1, jNat c.2.2]) (callTableP fs sm.1 sm.2 fixed old trs)),
                   ("ops_equal", jBool (opsJ.compress == wantOps.compress)),
                   ("barrier", jBool (barrierOk (runLog 0 trs))), ("trace", jList putTrace trs)] :: rest

/-! ### `exec.select`: the executor-selection rule -/

def getXKey (j : Json) : R XKey :=
  match j with
  | .str s => pure (.name s)
  | _ => do return .tuple (← asList asStr j)

def putChoice : Choice String → Json
  | .inParent => jObj [("in_parent", jBool true)]
  | .submit e => jObj [("submit", jStr e)]
  | .refuse => jObj [("refuse", jBool true)]

def handle (m : String) (a : Json) : R Json := do
  match m with
  | "part.sched" =>
    let fs ← listF getMFunc a "funcs"
    let inputs ← getKw (← fld a "inputs")
    let internal := (← optF (asList (asPair asStr (asList asNat))) a "internal").getD []
    let dumpSubL := (← optF (asList asStr) a "dump_sub").getD []
    let dumpSub : String → Bool := fun o => dumpSubL.contains o
    let mode : Await ← match ← strF a "mode" with
      | "sync" => pure Await.sync
      | "gather" => pure Await.gather
      | other => .error s!"unknown mode {other}"
    let parts ← listF (fun j => do
      let fixed ← getFixed ((fld? j "fixed").getD Json.null)
      let orders := (← optF (asList (asList (asPair asStr asNat))) j "orders").getD []
      pure (fixed, orders)) a "parts"
    return jObj [("unique_outputs", jBool (uniqueOutputs fs)), ("parts", jArr (← runPartsObs fs inputs internal dumpSub mode parts []))]
  | "exec.select" =>
    -- executors are named by strings; "<pool>" is the ProcessPoolExecutor `_maybe_executor` creates
    let parallel ← boolF a "parallel"
    let gens ← listF (asList (asList asStr)) a "gens"
    let arg : ExecArg String ← (match fld? a "executor" with
      | none => pure ExecArg.none
      | some .null => pure ExecArg.none
      | some (.str e) => pure (ExecArg.one e)
      | some j => do
        let d ← asList (asPair getXKey asStr) j
        pure (ExecArg.dict d) : R (ExecArg String))
    match selectAll parallel "<pool>" arg gens with
    | .error .needsParallel => return jObj [("err", jStr "ValueError"), ("at", jStr "prepare")]
    | .error .badKey => return jObj [("err", jStr "ValueError"), ("at", jStr "prepare")]
    | .error (.uncovered _) => return jObj [("err", jStr "ValueError"), ("at", jStr "prepare")]
    | .error (.noExecutor g outs) => return jObj [("err", jStr "ValueError"), ("at", jStr "submit"), ("gen", jNat g), ("outs", jList jStr outs)]
    | .ok r => return jObj [("choices", jList (jList (jPair (jList jStr) putChoice)) r)]
  | "map.sched" =>
    let fs ← listF getMFunc a "funcs"
    let inputs ← getKw (← fld a "inputs")
    let internal := (← optF (asList (asPair asStr (asList asNat))) a "internal").getD []
    let orders := (← optF (asList (asList (asPair asStr asNat))) a "orders").getD []
    let dumpSubL := (← optF (asList asStr) a "dump_sub").getD []
    let dumpSub : String → Bool := fun o => dumpSubL.contains o
    let seq := runMap fs inputs internal
    let seqJ := match seq with | .error e => putMErr e | .ok r => putResult r
    match runMapSched fs inputs internal dumpSub (schedOf fs orders) with
    | .error e => return jObj [("sched", putMErr e), ("equal", jBool ((putMErr e).compress == seqJ.compress)),
                              ("unique_outputs", jBool (uniqueOutputs fs))]
    | .ok (r, trs) =>
      -- a schedule that is not a permutation of the submitted futures is a malformed request
      for tr in trs do
        if !(tr.ran.isPerm tr.ids) then throw s!"schedule is not a permutation of the submitted tasks: {repr tr.ran} vs {repr tr.ids}"
      let rJ := putResult r
      return jObj [("sched", rJ), ("equal", jBool (rJ.compress == seqJ.compress)),
                   ("unique_outputs", jBool (uniqueOutputs fs)),
                   ("barrier", jBool (barrierOk (runLog 0 trs))),
                   -- round 9: the counts the theorems of `Props/C03Count.lean` are about (`callCount`, `demanded`, `taskCount`)
                   ("counts", jList (fun (c : String × Nat × Nat) => jArr [jStr c.1, jNat c.2.1, jNat c.2.2]) (callTable fs r.shapes r.masks trs)),
                   ("tasks", jList (fun (t : Nat × Nat × Nat × Nat) => jArr [jNat t.1, jNat t.2.1, jNat t.2.2.1, jNat t.2.2.2]) (taskTable trs)),
                   ("stray", jList (fun (t : Nat × Nat × Nat) => jArr [jNat t.1, jNat t.2.1, jNat t.2.2]) (strayTasks trs)),
                   ("trace", jList (fun (tr : GenTrace) => jObj [("ids", jList putId tr.ids), ("ran", jList putId tr.ran),
                                      ("calls", jList putCall tr.calls), ("dumps", jList putDump tr.dumps)]) trs)]
  | _ => .error s!"unknown entry {m}"

def main : IO Unit := loop handle
