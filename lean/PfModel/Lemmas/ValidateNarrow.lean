import PfModel.Model.ValidateNarrow
import PfModel.Lemmas.Validate
import PfModel.Lemmas.SubPipeFuel
/-! Helper lemmas for C12, round 4 (`Model/ValidateNarrow.lean`): what `Pipeline.subpipeline` (C11's model `PF.Sub.prepare`)
    guarantees about the narrowed pipeline in the vocabulary of `PF.Map` (`rootArgs`, `pdefaults`, `validateInputs`). -/
namespace PF.Validate
open PF PF.Map

/-! ### root arguments and defaults, by membership -/

theorem mem_rootArgs_iff (fs : List MFunc) (p : String) :
    p ∈ rootArgs fs ↔ ∃ f ∈ fs, p ∈ paramNames f ∧ alookup f.bound p = none ∧ producer fs p = none := by
  constructor
  · intro h
    simp only [rootArgs] at h
    obtain ⟨f, hf, hpf⟩ := List.mem_flatMap.mp (List.mem_eraseDups.mp h)
    obtain ⟨q, hq, hqq⟩ := List.mem_filterMap.mp hpf
    split at hqq
    · cases hqq
    · next hc =>
      cases hqq
      refine ⟨f, hf, List.mem_map.mpr ⟨q, hq, rfl⟩, ?_, ?_⟩
      · cases hb : alookup f.bound q.1 with
        | none => rfl
        | some v => simp [hb] at hc
      · cases hpr : producer fs q.1 with
        | none => rfl
        | some g => simp [hpr] at hc
  · rintro ⟨f, hf, hp, hb, hpr⟩
    obtain ⟨q, hq, rfl⟩ := List.mem_map.mp hp
    unfold rootArgs
    rw [List.mem_eraseDups, List.mem_flatMap]
    refine ⟨f, hf, ?_⟩
    rw [List.mem_filterMap]
    exact ⟨q, hq, by simp [hb, hpr]⟩

/-- a root argument is a parameter of some function of the pipeline -/
theorem rootArgs_param (fs : List MFunc) (p : String) (h : p ∈ rootArgs fs) : ∃ f ∈ fs, p ∈ paramNames f := by
  obtain ⟨f, hf, hp, _, _⟩ := (mem_rootArgs_iff fs p).mp h
  exact ⟨f, hf, hp⟩

theorem prodIdx_none_iff (fs : List MFunc) (p : String) : (Sub.prodIdx Sub.mfuncNode fs p).isNone = true ↔ producer fs p = none := by
  unfold Sub.prodIdx producer
  rw [Option.isNone_iff_eq_none, List.findIdx?_eq_none_iff, List.find?_eq_none]
  simp only [Sub.mfuncNode]
  constructor
  · intro h x hx; exact Bool.eq_false_iff.mp (h x hx)
  · intro h x hx; exact Bool.eq_false_iff.mpr (h x hx)

theorem mem_deps_mfunc (f : MFunc) (p : String) :
    p ∈ (Sub.mfuncNode f).deps ↔ p ∈ paramNames f ∧ alookup f.bound p = none := by
  simp only [Sub.mfuncNode, paramNames, List.mem_filterMap, List.mem_map]
  constructor
  · rintro ⟨q, hq, h⟩
    split at h
    · cases h
    · next hc =>
      cases h
      refine ⟨⟨q, hq, rfl⟩, ?_⟩
      cases hb : alookup f.bound q.1 with
      | none => rfl
      | some v => simp [hb] at hc
  · rintro ⟨⟨q, hq, rfl⟩, hb⟩
    exact ⟨q, hq, by simp [hb]⟩

theorem mem_roots_of_rootArgs (fs : List MFunc) (p : String) (h : p ∈ rootArgs fs) : p ∈ Sub.roots Sub.mfuncNode fs := by
  obtain ⟨f, hf, hp, hb, hpr⟩ := (mem_rootArgs_iff fs p).mp h
  unfold Sub.roots
  rw [List.mem_flatMap]
  exact ⟨f, hf, List.mem_filter.mpr ⟨(mem_deps_mfunc f p).mpr ⟨hp, hb⟩, (prodIdx_none_iff fs p).mpr hpr⟩⟩

theorem mem_pdefaults_keys_of_dnames (fs : List MFunc) (p : String) (h : p ∈ Sub.dnames Sub.mfuncNode fs) :
    p ∈ akeys (pdefaults fs) := by
  unfold Sub.dnames at h
  obtain ⟨f, hf, hp⟩ := List.mem_flatMap.mp h
  obtain ⟨hd, hn⟩ := List.mem_filter.mp hp
  simp only [Sub.mfuncNode, List.mem_filterMap] at hd
  obtain ⟨kv, hkv, hk⟩ := hd
  split at hk
  · cases hk
  · next hc =>
    cases hk
    have hb : alookup f.bound kv.1 = none := by
      cases hb : alookup f.bound kv.1 with
      | none => rfl
      | some v => simp [hb] at hc
    have hpr := (prodIdx_none_iff fs kv.1).mp hn
    unfold akeys pdefaults
    rw [List.mem_map]
    refine ⟨kv, List.mem_flatMap.mpr ⟨f, hf, List.mem_filter.mpr ⟨hkv, ?_⟩⟩, rfl⟩
    simp [hb, hpr]

/-! ### what `subpipeline` returns -/

/-- the narrowed pipeline consists of functions of the pipeline, and — the test at the end of `Pipeline.subpipeline` — none of its
    root arguments is missing (neither provided nor defaulted) -/
theorem prepare_ok (fs : List MFunc) (inputs : List (String × Val)) (S : Option (List String)) (auto : Bool) (sub : List MFunc)
    (hn : (auto || S.isSome) = true) (h : Sub.prepare fs inputs S auto = .ok sub) :
    (∀ f ∈ sub, f ∈ fs) ∧ ∀ p ∈ rootArgs sub, p ∈ akeys inputs ∨ p ∈ akeys (pdefaults sub) := by
  unfold Sub.prepare at h
  rw [if_pos hn] at h
  unfold Sub.subpipeline at h
  split at h
  · cases h
  · split at h
    · cases h
    · split at h
      · cases h
      · next out _ K _ =>
        simp only [Sub.checkRoots] at h
        split at h
        · next hm =>
          cases h
          refine ⟨fun f hf => Sub.keepFrom_subset K fs 0 f hf, ?_⟩
          intro p hp
          have hr := mem_roots_of_rootArgs _ p hp
          have hnil : Sub.missingRoots Sub.mfuncNode (Sub.keepFrom K 0 fs) (akeys inputs) = [] := by simpa using hm
          unfold Sub.missingRoots at hnil
          have := List.filter_eq_nil_iff.mp hnil p hr
          simp only [Bool.and_eq_true, Bool.not_eq_eq_eq_not, Bool.not_true, not_and, Bool.not_eq_false] at this
          by_cases hi : p ∈ akeys inputs
          · exact Or.inl hi
          · right
            apply mem_pdefaults_keys_of_dnames
            have := this (by simpa using hi)
            simpa using this
        · cases h

/-- without `output_names` and without `auto_subpipeline` the pipeline is used as it is -/
theorem narrow_off (fs : List MFunc) (r : Req) (h : r.outputNames = none) : narrow fs r false = .ok fs := by
  simp [narrow, h]

theorem narrowed_of_none (r : Req) (h : r.outputNames = none) : r.narrowed = r := by
  cases r; simp only [Req.narrowed] at *; simp [h]

/-- `narrow` with an answer: the narrowing was on and C11's `prepare` gave that answer, or it was off -/
theorem narrow_ok (fs : List MFunc) (r : Req) (auto : Bool) (sub : List MFunc) (h : narrow fs r auto = .ok sub) :
    ((auto || r.outputNames.isSome) = false ∧ sub = fs) ∨
    ((auto || r.outputNames.isSome) = true ∧ checkOutputNames fs r = .ok () ∧
      Sub.prepare fs r.inputs (r.outputNames.map (selOutputs fs)) auto = .ok sub ∧ dropChecks sub [] fs = .ok ()) := by
  unfold narrow at h
  cases hn : (auto || r.outputNames.isSome) with
  | false =>
    simp only [hn, Bool.not_false, ↓reduceIte, Except.ok.injEq] at h
    exact Or.inl ⟨rfl, h.symm⟩
  | true =>
    simp only [hn, Bool.not_true, Bool.false_eq_true, ↓reduceIte] at h
    right
    split at h
    · cases h
    · next u hc =>
      cases u
      split at h
      · cases h
      · next s hs =>
        split at h
        · cases h
        · next u' hd =>
          cases u'
          cases h
          exact ⟨rfl, hc, hs, hd⟩

theorem narrow_subset (fs : List MFunc) (r : Req) (auto : Bool) (sub : List MFunc) (h : narrow fs r auto = .ok sub) :
    ∀ f ∈ sub, f ∈ fs := by
  rcases narrow_ok fs r auto sub h with ⟨_, rfl⟩ | ⟨hn, _, hp, _⟩
  · exact fun f hf => hf
  · have hn' : (auto || (r.outputNames.map (selOutputs fs)).isSome) = true := by
      cases ho : r.outputNames <;> simp_all
    exact (prepare_ok fs r.inputs _ auto sub hn' hp).1

/-- the checks of `startMap` begin with the executor/parallel test -/
theorem startMap_executor_error (fs : List MFunc) (r : Req) (e : VErr) (h : checkExecutor r = .error e) :
    startMap fs r = ([], .error e) := by
  simp only [startMap, startSteps, headChecks, List.cons_append, exec_check, h]

end PF.Validate
