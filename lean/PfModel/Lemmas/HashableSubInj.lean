import PfModel.Model.HashableSubRel
import PfModel.Lemmas.HashableSub
/-! Injectivity of `wkey` (`Model/HashableSub.lean`) up to `WRel` (`Model/HashableSubRel.lean`). -/
namespace PF.Hashable

theorem WV.subOkL_iff {f : Nat → Cls} {xs : List WV} : WV.subOkL f xs = true ↔ ∀ x ∈ xs, x.subOk f = true := by
  induction xs with
  | nil => simp [WV.subOkL]
  | cons x xs ih => simp [WV.subOkL, ih]

theorem wrelL_of_all2 {m : Mode} {xs ys : List WV} (h : All2 (WRel1 m) xs ys) : WRelL m xs ys := by
  induction h with
  | nil => exact .nil m
  | cons h _ ih => exact .cons m _ _ _ _ h ih

/-- what one converted child of a wide container is -/
def WC (esc : Bool) (m : Mode) (x : WV) (p : PV × PV) : Prop :=
  match m with
  | .elem => ∃ c, wkey esc x = .ok c ∧ p = (x.base, c)
  | .item => ∃ s k v c, x = .node .tuple s [k, v] ∧ wkey esc v = .ok c ∧ p = (k.base, tup [k.base, c])
  | .rawItem => conv1 esc .rawItem x.base = .ok p
  | .rawAtom => conv1 esc .rawAtom x.base = .ok p
  | .leaf => False

theorem wconvElems_all2 (esc : Bool) : ∀ (xs : List WV) (cs : List (PV × PV)), wconvElems esc xs = .ok cs →
    All2 (WC esc .elem) xs cs
  | [], cs, h => by simp [wconvElems] at h; cases h; exact .nil
  | x :: xs, cs, h => by
    simp only [wconvElems, bind, Except.bind] at h
    cases hx : wkey esc x with
    | error e => rw [hx] at h; cases h
    | ok c =>
      rw [hx] at h
      simp only at h
      cases hxs : wconvElems esc xs with
      | error e => rw [hxs] at h; cases h
      | ok cs' =>
        rw [hxs] at h
        cases h
        exact .cons ⟨c, hx, rfl⟩ (wconvElems_all2 esc xs cs' hxs)

theorem wconvItems_all2 (esc : Bool) : ∀ (xs : List WV) (cs : List (PV × PV)), wconvItems esc xs = .ok cs →
    All2 (WC esc .item) xs cs
  | [], cs, h => by simp [wconvItems] at h; cases h; exact .nil
  | x :: xs, cs, h => by
    cases x with
    | atom a => simp [wconvItems] at h
    | node k s ys =>
      cases k <;> try (simp [wconvItems] at h; done)
      case tuple =>
        rcases ys with _ | ⟨a, _ | ⟨b, _ | ⟨c, r⟩⟩⟩
        · simp [wconvItems] at h
        · simp [wconvItems] at h
        · simp only [wconvItems, bind, Except.bind] at h
          cases hx : wkey esc b with
          | error e => rw [hx] at h; cases h
          | ok c =>
            rw [hx] at h
            simp only at h
            cases hxs : wconvItems esc xs with
            | error e => rw [hxs] at h; cases h
            | ok cs' =>
              rw [hxs] at h
              cases h
              exact .cons ⟨s, a, b, c, rfl, hx, rfl⟩ (wconvItems_all2 esc xs cs' hxs)
        · simp [wconvItems] at h

theorem all2_baseL {R : PV → PV × PV → Prop} : ∀ {xs : List WV} {cs : List (PV × PV)}, All2 R (WV.baseL xs) cs →
    All2 (fun x p => R x.base p) xs cs
  | [], cs, h => by simp only [WV.baseL] at h; cases h; exact .nil
  | x :: xs, cs, h => by
    simp only [WV.baseL] at h
    cases h with
    | cons hx hxs => exact .cons hx (all2_baseL hxs)

theorem wconv_all2 (esc : Bool) (m : Mode) (xs : List WV) (cs : List (PV × PV)) (h : wconv esc m xs = .ok cs) :
    All2 (WC esc m) xs cs := by
  cases m with
  | elem => exact wconvElems_all2 esc xs cs h
  | item => exact wconvItems_all2 esc xs cs h
  | rawItem =>
    simp only [wconv, rawItems_eq (esc := esc)] at h
    exact all2_baseL (mapE_all2 h)
  | rawAtom =>
    simp only [wconv, rawAtoms_eq (esc := esc)] at h
    exact all2_baseL (mapE_all2 h)
  | leaf =>
    cases xs with
    | nil => simp [wconv] at h; cases h; exact .nil
    | cons x xs => simp [wconv] at h

theorem all2_rel_of_conv {α : Type} {C : α → PV × PV → Prop} {R : α → α → Prop} {xs ys : List α} :
    ∀ {sa sb : List (PV × PV)}, All2 C xs sa → All2 C ys sb → sa.map Prod.snd = sb.map Prod.snd →
    (∀ x ∈ xs, ∀ y ∈ ys, ∀ p q, C x p → C y q → p.2 = q.2 → R x y) → All2 R xs ys := by
  intro sa sb ha
  induction ha generalizing ys sb with
  | nil =>
    intro hb he _
    cases hb with
    | nil => exact .nil
    | cons _ _ => simp at he
  | cons hx _ ih =>
    intro hb he hpt
    cases hb with
    | nil => simp at he
    | cons hy hys =>
      simp only [List.map_cons, List.cons.injEq] at he
      exact .cons (hpt _ List.mem_cons_self _ List.mem_cons_self _ _ hx hy he.1)
        (ih hys he.2 (fun x hx y hy => hpt x (List.mem_cons_of_mem _ hx) y (List.mem_cons_of_mem _ hy)))

theorem reorderW {k : Kind} {R : WV → PV × PV → Prop} {xs : List WV} {cs s : List (PV × PV)} (h : All2 R xs cs)
    (hs : sortIf k cs = .ok s) : ∃ xs', (if k.ordered then xs = xs' else xs.Perm xs') ∧ All2 R xs' s := by
  have hp := sortIf_perm hs
  cases hk : k.ordered
  · rw [hk] at hp; simp only [Bool.false_eq_true, if_false] at hp ⊢
    exact All2.perm_right hp.symm h
  · rw [hk] at hp; simp only [if_true] at hp ⊢
    exact ⟨xs, rfl, hp ▸ h⟩

theorem permIf_memW {k : Kind} {xs xs' : List WV} (h : if k.ordered then xs = xs' else xs.Perm xs') {x : WV} (hx : x ∈ xs') :
    x ∈ xs := by
  split at h
  · rw [h]; exact hx
  · exact h.symm.subset hx

theorem nodeOk_cls {f : Nat → Cls} {k k' : Kind} {s s' : Option Nat} (h1 : nodeOk f k s = true) (h2 : nodeOk f k' s' = true)
    (h : clsOf k s = clsOf k' s') : s = s' ∧ k.cls = k'.cls := by
  cases s with
  | none =>
    cases s' with
    | none => exact ⟨rfl, h⟩
    | some n' =>
      exfalso
      simp only [nodeOk, Bool.and_eq_true, decide_eq_true_eq] at h2
      simp only [clsOf] at h
      cases k <;> simp only [Kind.cls, reduceCtorEq] at h
      rename_i c d
      simp only [Cls.other.injEq] at h
      subst h
      simp only [nodeOk, decide_eq_true_eq] at h1
      rw [h1] at h2
      cases k' <;> simp [Kind.cls, Kind.mode] at h2
  | some n =>
    cases s' with
    | none =>
      exfalso
      simp only [nodeOk, Bool.and_eq_true, decide_eq_true_eq] at h1
      simp only [clsOf] at h
      cases k' <;> simp only [Kind.cls, reduceCtorEq] at h
      rename_i c d
      simp only [Cls.other.injEq] at h
      subst h
      simp only [nodeOk, decide_eq_true_eq] at h2
      rw [h2] at h1
      cases k <;> simp [Kind.cls, Kind.mode] at h1
    | some n' =>
      simp only [clsOf, Cls.other.injEq] at h
      subst h
      simp only [nodeOk, Bool.and_eq_true, decide_eq_true_eq] at h1 h2
      exact ⟨rfl, h1.1.trans h2.1.symm⟩

theorem asIs_node (k : Kind) (s : Option Nat) (xs : List WV) :
    (WV.node k s xs).asIs = (hashable (.node k (WV.baseL xs)) && !(true && markerHeaded (.node k (WV.baseL xs)))) := by
  simp [WV.asIs, WV.base]

/-- one child: equal converted children are related children -/
theorem WC_inj {f : Nat → Cls} {m : Mode} {x y : WV} {p q : PV × PV} (hx : WC true m x p) (hy : WC true m y q) (hpq : p.2 = q.2)
    (hoy : y.subOk f = true)
    (ihx : ∀ y r, y.subOk f = true → wkey true x = .ok r → wkey true y = .ok r → WRel x y)
    (ihc : ∀ k' s' zs, x = .node k' s' zs → ∀ v ∈ zs, ∀ y r, y.subOk f = true → wkey true v = .ok r → wkey true y = .ok r → WRel v y) :
    WRel1 m x y := by
  cases m with
  | elem =>
    obtain ⟨c, hc, rfl⟩ := hx
    obtain ⟨c', hc', rfl⟩ := hy
    simp only at hpq; subst hpq
    exact .elem _ _ (ihx y c hoy hc hc')
  | item =>
    obtain ⟨s, k, v, c, rfl, hc, rfl⟩ := hx
    obtain ⟨s', k', v', c', rfl, hc', rfl⟩ := hy
    simp only [tup, PV.node.injEq, List.cons.injEq, and_true, true_and] at hpq
    obtain ⟨hk, rfl⟩ := hpq
    have hov : v'.subOk f = true := by
      simp only [WV.subOk, WV.subOkL, Bool.and_eq_true] at hoy
      exact hoy.2.2.1
    exact .item _ _ _ _ _ _ hk (ihc .tuple s [k, v] rfl v (by simp) v' c hov hc hc')
  | rawItem =>
    simp only [WC] at hx hy
    obtain ⟨_, _, _, rfl⟩ := conv1_rawItem hx
    obtain ⟨_, _, _, rfl⟩ := conv1_rawItem hy
    exact .rawItem _ _ hpq
  | rawAtom =>
    simp only [WC] at hx hy
    obtain ⟨_, rfl⟩ := conv1_rawAtom hx
    obtain ⟨_, rfl⟩ := conv1_rawAtom hy
    exact .rawAtom _ _ hpq
  | leaf => exact hx.elim

/-- equal keys only for related values -/
theorem wkey_injective (f : Nat → Cls) : ∀ a b r, a.subOk f = true → b.subOk f = true →
    wkey true a = .ok r → wkey true b = .ok r → WRel a b := by
  intro a
  induction a using WV.ind2 with
  | hatom a =>
    intro b r _ _ ha hb
    simp only [wkey] at ha
    cases ha
    cases b with
    | atom b' => simp only [wkey] at hb; cases hb; exact .asis _ _ (by simp [WV.asIs, WV.base, hashable, markerHeaded]) (by simp [WV.asIs, WV.base, hashable, markerHeaded]) rfl
    | node k s ys =>
      rcases wkey_node true k s ys _ hb with ⟨_, h⟩ | ⟨_, cs, srt, _, _, h⟩
      · cases h
      · exact absurd h atom_ne_tagged
  | hnode k s xs ih ih2 =>
    intro b r hoa hob ha hb
    cases b with
    | atom b' =>
      simp only [wkey] at hb
      cases hb
      rcases wkey_node true k s xs _ ha with ⟨_, h⟩ | ⟨_, cs, srt, _, _, h⟩
      · cases h
      · exact absurd h atom_ne_tagged
    | node k' s' ys =>
      rcases wkey_node true k s xs r ha with ⟨hra, rfl⟩ | ⟨hra, csa, sa, hca, hsa, rfl⟩
      · rcases wkey_node true k' s' ys _ hb with ⟨hrb, h⟩ | ⟨hrb, csb, sb, hcb, hsb, h⟩
        · exact .asis _ _ (by rw [asIs_node]; exact hra) (by rw [asIs_node]; exact hrb) (by simp only [WV.base]; exact h)
        · rw [h, markerHeaded_tagged] at hra; simp at hra
      · rcases wkey_node true k' s' ys _ hb with ⟨hrb, h⟩ | ⟨hrb, csb, sb, hcb, hsb, h⟩
        · rw [← h, markerHeaded_tagged] at hrb; simp at hrb
        · obtain ⟨hc, hw⟩ := tagged_inj h
          simp only [WV.subOk, Bool.and_eq_true] at hoa hob
          obtain ⟨hs, hcls⟩ := nodeOk_cls hoa.1 hob.1 hc
          subst hs
          obtain ⟨rfl, hAB⟩ := wrap_inj hcls hw
          have hoys := WV.subOkL_iff.1 hob.2
          have hoxs := WV.subOkL_iff.1 hoa.2
          have hala := wconv_all2 true k.mode xs csa hca
          have halb := wconv_all2 true k.mode ys csb hcb
          by_cases hleaf : k.mode = .leaf
          · rw [hleaf] at hala halb
            have hx : xs = [] := by
              cases hala with
              | nil => rfl
              | cons h _ => exact h.elim
            have hy : ys = [] := by
              cases halb with
              | nil => rfl
              | cons h _ => exact h.elim
            subst hx; subst hy
            refine .node k s [] [] [] [] (by rw [asIs_node]; exact hra) (by rw [asIs_node]; exact hrb) ?_ (.nil _) ?_ <;> split <;> simp
          · have hAB := hAB hleaf
            obtain ⟨xs', hpx, hax⟩ := reorderW hala hsa
            obtain ⟨ys', hpy, hay⟩ := reorderW halb hsb
            have hall : All2 (WRel1 k.mode) xs' ys' := by
              refine all2_rel_of_conv hax hay hAB ?_
              intro x hx y hy p q hxp hyq hpq
              have hxm := permIf_memW hpx hx
              have hym := permIf_memW hpy hy
              exact WC_inj hxp hyq hpq (hoys y hym)
                (fun y r hoy => ih x hxm y r (hoxs x hxm) hoy)
                (fun k' s' zs he v hv y r hoy => by
                  have hov : v.subOk f = true := by
                    have := hoxs x hxm
                    subst he
                    simp only [WV.subOk, Bool.and_eq_true] at this
                    exact WV.subOkL_iff.1 this.2 v hv
                  exact ih2 x hxm k' s' zs he v hv y r hov hoy)
            refine .node k s xs xs' ys' ys (by rw [asIs_node]; exact hra) (by rw [asIs_node]; exact hrb) hpx (wrelL_of_all2 hall) ?_
            split at hpy
            · simp [*]
            · simp [*]; exact hpy.symm

end PF.Hashable
