import PfModel.Lemmas.RewriteRenWF
/-!
`WF` (the hypothesis of every `C10_renames_*` theorem) is an INVARIANT of the rename operations: a renaming of a well-formed function
is well-formed exactly when it identifies no two of the function's names, and every accepted `update_renames` (function level, pipeline
level, one function in place, the plain `Pipeline.update_renames(m)`) checks that (`validNames`).  Lemmas for `Props/C10RenKeep.lean`;
the definition of a rename HISTORY (`RenStep`, `runSteps`) lives here because `Props/` files hold theorems only.  Core Lean only.
-/
namespace PF.Rw
open PF PF.Pipe

theorem zip_map_fst_of_len {α β} : ∀ (as : List α) (bs : List β), as.length = bs.length → (as.zip bs).map (·.1) = as
  | [], _, _ => by simp
  | _ :: _, [], h => by simp at h
  | a :: as, b :: bs, h => by
    simp only [List.zip_cons_cons, List.map_cons]
    rw [zip_map_fst_of_len as bs (by simpa using h)]

theorem zip_map_snd_mapl {α β γ} (g : α → γ) : ∀ (as : List α) (bs : List β), ((as.map g).zip bs).map (·.2) = (as.zip bs).map (·.2)
  | [], _ => by simp
  | _ :: _, [] => by simp
  | a :: as, b :: bs => by
    simp only [List.map_cons, List.zip_cons_cons]
    rw [zip_map_snd_mapl g as bs]

/-- with one original name per output the keys of `_inverse_renames` are the current names -/
theorem inverse_keys_eq (f : RFunc) (h : f.core.outputs.length = f.outOrig.length) : (inverseOf f).map (·.1) = curNames f := by
  simp only [inverseOf, curNames, List.map_append, zip_map_fst_of_len _ _ h]

/-- a renaming leaves the original names alone -/
theorem inverse_orig_renameF (ρ : String → String) (f : RFunc) : (inverseOf (renameF ρ f)).map (·.2) = (inverseOf f).map (·.2) := by
  rw [inverseOf_renameF]
  simp only [inverseOf, List.map_append, zip_map_snd_mapl, List.map_map, Function.comp_def, rkv]

theorem nodup_map_of_inj (ρ : String → String) : ∀ (l : List String), l.Nodup → (∀ a b, a ∈ l → b ∈ l → ρ a = ρ b → a = b) → (l.map ρ).Nodup
  | [], _, _ => by simp
  | x :: r, hnd, hinj => by
    simp only [List.nodup_cons] at hnd
    simp only [List.map_cons, List.nodup_cons]
    refine ⟨?_, nodup_map_of_inj ρ r hnd.2 (fun a b ha hb => hinj a b (List.mem_cons_of_mem _ ha) (List.mem_cons_of_mem _ hb))⟩
    intro hx
    obtain ⟨y, hy, e⟩ := List.mem_map.mp hx
    have : y = x := hinj y x (List.mem_cons_of_mem _ hy) (List.mem_cons_self) e
    subst this
    exact hnd.1 hy

theorem mem_renameSpec (ρ : String → String) (ms : PF.Map.MSpec) (a : PF.Map.ASpec) (ha : a ∈ (renameSpec ρ ms).inputs ++ (renameSpec ρ ms).outputs) :
    ∃ a0 ∈ ms.inputs ++ ms.outputs, a.name = ρ a0.name := by
  simp only [renameSpec, List.mem_append, List.mem_map] at ha
  rcases ha with ⟨a0, h0, e⟩ | ⟨a0, h0, e⟩
  · exact ⟨a0, List.mem_append_left _ h0, by rw [← e]⟩
  · exact ⟨a0, List.mem_append_right _ h0, by rw [← e]⟩

/-- a renaming that keeps the function's names apart keeps the function well-formed -/
theorem wf_renameF (ρ : String → String) (f : RFunc) (hf : WF f) (hnd : ((curNames f).map ρ).Nodup) : WF (renameF ρ f) := by
  have e1 : (renameF ρ f).core.params = f.core.params.map (rkv ρ) := by simp only [renameF, rkv_eq]
  have e2 : (renameF ρ f).core.defaults = f.core.defaults.map (rkv ρ) := by simp only [renameF, rkv_eq]
  have e3 : (renameF ρ f).core.bound = f.core.bound.map (rkv ρ) := by simp only [renameF, rkv_eq]
  have e4 : (renameF ρ f).mapspec = f.mapspec.map (renameSpec ρ) := rfl
  have hlen : (renameF ρ f).core.outputs.length = (renameF ρ f).outOrig.length := by
    simp only [renameF, List.length_map]; exact hf.outs
  have hkey : ∀ (l : List (String × Val)), (∀ kv ∈ l, kv.1 ∈ f.core.params.map (·.1)) →
      ∀ kv ∈ l.map (rkv ρ), kv.1 ∈ (f.core.params.map (rkv ρ)).map (·.1) := by
    intro l hl kv hkv
    obtain ⟨kv0, h0, e⟩ := List.mem_map.mp hkv
    obtain ⟨po, hpo, e'⟩ := List.mem_map.mp (hl kv0 h0)
    exact List.mem_map.mpr ⟨rkv ρ po, List.mem_map.mpr ⟨po, hpo, rfl⟩, by rw [← e]; simp only [rkv, e']⟩
  refine ⟨?_, ?_, hlen, ?_, ?_, ?_⟩
  · rw [inverse_keys_eq _ hlen, curNames_renameF]; exact hnd
  · rw [inverse_orig_renameF]; exact hf.orig
  · rw [e1, e2]; exact hkey _ hf.dflt
  · rw [e1, e3]; exact hkey _ hf.bnd
  · intro ms hms a ha
    rw [e4] at hms
    cases hm : f.mapspec with
    | none => rw [hm] at hms; cases hms
    | some ms0 =>
      rw [hm] at hms
      simp only [Option.map_some, Option.some.injEq] at hms
      subst hms
      obtain ⟨a0, ha0, e⟩ := mem_renameSpec ρ ms0 a ha
      rw [inverse_keys_eq _ hlen, curNames_renameF, e]
      exact List.mem_map.mpr ⟨a0.name, inverse_keys_cur f _ (hf.spec ms0 hm a0 ha0), rfl⟩

theorem curNames_nodup_of_wf (f : RFunc) (hf : WF f) : (curNames f).Nodup := by
  rw [← inverse_keys_eq f hf.outs]; exact hf.cur

/-- **exactly when**: a renaming of a well-formed function is well-formed iff it identifies no two of the function's names -/
theorem wf_renameF_iff (ρ : String → String) (f : RFunc) (hf : WF f) :
    WF (renameF ρ f) ↔ ∀ a b, a ∈ curNames f → b ∈ curNames f → ρ a = ρ b → a = b := by
  constructor
  · intro h
    have := curNames_nodup_of_wf _ h
    rw [curNames_renameF] at this
    exact inj_of_nodup_map ρ _ this
  · intro h
    exact wf_renameF ρ f hf (nodup_map_of_inj ρ _ (curNames_nodup_of_wf f hf) h)

/-- what an accepted `PipeFunc.update_renames` leaves behind has distinct names (`_validate_names`) -/
theorem updateRenamesF_nodup (m : List (String × String)) (fromOrig ow : Bool) (f f' : RFunc)
    (h : updateRenamesF m fromOrig ow f = .ok f') : (curNames f').Nodup := by
  unfold updateRenamesF at h
  split at h
  · cases h
  · have := validNames_ok _ _ h
    rw [this.1]; exact this.2

theorem wf_renamesEach (m : List (String × String)) (fromOrig ow : Bool)
    (step : ∀ m f f', WF f → updateRenamesF m fromOrig ow f = .ok f' → WF f') :
    ∀ (fs fs' : List RFunc), (∀ f ∈ fs, WF f) → renamesEach m fromOrig ow fs = .ok fs' → ∀ f' ∈ fs', WF f'
  | [], fs', _, h => by
    simp only [renamesEach] at h; injection h with h; subst h; intro f' hf'; cases hf'
  | f :: fs, fs', hwf, h => by
    simp only [renamesEach] at h
    split at h
    · cases h
    · next g hg =>
      split at h
      · cases h
      · next gs hgs =>
        injection h with h; subst h
        intro f' hf'
        rcases List.mem_cons.mp hf' with e | hf'
        · subst e; exact step _ f f' (hwf f List.mem_cons_self) hg
        · exact wf_renamesEach m fromOrig ow step fs gs (fun x hx => hwf x (List.mem_cons_of_mem _ hx)) hgs f' hf'

theorem updateRenamesX_loop (m : List (String × String)) (fromOrig ow : Bool) (fs fs' : List RFunc)
    (h : updateRenamesX m fromOrig ow fs = .ok fs') : renamesEach m fromOrig ow fs = .ok fs' := by
  unfold updateRenamesX at h
  split at h
  · cases h
  · next gs hgs =>
    split at h
    · cases h
    · split at h
      · cases h
      · split at h
        · cases h
        · split at h
          · cases h
          · split at h
            · cases h
            · split at h
              · cases h
              · injection h with h; subst h; exact hgs

/-- what the plain `Pipeline.update_renames(m)` checks per function -/
theorem updateRenames_nodup (m : List (String × String)) (fs fs' : List RFunc) (h : updateRenames m fs = .ok fs') :
    fs' = renameAll (rhoOf m) fs ∧ ∀ f' ∈ fs', (curNames f').Nodup := by
  unfold updateRenames at h
  split at h
  · cases h
  · split at h
    · cases h
    · split at h
      · cases h
      · next hany =>
        injection h with h
        refine ⟨h.symm, ?_⟩
        intro f' hf'
        rw [← h] at hf'
        have hall : ¬ ((renameAll (rhoOf m) fs).any fun f => ((f.core.params.map (·.1) ++ f.core.outputs).length ≠
            (f.core.params.map (·.1) ++ f.core.outputs).eraseDups.length : Bool)) = true := hany
        rw [List.any_eq_true] at hall
        have hlen : (curNames f').eraseDups.length = (curNames f').length := by
          apply Classical.byContradiction
          intro hne
          apply hall
          refine ⟨f', hf', ?_⟩
          simp only [curNames] at hne
          simp only [ne_eq, decide_not, Bool.not_eq_true', decide_eq_false_iff_not]
          exact fun e => hne e.symm
        exact (eraseDups_length_aux _ (curNames f') (Nat.le_refl _)).2 hlen

/-! ### rename histories -/

/-- one step of a rename history: `pipeline.update_renames(m, update_from, overwrite)`, `pipeline[o].update_renames(…)` on one
    function in place, or the plain `pipeline.update_renames(m)` of `Model/Rewrite.lean` -/
inductive RenStep
  | pipe (m : List (String × String)) (fromOrig ow : Bool)
  | at (o : String) (m : List (String × String)) (fromOrig ow : Bool)
  | plain (m : List (String × String))

def runStep : RenStep → List RFunc → Except Err (List RFunc)
  | .pipe m fo ow, fs => updateRenamesX m fo ow fs
  | .at o m fo ow, fs => updateRenamesAt o m fo ow fs
  | .plain m, fs => updateRenames m fs

/-- a history: every step must be accepted -/
def runSteps : List RenStep → List RFunc → Except Err (List RFunc)
  | [], fs => .ok fs
  | s :: ss, fs =>
    match runStep s fs with
    | .error e => .error e
    | .ok fs' => runSteps ss fs'

/-- defaults are keyed by parameters: one field of `WF` is the well-formedness `C10_nest` / `C10_simplify` assume -/
theorem defaultsOnParams_of_wf (fs : List RFunc) (h : ∀ f ∈ fs, WF f) : DefaultsOnParams fs := by
  intro f hf kv hkv
  obtain ⟨po, hpo, e⟩ := List.mem_map.mp ((h f hf).dflt kv hkv)
  exact ⟨po, hpo, e⟩

end PF.Rw
