import PfModel.Model.Rewrite
import PfModel.Lemmas.Pipeline
/-! Helper lemmas for `Props/C10.lean`: fuel monotonicity of `eval`, the embedding of `PF.Pipe.compose`, renaming. -/
namespace PF.Rw
open PF PF.Pipe

/-- same value, or both refuse -/
def Agree {α} (a b : Except Err α) : Prop :=
  match a, b with
  | .ok x, .ok y => x = y
  | .error _, .error _ => True
  | _, _ => False

theorem Agree.rfl' {α} (a : Except Err α) : Agree a a := by cases a <;> simp [Agree]

theorem agree_ok {α} {a : Except Err α} {y : α} (h : Agree a (.ok y)) : a = .ok y := by
  cases a <;> simp_all [Agree]

theorem agree_ok_left {α} {b : Except Err α} {x : α} (h : Agree (.ok x) b) : b = .ok x := by
  cases b <;> simp_all [Agree]

theorem agree_err {α} {a : Except Err α} {e : Err} (h : Agree a (.error e)) : ∃ e', a = .error e' := by
  cases a <;> simp_all [Agree]

theorem eval_succ (fs : List RFunc) (kw : List (String × Val)) (n : Nat) (o : String) : eval fs kw (n+1) o =
    match rproducer fs o with
    | none => .error (.noFunc o)
    | some f =>
      match composeArgsWith (eval fs kw n) (cores fs) kw f.core f.core.params with
      | .error e => .error e
      | .ok args => outVal f args o := by
  rw [eval]; rfl

theorem eval_mono_step (fs : List RFunc) (kw : List (String × Val)) :
    ∀ (k : Nat) o v, eval fs kw k o = .ok v → eval fs kw (k+1) o = .ok v := by
  intro k
  induction k with
  | zero => intro o v h; simp [eval] at h
  | succ k ih =>
    intro o v h
    rw [eval_succ] at h ⊢
    split at h
    · simp at h
    · next f hf =>
      split at h
      · simp at h
      · next args ha =>
        rw [composeArgsWith_mono (cores fs) kw _ _ ih f.core f.core.params args ha]; simpa using h

theorem eval_mono (fs : List RFunc) (kw : List (String × Val)) {k k' : Nat} (hk : k ≤ k') {o v}
    (h : eval fs kw k o = .ok v) : eval fs kw k' o = .ok v := by
  induction hk with
  | refl => exact h
  | step _ ih => exact eval_mono_step fs kw _ o v ih

theorem eval_det (fs : List RFunc) (kw : List (String × Val)) {k k' : Nat} {o v v'}
    (h : eval fs kw k o = .ok v) (h' : eval fs kw k' o = .ok v') : v = v' := by
  have a := eval_mono fs kw (Nat.le_max_left k k') h
  have b := eval_mono fs kw (Nat.le_max_right k k') h'
  rw [a] at b; injection b

/-! ### `eval` on a plain pipeline is `PF.Pipe.compose` -/

theorem cores_embed (fs : List Func) : cores (fs.map embed) = fs := by
  induction fs with
  | nil => rfl
  | cons a as ih => simp only [cores] at ih; simp [cores, embed, ih]

theorem rproducer_embed (fs : List Func) (o : String) : rproducer (fs.map embed) o = (producer fs o).map embed := by
  induction fs with
  | nil => rfl
  | cons a as ih =>
    simp only [rproducer, producer, List.map_cons, List.find?_cons] at ih ⊢
    by_cases h : o ∈ a.outputs
    · simp [embed, h]
    · simp only [embed, h, decide_false] at ih ⊢; exact ih

theorem alookup_zip_self (os : List String) (o : String) : alookup (os.zip os) o = if o ∈ os then some o else none := by
  induction os with
  | nil => simp [alookup]
  | cons a as ih =>
    simp only [List.zip_cons_cons, alookup, List.mem_cons]
    by_cases h : a = o
    · simp [h]
    · have h' : ¬ o = a := fun e => h e.symm
      simp [h, h', ih]

theorem alookup_map_pick (os : List String) (t : Val) (o : String) :
    alookup (os.map fun x => (x, Val.pick t x)) o = if o ∈ os then some (Val.pick t o) else none := by
  induction os with
  | nil => simp [alookup]
  | cons a as ih =>
    simp only [List.map_cons, alookup, List.mem_cons]
    by_cases h : a = o
    · simp [h]
    · have h' : ¬ o = a := fun e => h e.symm
      simp [h, h', ih]

theorem outVal_embed (g : Func) (args : List (String × Val)) (o : String) :
    outVal (embed g) args o = match alookup (outVals g args) o with | some v => .ok v | none => .error (.noFunc o) := by
  unfold outVal origOf embed outVals
  simp only [alookup_zip_self]
  match hg : g.outputs with
  | [] => simp [alookup]
  | [a] =>
    by_cases h : a = o
    · simp [alookup, h]
    · have h' : ¬ o = a := fun e => h e.symm
      simp [alookup, h, h']
  | a :: b :: rest =>
    simp only [alookup_map_pick]
    by_cases h : o ∈ a :: b :: rest
    · simp [h]
    · simp [h]

theorem eval_embed (fs : List Func) (kw : List (String × Val)) : ∀ (n : Nat) (o : String),
    eval (fs.map embed) kw n o = compose fs kw n o := by
  intro n
  induction n with
  | zero => intro o; simp [eval, compose]
  | succ n ih =>
    intro o
    rw [eval_succ, compose_succ, rproducer_embed, cores_embed]
    cases hp : producer fs o with
    | none => simp
    | some f =>
      have : eval (fs.map embed) kw n = compose fs kw n := funext ih
      simp only [Option.map_some, this]
      have hc : (embed f).core = f := rfl
      rw [hc]
      cases composeArgsWith (compose fs kw n) fs kw f f.params with
      | error e => rfl
      | ok args => simp only [outVal_embed]; rfl

end PF.Rw
