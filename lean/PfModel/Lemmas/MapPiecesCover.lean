import PfModel.Lemmas.MapPiecesWhole
import PfModel.Lemmas.MapPiecesSel
import PfModel.Lemmas.MapPiecesFlow
/-!
C06 — from "the per-axis selections cover every axis" to `coverB` for a whole pipeline.

`dimsOK`: every mapped function's external index space is the product of the sizes `dim a` of its (distinct) external axis names,
all of them among `axes` (executable).  `ptOf`: the point of the axis space an external key `E` of a function stands for.
`gridParts`: the product family of parts of per-axis cell lists.
Core Lean only.
-/
namespace PF.Pieces
open PF PF.Map

/-- the external axis names of a mapped function, in output order (what `_mask_fixed_axes` looks up in `fixed_indices`) -/
def extNames (ms : MSpec) (mk : List Bool) : List String := extOf mk ms.outputIndices

/-- the axis sizes are those of ONE table `dim`: every mapped function's external shape is `dim` of its external axis names, these
    names are distinct and all among `axes` -/
def dimsOK (fs : List MFunc) (shapes : List (String × List Nat)) (masks : List (String × List Bool)) (axes : List String)
    (dim : String → Nat) : Bool :=
  (generations fs).flatten.all fun f =>
    match mappedInfo shapes masks f with
    | some (ms, sh, mk) =>
      decide ((extNames ms mk).Nodup) && (extNames ms mk).all (fun a => axes.contains a) && (extOf mk sh == (extNames ms mk).map dim)
    | none => true

/-- the component of `E` on axis `a` (first position of `a` in `names`) -/
def ptOf : List String → List Nat → String → Nat
  | n :: ns, e :: es, a => if a = n then e else ptOf ns es a
  | _, _, _ => 0

/-- the pointwise cover of the axis space: every point (one index per axis; components outside `range (dim a)` are ignored) lies,
    axis by axis, in the selection of ONE part -/
def AxisCover (axes : List String) (dim : String → Nat) (parts : List (List (String × Sel))) : Prop :=
  ∀ pt : String → Nat, ∃ fx ∈ parts, ∀ a ∈ axes, pt a < dim a →
    ∃ l, selIndices (dim a) (fixedLookup fx a) = .ok l ∧ pt a ∈ l

/-- the selections `cells` cover `range d` -/
def CellsCover (d : Nat) (cells : List Sel) : Prop :=
  cells ≠ [] ∧ ∀ k, k < d → ∃ s ∈ cells, ∃ l, selIndices d s = .ok l ∧ k ∈ l

/-- the product family: one part per choice of one cell on every axis of the grid -/
def gridParts : List (String × List Sel) → List (List (String × Sel))
  | [] => [[]]
  | (a, cells) :: r => cells.flatMap fun s => (gridParts r).map fun fx => (a, s) :: fx

theorem ptOf_lt (dim : String → Nat) : ∀ (names : List String) (E : List Nat), InRange (names.map dim) E →
    ∀ a ∈ names, ptOf names E a < dim a := by
  intro names
  induction names with
  | nil => intro E _ a ha; cases ha
  | cons n ns ih =>
    intro E hE a ha
    cases E with
    | nil => simp [InRange] at hE
    | cons e es =>
      simp only [List.map_cons, InRange] at hE
      simp only [ptOf]
      split
      · next h => subst h; exact hE.1
      · next h =>
        rcases List.mem_cons.mp ha with h' | h'
        · exact absurd h' h
        · exact ih es hE.2 a h'

/-- one part whose per-axis selections contain the components of `E` selects `E` (and NumPy accepts its key) -/
theorem selLists_names (fx : List (String × Sel)) (dim : String → Nat) : ∀ (names : List String) (E : List Nat), names.Nodup →
    InRange (names.map dim) E →
    (∀ a ∈ names, ∃ l, selIndices (dim a) (fixedLookup fx a) = .ok l ∧ ptOf names E a ∈ l) →
    ∃ ls, selLists (names.map (fixedLookup fx)) (names.map dim) = .ok ls ∧ selected ls E = true := by
  intro names
  induction names with
  | nil => intro E _ _ _; exact ⟨[], rfl, by cases E <;> simp [selected]⟩
  | cons n ns ih =>
    intro E hnd hE h
    cases E with
    | nil => simp [InRange] at hE
    | cons e es =>
      simp only [List.map_cons, InRange] at hE
      obtain ⟨hn, hnd'⟩ := List.nodup_cons.mp hnd
      obtain ⟨l, hl, hmem⟩ := h n List.mem_cons_self
      simp only [ptOf, if_true] at hmem
      have htail : ∀ a ∈ ns, ∃ l, selIndices (dim a) (fixedLookup fx a) = .ok l ∧ ptOf ns es a ∈ l := by
        intro a ha
        obtain ⟨l', hl', hm'⟩ := h a (List.mem_cons_of_mem _ ha)
        have hne : a ≠ n := fun hh => hn (hh ▸ ha)
        simp only [ptOf, if_neg hne] at hm'
        exact ⟨l', hl', hm'⟩
      obtain ⟨ls, hls, hsel⟩ := ih es hnd' hE.2 htail
      refine ⟨l :: ls, ?_, ?_⟩
      · simp only [List.map_cons, selLists, bind, Except.bind, hl, hls]
        rfl
      · simp only [selected, Bool.and_eq_true, List.contains_iff_mem]
        exact ⟨hmem, hsel⟩

theorem dimsOK_elim (fs : List MFunc) (shapes : List (String × List Nat)) (masks : List (String × List Bool)) (axes : List String)
    (dim : String → Nat) (h : dimsOK fs shapes masks axes dim = true) (f : MFunc) (hf : f ∈ (generations fs).flatten)
    (ms : MSpec) (sh : List Nat) (mk : List Bool) (hi : mappedInfo shapes masks f = some (ms, sh, mk)) :
    (extNames ms mk).Nodup ∧ (∀ a ∈ extNames ms mk, a ∈ axes) ∧ extOf mk sh = (extNames ms mk).map dim := by
  unfold dimsOK at h
  have := (List.all_eq_true.mp h) f hf
  rw [hi] at this
  simp only [Bool.and_eq_true, decide_eq_true_eq, List.all_eq_true, List.contains_iff_mem, beq_iff_eq] at this
  exact ⟨this.1.1, this.1.2, this.2⟩

/-- **one part that contains the point of `li` axis by axis selects `li`** -/
theorem selectedBy_of_axes (fx : List (String × Sel)) (ms : MSpec) (sh : List Nat) (mk : List Bool) (dim : String → Nat)
    (hnd : (extNames ms mk).Nodup) (hes : extOf mk sh = (extNames ms mk).map dim) (li : Nat) (hli : li < prod (extOf mk sh))
    (h : ∀ a ∈ extNames ms mk, ∃ l, selIndices (dim a) (fixedLookup fx a) = .ok l ∧
      ptOf (extNames ms mk) (shapeToKey (extOf mk sh) li) a ∈ l) :
    selectedBy fx ms sh mk li = true := by
  have hin : InRange ((extNames ms mk).map dim) (shapeToKey (extOf mk sh) li) := by
    rw [← hes]; exact (ravel_key _ li hli).2
  obtain ⟨ls, hls, hsel⟩ := selLists_names fx dim (extNames ms mk) (shapeToKey (extOf mk sh) li) hnd hin h
  unfold selectedBy fixedMask
  simp only [bind, Except.bind, extOf_map]
  rw [← hes] at hls
  unfold extNames at hls
  rw [hls]
  simp only [pure, Except.pure, selOf]
  rw [List.getD_eq_getElem?_getD, List.getElem?_map, List.getElem?_range hli]
  simpa using hsel

/-- **per-axis cover ⇒ cover of every mapped function of the pipeline** -/
theorem coverB_of_axisCover (fs : List MFunc) (shapes : List (String × List Nat)) (masks : List (String × List Bool))
    (axes : List String) (dim : String → Nat) (parts : List (List (String × Sel)))
    (hd : dimsOK fs shapes masks axes dim = true) (hc : AxisCover axes dim parts) : coverB fs shapes masks parts = true := by
  unfold coverB
  rw [List.all_eq_true]
  intro f hf
  split
  · next ms sh mk hi =>
    obtain ⟨hnd, hax, hes⟩ := dimsOK_elim fs shapes masks axes dim hd f hf ms sh mk hi
    rw [List.all_eq_true]
    intro li hli
    have hli' : li < prod (extOf mk sh) := List.mem_range.mp hli
    rw [List.any_eq_true]
    obtain ⟨fx, hfx, hsel⟩ := hc (ptOf (extNames ms mk) (shapeToKey (extOf mk sh) li))
    refine ⟨fx, hfx, selectedBy_of_axes fx ms sh mk dim hnd hes li hli' ?_⟩
    intro a ha
    have hin : InRange ((extNames ms mk).map dim) (shapeToKey (extOf mk sh) li) := by
      rw [← hes]; exact (ravel_key _ li hli').2
    exact hsel a (hax a ha) (ptOf_lt dim _ _ hin a ha)
  · rfl

/-! ### grid families -/

theorem fixedLookup_cons_ne (a b : String) (s : Sel) (fx : List (String × Sel)) (h : a ≠ b) :
    fixedLookup ((a, s) :: fx) b = fixedLookup fx b := by
  simp [fixedLookup, alookup, h]

theorem fixedLookup_cons_eq (a : String) (s : Sel) (fx : List (String × Sel)) : fixedLookup ((a, s) :: fx) a = s := by
  simp [fixedLookup, alookup]

/-- in a grid with distinct axis names whose cell lists cover their axes, every point has its part: on the axes of the grid the
    part's entry contains the component, on every other axis the part has no entry (`slice(None)`) -/
theorem grid_point (dim : String → Nat) (pt : String → Nat) : ∀ (g : List (String × List Sel)), (g.map (·.1)).Nodup →
    (∀ ac ∈ g, CellsCover (dim ac.1) ac.2) →
    ∃ fx ∈ gridParts g, (∀ b, b ∉ g.map (·.1) → fixedLookup fx b = Sel.full) ∧
      ∀ ac ∈ g, pt ac.1 < dim ac.1 → ∃ l, selIndices (dim ac.1) (fixedLookup fx ac.1) = .ok l ∧ pt ac.1 ∈ l := by
  intro g
  induction g with
  | nil => intro _ _; exact ⟨[], by simp [gridParts], fun b _ => by simp [fixedLookup, alookup], fun ac h => by cases h⟩
  | cons ac g ih =>
    intro hnd hcov
    obtain ⟨a, cells⟩ := ac
    simp only [List.map_cons, List.nodup_cons] at hnd
    obtain ⟨fx, hfx, hout, hin⟩ := ih hnd.2 (fun x hx => hcov x (List.mem_cons_of_mem _ hx))
    obtain ⟨hne, hk⟩ := hcov (a, cells) List.mem_cons_self
    -- the cell of axis `a`
    have hcell : ∃ s ∈ cells, pt a < dim a → ∃ l, selIndices (dim a) s = .ok l ∧ pt a ∈ l := by
      by_cases hlt : pt a < dim a
      · obtain ⟨s, hs, l, hl, hm⟩ := hk (pt a) hlt
        exact ⟨s, hs, fun _ => ⟨l, hl, hm⟩⟩
      · cases cells with
        | nil => exact absurd rfl hne
        | cons s _ => exact ⟨s, List.mem_cons_self, fun h => absurd h hlt⟩
    obtain ⟨s, hs, hsel⟩ := hcell
    refine ⟨(a, s) :: fx, ?_, ?_, ?_⟩
    · simp only [gridParts, List.mem_flatMap, List.mem_map]
      exact ⟨s, hs, fx, hfx, rfl⟩
    · intro b hb
      simp only [List.map_cons, List.mem_cons, not_or] at hb
      rw [fixedLookup_cons_ne a b s fx (fun h => hb.1 h.symm)]
      exact hout b hb.2
    · intro x hx hlt
      rcases List.mem_cons.mp hx with hx | hx
      · subst hx
        simp only [fixedLookup_cons_eq]
        exact hsel hlt
      · have hne' : a ≠ x.1 := fun h => hnd.1 (h ▸ List.mem_map_of_mem hx)
        rw [fixedLookup_cons_ne a x.1 s fx hne']
        exact hin x hx hlt

/-- **a grid of per-axis covers covers the axis space** (axes outside the grid are left whole by every part) -/
theorem axisCover_grid (axes : List String) (dim : String → Nat) (g : List (String × List Sel)) (hnd : (g.map (·.1)).Nodup)
    (hcov : ∀ ac ∈ g, CellsCover (dim ac.1) ac.2) : AxisCover axes dim (gridParts g) := by
  intro pt
  obtain ⟨fx, hfx, hout, hin⟩ := grid_point dim pt g hnd hcov
  refine ⟨fx, hfx, ?_⟩
  intro a _ hlt
  by_cases hmem : a ∈ g.map (·.1)
  · obtain ⟨ac, hac, rfl⟩ := List.mem_map.mp hmem
    exact hin ac hac hlt
  · rw [hout a hmem, selIndices_full]
    exact ⟨_, rfl, List.mem_range.mpr hlt⟩

theorem gridParts_ne_nil : ∀ (g : List (String × List Sel)), (∀ ac ∈ g, ac.2 ≠ []) → gridParts g ≠ [] := by
  intro g
  induction g with
  | nil => intro _; simp [gridParts]
  | cons ac g ih =>
    intro h
    obtain ⟨a, cells⟩ := ac
    have h1 := h (a, cells) List.mem_cons_self
    have h2 := ih (fun x hx => h x (List.mem_cons_of_mem _ hx))
    cases cells with
    | nil => exact absurd rfl h1
    | cons s cs =>
      cases hg : gridParts g with
      | nil => exact absurd hg h2
      | cons p ps => simp [gridParts, hg]

/-! ### concrete cell lists: integers, contiguous slices -/

theorem selIndices_nat (d i : Nat) (h : i < d) : selIndices d (.idx (i : Int)) = .ok [i] := by
  have hc : -(d : Int) ≤ (i : Int) ∧ (i : Int) < d := by omega
  simp only [selIndices, if_pos hc]
  have : ¬ ((i : Int) < 0) := by omega
  simp [this, pure, Except.pure]

/-- `lo:hi` with `lo ≤ hi ≤ d` selects `lo, …, hi - 1` -/
theorem selIndices_chunk (d lo hi : Nat) (h1 : lo ≤ hi) (h2 : hi ≤ d) :
    selIndices d (.slice (some (lo : Int)) (some (hi : Int)) none) = .ok ((List.range (hi - lo)).map (fun i => lo + i)) := by
  have hs : sliceStart d 1 (some (lo : Int)) = lo := by
    simp only [sliceStart, adjust]; simp; omega
  have he : sliceStop d 1 (some (hi : Int)) = (lo : Int) + ((hi - lo : Nat) : Int) := by
    simp only [sliceStop, adjust]; simp; omega
  simp only [selIndices, sliceRange, Option.getD_none]
  rw [if_neg (by decide), hs, he, pyRange_up (hi - lo) (d + 1) lo (by omega)]
  simp only [List.map_map, pure, Except.pure]
  congr 1

theorem cellsCover_ints (d : Nat) (hd : 0 < d) : CellsCover d ((List.range d).map fun (i : Nat) => Sel.idx (i : Int)) := by
  refine ⟨?_, ?_⟩
  · cases d with
    | zero => omega
    | succ n => simp [List.range_succ_eq_map]
  · intro k hk
    exact ⟨.idx (k : Int), List.mem_map.mpr ⟨k, List.mem_range.mpr hk, rfl⟩, [k], selIndices_nat d k hk, by simp⟩

theorem cellsCover_split (d k : Nat) (hk : k ≤ d) :
    CellsCover d [.slice (some ((0 : Nat) : Int)) (some (k : Int)) none, .slice (some (k : Int)) (some (d : Int)) none] := by
  refine ⟨by simp, ?_⟩
  intro x hx
  by_cases hlt : x < k
  · refine ⟨_, List.mem_cons_self, _, selIndices_chunk d 0 k (by omega) hk, ?_⟩
    exact List.mem_map.mpr ⟨x, List.mem_range.mpr (by omega), by omega⟩
  · refine ⟨_, List.mem_cons_of_mem _ List.mem_cons_self, _, selIndices_chunk d k d hk (Nat.le_refl _), ?_⟩
    exact List.mem_map.mpr ⟨x - k, List.mem_range.mpr (by omega), by omega⟩

end PF.Pieces
