/-
Lemmas about `Model/MapSpec.lean`: the declarative well-formedness predicate `Valid` and its agreement with the
constructor checks, and facts used by the index-map, shape, rename and add_axes theorems of C08.
-/
import PfModel.Model.MapSpec
namespace PF.MS

/-- the array name and every index name of one spec are identifiers (`a`, `scope.a`; `:` is not a name) -/
def NamesOK (a : ArraySpec) : Prop := nameOKChars a.name.toList = true ∧ ∀ i, some i ∈ a.axes → isIdent i = true

/-- A well-formed `MapSpec`: none of the malformations of the property statement.
    `names` — array and index names are identifiers; `out_ne` — there is an output; `no_colon` — no `:` in any output;
    `same_idx` — all outputs carry the indices of the first; `in_sub` — every input index occurs in the output. -/
structure Valid (m : MapSpec) : Prop where
  names : ∀ a ∈ m.inputs ++ m.outputs, NamesOK a
  out_ne : m.outputs ≠ []
  no_colon : ∀ o ∈ m.outputs, none ∉ o.axes
  same_idx : ∀ o ∈ m.outputs, indices o = outputIndices m
  in_sub : ∀ x ∈ m.inputs, ∀ i ∈ indices x, i ∈ outputIndices m

theorem axisOK_all (axes : List (Option String)) :
    axes.all axisOK = true ↔ ∀ i, some i ∈ axes → isIdent i = true := by
  induction axes with
  | nil => simp
  | cons a r ih =>
    simp only [List.all_cons, Bool.and_eq_true, ih, List.mem_cons]
    constructor
    · rintro ⟨h1, h2⟩ i (hi | hi)
      · subst hi; exact h1
      · exact h2 i hi
    · intro h
      refine ⟨?_, fun i hi => h i (Or.inr hi)⟩
      cases a with
      | none => rfl
      | some i => exact h i (Or.inl rfl)

theorem arrayOK_iff (a : ArraySpec) : arrayOK a = true ↔ NamesOK a := by
  simp only [arrayOK, NamesOK, Bool.and_eq_true, axisOK_all]

theorem hasColon_iff (a : ArraySpec) : hasColon a = true ↔ none ∈ a.axes := by
  unfold hasColon
  induction a.axes with
  | nil => simp
  | cons x r ih =>
    simp only [List.any_cons, Bool.or_eq_true, ih, List.mem_cons]
    cases x <;> simp

theorem mem_inputIndexList (m : MapSpec) (i : String) : i ∈ inputIndexList m ↔ ∃ x ∈ m.inputs, i ∈ indices x := by
  simp [inputIndexList, List.mem_flatMap]

theorem postInit_ok_iff (m : MapSpec) : postInit m = .ok () ↔
    (m.outputs ≠ [] ∧ (∀ o ∈ m.outputs, none ∉ o.axes) ∧ (∀ o ∈ m.outputs, indices o = outputIndices m) ∧
     (∀ x ∈ m.inputs, ∀ i ∈ indices x, i ∈ outputIndices m)) := by
  unfold postInit outputIndices
  cases ho : m.outputs with
  | nil => simp
  | cons o rest =>
    simp only []
    by_cases h1 : (o :: rest).any hasColon = true
    · simp only [h1, if_true]
      obtain ⟨x, hx, hc⟩ := List.any_eq_true.mp h1
      constructor
      · intro h; cases h
      · rintro ⟨_, h, _⟩; exact absurd ((hasColon_iff x).mp hc) (h x hx)
    · have h1' : ∀ x ∈ o :: rest, none ∉ x.axes := by
        intro x hx hn; exact h1 (List.any_eq_true.mpr ⟨x, hx, (hasColon_iff x).mpr hn⟩)
      simp only [Bool.eq_false_iff.mpr h1, Bool.false_eq_true, ↓reduceIte]
      by_cases h2 : (rest.all fun x => decide (indices x = indices o)) = true
      · have h2' : ∀ x ∈ o :: rest, indices x = indices o := by
          intro x hx
          rcases List.mem_cons.mp hx with e | e
          · rw [e]
          · simpa using (List.all_eq_true.mp h2) x e
        simp only [h2, Bool.not_true, Bool.false_eq_true, ↓reduceIte]
        by_cases h3 : ((inputIndexList m).any fun i => !(indices o).contains i) = true
        · simp only [h3, if_true]
          obtain ⟨i, hi, hc⟩ := List.any_eq_true.mp h3
          obtain ⟨x, hx, hix⟩ := (mem_inputIndexList m i).mp hi
          constructor
          · intro h; cases h
          · rintro ⟨_, _, _, h⟩
            have := h x hx i hix
            simp [this] at hc
        · simp only [Bool.eq_false_iff.mpr h3, Bool.false_eq_true, ↓reduceIte]
          refine ⟨fun _ => ⟨by simp, h1', h2', ?_⟩, fun _ => trivial⟩
          intro x hx i hix
          cases hc : (indices o).contains i with
          | true => simpa using hc
          | false =>
            exact absurd (List.any_eq_true.mpr ⟨i, (mem_inputIndexList m i).mpr ⟨x, hx, hix⟩, (by show (!(indices o).contains i) = true; rw [hc]; rfl)⟩) h3
      · simp only [Bool.eq_false_iff.mpr h2, Bool.not_false, ↓reduceIte]
        constructor
        · intro h; cases h
        · rintro ⟨_, _, h, _⟩
          exfalso
          apply h2
          apply List.all_eq_true.mpr
          intro x hx
          simpa using h x (List.mem_cons_of_mem _ hx)

theorem postInit_err (m : MapSpec) (e : Err) (h : postInit m = .error e) : e = .valueError ∨ e = .indexError := by
  unfold postInit at h
  split at h
  · injection h with h; exact Or.inr h.symm
  · split at h
    · injection h with h; exact Or.inl h.symm
    · split at h
      · injection h with h; exact Or.inl h.symm
      · split at h
        · injection h with h; exact Or.inl h.symm
        · cases h

theorem all_arrayOK (ins outs : List ArraySpec) :
    (ins.all arrayOK && outs.all arrayOK) = true ↔ ∀ a ∈ ins ++ outs, NamesOK a := by
  simp only [Bool.and_eq_true, List.all_eq_true, arrayOK_iff, List.mem_append]
  constructor
  · rintro ⟨h1, h2⟩ a (h | h)
    · exact h1 a h
    · exact h2 a h
  · intro h; exact ⟨fun a ha => h a (Or.inl ha), fun a ha => h a (Or.inr ha)⟩

theorem valid_iff (m : MapSpec) : Valid m ↔ ((m.inputs.all arrayOK && m.outputs.all arrayOK) = true ∧ postInit m = .ok ()) := by
  rw [all_arrayOK, postInit_ok_iff]
  constructor
  · intro h; exact ⟨h.names, h.out_ne, h.no_colon, h.same_idx, h.in_sub⟩
  · rintro ⟨a, b, c, d, e⟩; exact ⟨a, b, c, d, e⟩

theorem construct_ok_iff (ins outs : List ArraySpec) (m : MapSpec) :
    construct ins outs = .ok m ↔ (m = ⟨ins, outs⟩ ∧ Valid m) := by
  unfold construct
  by_cases h : (ins.all arrayOK && outs.all arrayOK) = true
  · simp only [h, Bool.not_true, Bool.false_eq_true, ↓reduceIte]
    cases hp : postInit ⟨ins, outs⟩ with
    | error e =>
      simp only []
      constructor
      · intro h'; cases h'
      · rintro ⟨rfl, hv⟩
        have := ((valid_iff _).mp hv).2
        rw [hp] at this; cases this
    | ok u =>
      simp only []
      constructor
      · intro h'; injection h' with h'; subst h'
        exact ⟨rfl, (valid_iff _).mpr ⟨h, hp⟩⟩
      · rintro ⟨rfl, _⟩; rfl
  · simp only [Bool.eq_false_iff.mpr h, Bool.not_false, ↓reduceIte]
    constructor
    · intro h'; cases h'
    · rintro ⟨rfl, hv⟩; exact absurd ((valid_iff _).mp hv).1 h

theorem construct_valid (m : MapSpec) (h : Valid m) : construct m.inputs m.outputs = .ok m :=
  (construct_ok_iff _ _ _).mpr ⟨rfl, h⟩

theorem construct_err (ins outs : List ArraySpec) (e : Err) (h : construct ins outs = .error e) :
    e = .valueError ∨ e = .indexError := by
  unfold construct at h
  split at h
  · injection h with h; exact Or.inl h.symm
  · split at h
    · next e' hp => injection h with h; subst h; exact postInit_err _ _ hp
    · cases h

end PF.MS
