import PfModel.Lemmas.MapPiecesCover
import PfModel.Props.C06WholeValid
/-!
C06 — "the selections cover every axis ⇒ the parts cover the whole pipeline" (`coverB` discharged), any number of axes and functions.

`C06_pieces_whole(_valid)` (Props/C06Whole.lean, C06WholeValid.lean) prove "pieces = whole" for any family of parts under the
hypothesis `coverB`, which the driver evaluates per case; REPORT (round 9) lists as missing: "a set partition of every independent
axis ⇒ coverB for a whole pipeline".  Here:

* `C06_cover_of_axes` — the general bridge: if the axis sizes are those of one table `dim` (`dimsOK`, executable: every mapped
  function's external shape is `dim` of its distinct external axis names) and the family covers the AXIS space pointwise
  (`AxisCover`: every point `pt : axis → index` lies, axis by axis, in the `int | slice` selections — `selIndices`, i.e. `pyRange`
  of `slice.indices` — of ONE part), then `coverB`: every external index of every mapped function is in the mask of some part.
  A function not carrying an axis is covered whatever the parts say about that axis; a function carrying several is covered by
  the product (`C06_mask_is_product`).  NOTE a cover of every axis SEPARATELY is not enough for a function carrying two of them
  (`{i:0, j:0}, {i:1, j:1}` misses `(0, 1)`) — the counterexample is the second `example` below; hence the pointwise form.
* `C06_cover_grid` — the product family (`gridParts`) of per-axis cell lists, each covering (e.g. partitioning) `range (dim a)`,
  satisfies `AxisCover`, hence `coverB`; so does every family CONTAINING the grid (any order, extra / overlapping parts).
* `C06_cover_one_axis` — one axis cut into cells, one part per cell (the harness' `pieces` stream).
* `C06_cells_ints`, `C06_cells_split` — concrete covers (partitions): all integers `0 … d-1`; two contiguous slices `0:k`, `k:d`.
* `C06_pieces_whole_axes`, `C06_pieces_whole_grid` — the corollaries with `C06_pieces_whole_valid`: for a valid request whose
  axis sizes are one table, any family containing a grid of per-axis covers, run in any order with `cleanup=False`, leaves the
  folder of one full run, and the final full run computes nothing.
What remains a hypothesis: `dimsOK` (decided per case; that `mapShapes` gives every function the shape `dim` of its axis names is
not derived from `Conforms` here) and that the runs succeed.
-/
namespace PF.C06
open PF PF.Map PF.Pieces PF.C01

/-- **Per-axis cover ⇒ `coverB` for the whole pipeline.** -/
theorem C06_cover_of_axes (fs : List MFunc) (shapes : List (String × List Nat)) (masks : List (String × List Bool))
    (axes : List String) (dim : String → Nat) (parts : List (List (String × Sel)))
    (hd : dimsOK fs shapes masks axes dim = true) (hc : AxisCover axes dim parts) :
    coverB fs shapes masks parts = true :=
  coverB_of_axisCover fs shapes masks axes dim parts hd hc

/-- `AxisCover` only grows with the family: any family containing a covering one covers (any order, repeated / extra parts) -/
theorem C06_axis_cover_mono (axes : List String) (dim : String → Nat) (parts parts' : List (List (String × Sel)))
    (hsub : ∀ p ∈ parts, p ∈ parts') (hc : AxisCover axes dim parts) : AxisCover axes dim parts' := by
  intro pt
  obtain ⟨fx, hfx, h⟩ := hc pt
  exact ⟨fx, hsub fx hfx, h⟩

/-- **A grid of per-axis covers covers the pipeline**: distinct axis names, on each a non-empty list of `int | slice` cells whose
    positions cover `range (dim a)` (a partition, or overlapping); `parts` contains one part per combination of cells (in any
    order, possibly more).  Axes outside the grid are fixed by no part. -/
theorem C06_cover_grid (fs : List MFunc) (shapes : List (String × List Nat)) (masks : List (String × List Bool))
    (axes : List String) (dim : String → Nat) (g : List (String × List Sel)) (parts : List (List (String × Sel)))
    (hd : dimsOK fs shapes masks axes dim = true) (hnd : (g.map (·.1)).Nodup)
    (hcov : ∀ ac ∈ g, CellsCover (dim ac.1) ac.2) (hsub : ∀ p ∈ gridParts g, p ∈ parts) :
    coverB fs shapes masks parts = true ∧ parts ≠ [] := by
  refine ⟨C06_cover_of_axes fs shapes masks axes dim parts hd
    (C06_axis_cover_mono axes dim _ parts hsub (axisCover_grid axes dim g hnd hcov)), ?_⟩
  have hne := gridParts_ne_nil g (fun ac h => (hcov ac h).1)
  cases hg : gridParts g with
  | nil => exact absurd hg hne
  | cons p ps =>
    have := hsub p (by rw [hg]; exact List.mem_cons_self)
    intro h; rw [h] at this; cases this

/-- **One axis cut into cells, one part per cell** -/
theorem C06_cover_one_axis (fs : List MFunc) (shapes : List (String × List Nat)) (masks : List (String × List Bool))
    (axes : List String) (dim : String → Nat) (a : String) (cells : List Sel)
    (hd : dimsOK fs shapes masks axes dim = true) (hcov : CellsCover (dim a) cells) :
    coverB fs shapes masks (cells.map fun s => [(a, s)]) = true := by
  have hg' : ∀ cs : List Sel, cs.flatMap (fun s => [[(a, s)]]) = cs.map fun s => [(a, s)] := by
    intro cs
    induction cs with
    | nil => rfl
    | cons s cs ih => simp [List.flatMap_cons, ih]
  have hg : gridParts [(a, cells)] = cells.map fun s => [(a, s)] := by
    simp only [gridParts, List.map_cons, List.map_nil]
    exact hg' cells
  have := C06_cover_grid fs shapes masks axes dim [(a, cells)] (gridParts [(a, cells)]) hd (by simp)
    (fun ac h => by simp only [List.mem_singleton] at h; subst h; exact hcov) (fun p h => h)
  rw [hg] at this
  exact this.1

/-- the integers `0, …, d-1` partition an axis of size `d > 0` -/
theorem C06_cells_ints (d : Nat) (hd : 0 < d) : CellsCover d ((List.range d).map fun (i : Nat) => Sel.idx (i : Int)) :=
  cellsCover_ints d hd

/-- the slices `0:k` and `k:d` (`k ≤ d`) partition an axis of size `d`; each selects exactly its interval -/
theorem C06_cells_split (d k : Nat) (hk : k ≤ d) :
    CellsCover d [.slice (some ((0 : Nat) : Int)) (some (k : Int)) none, .slice (some (k : Int)) (some (d : Int)) none] ∧
    selIndices d (.slice (some ((0 : Nat) : Int)) (some (k : Int)) none) = .ok ((List.range (k - 0)).map fun i => 0 + i) ∧
    selIndices d (.slice (some (k : Int)) (some (d : Int)) none) = .ok ((List.range (d - k)).map fun i => k + i) :=
  ⟨cellsCover_split d k hk, selIndices_chunk d 0 k (by omega) hk, selIndices_chunk d k d hk (Nat.le_refl _)⟩

/-- **Pieces = whole from a cover of the axes** (`C06_pieces_whole_valid` with `coverB` discharged) -/
theorem C06_pieces_whole_axes (fs : List MFunc) (inputs : List (String × Val)) (ui : List (String × List Nat)) (rF : PartResult)
    (hC : Conforms fs inputs ui = true) (hF : runPart fs inputs ui none [] = .ok rF)
    (axes : List String) (dim : String → Nat) (hd : dimsOK fs rF.res.shapes rF.res.masks axes dim = true)
    (parts : List (List (String × Sel))) (hpne : parts ≠ []) (hc : AxisCover axes dim parts)
    (old : List (String × Slot)) (rs : List PartResult) (hold : OldLe old rF.store)
    (h : runPieces fs inputs ui (parts.map some) old = .ok rs) :
    let S := finalStore rs old
    (∀ f ∈ (generations fs).flatten, ∀ ms sh mk, mappedInfo rF.res.shapes rF.res.masks f = some (ms, sh, mk) →
      ∀ o ∈ f.outputs, ∀ li, li < prod (extOf mk sh) →
        (cellLookup (oldCells S o) li).isSome = true ∧ cellLookup (oldCells S o) li = cellLookup (oldCells rF.store o) li) ∧
    OldLe S rF.store ∧
    completeB fs rF.res.shapes rF.res.masks S = true ∧
    ∀ rL, runPart fs inputs ui none S = .ok rL → rL.res.calls = [] ∧
      (∀ f ∈ (generations fs).flatten, ∀ ms sh mk, mappedInfo rF.res.shapes rF.res.masks f = some (ms, sh, mk) →
        ∀ o ∈ f.outputs, ∀ li, cellLookup (oldCells rL.store o) li = cellLookup (oldCells S o) li) :=
  C06_pieces_whole_valid fs inputs ui rF hC hF parts hpne old rs hold
    (C06_cover_of_axes fs rF.res.shapes rF.res.masks axes dim parts hd hc) h

/-- **Pieces = whole for every family containing a grid of per-axis covers / partitions**, in any order -/
theorem C06_pieces_whole_grid (fs : List MFunc) (inputs : List (String × Val)) (ui : List (String × List Nat)) (rF : PartResult)
    (hC : Conforms fs inputs ui = true) (hF : runPart fs inputs ui none [] = .ok rF)
    (axes : List String) (dim : String → Nat) (hd : dimsOK fs rF.res.shapes rF.res.masks axes dim = true)
    (g : List (String × List Sel)) (hnd : (g.map (·.1)).Nodup) (hcov : ∀ ac ∈ g, CellsCover (dim ac.1) ac.2)
    (parts : List (List (String × Sel))) (hsub : ∀ p ∈ gridParts g, p ∈ parts)
    (old : List (String × Slot)) (rs : List PartResult) (hold : OldLe old rF.store)
    (h : runPieces fs inputs ui (parts.map some) old = .ok rs) :
    let S := finalStore rs old
    (∀ f ∈ (generations fs).flatten, ∀ ms sh mk, mappedInfo rF.res.shapes rF.res.masks f = some (ms, sh, mk) →
      ∀ o ∈ f.outputs, ∀ li, li < prod (extOf mk sh) →
        (cellLookup (oldCells S o) li).isSome = true ∧ cellLookup (oldCells S o) li = cellLookup (oldCells rF.store o) li) ∧
    OldLe S rF.store ∧
    completeB fs rF.res.shapes rF.res.masks S = true ∧
    ∀ rL, runPart fs inputs ui none S = .ok rL → rL.res.calls = [] ∧
      (∀ f ∈ (generations fs).flatten, ∀ ms sh mk, mappedInfo rF.res.shapes rF.res.masks f = some (ms, sh, mk) →
        ∀ o ∈ f.outputs, ∀ li, cellLookup (oldCells rL.store o) li = cellLookup (oldCells S o) li) := by
  obtain ⟨hcb, hpne⟩ := C06_cover_grid fs rF.res.shapes rF.res.masks axes dim g parts hd hnd hcov hsub
  exact C06_pieces_whole_valid fs inputs ui rF hC hF parts hpne old rs hold hcb h

/-! ### non-vacuity -/

private def cY : MFunc := { name := "f", params := [("x", "x")], outputs := ["y"], mapspec := some { inputs := [⟨"x", [some "i"]⟩], outputs := [⟨"y", [some "i"]⟩] }, ret := none, internal := none, defaults := [], bound := [] }
private def cZ : MFunc := { name := "g", params := [("y", "y"), ("w", "w")], outputs := ["z"], mapspec := some { inputs := [⟨"y", [some "i"]⟩, ⟨"w", [some "j"]⟩], outputs := [⟨"z", [some "i", some "j"]⟩] }, ret := none, internal := none, defaults := [], bound := [] }
private def cIn : List (String × Val) := [("x", .arr [3] [.int 0, .int 1, .int 2]), ("w", .arr [2] [.int 7, .int 8])]
private def cDim : String → Nat := fun a => if a = "i" then 3 else if a = "j" then 2 else 1
/-- `i` (size 3) cut into `0:1 | 1:3`, `j` (size 2) into its integers: 4 parts, `f` (axis `i` only) and `g` (both) -/
private def cGrid : List (String × List Sel) :=
  [("i", [.slice (some 0) (some 1) none, .slice (some 1) (some 3) none]), ("j", [.idx 0, .idx 1])]

/-- the hypotheses of every theorem of this file on `x[i] -> y[i]`, `y[i], w[j] -> z[i, j]`: the request conforms, the full run
    and the four grid parts (reversed order) run, the axis sizes are one table; and the conclusion `coverB`, evaluated; a cover
    of each axis SEPARATELY (`{i:0:1, j:0}, {i:1:3, j:1}`) does NOT cover `g` -/
private def coverDemo : Bool :=
  Conforms [cY, cZ] cIn [] &&
  match runPart [cY, cZ] cIn [] none [], runPieces [cY, cZ] cIn [] ((gridParts cGrid).reverse.map some) [] with
  | .ok rF, .ok _ =>
    dimsOK [cY, cZ] rF.res.shapes rF.res.masks ["i", "j"] cDim && coverB [cY, cZ] rF.res.shapes rF.res.masks (gridParts cGrid) &&
    (gridParts cGrid).length == 4 &&
    !coverB [cY, cZ] rF.res.shapes rF.res.masks
      [[("i", .slice (some 0) (some 1) none), ("j", .idx 0)], [("i", .slice (some 1) (some 3) none), ("j", .idx 1)]]
  | _, _ => false

example : coverDemo = true := by decide

/-- all hypotheses of `C06_pieces_whole_grid` (and with them those of the other theorems) hold together -/
example : ∃ rF rs, Conforms [cY, cZ] cIn [] = true ∧ runPart [cY, cZ] cIn [] none [] = .ok rF ∧
    dimsOK [cY, cZ] rF.res.shapes rF.res.masks ["i", "j"] cDim = true ∧ (cGrid.map (·.1)).Nodup ∧
    (∀ ac ∈ cGrid, CellsCover (cDim ac.1) ac.2) ∧ (∀ p ∈ gridParts cGrid, p ∈ (gridParts cGrid).reverse) ∧ OldLe [] rF.store ∧
    runPieces [cY, cZ] cIn [] ((gridParts cGrid).reverse.map some) [] = .ok rs ∧
    AxisCover ["i", "j"] cDim (gridParts cGrid).reverse := by
  have cGrid_cover : ∀ ac ∈ cGrid, CellsCover (cDim ac.1) ac.2 := by
    intro ac h
    simp only [cGrid, List.mem_cons, List.not_mem_nil, or_false] at h
    rcases h with h | h
    · subst h; exact cellsCover_split 3 1 (by omega)
    · subst h; exact cellsCover_ints 2 (by omega)
  have h : coverDemo = true := by decide
  unfold coverDemo at h
  simp only [Bool.and_eq_true] at h
  obtain ⟨hC, h⟩ := h
  split at h
  · next rF rs hF hP =>
    simp only [Bool.and_eq_true] at h
    refine ⟨rF, rs, hC, hF, h.1.1.1, by decide, cGrid_cover, fun p hp => List.mem_reverse.mpr hp,
      by constructor <;> simp [oldCells, alookup, cellLookup], hP, ?_⟩
    exact C06_axis_cover_mono _ _ _ _ (fun p hp => List.mem_reverse.mpr hp) (axisCover_grid _ _ cGrid (by decide) cGrid_cover)
  · cases h

/-- `C06_cover_one_axis`, `C06_cells_ints`, `C06_cells_split`: instances -/
example : CellsCover 3 [.slice (some 0) (some 1) none, .slice (some 1) (some 3) none] := cellsCover_split 3 1 (by omega)
example : CellsCover 2 [.idx 0, .idx 1] := cellsCover_ints 2 (by omega)

end PF.C06
