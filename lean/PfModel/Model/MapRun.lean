/-
Model of `Pipeline.map` (sequential, fresh store): `map_shapes` (`pipefunc/map/_shapes.py:21-53`), `MapSpec.shape`
(`map/_mapspec.py:155-190`), `_func_kwargs/_select_kwargs` (`map/_run.py:363-401`), `_run_iteration_and_process`,
`_update_array`, `_update_result_array/_set_output` (`:459-580`), `_execute_single/_dump_single_output` (`:330-360, 775-799`),
`_output_from_mapspec_task` (`:932-946`), the generation loop of `run_map` (`:147-160`), `load_outputs` (`map/_load.py`).
Core Lean only.  Arrays are `Val.arr shape elems` (row-major); user functions are uninterpreted (`Val.app`).
-/
import PfModel.Core.Val
import PfModel.Core.Fill
namespace PF.Map
open PF

/-- `ArraySpec`: an array name with its axes (`none` is `:`) -/
structure ASpec where
  name : String
  axes : List (Option String)
  deriving Repr, DecidableEq, Inhabited

/-- `MapSpec` -/
structure MSpec where
  inputs : List ASpec
  outputs : List ASpec
  deriving Repr, DecidableEq, Inhabited

/-- a `PipeFunc` as `map` sees it -/
structure MFunc where
  name : String
  params : List (String × String)      -- (pipeline-level name, the wrapped function's own parameter name)
  outputs : List String
  mapspec : Option MSpec
  ret : Option (List Nat)              -- shape of the array(s) the wrapped function returns, if it returns arrays of terms
  internal : Option (List Nat)         -- `PipeFunc.internal_shape`
  defaults : List (String × Val)
  bound : List (String × Val)
  deriving Repr, Inhabited

inductive Err
  | value (why : String) | type (why : String) | index (why : String) | key (why : String) | fuel
  deriving Repr, DecidableEq

abbrev M := Except Err

/-! ### MapSpec accessors -/

def MSpec.outputIndices (ms : MSpec) : List String :=
  match ms.outputs with
  | [] => []
  | o :: _ => o.axes.filterMap id

def MSpec.inputIndices (ms : MSpec) : List String := ms.inputs.flatMap fun a => a.axes.filterMap id

/-- `external_indices`: output indices shared with some input, in output order -/
def MSpec.externalIndices (ms : MSpec) : List String := ms.outputIndices.filter fun n => ms.inputIndices.contains n

def MSpec.inputSpec (ms : MSpec) (p : String) : Option ASpec := ms.inputs.find? (·.name = p)

def idxOf (l : List (Option String)) (n : String) : Option Nat := l.findIdx? (· = some n)

/-! ### array values -/

def shapeOf : Val → Option (List Nat)
  | .arr sh _ => some sh
  | _ => none

/-- full index from a key with `none` = slice and the sub-index for the sliced axes -/
def fillKey : List (Option Nat) → List Nat → List Nat
  | [], _ => []
  | some k :: ks, sub => k :: fillKey ks sub
  | none :: ks, s :: sub => s :: fillKey ks sub
  | none :: ks, [] => 0 :: fillKey ks []

def slicedShape : List (Option Nat) → List Nat → List Nat
  | some _ :: ks, _ :: sh => slicedShape ks sh
  | none :: ks, d :: sh => d :: slicedShape ks sh
  | _, _ => []

/-- NumPy basic indexing `v[key]` with integers and full slices on an object array -/
def indexVal (v : Val) (key : List (Option Nat)) : Option Val :=
  match v with
  | .arr sh elems =>
    if key.length ≠ sh.length then none else
    if key.all Option.isSome then elems[ravel sh (fillKey key [])]?
    else
      let sub := slicedShape key sh
      some (.arr sub ((allIdx sub).map fun s => elems.getD (ravel sh (fillKey key s)) .none))
  | _ => none

/-! ### shapes (`MapSpec.shape`, `map_shapes`) -/

def commonDim (ms : MSpec) (index : String) (shapes : List (String × List Nat)) : M (Option Nat) := do
  let dims ← ms.inputs.filterMapM fun a =>
    match idxOf a.axes index with
    | none => pure none
    | some ax =>
      match alookup shapes a.name with
      | none => throw (.value s!"missing shape for {a.name}")
      | some sh => pure (some (sh.getD ax 0))
  match dims with
  | [] => pure none
  | d :: rest => if rest.all (· = d) then pure (some d) else throw (.value s!"dimension mismatch along {index}")

/-- `MapSpec.shape(input_shapes, internal_shapes)` → (shape, mask) -/
def mspecShape (ms : MSpec) (shapes : List (String × List Nat)) (internal : List (String × List Nat)) :
    M (List Nat × List Bool) := do
  -- `_validate_shapes`: every input needs a shape of the right rank
  for a in ms.inputs do
    match alookup shapes a.name with
    | none => throw (.value s!"inputs expected by this map were not provided: {a.name}")
    | some sh => if sh.length ≠ a.axes.length then throw (.value s!"rank mismatch for {a.name}")
  let out := ms.outputs.headD default
  let rec go (axes : List String) (k : Nat) : M (List Nat × List Bool) :=
    match axes with
    | [] => pure ([], [])
    | ix :: rest => do
      match ← commonDim ms ix shapes with
      | some d =>
        let (s, m) ← go rest k
        pure (d :: s, true :: m)
      | none =>
        match alookup internal out.name with
        | none => throw (.value s!"internal shape for {out.name} is missing")
        | some ish =>
          match ish[k]? with
          | none => throw (.value s!"internal shape for {out.name} is too short")
          | some d =>
            let (s, m) ← go rest (k + 1)
            pure (d :: s, false :: m)
  go ms.outputIndices 0

/-! ### the pipeline -/

def producer (fs : List MFunc) (o : String) : Option MFunc := fs.find? (fun f => o ∈ f.outputs)
def allOutputs (fs : List MFunc) : List String := fs.flatMap (·.outputs)

/-- `Pipeline.defaults` -/
def pdefaults (fs : List MFunc) : List (String × Val) :=
  fs.flatMap fun f => f.defaults.filter fun kv => (alookup f.bound kv.1).isNone && (producer fs kv.1).isNone
def pdefault (fs : List MFunc) (p : String) : Option Val := alookup (pdefaults fs).reverse p

/-- upstream functions of `f` (through parameters that are not bound) -/
def upstream (fs : List MFunc) (f : MFunc) : List String :=
  f.params.filterMap fun (p, _) => if (alookup f.bound p).isSome then none else (producer fs p).map (·.name)

/-- `topological_generations.function_lists` as Kahn layers: a function is ready when all its producers are done -/
def layers (fs : List MFunc) : Nat → List String → List MFunc → List (List MFunc)
  | 0, _, _ => []
  | fuel+1, done, rest =>
    if rest.isEmpty then [] else
    let ready := rest.filter fun f => (upstream fs f).all fun g => done.contains g
    if ready.isEmpty then [] else
    ready :: layers fs fuel (done ++ ready.map (·.name)) (rest.filter fun f => !(ready.any (·.name = f.name)))

def generations (fs : List MFunc) : List (List MFunc) := layers fs (fs.length + 1) [] fs

/-- root arguments: non-bound parameters that nothing produces -/
def rootArgs (fs : List MFunc) : List String :=
  (fs.flatMap fun f => f.params.filterMap fun (p, _) =>
    if (alookup f.bound p).isSome || (producer fs p).isSome then none else some p).eraseDups

def mapspecNames (fs : List MFunc) : List String :=
  fs.flatMap fun f => match f.mapspec with
    | none => []
    | some ms => ms.inputs.map (·.name) ++ ms.outputs.map (·.name)

/-- `_construct_internal_shapes`: the user's dictionary wins, else `PipeFunc.internal_shape` for every output -/
def constructInternal (fs : List MFunc) (user : List (String × List Nat)) : List (String × List Nat) :=
  user ++ fs.flatMap fun f =>
    match f.internal with
    | none => []
    | some ish => f.outputs.filterMap fun o => if (alookup user o).isSome then none else some (o, ish)

/-- `map_shapes`: shapes and masks of every MapSpec array, inputs first, then functions in topological order -/
def mapShapes (fs : List MFunc) (inputs : List (String × Val)) (internal : List (String × List Nat)) :
    M (List (String × List Nat) × List (String × List Bool)) := do
  let withDefaults := inputs ++ pdefaults fs
  let mut shapes : List (String × List Nat) := []
  let mut masks : List (String × List Bool) := []
  for p in rootArgs fs do
    if (mapspecNames fs).contains p then
      match alookup withDefaults p with
      | none => throw (.key p)
      | some v =>
        match shapeOf v with
        | none => throw (.type s!"no array shape defined for {p}")
        | some sh =>
          shapes := shapes ++ [(p, sh)]
          masks := masks ++ [(p, sh.map fun _ => true)]
  for f in (generations fs).flatten do
    match f.mapspec with
    | none => pure ()
    | some ms =>
      let inShapes := ms.inputs.filterMap fun a => (alookup shapes a.name).map fun sh => (a.name, sh)
      let (sh, mk) ← mspecShape ms inShapes (internal.filter fun kv => ms.outputs.any (·.name = kv.1))
      for o in f.outputs do
        shapes := shapes ++ [(o, sh)]
        masks := masks ++ [(o, mk)]
  return (shapes, masks)

/-! ### running one function -/

/-- what a store slot holds: a whole value (un-mapped / generator outputs) or an array of per-index elements -/
inductive Slot
  | single (v : Val)
  | array (shape : List Nat) (mask : List Bool) (cells : List (Nat × Val))   -- external linear index ↦ element
  deriving Repr, Inhabited

def cellLookup : List (Nat × Val) → Nat → Option Val
  | [], _ => none
  | (k, v) :: r, i => if k = i then some v else cellLookup r i

/-- `StorageBase.to_array()` (internal axes splatted): the full-shape array, missing elements masked -/
def Slot.toVal : Slot → Val
  | .single v => v
  | .array shape mask cells =>
    let es := extOf mask shape
    .arr shape ((allIdx shape).map fun F =>
      match cellLookup cells (ravel es (extOf mask F)) with
      | none => .masked
      | some v => if mask.all id then v else (indexVal v ((intOf mask F).map some)).getD .none)

structure Env where
  inputs : List (String × Val)
  store : List (String × Slot)
  deriving Repr

/-- `_func_kwargs`: bound, else input, else stored output, else default -/
def argWhole (fs : List MFunc) (env : Env) (f : MFunc) (p : String) : M Val :=
  match alookup f.bound p with
  | some v => pure v
  | none =>
    match alookup env.inputs p with
    | some v => pure v
    | none =>
      match alookup env.store p with
      | some s => pure s.toVal
      | none =>
        match pdefault fs p with
        | some v => pure v
        | none => throw (.value s!"parameter {p} not found")

/-- `MapSpec.input_keys` for one input at the external key `E` -/
def inputKey (ms : MSpec) (a : ASpec) (E : List Nat) : List (Option Nat) :=
  a.axes.map fun ax =>
    match ax with
    | none => none
    | some n => match ms.externalIndices.findIdx? (· = n) with
      | some q => some (E.getD q 0)
      | none => some 0

/-- `_select_kwargs`: mapped parameters are indexed at the key, everything else is delivered whole -/
def selectArgs (fs : List MFunc) (env : Env) (f : MFunc) (ms : MSpec) (E : List Nat) : M (List (String × Val)) :=
  f.params.mapM fun (p, orig) => do
    let whole ← argWhole fs env f p
    match ms.inputSpec p with
    | none => pure (orig, whole)
    | some a =>
      match indexVal whole (inputKey ms a E) with
      | some v => pure (orig, v)
      | none => throw (.index s!"cannot index {p}")

/-- the value the wrapped function returns for output `o`: a term, or an array of projections of it -/
def outBase (f : MFunc) (args : List (String × Val)) (o : String) : Val :=
  match f.outputs with
  | [_] => .app f.name args
  | _ => .pick (.app f.name args) o

def outVal (f : MFunc) (args : List (String × Val)) (o : String) : Val :=
  match f.ret with
  | none => outBase f args o
  | some sh => .arr sh ((allIdx sh).map fun I => .proj (outBase f args o) I)

/-- one entry of the call log: function name and the arguments it was called with -/
structure Call where
  name : String
  args : List (String × Val)
  deriving Repr

structure FuncResult where
  outputs : List (String × Val)       -- `Result.output` per output name
  slots : List (String × Slot)        -- what the store holds afterwards
  calls : List Call
  deriving Repr

/-- element of a result array at internal index `I` given the value computed for the external part of the index:
    the value itself when there is no internal axis, else its entry at `I` -/
def elemAt (mask : List Bool) (v : Val) (I : List Nat) : Val :=
  if mask.all id then v else (indexVal v (I.map some)).getD .none

/-- **Operational** result array of output `o` (`_update_result_array/_set_output` + `reshape`): the flat array is
    filled in the double loop over external linear indices × internal indices, through `ravel_multi_index(select_by_mask …)`;
    `args li` are the keyword arguments selected for external linear index `li` -/
def opArray (f : MFunc) (shape : List Nat) (mask : List Bool) (args : Nat → List (String × Val)) (o : String) : Val :=
  let es := extOf mask shape
  let is := intOf mask shape
  let flat := fill mask es is (fun E I => elemAt mask (outVal f (args (ravel es E)) o) I)
  .arr shape ((List.range (prod shape)).map fun j => (flat j).getD .none)

/-- **Denotation** of output `o` of a mapped function: the element at full index `F` is the function applied to the
    arguments selected at the external part of `F`, projected at the internal part of `F` -/
def denoteArray (f : MFunc) (shape : List Nat) (mask : List Bool) (args : Nat → List (String × Val)) (o : String) : Val :=
  let es := extOf mask shape
  .arr shape ((allIdx shape).map fun F => elemAt mask (outVal f (args (ravel es (extOf mask F))) o) (intOf mask F))

/-- what the storage array of output `o` holds afterwards (`_update_array` → `dump(output_key, value)`): one element per
    external linear index -/
def cellsOf (f : MFunc) (n : Nat) (args : Nat → List (String × Val)) (o : String) : List (Nat × Val) :=
  (List.range n).map fun li => (li, outVal f (args li) o)

/-- a function with a MapSpec that has inputs: one call per external index (`_prepare_submit_map_spec`,
    `_run_iteration_and_process`, `_output_from_mapspec_task`) on a fresh store.  `arr` is how the result array of one
    output is produced: `opArray` for the model of the code, `denoteArray` for the specification. -/
def runMappedWith (arr : MFunc → List Nat → List Bool → (Nat → List (String × Val)) → String → Val)
    (fs : List MFunc) (env : Env) (f : MFunc) (ms : MSpec) (shape : List Nat) (mask : List Bool) : M FuncResult := do
  let es := extOf mask shape
  let n := prod es
  let argsAt ← (List.range n).mapM fun li => selectArgs fs env f ms (shapeToKey es li)
  let args : Nat → List (String × Val) := fun li => argsAt.getD li []
  return { outputs := f.outputs.map fun o => (o, arr f shape mask args o),
           slots := f.outputs.map fun o => (o, Slot.array shape mask (cellsOf f n args o)),
           calls := argsAt.map fun a => ({ name := f.name, args := a } : Call) }

/-- a function without MapSpec inputs: called once on whole values (`_execute_single`, `_dump_single_output`) -/
def runSingle (fs : List MFunc) (env : Env) (f : MFunc) : M FuncResult := do
  let args ← f.params.mapM fun (p, orig) => do return (orig, ← argWhole fs env f p)
  let outs := f.outputs.map fun o => (o, outVal f args o)
  return { outputs := outs, slots := outs.map fun (o, v) => (o, Slot.single v), calls := [{ name := f.name, args := args }] }

def runFuncWith (arr : MFunc → List Nat → List Bool → (Nat → List (String × Val)) → String → Val)
    (fs : List MFunc) (shapes : List (String × List Nat)) (masks : List (String × List Bool)) (env : Env) (f : MFunc) :
    M FuncResult :=
  match f.mapspec with
  | some ms =>
    if ms.inputs.isEmpty then runSingle fs env f else
    match f.outputs.head? with
    | none => throw (.value "function without outputs")
    | some o =>
      match alookup shapes o, alookup masks o with
      | some sh, some mk =>
        if sh.length ≠ mk.length then throw (.value "shape and mask of different rank") else runMappedWith arr fs env f ms sh mk
      | _, _ => throw (.key o)
  | none => runSingle fs env f

structure MapResult where
  outputs : List (String × Val)
  stored : List (String × Val)         -- what `load_outputs` gives back
  shapes : List (String × List Nat)
  masks : List (String × List Bool)
  calls : List Call
  gens : List (List String)
  deriving Repr

/-- `_validate_complete_inputs` -/
def validateInputs (fs : List MFunc) (inputs : List (String × Val)) : M Unit := do
  let roots := rootArgs fs
  let have_ := akeys inputs ++ akeys (pdefaults fs)
  match roots.filter (fun r => !(have_.contains r)) with
  | [] => pure ()
  | m :: _ => throw (.value s!"missing inputs: {m}")
  match have_.filter (fun r => !(roots.contains r)) with
  | [] => pure ()
  | m :: _ => throw (.value s!"got extra inputs: {m}")

/-- one generation: every function reads the store as it was after the previous generation (`_submit_generation`,
    then `_process_generation`) -/
def runGenWith (R : Env → MFunc → M FuncResult) (env : Env) : List MFunc → M (List FuncResult)
  | [] => pure []
  | f :: rest => do
    let r ← R env f
    let rs ← runGenWith R env rest
    pure (r :: rs)

/-- the generation loop of `run_map` -/
def runGensWith (R : Env → MFunc → M FuncResult) : List (List MFunc) → Env → M (List FuncResult × Env)
  | [], env => pure ([], env)
  | gen :: rest, env => do
    let rs ← runGenWith R env gen
    let env' : Env := { env with store := env.store ++ rs.flatMap (·.slots) }
    let (more, envF) ← runGensWith R rest env'
    pure (rs ++ more, envF)

/-- `run_map` (sequential, fresh store), parameterised by how result arrays are produced -/
def runMapWith (arr : MFunc → List Nat → List Bool → (Nat → List (String × Val)) → String → Val)
    (fs : List MFunc) (inputs : List (String × Val)) (userInternal : List (String × List Nat)) : M MapResult := do
  validateInputs fs inputs
  if (generations fs).flatten.length ≠ fs.length then throw (.value "cyclic pipeline")
  let internal := constructInternal fs userInternal
  let (shapes, masks) ← mapShapes fs inputs internal
  let (rs, env) ← runGensWith (runFuncWith arr fs shapes masks) (generations fs) { inputs := inputs, store := [] }
  return { outputs := rs.flatMap (·.outputs), stored := env.store.map fun (o, s) => (o, s.toVal), shapes := shapes, masks := masks,
           calls := rs.flatMap (·.calls), gens := (generations fs).map fun g => g.map (·.name) }

/-- the model of the code -/
def runMap := runMapWith opArray
/-- the specification: the same plumbing with every result array given by its denotation -/
def specMap := runMapWith denoteArray

end PF.Map
