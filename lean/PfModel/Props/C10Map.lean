import PfModel.Lemmas.RewriteMap3
import PfModel.Lemmas.RewriteMapAxis2
import PfModel.Props.C01
/-!
C10 under `Pipeline.map` — renaming (`update_renames`, `update_scope`) commutes with the map semantics.

`PF.Map.specMap`/`runMap` of the renamed pipeline on the re-keyed inputs returns the original result re-keyed — outputs, stored
arrays, shape and mask tables — with the same call log and the same generations, or both refuse.  `PF.Map.outBase` records the
CURRENT output name in the `pick` of a tuple-returning function, so values agree up to those labels: `relabel lam` renames the
label of every `pick`; the label map `lam` only has to agree with `ρ` on the outputs of functions with several outputs (`LabOK`).
Two instances: `lam = ρ` with `pick`-free inputs/defaults/bound (`C10_map_rename_nopick`), and `lam = id` for pipelines whose
functions all have one output, where the values are literally EQUAL (`C10_map_rename_single`).

`Sim R a b`: both computations answer and the answers are related by `R`, or both refuse (error payloads mention names, so
they are not compared).  `MRel ρ lam R R'`: `R'.outputs = R.outputs.map (rkvL ρ lam)` (key `ρ k`, value `relabel lam v`), the
same for `stored`; `R'.shapes/masks = R.shapes/masks.map (rkv ρ)`; `R'.calls = R.calls.map (relabelCall lam)`; `R'.gens = R.gens`.
-/
namespace PF.C10
open PF PF.Map PF.Rw

/-- **`map` commutes with renaming** (general form).  `ρ` injective on the names in use `N` (all parameter, output, default,
    bound and MapSpec array names, all input keys and `internal_shapes` keys); `lam` a label map that agrees with `ρ` on the
    outputs of every function with several outputs and does not change the default/bound values; the renamed run gets the
    inputs re-keyed by `ρ` and relabelled by `lam`.  Then the renamed run answers iff the original does, and its answer is the
    original one re-keyed and relabelled. -/
theorem C10_map_rename (ρ lam : String → String) (N : String → Prop) (hinj : ∀ a b, N a → N b → ρ a = ρ b → a = b)
    (fs : List RFunc) (inputs : List (String × Val)) (ui : List (String × List Nat))
    (hfs : ∀ f ∈ fs, RNamesIn N f) (hfx : ∀ f ∈ fs, ValsFixed lam (toMFunc f)) (hlab : ∀ f ∈ fs, LabOK ρ lam (toMFunc f))
    (hin : ∀ kv ∈ inputs, N kv.1) (hui : ∀ kv ∈ ui, N kv.1) :
    Sim (MRel ρ lam) (specMap (fs.map toMFunc) inputs ui)
      (specMap ((renameAll ρ fs).map toMFunc) (inputs.map (rkvL ρ lam)) (ui.map (rkv ρ))) := by
  rw [toMFunc_renameAll]
  apply specMap_rename ρ N hinj lam (fs.map toMFunc) inputs ui _ _ _ hin hui
  · intro g hg; obtain ⟨f, hf, rfl⟩ := List.mem_map.mp hg; exact mnamesIn_toMFunc (hfs f hf)
  · intro g hg; obtain ⟨f, hf, rfl⟩ := List.mem_map.mp hg; exact hfx f hf
  · intro g hg; obtain ⟨f, hf, rfl⟩ := List.mem_map.mp hg; exact hlab f hf

/-- the same for the model of the code, `runMap` (by `C01_map_eq_denotation`) -/
theorem C10_map_rename_runMap (ρ lam : String → String) (N : String → Prop) (hinj : ∀ a b, N a → N b → ρ a = ρ b → a = b)
    (fs : List RFunc) (inputs : List (String × Val)) (ui : List (String × List Nat))
    (hfs : ∀ f ∈ fs, RNamesIn N f) (hfx : ∀ f ∈ fs, ValsFixed lam (toMFunc f)) (hlab : ∀ f ∈ fs, LabOK ρ lam (toMFunc f))
    (hin : ∀ kv ∈ inputs, N kv.1) (hui : ∀ kv ∈ ui, N kv.1) :
    Sim (MRel ρ lam) (runMap (fs.map toMFunc) inputs ui)
      (runMap ((renameAll ρ fs).map toMFunc) (inputs.map (rkvL ρ lam)) (ui.map (rkv ρ))) := by
  rw [PF.C01.C01_map_eq_denotation, PF.C01.C01_map_eq_denotation]
  exact C10_map_rename ρ lam N hinj fs inputs ui hfs hfx hlab hin hui

/-- **ok-direction**: if the original run returns `R`, the renamed run returns the re-keyed, relabelled `R`. -/
theorem C10_map_rename_ok (ρ lam : String → String) (N : String → Prop) (hinj : ∀ a b, N a → N b → ρ a = ρ b → a = b)
    (fs : List RFunc) (inputs : List (String × Val)) (ui : List (String × List Nat))
    (hfs : ∀ f ∈ fs, RNamesIn N f) (hfx : ∀ f ∈ fs, ValsFixed lam (toMFunc f)) (hlab : ∀ f ∈ fs, LabOK ρ lam (toMFunc f))
    (hin : ∀ kv ∈ inputs, N kv.1) (hui : ∀ kv ∈ ui, N kv.1) (R : MapResult)
    (h : runMap (fs.map toMFunc) inputs ui = .ok R) :
    ∃ R', runMap ((renameAll ρ fs).map toMFunc) (inputs.map (rkvL ρ lam)) (ui.map (rkv ρ)) = .ok R' ∧ MRel ρ lam R R' :=
  (C10_map_rename_runMap ρ lam N hinj fs inputs ui hfs hfx hlab hin hui).ok_ok h

/-- **refusal**: the renamed run refuses exactly when the original refuses. -/
theorem C10_map_rename_refuses (ρ lam : String → String) (N : String → Prop) (hinj : ∀ a b, N a → N b → ρ a = ρ b → a = b)
    (fs : List RFunc) (inputs : List (String × Val)) (ui : List (String × List Nat))
    (hfs : ∀ f ∈ fs, RNamesIn N f) (hfx : ∀ f ∈ fs, ValsFixed lam (toMFunc f)) (hlab : ∀ f ∈ fs, LabOK ρ lam (toMFunc f))
    (hin : ∀ kv ∈ inputs, N kv.1) (hui : ∀ kv ∈ ui, N kv.1) :
    (∃ e, runMap (fs.map toMFunc) inputs ui = .error e) ↔
    (∃ e', runMap ((renameAll ρ fs).map toMFunc) (inputs.map (rkvL ρ lam)) (ui.map (rkv ρ)) = .error e') := by
  have key := C10_map_rename_runMap ρ lam N hinj fs inputs ui hfs hfx hlab hin hui
  constructor
  · rintro ⟨e, he⟩; exact key.err_err he
  · rintro ⟨e', he'⟩
    cases h : runMap (fs.map toMFunc) inputs ui with
    | error e => exact ⟨e, rfl⟩
    | ok R =>
      obtain ⟨R', hR', _⟩ := key.ok_ok h
      rw [hR'] at he'; cases he'

/-- **Renaming with `pick`-free values** (`lam = ρ`): when no input, default or bound value contains a `pick`, the renamed
    pipeline run on the inputs merely re-keyed (`inputs.map (rkv ρ)`, as `C10_rename`) returns the original result re-keyed,
    every `pick` label `o` of a value replaced by `ρ o` (`MRel ρ ρ`). -/
theorem C10_map_rename_nopick (ρ : String → String) (N : String → Prop) (hinj : ∀ a b, N a → N b → ρ a = ρ b → a = b)
    (fs : List RFunc) (inputs : List (String × Val)) (ui : List (String × List Nat))
    (hfs : ∀ f ∈ fs, RNamesIn N f) (hnp : ∀ f ∈ fs, RNoPick f) (hinp : ∀ kv ∈ inputs, noPick kv.2 = true)
    (hin : ∀ kv ∈ inputs, N kv.1) (hui : ∀ kv ∈ ui, N kv.1) :
    Sim (MRel ρ ρ) (runMap (fs.map toMFunc) inputs ui)
      (runMap ((renameAll ρ fs).map toMFunc) (inputs.map (rkv ρ)) (ui.map (rkv ρ))) := by
  rw [← map_rkvL_noPick ρ ρ inputs hinp]
  exact C10_map_rename_runMap ρ ρ N hinj fs inputs ui hfs (fun f hf => valsFixed_of_noPick ρ (hnp f hf))
    (fun f _ => labOK_self ρ _) hin hui

/-- **Single-output pipelines** (`lam = id`): when every function has exactly one output no `pick` is ever built, and the
    renamed run returns LITERALLY the original values under the new keys — for arbitrary input/default/bound values. -/
theorem C10_map_rename_single (ρ : String → String) (N : String → Prop) (hinj : ∀ a b, N a → N b → ρ a = ρ b → a = b)
    (fs : List RFunc) (inputs : List (String × Val)) (ui : List (String × List Nat))
    (hfs : ∀ f ∈ fs, RNamesIn N f) (hone : ∀ f ∈ fs, f.core.outputs.length = 1)
    (hin : ∀ kv ∈ inputs, N kv.1) (hui : ∀ kv ∈ ui, N kv.1) :
    Sim (fun R R' => R'.outputs = R.outputs.map (rkv ρ) ∧ R'.stored = R.stored.map (rkv ρ) ∧ R'.shapes = R.shapes.map (rkv ρ) ∧
          R'.masks = R.masks.map (rkv ρ) ∧ R'.calls = R.calls ∧ R'.gens = R.gens)
      (runMap (fs.map toMFunc) inputs ui)
      (runMap ((renameAll ρ fs).map toMFunc) (inputs.map (rkv ρ)) (ui.map (rkv ρ))) := by
  have key := C10_map_rename_runMap ρ (fun x => x) N hinj fs inputs ui hfs (fun f _ => valsFixed_id _)
    (fun f hf => Or.inl (hone f hf)) hin hui
  rw [rkvL_id] at key
  apply key.mono
  intro R R' h
  refine ⟨by rw [h.outputs, rkvL_id], by rw [h.stored, rkvL_id], h.shapes, h.masks, ?_, h.gens⟩
  rw [h.calls]
  have : relabelCall (fun x => x) = id := funext relabelCall_id
  rw [this, List.map_id]

/-- **`update_renames` / `update_scope` under `map`**: when `Pipeline.update_renames(m)` (resp. `update_scope(s, "*", "*")`)
    accepts, its result is the renaming by `rhoOf m` (resp. `scopeRho s fs`), so the renamed pipeline maps to the re-keyed,
    relabelled result whenever that renaming is injective on the names in use. -/
theorem C10_map_update_renames (m : List (String × String)) (fs fs' : List RFunc) (h : updateRenames m fs = .ok fs')
    (N : String → Prop) (hinj : ∀ a b, N a → N b → rhoOf m a = rhoOf m b → a = b)
    (inputs : List (String × Val)) (ui : List (String × List Nat))
    (hfs : ∀ f ∈ fs, RNamesIn N f) (hnp : ∀ f ∈ fs, RNoPick f) (hinp : ∀ kv ∈ inputs, noPick kv.2 = true)
    (hin : ∀ kv ∈ inputs, N kv.1) (hui : ∀ kv ∈ ui, N kv.1) :
    Sim (MRel (rhoOf m) (rhoOf m)) (runMap (fs.map toMFunc) inputs ui)
      (runMap (fs'.map toMFunc) (inputs.map (rkv (rhoOf m))) (ui.map (rkv (rhoOf m)))) := by
  have : fs' = renameAll (rhoOf m) fs := by
    unfold updateRenames at h
    split at h
    · cases h
    · split at h
      · cases h
      · split at h
        · cases h
        · injection h with h; exact h.symm
  rw [this]
  exact C10_map_rename_nopick (rhoOf m) N hinj fs inputs ui hfs hnp hinp hin hui

theorem C10_map_scope (s : Option String) (fs fs' : List RFunc) (h : updateScope s fs = .ok fs')
    (N : String → Prop) (hinj : ∀ a b, N a → N b → scopeRho s fs a = scopeRho s fs b → a = b)
    (inputs : List (String × Val)) (ui : List (String × List Nat))
    (hfs : ∀ f ∈ fs, RNamesIn N f) (hnp : ∀ f ∈ fs, RNoPick f) (hinp : ∀ kv ∈ inputs, noPick kv.2 = true)
    (hin : ∀ kv ∈ inputs, N kv.1) (hui : ∀ kv ∈ ui, N kv.1) :
    Sim (MRel (scopeRho s fs) (scopeRho s fs)) (runMap (fs.map toMFunc) inputs ui)
      (runMap (fs'.map toMFunc) (inputs.map (rkv (scopeRho s fs))) (ui.map (rkv (scopeRho s fs)))) := by
  have : fs' = renameAll (scopeRho s fs) fs := by
    unfold updateScope at h
    split at h
    · cases h
    · split at h
      · cases h
      · injection h with h; exact h.symm
  rw [this]
  exact C10_map_rename_nopick (scopeRho s fs) N hinj fs inputs ui hfs hnp hinp hin hui

/-- **Index names are immaterial**: renaming the index (axis) names inside all MapSpecs by an `α` injective on the index
    names in use (`MIdxIn NI`: the axes of the first output and of the inputs of every MapSpec) leaves `map` unchanged —
    the two runs return EQUAL results (outputs, stored arrays, shapes, masks, calls, generations), or both refuse (the
    `dimension mismatch along …` payload names the index). -/
theorem C10_map_axis_rename (α : String → String) (NI : String → Prop) (hinj : ∀ a b, NI a → NI b → α a = α b → a = b)
    (fs : List RFunc) (inputs : List (String × Val)) (ui : List (String × List Nat))
    (hfs : ∀ f ∈ fs, MIdxIn NI (toMFunc f)) :
    Sim Eq (runMap (fs.map toMFunc) inputs ui) (runMap ((fs.map (axisR α)).map toMFunc) inputs ui) := by
  rw [PF.C01.C01_map_eq_denotation, PF.C01.C01_map_eq_denotation, toMFunc_axisR]
  apply specMap_axis α NI hinj
  intro g hg; obtain ⟨f, hf, rfl⟩ := List.mem_map.mp hg; exact hfs f hf

/-- the ok-direction of `C10_map_axis_rename` as an equation -/
theorem C10_map_axis_rename_ok (α : String → String) (NI : String → Prop) (hinj : ∀ a b, NI a → NI b → α a = α b → a = b)
    (fs : List RFunc) (inputs : List (String × Val)) (ui : List (String × List Nat))
    (hfs : ∀ f ∈ fs, MIdxIn NI (toMFunc f)) (R : MapResult) (h : runMap (fs.map toMFunc) inputs ui = .ok R) :
    runMap ((fs.map (axisR α)).map toMFunc) inputs ui = .ok R := by
  obtain ⟨R', hR', e⟩ := (C10_map_axis_rename α NI hinj fs inputs ui hfs).ok_ok h
  rw [hR', e]

/-! ### non-vacuity -/
section Examples

/-- `f : x[i] -> y[i], z[i]` (two outputs: builds `pick`s), `g : y[i] -> w[i]` with a default `c` -/
private def exF : RFunc :=
  { core := ⟨"f", [("x", "x")], ["y", "z"], [], []⟩, outOrig := ["y", "z"], body := none,
    mapspec := some ⟨[⟨"x", [some "i"]⟩], [⟨"y", [some "i"]⟩, ⟨"z", [some "i"]⟩]⟩ }
private def exG : RFunc :=
  { core := ⟨"g", [("y", "a"), ("c", "c")], ["w"], [("c", .int 3)], []⟩, outOrig := ["w"], body := none,
    mapspec := some ⟨[⟨"y", [some "i"]⟩], [⟨"w", [some "i"]⟩]⟩ }
private def exIn : List (String × Val) := [("x", .arr [2] [.int 1, .int 2])]
private def exNames : List String := ["x", "y", "z", "w", "c"]
private def exRho : String → String := rhoOf [("x", "s.x"), ("y", "s.y"), ("z", "s.z"), ("w", "s.w"), ("c", "s.c")]

theorem C10_ex_inj : ∀ a b, a ∈ exNames → b ∈ exNames → exRho a = exRho b → a = b :=
  fun a b ha hb => (by decide : ∀ a ∈ exNames, ∀ b ∈ exNames, exRho a = exRho b → a = b) a ha b hb

/-- the hypotheses of `C10_map_rename_nopick` hold for the two-output example … -/
example : Sim (MRel exRho exRho) (runMap ([exF, exG].map toMFunc) exIn [])
    (runMap ((renameAll exRho [exF, exG]).map toMFunc) (exIn.map (rkv exRho)) []) :=
  C10_map_rename_nopick exRho (fun a => a ∈ exNames) C10_ex_inj [exF, exG] exIn []
    (fun f hf => rnamesIn_of_check (List.all_eq_true.mp (by decide : [exF, exG].all (namesCheck exNames) = true) f hf))
    (fun f hf => rnoPick_of_check (List.all_eq_true.mp (by decide : [exF, exG].all noPickCheck = true) f hf))
    (by decide) (by decide) (by decide)
/-- … both runs answer, and the keys are renamed -/
example : (runMap ([exF, exG].map toMFunc) exIn []).toOption.map (fun R => R.outputs.map (·.1)) = some ["y", "z", "w"] := by decide
example : (runMap ((renameAll exRho [exF, exG]).map toMFunc) (exIn.map (rkv exRho)) []).toOption.map (fun R => R.outputs.map (·.1)) =
    some ["s.y", "s.z", "s.w"] := by decide
/-- `C10_map_rename`/`_runMap`/`_ok`/`_refuses`: the general hypotheses hold with `lam = ρ` -/
example (R : MapResult) (h : runMap ([exF, exG].map toMFunc) exIn [] = .ok R) :
    ∃ R', runMap ((renameAll exRho [exF, exG]).map toMFunc) (exIn.map (rkvL exRho exRho)) [] = .ok R' ∧ MRel exRho exRho R R' :=
  C10_map_rename_ok exRho exRho (fun a => a ∈ exNames) C10_ex_inj [exF, exG] exIn []
    (fun f hf => rnamesIn_of_check (List.all_eq_true.mp (by decide : [exF, exG].all (namesCheck exNames) = true) f hf))
    (fun f hf => valsFixed_of_noPick exRho
      (rnoPick_of_check (List.all_eq_true.mp (by decide : [exF, exG].all noPickCheck = true) f hf)))
    (fun _ _ => labOK_self exRho _) (by decide) (by decide) R h
example := C10_map_rename exRho exRho (fun a => a ∈ exNames) C10_ex_inj [exF, exG] exIn []
    (fun f hf => rnamesIn_of_check (List.all_eq_true.mp (by decide : [exF, exG].all (namesCheck exNames) = true) f hf))
    (fun f hf => valsFixed_of_noPick exRho
      (rnoPick_of_check (List.all_eq_true.mp (by decide : [exF, exG].all noPickCheck = true) f hf)))
    (fun _ _ => labOK_self exRho _) (by decide) (by decide)
example := C10_map_rename_runMap exRho exRho (fun a => a ∈ exNames) C10_ex_inj [exF, exG] exIn []
    (fun f hf => rnamesIn_of_check (List.all_eq_true.mp (by decide : [exF, exG].all (namesCheck exNames) = true) f hf))
    (fun f hf => valsFixed_of_noPick exRho
      (rnoPick_of_check (List.all_eq_true.mp (by decide : [exF, exG].all noPickCheck = true) f hf)))
    (fun _ _ => labOK_self exRho _) (by decide) (by decide)
example := C10_map_rename_refuses exRho exRho (fun a => a ∈ exNames) C10_ex_inj [exF, exG] [] []
    (fun f hf => rnamesIn_of_check (List.all_eq_true.mp (by decide : [exF, exG].all (namesCheck exNames) = true) f hf))
    (fun f hf => valsFixed_of_noPick exRho
      (rnoPick_of_check (List.all_eq_true.mp (by decide : [exF, exG].all noPickCheck = true) f hf)))
    (fun _ _ => labOK_self exRho _) (by decide) (by decide)
/-- a refusal (missing input) is a refusal after renaming -/
example : (runMap ([exF, exG].map toMFunc) [] []).toOption.isNone = true ∧
    (runMap ((renameAll exRho [exF, exG]).map toMFunc) [] []).toOption.isNone = true := by decide
/-- `C10_map_rename_single` on the single-output function `g` alone -/
example :=
  C10_map_rename_single exRho (fun a => a ∈ exNames) C10_ex_inj [exG] [("y", .arr [2] [.int 1, .int 2])] []
    (fun f hf => rnamesIn_of_check (List.all_eq_true.mp (by decide : [exG].all (namesCheck exNames) = true) f hf))
    (by decide) (by decide) (by decide)

/-- `update_renames` and `update_scope` accept the example, and the theorems apply -/
private def exM : List (String × String) := [("x", "s.x"), ("y", "s.y"), ("z", "s.z"), ("w", "s.w"), ("c", "s.c")]
example : (updateRenames exM [exF, exG]).toOption.isSome = true := by decide
example (fs' : List RFunc) (h : updateRenames exM [exF, exG] = .ok fs') :=
  C10_map_update_renames exM [exF, exG] fs' h (fun a => a ∈ exNames) C10_ex_inj exIn []
    (fun f hf => rnamesIn_of_check (List.all_eq_true.mp (by decide : [exF, exG].all (namesCheck exNames) = true) f hf))
    (fun f hf => rnoPick_of_check (List.all_eq_true.mp (by decide : [exF, exG].all noPickCheck = true) f hf))
    (by decide) (by decide) (by decide)
/-- `C10_map_scope`: a closed instance (string splitting does not reduce under `decide`, so the empty pipeline) -/
example := C10_map_scope (some "s") [] [] rfl (fun _ => True)
    (fun a b _ _ h => by simpa [scopeRho, PF.Rw.rootArgs, PF.Rw.allOutputs] using h) [] []
    (fun _ h => by cases h) (fun _ h => by cases h) (fun _ h => by cases h) (fun _ h => by cases h) (fun _ h => by cases h)

private def exAlpha : String → String := rhoOf [("i", "k")]
example := C10_map_axis_rename exAlpha (fun a => a ∈ ["i"])
    (fun a b ha hb => (by decide : ∀ a ∈ ["i"], ∀ b ∈ ["i"], exAlpha a = exAlpha b → a = b) a ha b hb) [exF, exG] exIn []
    (fun f hf => midxIn_of_check (List.all_eq_true.mp (by decide : [exF, exG].all (axesCheck ["i"]) = true) f hf))
example (R : MapResult) (h : runMap ([exF, exG].map toMFunc) exIn [] = .ok R) :=
  C10_map_axis_rename_ok exAlpha (fun a => a ∈ ["i"])
    (fun a b ha hb => (by decide : ∀ a ∈ ["i"], ∀ b ∈ ["i"], exAlpha a = exAlpha b → a = b) a ha b hb) [exF, exG] exIn []
    (fun f hf => midxIn_of_check (List.all_eq_true.mp (by decide : [exF, exG].all (axesCheck ["i"]) = true) f hf)) R h
/-- the MapSpecs really change, and the run still answers -/
example : ((([exF, exG].map (axisR exAlpha)).map toMFunc).map fun f => f.mapspec.map (·.outputIndices)) = [some ["k"], some ["k"]] := by decide
example : (runMap (([exF, exG].map (axisR exAlpha)).map toMFunc) exIn []).toOption.map (fun R => R.shapes) =
    some [("x", [2]), ("y", [2]), ("z", [2]), ("w", [2])] := by decide

end Examples

end PF.C10
