import PfModel.Lemmas.Pipeline
import PfModel.Lemmas.PipelineLog
import PfModel.Model.PipelineEntries
/-! Helper lemmas for `Props/C02Order.lean`: the *memoised run itself* (memo, call log, used-parameter set, errors)
depends on the function list only through `producer` and `pdefault`; well-formedness is invariant under re-listing. -/
namespace PF.Pipe
open PF

theorem argsWith_congr (fs fs' : List Func) (kw : List (String × Val))
    (hp : ∀ o, producer fs o = producer fs' o) (hd : ∀ p, pdefault fs p = pdefault fs' p)
    (r r' : String → St → Except Err (Val × St)) (hr : ∀ o s, r o s = r' o s) (f : Func) :
    ∀ ps s, argsWith r fs kw f ps s = argsWith r' fs' kw f ps s := by
  intro ps
  induction ps with
  | nil => intro s; simp [argsWith]
  | cons p ps ih =>
    intro s
    obtain ⟨p, orig⟩ := p
    simp only [argsWith, resolve_congr fs fs' kw hp hd, ih, hr]

theorem run_congr (fs fs' : List Func) (kw : List (String × Val))
    (hp : ∀ o, producer fs o = producer fs' o) (hd : ∀ p, pdefault fs p = pdefault fs' p) : ∀ (n : Nat) o s,
    run fs kw n o s = run fs' kw n o s := by
  intro n
  induction n with
  | zero => intro o s; simp [run]
  | succ n ih =>
    intro o s
    rw [run_succ, run_succ, hp]
    simp only [argsWith_congr fs fs' kw hp hd _ _ ih]

theorem uniqueOut_perm (fs fs' : List Func) (hperm : fs.Perm fs') (hu : UniqueOut fs) : UniqueOut fs' :=
  fun f hf g hg => hu f (hperm.mem_iff.mpr hf) g (hperm.mem_iff.mpr hg)

/-- the function whose whole output is the non-empty name list `os` does not depend on the listing order -/
theorem findWhole_perm (fs fs' : List Func) (hperm : fs.Perm fs') (hu : UniqueOut fs) (os : List String) (hne : os ≠ []) :
    fs.find? (fun f => f.outputs = os) = fs'.find? (fun f => f.outputs = os) := by
  have hu' := uniqueOut_perm fs fs' hperm hu
  obtain ⟨o, hoin⟩ := List.exists_mem_of_ne_nil os hne
  have one : ∀ (l : List Func), UniqueOut l → ∀ f, l.find? (fun f => f.outputs = os) = some f ↔ f ∈ l ∧ f.outputs = os := by
    intro l hl f
    constructor
    · intro h
      exact ⟨List.mem_of_find?_eq_some h, by simpa using List.find?_some h⟩
    · intro ⟨hf, ho⟩
      cases h : l.find? (fun f => f.outputs = os) with
      | none =>
        rw [List.find?_eq_none] at h
        exact absurd (by simpa using ho) (h f hf)
      | some g =>
        have h1 : g.outputs = os := by simpa using List.find?_some h
        have h2 := List.mem_of_find?_eq_some h
        rw [hl g h2 f hf o (by rw [h1]; exact hoin) (by rw [ho]; exact hoin)]
  cases h : fs.find? (fun f => f.outputs = os) with
  | some f =>
    obtain ⟨hf, ho⟩ := (one fs hu f).mp h
    exact ((one fs' hu' f).mpr ⟨hperm.mem_iff.mp hf, ho⟩).symm
  | none =>
    cases h' : fs'.find? (fun f => f.outputs = os) with
    | none => rfl
    | some g =>
      obtain ⟨hg, ho⟩ := (one fs' hu' g).mp h'
      rw [(one fs hu g).mpr ⟨hperm.mem_iff.mpr hg, ho⟩] at h
      cases h

theorem runTop_congr (fs fs' : List Func) (kw : List (String × Val)) (hl : fs.length = fs'.length)
    (hp : ∀ o, producer fs o = producer fs' o) (hd : ∀ p, pdefault fs p = pdefault fs' p) (req : Req)
    (hw : ∀ os, req = .whole os → fs.find? (fun f => f.outputs = os) = fs'.find? (fun f => f.outputs = os)) :
    runTop fs kw req = runTop fs' kw req := by
  have hrun : ∀ o s, run fs kw (fuelFor fs) o s = run fs' kw (fuelFor fs') o s := by
    intro o s; rw [fuelFor, fuelFor, hl]; exact run_congr fs fs' kw hp hd _ o s
  cases req with
  | name o => simp only [runTop, hrun]
  | whole os =>
    simp only [runTop, hw os rfl]
    cases fs'.find? (fun f => f.outputs = os) with
    | none => rfl
    | some f => simp only [argsWith_congr fs fs' kw hp hd _ _ hrun]

/-- well-formedness (unique names, unique outputs, acyclic by the same rank) survives any re-listing -/
theorem WFp.perm {fs fs' : List Func} {rank : String → Nat} (hw : WFp fs rank) (hperm : fs.Perm fs') : WFp fs' rank :=
  ⟨fun f hf g hg => hw.names f (hperm.mem_iff.mpr hf) g (hperm.mem_iff.mpr hg),
   uniqueOut_perm fs fs' hperm hw.uniq,
   fun f hf p hp g hg hb => hw.acyc f (hperm.mem_iff.mpr hf) p hp g
     (by rw [producer_perm fs fs' hperm hw.uniq]; exact hg) hb⟩

theorem leafFuncs_perm (fs fs' : List Func) (hperm : fs.Perm fs') : (leafFuncs fs).Perm (leafFuncs fs') := by
  unfold leafFuncs
  have : ∀ f : Func, (fs.any fun g => g.params.any fun pq => (alookup g.bound pq.1).isNone && f.outputs.contains pq.1) =
      (fs'.any fun g => g.params.any fun pq => (alookup g.bound pq.1).isNone && f.outputs.contains pq.1) :=
    fun f => hperm.any_eq
  simp only [this]
  exact hperm.filter _

theorem reqOf_whole_ne (f : Func) (h : f.outputs ≠ []) : ∀ os, reqOf f = .whole os → os ≠ [] := by
  intro os e
  unfold reqOf at e
  split at e
  · cases e
  · cases e; exact h

theorem callLeaf_perm (fs fs' : List Func) (hperm : fs.Perm fs') (kw : List (String × Val))
    (hrun : ∀ f ∈ fs, runTop fs kw (reqOf f) = runTop fs' kw (reqOf f)) : callLeaf fs kw = callLeaf fs' kw := by
  have hp := leafFuncs_perm fs fs' hperm
  unfold callLeaf
  split
  · next f h =>
    have h' : leafFuncs fs' = [f] := by rw [h] at hp; exact (List.singleton_perm.mp hp).symm
    have hf : f ∈ fs := by
      have : f ∈ leafFuncs fs := by rw [h]; simp
      exact (List.mem_filter.mp this).1
    rw [h']; simp only; rw [hrun f hf]
  · next hl =>
    split
    · next f h' =>
      exfalso
      rw [h'] at hp
      exact hl f (List.perm_singleton.mp hp)
    · rw [hp.length_eq]
/-- two functions that disagree on the default of the shared root argument `x` -/
def gU : Func := ⟨"g1", [("x", "x")], ["u"], [("x", .int 1)], []⟩
def gW : Func := ⟨"g2", [("x", "x"), ("u", "u")], ["w"], [("x", .int 2)], []⟩

end PF.Pipe
