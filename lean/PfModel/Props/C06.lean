import PfModel.Lemmas.MapPieces
import PfModel.Lemmas.MapPiecesSel
import PfModel.Lemmas.MapPiecesRange
import PfModel.Props.C01
/-!
C06 — Running a map in pieces (fixed_indices, learners) equals running it whole.
Model: `Model/MapPieces.lean` (`PF.Pieces`), on top of `PF.Map`.  The per-function theorems hold for every selection, every
previous store and every order; the pipeline-level statement is `C06_full_is_runMap` (the partial-run model with nothing
fixed on an empty folder *is* `PF.Map.runMap`) plus the per-function theorems under `reads`-hypotheses that say each part
reads the arguments the full run reads (`C06_pieces_partial` states exactly what is assumed).
-/
namespace PF.C06
open PF PF.Map PF.Pieces

/-- **The partial-run model extends the map model**: with no fixed indices, on an empty folder, `runPart` returns exactly
    what `PF.Map.runMap` (C01) returns — outputs, stored data, shapes, calls, generations; both refuse the same requests. -/
theorem C06_full_is_runMap (fs : List MFunc) (inputs : List (String × Val)) (ui : List (String × List Nat)) :
    (runPart fs inputs ui none []).map (·.res) = runMap fs inputs ui := by
  unfold runPart runMap runMapWith
  have : runFuncPart fs = fun shapes masks fixed old env f => runFuncPart fs shapes masks fixed old env f := rfl
  have hR : ∀ shapes masks, runFuncPart fs shapes masks none [] = runFuncWith opArray fs shapes masks := by
    intro shapes masks; funext env f; exact runFuncPart_full fs shapes masks env f
  simp only [validateFixed, hR]
  cases validateInputs fs inputs with
  | error e => rfl
  | ok _ =>
    simp only [bind, Except.bind, pure, Except.pure]
    split
    · rfl
    · cases mapShapes fs inputs (constructInternal fs ui) with
      | error e => rfl
      | ok sm =>
        simp only []
        cases runGensWith (runFuncWith opArray fs sm.1 sm.2) (generations fs) { inputs := inputs, store := [] } with
        | error e => rfl
        | ok r => rfl

/-- **Each partial run computes precisely the selected, still missing elements and leaves all others as they were.**
    For every previous store `old`, selection `sel` and environment: if the run of a mapped function succeeds, there are
    arguments `A` — the ones `_select_kwargs` delivers at each computed index — such that the calls are exactly one per index
    of `todo = [li < n | sel li ∧ li missing]` (in increasing order, never twice), and the storage of every output holds
    afterwards `f(A li)` at the indices of `todo` and what it held before everywhere else. -/
theorem C06_part (fs : List MFunc) (old : List (String × Slot)) (sel : Nat → Bool) (env : Env) (f : MFunc) (ms : MSpec)
    (shape : List Nat) (mask : List Bool) (r : FuncResult) (h : runMappedSel fs old sel env f ms shape mask = .ok r) :
    let n := prod (extOf mask shape)
    let todo := todoOf f.outputs n sel (oldCells old)
    todo.Nodup ∧ (∀ li, li ∈ todo ↔ li < n ∧ sel li = true ∧ missingIn f.outputs (oldCells old) li = true) ∧
    ∃ A : Nat → List (String × Val),
      (∀ li ∈ todo, selectArgs fs env f ms (shapeToKey (extOf mask shape) li) = .ok (A li)) ∧
      r.calls = todo.map (fun li => ({ name := f.name, args := A li } : Call)) ∧
      r.slots = f.outputs.map (fun o => (o, Slot.array shape mask (stepC f A todo (oldCells old) o))) ∧
      ∀ o li, cellLookup (stepC f A todo (oldCells old) o) li =
        if li ∈ todo then some (outVal f (A li) o) else cellLookup (oldCells old o) li := by
  refine ⟨todoOf_nodup _ _ _ _, fun li => mem_todoOf _ _ _ _ li, ?_⟩
  obtain ⟨A, hA, hr⟩ := runMappedSel_inv fs old sel env f ms shape mask r h
  refine ⟨A, hA, ?_, ?_, fun o li => lookup_stepC f A _ _ o li⟩
  · rw [hr]; rfl
  · rw [hr]; rfl

/-- the run with `fixed_indices` is the run with the selection `_mask_fixed_axes` computes -/
theorem C06_part_fixed (fs : List MFunc) (old : List (String × Slot)) (fixed : Option (List (String × Sel))) (env : Env) (f : MFunc)
    (ms : MSpec) (shape : List Nat) (mask : List Bool) (fm : Option (List Bool)) (h : fixedMask fixed ms shape mask = .ok fm) :
    runMappedPart fs old fixed env f ms shape mask = runMappedSel fs old (selOf fm) env f ms shape mask := by
  unfold runMappedPart
  rw [h]; rfl

/-- conversely, when the arguments read at the computed indices are `A`, the run succeeds with exactly that result -/
theorem C06_part_ok (fs : List MFunc) (old : List (String × Slot)) (sel : Nat → Bool) (env : Env) (f : MFunc) (ms : MSpec)
    (shape : List Nat) (mask : List Bool) (A : Nat → List (String × Val))
    (h : ∀ li ∈ todoOf f.outputs (prod (extOf mask shape)) sel (oldCells old),
      selectArgs fs env f ms (shapeToKey (extOf mask shape) li) = .ok (A li)) :
    runMappedSel fs old sel env f ms shape mask = .ok (selResult old sel f shape mask A) :=
  runMappedSel_ok fs old sel env f ms shape mask A h

/-- **Running one function in pieces.**  `runParts f n A sels C` is the iteration of the step of `C06_part`
    (`stepC f A (todoOf …) C`) over a list of selections — one `map(fixed_indices=…, cleanup=False)` per entry, each on the
    store the previous one left — when every part reads the arguments `A` (those of the full run) at the indices it computes.
    For **every** list of selections (any order, overlapping or not), starting from an empty store:
    the store ends up holding `f(A li)` exactly at the indices some part selected, and nothing elsewhere; no index is computed
    twice over all parts; the computed indices are exactly the selected ones. -/
theorem C06_pieces (f : MFunc) (n : Nat) (A : Nat → List (String × Val)) (hne : f.outputs ≠ []) (sels : List (Nat → Bool)) :
    let r := runParts f n A sels (fun _ => [])
    (∀ o ∈ f.outputs, ∀ li, cellLookup (r.1 o) li =
        if li < n ∧ ∃ s ∈ sels, s li = true then some (outVal f (A li) o) else none) ∧
    r.2.flatten.Nodup ∧ (∀ li, li ∈ r.2.flatten ↔ li < n ∧ ∃ s ∈ sels, s li = true) ∧ r.2.length = sels.length := by
  have hd : Dom f.outputs (fun _ => []) (fun _ => false) := by intro o _ li; simp [cellLookup]
  obtain ⟨h1, _, h3, h4, h5⟩ := runParts_spec f n A hne sels (fun _ => []) (fun _ => false) hd
  have hU : ∀ li, Ufn n sels (fun _ => false) li = true ↔ li < n ∧ ∃ s ∈ sels, s li = true := by
    intro li; simp [Ufn]
  refine ⟨?_, h3, fun li => (h4 li).trans (hU li), h5⟩
  intro o ho li
  rw [h1 o ho li]
  by_cases hc : li < n ∧ ∃ s ∈ sels, s li = true
  · rw [if_pos ((hU li).mpr hc), if_pos hc]
  · rw [if_neg (fun h => hc ((hU li).mp h)), if_neg hc]; simp [cellLookup]

/-- **Pieces that cover the index space store what one full run stores, and a final full run computes nothing.**
    If every external index is selected by some part then, in any order of the parts, the storage of every output read back
    with `to_array()` is the denoted array of C01 (`C01_stored`: what the full run stores, `C01_func`: what it returns), the
    parts' calls are a permutation of the full run's `0 … n-1` (each index exactly once), and a further run with nothing
    fixed finds no missing index. -/
theorem C06_pieces_cover (f : MFunc) (shape : List Nat) (mask : List Bool) (A : Nat → List (String × Val)) (hne : f.outputs ≠ [])
    (hl : shape.length = mask.length) (sels : List (Nat → Bool))
    (hcov : ∀ li, li < prod (extOf mask shape) → ∃ s ∈ sels, s li = true) :
    let n := prod (extOf mask shape)
    let r := runParts f n A sels (fun _ => [])
    (∀ o ∈ f.outputs, (Slot.array shape mask (r.1 o)).toVal = denoteArray f shape mask A o) ∧
    r.2.flatten.Perm (List.range n) ∧
    todoOf f.outputs n (fun _ => true) r.1 = [] := by
  obtain ⟨h1, h3, h4, _⟩ := C06_pieces f (prod (extOf mask shape)) A hne sels
  refine ⟨?_, ?_, ?_⟩
  · intro o ho
    unfold Slot.toVal denoteArray
    simp only []
    congr 1
    apply List.map_congr_left
    intro F hF
    have hin : InRange shape F := (mem_allIdx shape F).mp hF
    have hE : InRange (extOf mask shape) (extOf mask F) := inRange_ext mask shape F hin hl
    have hlt := ravel_lt _ _ hE
    rw [h1 o ho, if_pos ⟨hlt, hcov _ hlt⟩]
    simp only [elemAt]
  · rw [List.perm_ext_iff_of_nodup h3 List.nodup_range]
    intro li
    rw [h4 li, List.mem_range]
    exact ⟨fun h => h.1, fun h => ⟨h, hcov li h⟩⟩
  · unfold todoOf
    rw [List.filter_eq_nil_iff]
    intro li hli
    have hlt := List.mem_range.mp hli
    simp only [Bool.true_and, missingIn, List.any_eq_true, not_exists, not_and]
    intro o ho
    rw [h1 o ho, if_pos ⟨hlt, hcov _ hlt⟩]
    simp

/-- **Order of the parts is irrelevant**: two orders of the same parts leave the same stored elements and compute the same
    set of indices (each once). -/
theorem C06_pieces_order (f : MFunc) (n : Nat) (A : Nat → List (String × Val)) (hne : f.outputs ≠ []) (sels sels' : List (Nat → Bool))
    (hp : sels.Perm sels') :
    (∀ o ∈ f.outputs, ∀ li, cellLookup ((runParts f n A sels (fun _ => [])).1 o) li = cellLookup ((runParts f n A sels' (fun _ => [])).1 o) li) ∧
    (runParts f n A sels (fun _ => [])).2.flatten.Perm (runParts f n A sels' (fun _ => [])).2.flatten := by
  obtain ⟨h1, h3, h4, _⟩ := C06_pieces f n A hne sels
  obtain ⟨h1', h3', h4', _⟩ := C06_pieces f n A hne sels'
  have he : ∀ li, (∃ s ∈ sels, s li = true) ↔ (∃ s ∈ sels', s li = true) := by
    intro li
    constructor
    · rintro ⟨s, hs, h⟩; exact ⟨s, hp.mem_iff.mp hs, h⟩
    · rintro ⟨s, hs, h⟩; exact ⟨s, hp.mem_iff.mpr hs, h⟩
  constructor
  · intro o ho li
    rw [h1 o ho li, h1' o ho li]
    simp only [he li]
  · rw [List.perm_ext_iff_of_nodup h3 h3']
    intro li
    rw [h4 li, h4' li, he li]

/-- **Learners.**  Executing the points of a learner one at a time (`_execute_iteration_in_map_spec`: compute index `li`
    unless every output already has it), in any order and with repetitions, is a run in pieces with one single-index part per
    executed point.  It stores the same elements as the one run whose selection is the learner's sequence (`C06_pieces`) and
    computes the same indices, each once. -/
theorem C06_learners (f : MFunc) (n : Nat) (A : Nat → List (String × Val)) (hne : f.outputs ≠ []) (pts : List Nat) :
    let one := runParts f n A (pts.map fun li => fun j => j == li) (fun _ => [])
    let all := runParts f n A [fun j => pts.contains j] (fun _ => [])
    (∀ o ∈ f.outputs, ∀ li, cellLookup (one.1 o) li = cellLookup (all.1 o) li) ∧ one.2.flatten.Perm all.2.flatten := by
  obtain ⟨h1, h3, h4, _⟩ := C06_pieces f n A hne (pts.map fun li => fun j => j == li)
  obtain ⟨h1', h3', h4', _⟩ := C06_pieces f n A hne [fun j => pts.contains j]
  have he : ∀ li, (∃ s ∈ (pts.map fun li => fun j => j == li), s li = true) ↔ (∃ s ∈ [fun j => pts.contains j], s li = true) := by
    intro li
    simp only [List.mem_map, List.mem_singleton, exists_eq_left, List.contains_iff_mem]
    constructor
    · rintro ⟨s, ⟨p, hp, rfl⟩, h⟩
      have : li = p := by simpa using h
      subst this; exact hp
    · intro h; exact ⟨_, ⟨li, h, rfl⟩, by simp⟩
  constructor
  · intro o ho li
    rw [h1 o ho li, h1' o ho li]
    simp only [he li]
  · rw [List.perm_ext_iff_of_nodup h3 h3']
    intro li
    rw [h4 li, h4' li, he li]

/-- the sequence of a learner (`_sequence`) lists exactly the selected external indices, each once: the learners of one
    key stand for the part `map(fixed_indices=key)` -/
theorem C06_learner_sequence (fixed : Option (List (String × Sel))) (ms : MSpec) (shape : List Nat) (mask : List Bool) (l : List Nat)
    (h : learnerSeq fixed ms shape mask = .ok l) :
    ∃ fm, fixedMask fixed ms shape mask = .ok fm ∧ l.Nodup ∧ ∀ li, li ∈ l ↔ li < prod (extOf mask shape) ∧ selOf fm li = true := by
  unfold learnerSeq at h
  cases hf : fixedMask fixed ms shape mask with
  | error e => rw [hf] at h; cases h
  | ok fm =>
    rw [hf] at h
    simp only [bind, Except.bind, pure, Except.pure] at h
    cases h
    exact ⟨fm, rfl, List.Nodup.sublist List.filter_sublist List.nodup_range, fun li => by simp [List.mem_filter, List.mem_range]⟩

/-- with nothing fixed the repaired `_sequence` is `range(prod(external shape))` -/
theorem C06_learner_sequence_none (ms : MSpec) (shape : List Nat) (mask : List Bool) :
    learnerSeq none ms shape mask = .ok (List.range (prod (extOf mask shape))) := by
  unfold learnerSeq
  simp only [fixedMask, bind, Except.bind, pure, Except.pure]
  congr 1
  rw [List.filter_eq_self]
  intro li _; rfl

/-- DF-15, witness for the pinned code: for `x[i] -> y[i, j]` with three inputs and `internal_shape=(2,)` the old sequence
    `range(prod(shape))` has six points whose external keys wrap around: every element is computed twice. -/
theorem C06_legacy_sequence_wraps :
    legacySeq [3, 2] = [0, 1, 2, 3, 4, 5] ∧ (legacySeq [3, 2]).map (shapeToKey (extOf [true, false] [3, 2])) = [[0], [1], [2], [0], [1], [2]] ∧
    learnerSeq none default [3, 2] [true, false] = .ok [0, 1, 2] := by
  refine ⟨by decide, by decide, ?_⟩
  rw [C06_learner_sequence_none]; rfl

/-! ### which requests are rejected -/

theorem checkKey_ok_iff : ∀ (l : List (Sel × Nat)), checkKey l = .ok () ↔ ∀ sd ∈ l, ∃ r, selIndices sd.2 sd.1 = .ok r := by
  intro l
  induction l with
  | nil => simp [checkKey, pure, Except.pure]
  | cons sd r ih =>
    obtain ⟨s, d⟩ := sd
    simp only [checkKey, bind, Except.bind, List.mem_cons, forall_eq_or_imp]
    cases hs : selIndices d s with
    | error e => simp
    | ok l' => simp [ih]

theorem checkInput_ok_iff (inputs : List (String × Val)) (fx : List (String × Sel)) (pa : String × List (Option String)) :
    checkInput inputs fx pa = .ok () ↔
      ∀ v sh, alookup inputs pa.1 = some v → shapeOf v = some sh →
        ∀ sd ∈ List.zip (pa.2.map (axisSel fx)) sh, ∃ r, selIndices sd.2 sd.1 = .ok r := by
  unfold checkInput
  cases hv : alookup inputs pa.1 with
  | none => simp [pure, Except.pure]
  | some v =>
    cases hsh : shapeOf v with
    | none =>
      simp only [pure, Except.pure]
      constructor
      · intro _ v' sh' e1 e2
        cases e1
        rw [hsh] at e2; cases e2
      · intro _; rw [hsh]
    | some sh =>
      simp only []
      rw [hsh]
      simp only [checkKey_ok_iff]
      constructor
      · intro h v' sh' e1 e2
        cases e1
        rw [hsh] at e2; cases e2
        exact h
      · intro h; exact h v sh rfl hsh

theorem checkInputs_ok_iff (inputs : List (String × Val)) (fx : List (String × Sel)) :
    ∀ (axes : List (String × List (Option String))), checkInputs inputs fx axes = .ok () ↔
      ∀ pa ∈ axes, ∀ v sh, alookup inputs pa.1 = some v → shapeOf v = some sh →
        ∀ sd ∈ List.zip (pa.2.map (axisSel fx)) sh, ∃ r, selIndices sd.2 sd.1 = .ok r := by
  intro axes
  induction axes with
  | nil => simp [checkInputs, pure, Except.pure]
  | cons pa rest ih =>
    simp only [checkInputs, bind, Except.bind, List.mem_cons, forall_eq_or_imp]
    rw [← checkInput_ok_iff, ← ih]
    cases hc : checkInput inputs fx pa with
    | error e => simp
    | ok u => simp

/-- **Which requests `_validate_fixed_indices` rejects.**  A dictionary of fixed indices is accepted exactly when
    (1) every key built from it indexes every *input* array that carries a fixed axis — an integer must lie in `[-d, d)` for
    the dimension `d` (`selIndices_idx`), a slice is never out of range (`selIndices_slice`; only a zero step is refused);
    (2) every fixed axis is the name of an axis of some MapSpec array; (3) no fixed axis is reduced — taken whole by a
    function, or sliced with `:` in a function's MapSpec; (4) (round 3, repair DF-C06-internal-axis) every fixed axis is
    mapped over by some function — it is among the input indices of some MapSpec; an axis that exists only as an internal
    axis of outputs (`internal_shape`) cannot be selected. -/
theorem C06_reject (fs : List MFunc) (inputs : List (String × Val)) (fx : List (String × Sel)) :
    validateFixed fs inputs (some fx) = .ok () ↔
      (∀ pa ∈ mapspecAxes fs, ∀ v sh, alookup inputs pa.1 = some v → shapeOf v = some sh →
          ∀ sd ∈ List.zip (pa.2.map (axisSel fx)) sh, ∃ r, selIndices sd.2 sd.1 = .ok r) ∧
      (∀ kv ∈ fx, kv.1 ∈ knownAxes (mapspecAxes fs)) ∧
      (∀ kv ∈ fx, kv.1 ∉ reducedAxes fs (mapspecAxes fs)) ∧
      (∀ kv ∈ fx, kv.1 ∈ mappedAxes fs) := by
  unfold validateFixed
  simp only [bind, Except.bind]
  cases hc : checkInputs inputs fx (mapspecAxes fs) with
  | error e =>
    constructor
    · intro h; cases h
    · rintro ⟨h, _, _, _⟩
      have := (checkInputs_ok_iff inputs fx (mapspecAxes fs)).mpr h
      rw [hc] at this; cases this
  | ok u =>
    have h1 := (checkInputs_ok_iff inputs fx (mapspecAxes fs)).mp (by rw [hc])
    simp only []
    by_cases hk : fx.any (fun kv => !(knownAxes (mapspecAxes fs)).contains kv.1) = true
    · simp only [hk, ↓reduceIte]
      constructor
      · intro h; cases h
      · rintro ⟨_, h2, _, _⟩
        obtain ⟨kv, hkv, hb⟩ := List.any_eq_true.mp hk
        have := h2 kv hkv
        simp [this] at hb
    · simp only [hk, Bool.false_eq_true, ↓reduceIte]
      have h2 : ∀ kv ∈ fx, kv.1 ∈ knownAxes (mapspecAxes fs) := by
        intro kv hkv
        by_cases hm : kv.1 ∈ knownAxes (mapspecAxes fs)
        · exact hm
        · exact absurd (List.any_eq_true.mpr ⟨kv, hkv, by simp [hm]⟩) hk
      by_cases hr : fx.any (fun kv => (reducedAxes fs (mapspecAxes fs)).contains kv.1) = true
      · simp only [hr, ↓reduceIte]
        constructor
        · intro h; cases h
        · rintro ⟨_, _, h3, _⟩
          obtain ⟨kv, hkv, hb⟩ := List.any_eq_true.mp hr
          exact absurd (by simpa using hb) (h3 kv hkv)
      · simp only [hr, Bool.false_eq_true, ↓reduceIte]
        have h3 : ∀ kv ∈ fx, kv.1 ∉ reducedAxes fs (mapspecAxes fs) := by
          intro kv hkv hm
          exact hr (List.any_eq_true.mpr ⟨kv, hkv, by simpa using hm⟩)
        by_cases hi : fx.any (fun kv => !(mappedAxes fs).contains kv.1) = true
        · simp only [hi, ↓reduceIte]
          constructor
          · intro h; cases h
          · rintro ⟨_, _, _, h4⟩
            obtain ⟨kv, hkv, hb⟩ := List.any_eq_true.mp hi
            have := h4 kv hkv
            simp [this] at hb
        · simp only [hi, Bool.false_eq_true, ↓reduceIte, pure, Except.pure, true_iff]
          refine ⟨h1, h2, h3, ?_⟩
          intro kv hkv
          by_cases hm : kv.1 ∈ mappedAxes fs
          · exact hm
          · exact absurd (List.any_eq_true.mpr ⟨kv, hkv, by simp [hm]⟩) hi

/-- an integer outside `[-d, d)` is an `IndexError`; a zero step a `ValueError` -/
theorem C06_reject_class (d : Nat) :
    (∀ k : Int, ¬(-(d : Int) ≤ k ∧ k < d) → ∃ w, selIndices d (.idx k) = .error (.index w)) ∧
    (∀ a b, ∃ w, selIndices d (.slice a b (some 0)) = .error (.value w)) := by
  constructor
  · intro k hk; simp only [selIndices, if_neg hk]; exact ⟨_, rfl⟩
  · intro a b
    simp only [selIndices, (sliceRange_none_iff d a b (some 0)).mpr rfl]
    exact ⟨_, rfl⟩

/-- **The second clause: late rejection.**  `_validate_fixed_indices` only indexes *inputs*.  An out-of-range integer on an
    axis that only intermediate arrays carry passes it; `_mask_fixed_axes` then fails (NumPy's `IndexError`) when the
    selection of a function with that axis is built — the run of that function, and with it the whole request, is rejected
    with that error, after the earlier generations have run.  The mask is built exactly when every fixed entry is valid for
    the external dimension it meets. -/
theorem C06_reject_late (fs : List MFunc) (old : List (String × Slot)) (fx : List (String × Sel)) (env : Env) (f : MFunc) (ms : MSpec)
    (shape : List Nat) (mask : List Bool) :
    (∀ e, selLists (extOf mask (ms.outputIndices.map (fixedLookup fx))) (extOf mask shape) = .error e →
        runMappedPart fs old (some fx) env f ms shape mask = .error e) ∧
    (∀ ls, selLists (extOf mask (ms.outputIndices.map (fixedLookup fx))) (extOf mask shape) = .ok ls →
        ∃ m, fixedMask (some fx) ms shape mask = .ok (some m) ∧ m.length = prod (extOf mask shape) ∧
          ∀ li, li < prod (extOf mask shape) → selOf (some m) li = selected ls (shapeToKey (extOf mask shape) li)) := by
  constructor
  · intro e he
    unfold runMappedPart fixedMask
    simp only [bind, Except.bind, he]
  · intro ls hls
    refine ⟨_, by unfold fixedMask; simp only [bind, Except.bind, hls]; rfl, by simp, ?_⟩
    intro li hli
    simp [selOf, List.getD, hli]

/-- **A partition of one axis is a partition of the index space.**  When the parts differ from "everything" on one external
    axis only (position `pre.length`, size `d`; all other entries `slice(None)`), an external key is selected by a part
    exactly when its component on that axis is among the positions the part's `int | slice` selects.  So selections that
    cover `range(d)` cover every external index (hypothesis of `C06_pieces_cover`), and pairwise disjoint selections give
    pairwise disjoint parts. -/
theorem C06_partition (pre post : List Sel) (s : Sel) (dpre dpost : List Nat) (d : Nat) (l : List Nat)
    (hpre : ∀ x ∈ pre, x = Sel.full) (hpost : ∀ x ∈ post, x = Sel.full) (hl1 : pre.length = dpre.length) (hl2 : post.length = dpost.length)
    (hs : selIndices d s = .ok l) (E : List Nat) (hE : InRange (dpre ++ d :: dpost) E) :
    ∃ ls, selLists (pre ++ s :: post) (dpre ++ d :: dpost) = .ok ls ∧
      (selected ls E = true ↔ E.getD pre.length 0 ∈ l) := by
  refine ⟨_, selLists_one pre post s dpre dpost d l hpre hpost hl1 hl2 hs, ?_⟩
  have hlen := inRange_length _ _ hE
  -- split E along the shape
  have key : ∀ (dp : List Nat) (E : List Nat), InRange (dp ++ d :: dpost) E →
      (selected (dp.map List.range ++ l :: dpost.map List.range) E = true ↔ E.getD dp.length 0 ∈ l) := by
    intro dp
    induction dp with
    | nil =>
      intro E hE
      cases E with
      | nil => simp [InRange] at hE
      | cons e es =>
        simp only [List.nil_append, InRange] at hE
        simp only [List.map_nil, List.nil_append, selected, Bool.and_eq_true, List.contains_iff_mem, List.length_nil, List.getD_cons_zero]
        have full : ∀ (ds es : List Nat), InRange ds es → selected (ds.map List.range) es = true := by
          intro ds
          induction ds with
          | nil => intro es _; cases es <;> simp [selected]
          | cons x xs ih =>
            intro es h
            cases es with
            | nil => simp [InRange] at h
            | cons y ys =>
              simp only [InRange] at h
              simp [selected, List.mem_range, h.1, ih ys h.2]
        simp [full dpost es hE.2]
    | cons x xs ih =>
      intro E hE
      cases E with
      | nil => simp [InRange] at hE
      | cons e es =>
        simp only [List.cons_append, InRange] at hE
        simp only [List.map_cons, List.cons_append, selected, Bool.and_eq_true, List.contains_iff_mem, List.mem_range, List.length_cons,
          List.getD_cons_succ]
        rw [ih es hE.2]
        simp [hE.1]
  rw [hl1]
  exact key dpre E hE

/-- **Pipeline level, partial.**  Inside a whole-pipeline partial run (`runPart`, the generation loop of `PF.Map`), a mapped
    function whose selection is built and which reads, at the indices it computes, the arguments `A` returns `selResult`:
    its storage afterwards is one step `stepC f A (todoOf …) (oldCells old)` of `runParts` (`C06_pieces`).
    *Missing for the unconditional pipeline theorem*: the data-flow argument that, for a pipeline whose fixed axes pass
    `validateFixed` (not reduced), the arguments `selectArgs` reads from the partially filled upstream storage at a selected
    index are those of the full run (`hreads` with `A` = the full run's arguments).  The correspondence check evaluates that
    hypothesis on every generated case, on the model (`pieces.run` ends in a full run whose calls must be empty and whose
    store must equal `map.run`'s) and on the implementation (the parts' calls, with arguments, add up to the full run's). -/
theorem C06_pieces_partial (fs : List MFunc) (shapes : List (String × List Nat)) (masks : List (String × List Bool))
    (fixed : Option (List (String × Sel))) (old : List (String × Slot)) (env : Env) (f : MFunc) (ms : MSpec) (o : String)
    (sh : List Nat) (mk : List Bool) (fm : Option (List Bool)) (A : Nat → List (String × Val))
    (hms : f.mapspec = some ms) (hin : ms.inputs.isEmpty = false) (ho : f.outputs.head? = some o)
    (hs : alookup shapes o = some sh) (hk : alookup masks o = some mk) (hl : sh.length = mk.length)
    (hfm : fixedMask fixed ms sh mk = .ok fm)
    (hreads : ∀ li ∈ todoOf f.outputs (prod (extOf mk sh)) (selOf fm) (oldCells old),
      selectArgs fs env f ms (shapeToKey (extOf mk sh) li) = .ok (A li)) :
    runFuncPart fs shapes masks fixed old env f = .ok (selResult old (selOf fm) f sh mk A) := by
  unfold runFuncPart
  simp only [hms, hin, ho, hs, hk, hl, Bool.false_eq_true, ↓reduceIte, ne_eq, not_true_eq_false]
  rw [C06_part_fixed fs old fixed env f ms sh mk fm hfm]
  exact runMappedSel_ok fs old (selOf fm) env f ms sh mk A hreads

/-! ### round 2: the fuel of `pyRange` is sufficient -/

/-- **`range(a, b, st)` is not cut short by its fuel.** `rangeDist a b st` (the distance still to go: `b - a` for a positive
    step, `a - b` otherwise) bounds the number of elements; with at least that much fuel any additional fuel yields the same
    list, i.e. the recursion stopped because Python's loop condition failed. -/
theorem C06_range_fuel (st : Int) (hst : st ≠ 0) (fuel : Nat) (a b : Int) (k : Nat) (h : rangeDist a b st ≤ fuel) :
    pyRange (fuel + k) a b st = pyRange fuel a b st := pyRange_stable st hst fuel a b k h

/-- **The fuel `sliceRange` uses (`n + 1`) is enough for every slice**: `slice.indices(n)` clamps both bounds into `[-1, n]`,
    so no choice of `start`, `stop` and non-zero `step` makes the selection of `_mask_fixed_axes` depend on the fuel. -/
theorem C06_slice_fuel (n : Nat) (st : Int) (hst : st ≠ 0) (start stop : Option Int) (k : Nat) :
    pyRange (n + 1 + k) (sliceStart n st start) (sliceStop n st stop) st =
    pyRange (n + 1) (sliceStart n st start) (sliceStop n st stop) st := sliceRange_fuel n st hst start stop k

/-- the `i`-th element of a range is `a + i * st` -/
theorem C06_range_elements (st : Int) (fuel : Nat) (a b : Int) (i : Nat) (h : i < (pyRange fuel a b st).length) :
    (pyRange fuel a b st)[i]? = some (a + i * st) := pyRange_getElem st fuel a b i h

/-! ### non-vacuity -/

/-- the hypotheses of the fuel theorems hold for a concrete descending range with exactly the bounding fuel, and the range is
    not empty: `range(4, -1, -2) = [4, 2, 0]` with fuel 5 -/
example : rangeDist 4 (-1) (-2) ≤ 5 ∧ pyRange 5 4 (-1) (-2) = [4, 2, 0] ∧ pyRange (5 + 7) 4 (-1) (-2) = [4, 2, 0] ∧
    (1 : Nat) < (pyRange 5 4 (-1) (-2)).length := by decide

/-- negative steps and negative integers select what Python selects -/
example : sliceRange 4 none none (some (-2)) = some [3, 1] ∧ sliceRange 5 (some (-2)) (some (-7)) (some (-1)) = some [3, 2, 1, 0] ∧
    sliceRange 4 (some 1) none none = some [1, 2, 3] ∧ sliceRange 3 none none (some 0) = none := by decide

/-- the parts `{i: 0}`, `{i: slice(None, 0, -1)}` of an axis of size 3 are disjoint and cover it -/
example : (∀ e, e < 3 → (e ∈ [0] ∨ e ∈ [2, 1])) ∧ sliceRange 3 none (some 0) (some (-1)) = some [2, 1] := by decide

/-- a concrete run in pieces of `x[i] -> y[i]` over three elements: parts `{0}` and `{2, 1}` in both orders, then a full run -/
example :
    let f : MFunc := { name := "f", params := [("x", "x")], outputs := ["y"], mapspec := none, ret := none, internal := none,
                       defaults := [], bound := [] }
    let A : Nat → List (String × Val) := fun li => [("x", .int li)]
    (runParts f 3 A [fun j => j == 0, fun j => j == 2 || j == 1, fun _ => true] (fun _ => [])).2 = [[0], [1, 2], []] ∧
    (runParts f 3 A [fun j => j == 2 || j == 1, fun j => j == 0, fun _ => true] (fun _ => [])).2 = [[1, 2], [0], []] := by decide

end PF.C06
