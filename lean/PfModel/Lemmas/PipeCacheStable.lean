import PfModel.Model.PipeCacheStable
import PfModel.Lemmas.PipeCache
import PfModel.Lemmas.PipelineLog
/-! The Boolean flag `stableB` implies the well-formedness hypotheses `WF` and `WFp` of the C09 theorems
    (helper lemmas for `Props/C09Stable.lean`). -/
namespace PF.PipeCache
open PF PF.Pipe

/-! ### `eraseDups` keeps the length only of duplicate-free lists -/

theorem length_eraseDups_le {α} [BEq α] : ∀ (n : Nat) (l : List α), l.length ≤ n → l.eraseDups.length ≤ l.length := by
  intro n
  induction n with
  | zero =>
    intro l h
    cases l with
    | nil => simp
    | cons a as => simp at h
  | succ n ih =>
    intro l h
    cases l with
    | nil => simp
    | cons a as =>
      rw [List.eraseDups_cons]
      simp only [List.length_cons] at h ⊢
      have h1 : (as.filter fun b => !b == a).length ≤ as.length := List.length_filter_le _ _
      have h2 := ih (as.filter fun b => !b == a) (by omega)
      omega

theorem nodup_of_length_eraseDups {α} [BEq α] [LawfulBEq α] :
    ∀ (n : Nat) (l : List α), l.length ≤ n → l.eraseDups.length = l.length → l.Nodup := by
  intro n
  induction n with
  | zero =>
    intro l h _
    cases l with
    | nil => exact List.nodup_nil
    | cons a as => simp at h
  | succ n ih =>
    intro l h he
    cases l with
    | nil => exact List.nodup_nil
    | cons a as =>
      rw [List.eraseDups_cons] at he
      simp only [List.length_cons] at h he
      have h1 : (as.filter fun b => !b == a).length ≤ as.length := List.length_filter_le _ _
      have h2 := length_eraseDups_le _ (as.filter fun b => !b == a) (Nat.le_refl _)
      have h3 : (as.filter fun b => !b == a).length = as.length := by omega
      have h4 : as.filter (fun b => !b == a) = as := List.length_filter_eq_length_iff.mp h3 |> List.filter_eq_self.mpr
      rw [h4] at he
      have hn := ih as (by omega) (by omega)
      refine List.nodup_cons.mpr ⟨?_, hn⟩
      intro hm
      have := List.filter_eq_self.mp h4 a hm
      simp at this

theorem nodup_of_eraseDupsB {α} [BEq α] [LawfulBEq α] (l : List α) (h : (l.eraseDups.length == l.length) = true) : l.Nodup :=
  nodup_of_length_eraseDups l.length l (Nat.le_refl _) (by simpa using h)

/-! ### duplicate-free images -/

theorem inj_of_nodup_map {α β} (f : α → β) : ∀ (l : List α), (l.map f).Nodup → ∀ a ∈ l, ∀ b ∈ l, f a = f b → a = b := by
  intro l
  induction l with
  | nil => intro _ a ha; cases ha
  | cons x xs ih =>
    intro hn a ha b hb e
    simp only [List.map_cons, List.nodup_cons, List.mem_map, not_exists, not_and] at hn
    rcases List.mem_cons.mp ha with ea | ha <;> rcases List.mem_cons.mp hb with eb | hb
    · rw [ea, eb]
    · rw [ea] at e; exact absurd e.symm (hn.1 b hb)
    · rw [eb] at e; exact absurd e (hn.1 a ha)
    · exact ih hn.2 a ha b hb e

theorem uniqueOut_of_nodup : ∀ (fs : List Func), (fs.flatMap (·.outputs)).Nodup → UniqueOut fs := by
  intro fs
  induction fs with
  | nil => intro _ f hf; cases hf
  | cons x xs ih =>
    intro hn f hf g hg o hof hog
    simp only [List.flatMap_cons] at hn
    have hd := List.nodup_append.mp hn
    have hdis : ∀ h ∈ xs, o ∈ x.outputs → o ∈ h.outputs → False := by
      intro h hh hox hoh
      exact hd.2.2 o hox o (List.mem_flatMap.mpr ⟨h, hh, hoh⟩) rfl
    rcases List.mem_cons.mp hf with ef | hf <;> rcases List.mem_cons.mp hg with eg | hg
    · rw [ef, eg]
    · rw [ef] at hof; exact (hdis g hg hof hog).elim
    · rw [eg] at hog; exact (hdis f hf hog hof).elim
    · exact ih hd.2.1 f hf g hg o hof hog

theorem uniqueOut_of_B (fs : List Func) (h : uniqueOutB fs = true) : UniqueOut fs :=
  uniqueOut_of_nodup fs (nodup_of_eraseDupsB _ (by simpa [uniqueOutB] using h))

theorem uniqueNames_of_B (fs : List Func) (h : uniqueNamesB fs = true) :
    ∀ f ∈ fs, ∀ g ∈ fs, f.name = g.name → f = g :=
  inj_of_nodup_map (·.name) fs (nodup_of_eraseDupsB _ (by simpa [uniqueNamesB] using h))

/-! ### `rankedB` -/

theorem rankedB_spec (fs : List Func) (h : rankedB fs = true) (f : Func) (hf : f ∈ fs) (o : String) (ho : o ∈ f.outputs) :
    depth fs (fuelFor fs) o < fuelFor fs ∧
    ∀ pq ∈ f.params, alookup f.bound pq.1 = none → (producer fs pq.1).isSome →
      depth fs (fuelFor fs) pq.1 < depth fs (fuelFor fs) o := by
  unfold rankedB at h
  have h1 := List.all_eq_true.mp (List.all_eq_true.mp h f hf) o ho
  simp only [Bool.and_eq_true, decide_eq_true_eq, List.all_eq_true, Bool.or_eq_true] at h1
  refine ⟨h1.1, ?_⟩
  intro pq hpq hb hp
  rcases h1.2 pq hpq with (hb' | hp') | hlt
  · simp [hb] at hb'
  · cases hx : producer fs pq.1 <;> simp [hx] at hp hp'
  · exact hlt

theorem ranked_of_B (fs : List Func) (h : rankedB fs = true) : Ranked fs (depth fs (fuelFor fs)) := by
  intro o f hprod pq hpq hb hp
  have hm := producer_mem fs o f hprod
  exact (rankedB_spec fs h f hm.1 o hm.2).2 pq hpq hb hp

theorem depth_lt_of_B (fs : List Func) (h : rankedB fs = true) (o : String) : depth fs (fuelFor fs) o < fuelFor fs := by
  cases hprod : producer fs o with
  | none => simp [fuelFor, depth, hprod]
  | some f =>
    have hm := producer_mem fs o f hprod
    exact (rankedB_spec fs h f hm.1 o hm.2).1

/-- two outputs of one function have the same depth -/
theorem depth_same_producer (fs : List Func) (n : Nat) (o o' : String) (h : producer fs o = producer fs o') :
    depth fs (n + 1) o = depth fs (n + 1) o' := by
  simp only [depth, h]

/-! ### `consistentDefaultsB` -/

/-- only the injectivity of the printer on the default values that occur is needed -/
theorem consistentDefaults_of_B_on (enc : Val → String) (fs : List Func) (h : consistentDefaultsB enc fs = true)
    (hinj : ∀ f ∈ fs, ∀ g ∈ fs, ∀ kv ∈ f.defaults, ∀ kw ∈ g.defaults, enc kv.2 = enc kw.2 → kv.2 = kw.2) :
    ConsistentDefaults fs := by
  intro f hf g hg p v w hv hw
  unfold consistentDefaultsB at h
  have h1 := List.all_eq_true.mp (List.all_eq_true.mp (List.all_eq_true.mp (List.all_eq_true.mp h f hf) g hg) (p, v) hv) (p, w) hw
  simp only [bne_self_eq_false, Bool.false_or, beq_iff_eq] at h1
  exact hinj f hf g hg (p, v) hv (p, w) hw h1

theorem consistentDefaults_of_B (enc : Val → String) (fs : List Func) (h : consistentDefaultsB enc fs = true)
    (hinj : ∀ a b, enc a = enc b → a = b) : ConsistentDefaults fs :=
  consistentDefaults_of_B_on enc fs h (fun _ _ _ _ kv _ kw _ e => hinj kv.2 kw.2 e)

/-! ### the flag -/

theorem stableB_parts (enc : Val → String) (fs : List Func) (h : stableB enc fs = true) :
    rankedB fs = true ∧ uniqueOutB fs = true ∧ consistentDefaultsB enc fs = true ∧ uniqueNamesB fs = true := by
  unfold stableB at h
  simp only [Bool.and_eq_true] at h
  exact ⟨h.1.1.1, h.1.1.2, h.1.2, h.2⟩

/-! ### a rank on function names -/

/-- the rank of a function: the depth of its first output; a function without outputs sits above everything -/
def funcRank (fs : List Func) (f : Func) : Nat :=
  match f.outputs with
  | [] => fuelFor fs
  | o :: _ => depth fs (fuelFor fs) o

/-- the rank of a function name: the rank of the (first) function carrying the name -/
def nameRank (fs : List Func) (nm : String) : Nat :=
  match fs.find? (fun f => f.name == nm) with
  | none => 0
  | some f => funcRank fs f

theorem find_name (fs : List Func) (hn : ∀ f ∈ fs, ∀ g ∈ fs, f.name = g.name → f = g) (f : Func) (hf : f ∈ fs) :
    fs.find? (fun g => g.name == f.name) = some f := by
  cases hfind : fs.find? (fun g => g.name == f.name) with
  | none =>
    have := List.find?_eq_none.mp hfind f hf
    simp at this
  | some g =>
    have h1 := List.mem_of_find?_eq_some hfind
    have h2 := List.find?_some hfind
    simp only [beq_iff_eq] at h2
    rw [hn g h1 f hf h2]

theorem nameRank_mem (fs : List Func) (hn : ∀ f ∈ fs, ∀ g ∈ fs, f.name = g.name → f = g) (f : Func) (hf : f ∈ fs) :
    nameRank fs f.name = funcRank fs f := by
  simp only [nameRank, find_name fs hn f hf]

theorem wfp_of_parts (fs : List Func) (hn : ∀ f ∈ fs, ∀ g ∈ fs, f.name = g.name → f = g) (hu : UniqueOut fs)
    (hr : Ranked fs (depth fs (fuelFor fs))) (hd : ∀ o, depth fs (fuelFor fs) o < fuelFor fs) :
    WFp fs (nameRank fs) where
  names := hn
  uniq := hu
  acyc := by
    intro f hf p hp g hprod hb
    have hg := producer_mem fs p.1 g hprod
    -- rank of `g`: the depth of `p.1`
    have hrg : funcRank fs g = depth fs (fuelFor fs) p.1 := by
      cases hgo : g.outputs with
      | nil => rw [hgo] at hg; cases hg.2
      | cons o os =>
        simp only [funcRank, hgo]
        have ho : producer fs o = some g := (producer_some_iff fs hu o g).mpr ⟨hg.1, by rw [hgo]; simp⟩
        exact depth_same_producer fs (fs.length + 1) o p.1 (by rw [ho, hprod])
    rw [nameRank_mem fs hn g hg.1, nameRank_mem fs hn f hf, hrg]
    cases hfo : f.outputs with
    | nil => simp only [funcRank, hfo]; exact hd p.1
    | cons o os =>
      simp only [funcRank, hfo]
      have ho : producer fs o = some f := (producer_some_iff fs hu o f).mpr ⟨hf, by rw [hfo]; simp⟩
      exact hr o f ho p hp hb (by simp [hprod])

end PF.PipeCache
