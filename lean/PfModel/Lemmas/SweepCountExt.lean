import PfModel.Model.SweepCountExt
import PfModel.Lemmas.SweepProduct
/-! Lemmas for the round-3 count theorems of C17: sums of count tables, tables built by folding `bump`, `maxCount`,
`setCaches`, and the hashability-aware `filtered_sweep`. -/
namespace PF.Sweep

section General

theorem length_filter_filterMap {α β : Type} [DecidableEq β] (f : α → Option β) (l : List α) (t : β) :
    ((l.filterMap f).filter (fun r => decide (r = t))).length = (l.filter (fun x => decide (f x = some t))).length := by
  induction l with
  | nil => simp
  | cons x xs ih =>
    simp only [List.filterMap_cons, List.filter_cons]
    cases hx : f x with
    | none => simpa using ih
    | some t' =>
      by_cases e : t' = t
      · simp [e, List.filter_cons, ih]
      · simp [e, List.filter_cons, ih]

end General

section Tables
variable {V : Type} [DecidableEq V]
set_option linter.unusedSectionVars false

theorem tsum_bump (acc : Table V) (t : List V) : tsum (bump acc t) = tsum acc + 1 := by
  induction acc with
  | nil => simp [bump, tsum]
  | cons p r ih =>
    obtain ⟨u, n⟩ := p
    simp only [bump]
    split
    · simp only [tsum, List.map_cons, List.sum_cons]; omega
    · simp only [tsum, List.map_cons, List.sum_cons] at ih ⊢; omega

theorem countArgs_tsum (args : List Key) (combos : List (Dict V)) (acc cnt : Table V)
    (h : countArgs args combos acc = .ok cnt) : tsum cnt = tsum acc + combos.length := by
  induction combos generalizing acc with
  | nil =>
    simp only [countArgs, Except.ok.injEq] at h
    subst h; simp
  | cons c r ih =>
    simp only [countArgs] at h
    split at h
    · cases h
    · next t _ =>
      rw [ih (bump acc t) h, tsum_bump, List.length_cons]; omega

theorem foldl_bump_spec (rows : List (List V)) (acc : Table V) :
    (∀ t, cntGet (rows.foldl bump acc) t = cntGet acc t + (rows.filter (fun r => decide (r = t))).length) ∧
    ((acc.map Prod.fst).Nodup → ((rows.foldl bump acc).map Prod.fst).Nodup) ∧
    ((∀ p ∈ acc, p.2 > 0) → ∀ p ∈ rows.foldl bump acc, p.2 > 0) ∧
    tsum (rows.foldl bump acc) = tsum acc + rows.length := by
  induction rows generalizing acc with
  | nil => simp
  | cons x r ih =>
    obtain ⟨h1, h2, h3, h4⟩ := ih (bump acc x)
    simp only [List.foldl_cons]
    refine ⟨?_, fun hn => h2 (nodup_bump acc x hn), fun hp => h3 (pos_bump acc x hp), ?_⟩
    · intro t
      rw [h1 t, cntGet_bump, List.filter_cons]
      by_cases e : x = t <;> simp [e] <;> omega
    · rw [h4, tsum_bump, List.length_cons]; omega

theorem cntGet_of_mem (t : Table V) (hn : (t.map Prod.fst).Nodup) (p : List V × Nat) (hp : p ∈ t) : cntGet t p.1 = p.2 := by
  induction t with
  | nil => cases hp
  | cons q r ih =>
    obtain ⟨u, n⟩ := q
    simp only [List.map_cons, List.nodup_cons] at hn
    simp only [List.mem_cons] at hp
    rcases hp with rfl | hp
    · simp [cntGet]
    · have hne : u ≠ p.1 := by
        intro e; apply hn.1; rw [e]; exact List.mem_map_of_mem hp
      simp only [cntGet, hne, if_false]
      exact ih hn.2 hp

theorem cntGet_of_not_mem (t : Table V) (k : List V) (hk : k ∉ t.map Prod.fst) : cntGet t k = 0 := by
  induction t with
  | nil => simp [cntGet]
  | cons q r ih =>
    obtain ⟨u, n⟩ := q
    simp only [List.map_cons, List.mem_cons, not_or] at hk
    have hne : u ≠ k := fun e => hk.1 e.symm
    simp only [cntGet, hne, if_false]
    exact ih hk.2

theorem maxCount_none (t : Table V) : maxCount t = none ↔ t = [] := by
  cases t with
  | nil => simp [maxCount]
  | cons p r =>
    obtain ⟨u, n⟩ := p
    simp only [maxCount]
    split <;> simp

theorem maxCount_spec (t : Table V) (n : Nat) (h : maxCount t = some n) : (∃ p ∈ t, p.2 = n) ∧ ∀ p ∈ t, p.2 ≤ n := by
  induction t generalizing n with
  | nil => simp [maxCount] at h
  | cons p r ih =>
    obtain ⟨u, k⟩ := p
    simp only [maxCount] at h
    split at h
    · next hr =>
      simp only [Option.some.injEq] at h
      subst h
      rw [maxCount_none] at hr
      subst hr
      simp
    · next m hm =>
      simp only [Option.some.injEq] at h
      obtain ⟨⟨q, hq, hqm⟩, hle⟩ := ih m hm
      refine ⟨?_, ?_⟩
      · by_cases hkm : m ≤ k
        · exact ⟨(u, k), by simp, by simp only; omega⟩
        · exact ⟨q, by simp [hq], by omega⟩
      · intro p hp
        simp only [List.mem_cons] at hp
        rcases hp with rfl | hp
        · simp only; omega
        · have := hle p hp; omega

/-- the maximum of a count table is the largest number of combinations that share one key, when the table counts `f` -/
theorem maxCount_isMax (t : Table V) (n : Nat) (f : List V → Nat) (h : maxCount t = some n)
    (hc : ∀ k, cntGet t k = f k) (hn : (t.map Prod.fst).Nodup) : (∃ k, f k = n) ∧ ∀ k, f k ≤ n := by
  obtain ⟨⟨p, hp, hpn⟩, hle⟩ := maxCount_spec t n h
  refine ⟨⟨p.1, by rw [← hc, cntGet_of_mem t hn p hp, hpn]⟩, ?_⟩
  intro k
  rw [← hc]
  by_cases hk : k ∈ t.map Prod.fst
  · obtain ⟨q, hq, rfl⟩ := List.mem_map.mp hk
    rw [cntGet_of_mem t hn q hq]; exact hle q hq
  · rw [cntGet_of_not_mem t k hk]; omega

theorem maxExecutions_spec (cnt : List (String × Table V)) (mx : List (String × Nat)) (h : maxExecutions cnt = .ok mx) :
    mx.map Prod.fst = cnt.map Prod.fst ∧ ∀ kn ∈ mx, ∃ t, (kn.1, t) ∈ cnt ∧ maxCount t = some kn.2 := by
  induction cnt generalizing mx with
  | nil =>
    simp only [maxExecutions, Except.ok.injEq] at h
    subst h; simp
  | cons p r ih =>
    obtain ⟨o, t⟩ := p
    simp only [maxExecutions] at h
    split at h
    · cases h
    · next n hn =>
      split at h
      · cases h
      · next m hm =>
        simp only [Except.ok.injEq] at h
        subst h
        obtain ⟨i1, i2⟩ := ih m hm
        refine ⟨by simp [i1], ?_⟩
        intro kn hkn
        simp only [List.mem_cons] at hkn
        rcases hkn with rfl | hkn
        · exact ⟨t, by simp, hn⟩
        · obtain ⟨t', h1, h2⟩ := i2 kn hkn
          exact ⟨t', by simp [h1], h2⟩

theorem maxExecutions_error (cnt : List (String × Table V)) (e : Err) (h : maxExecutions cnt = .error e) :
    e = .value ∧ ∃ o, (o, []) ∈ cnt := by
  induction cnt with
  | nil => simp [maxExecutions] at h
  | cons p r ih =>
    obtain ⟨o, t⟩ := p
    simp only [maxExecutions] at h
    split at h
    · next hn =>
      rw [maxCount_none] at hn
      subst hn
      simp only [Except.error.injEq] at h
      exact ⟨h.symm, o, by simp⟩
    · split at h
      · next e' he =>
        simp only [Except.error.injEq] at h
        subst h
        obtain ⟨h1, o', h2⟩ := ih he
        exact ⟨h1, o', by simp [h2]⟩
      · cases h

end Tables

section Caches

theorem lookup_setCaches_not_mem (cache : Dict Bool) (mx : List (String × Nat)) (m : Int) (k : Key)
    (hk : k ∉ mx.map Prod.fst) : lookup (setCaches cache mx m) k = lookup cache k := by
  induction mx generalizing cache with
  | nil => rfl
  | cons p r ih =>
    simp only [List.map_cons, List.mem_cons, not_or] at hk
    simp only [setCaches, List.foldl_cons] at ih ⊢
    rw [ih _ hk.2, lookup_insert]
    have hne : ¬ p.1 = k := fun e => hk.1 e.symm
    simp [hne]

theorem lookup_setCaches_mem (cache : Dict Bool) (mx : List (String × Nat)) (m : Int) (k : Key)
    (hk : k ∈ mx.map Prod.fst) : ∃ n, (k, n) ∈ mx ∧ lookup (setCaches cache mx m) k = some (decide (m ≤ (n : Int))) := by
  induction mx generalizing cache with
  | nil => cases hk
  | cons p r ih =>
    obtain ⟨o, n⟩ := p
    by_cases hr : k ∈ r.map Prod.fst
    · obtain ⟨n', h1, h2⟩ := ih (insert cache o (decide (m ≤ (n : Int)))) hr
      exact ⟨n', by simp [h1], by simpa only [setCaches, List.foldl_cons] using h2⟩
    · simp only [List.map_cons, List.mem_cons] at hk
      rcases hk with rfl | hk
      · refine ⟨n, by simp, ?_⟩
        have := lookup_setCaches_not_mem (insert cache k (decide (m ≤ (n : Int)))) r m k hr
        simp only [setCaches, List.foldl_cons] at this ⊢
        rw [this, lookup_insert]; simp
      · exact absurd hk hr

end Caches

section Zip

theorem mem_zip_of_map_fst {α β : Type} (deps : List (String × α)) (r : List (String × β))
    (h : r.map Prod.fst = deps.map Prod.fst) (c : String × β) (hc : c ∈ r) :
    ∃ d, (d, c) ∈ deps.zip r ∧ d.1 = c.1 := by
  induction deps generalizing r with
  | nil =>
    cases r with
    | nil => cases hc
    | cons _ _ => simp at h
  | cons d ds ih =>
    cases r with
    | nil => cases hc
    | cons x xs =>
      simp only [List.map_cons, List.cons.injEq] at h
      simp only [List.mem_cons] at hc
      rcases hc with rfl | hc
      · exact ⟨d, by simp, h.1.symm⟩
      · obtain ⟨d', h1, h2⟩ := ih xs h.2 hc
        exact ⟨d', by simp [h1], h2⟩

theorem mem_of_mem_zip_left {α β : Type} (a : List α) (b : List β) (x : α) (y : β) (h : (x, y) ∈ a.zip b) : x ∈ a :=
  (List.of_mem_zip h).1

end Zip

section Hash
variable {V : Type} [DecidableEq V]

theorem projectAllH_ok (hashable : V → Bool) (ks : List Key) (combos ps : List (Dict V)) :
    projectAllH hashable ks combos = .ok ps ↔
      projectAll ks combos = .ok ps ∧ ∀ p ∈ ps, ∀ v ∈ vals p, hashable v = true := by
  induction combos generalizing ps with
  | nil => simp only [projectAllH, projectAll, Except.ok.injEq]; constructor
           · rintro rfl; simp
           · rintro ⟨rfl, _⟩; rfl
  | cons c cs ih =>
    simp only [projectAllH, projectAll]
    cases hp : projectD ks c with
    | error e => simp
    | ok p =>
      simp only []
      by_cases hh : (vals p).all hashable = true
      · simp only [hh, if_true]
        cases h1 : projectAllH hashable ks cs with
        | error e =>
          cases h2 : projectAll ks cs with
          | error e' => simp
          | ok ps' =>
            have : ¬ (projectAll ks cs = .ok ps' ∧ ∀ p ∈ ps', ∀ v ∈ vals p, hashable v = true) :=
              fun hx => by have := (ih ps').mpr hx; simp [h1] at this
            simp only [Except.ok.injEq, reduceCtorEq, false_iff, not_and]
            rintro rfl hall
            exact this ⟨h2, fun q hq => hall q (by simp [hq])⟩
        | ok ps' =>
          obtain ⟨i1, i2⟩ := (ih ps').mp h1
          simp only [i1, Except.ok.injEq]
          constructor
          · rintro rfl
            refine ⟨rfl, ?_⟩
            intro q hq
            simp only [List.mem_cons] at hq
            rcases hq with rfl | hq
            · simpa [List.all_eq_true] using hh
            · exact i2 q hq
          · rintro ⟨rfl, _⟩; rfl
      · simp only [hh]
        constructor
        · intro h; simp at h
        · rintro ⟨h1, h2⟩
          exfalso
          cases h3 : projectAll ks cs with
          | error e => simp [h3] at h1
          | ok ps' =>
            simp only [h3, Except.ok.injEq] at h1
            subst h1
            apply hh
            rw [List.all_eq_true]
            exact fun v hv => h2 p (by simp) v hv

end Hash
end PF.Sweep
