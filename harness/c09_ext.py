"""C09 extension streams: generator gaps of harness/props/c09.py, all judged by the property's OWN oracle.

Every stream drives a pipeline with a cache and an identical twin without one through the same steps; every call that
succeeds on the twin must return the equal value on the cached pipeline, and an immediately repeated identical call
must not re-execute a cached function whose entry the first call left resident (observed: a key with the function's
output name appeared in the container during the first call, and the call log of the repeat is not a sub-multiset of
the first call's).  The Lean model is not consulted here.

  ext:whole           requests for a WHOLE tuple output (`run(('a','b'), ...)`) mixed with requests for its members
  ext:pf-defaults     `pipeline[output].update_defaults` on ONE PipeFunc between equal calls
  ext:map-all-caches  `Pipeline.map` with every cache type, sequentially and under a thread pool
  ext:nested          `cache=True` inside a NestedPipeFunc / on the NestedPipeFunc itself
  ext:disk-shared     a DiskCache directory shared by two pipelines (same / different description) or two processes

Run as a script (`python c09_ext.py --child`) this module is the child process of ext:disk-shared (c).
"""
from __future__ import annotations

import collections
import contextlib
import copy
import io
import itertools
import json
import os
import subprocess
import sys
import tempfile
import time

import pfimport  # noqa: F401
from pfimport import exc_enum
from pipefunc import NestedPipeFunc, Pipeline

import c09_values
import mapgen
import pipegen
import terms

PY = os.environ.get("VERIF_PYTHON", "/venv/bin/python")
P_RICH = 0.35        # share of the generated histories whose argument values get representation freedom (harness/c09_values.py)
OK_TWIN_ERR = (None, "UnusedParametersError")


def _c09():
    import props.c09 as c09      # lazily: props.c09 imports this module
    return c09


def _quiet():
    return contextlib.redirect_stdout(io.StringIO())


# ---------------------------------------------------------------------------------------------- building
def _cache_args(cfg, base, cache_dir=None):
    if cfg is None:
        return {}
    kw = dict(cfg.get("kwargs") or {})
    if cfg["type"] == "disk":
        kw["cache_dir"] = cache_dir or tempfile.mkdtemp(dir=base)      # never the default directory
        kw.setdefault("lru_shared", False)
    return {"cache_type": cfg["type"], "cache_kwargs": kw or None}


def _on(o):
    """JSON output name (a string or a list of names) → what pipefunc takes (a string or a tuple)."""
    return o if isinstance(o, str) else tuple(o)


def _js(o):
    return o if isinstance(o, str) else list(o)


def build_ext(case, base, cached=True, cache_dir=None):
    """The real pipeline of a case (optionally with two of its functions inside a NestedPipeFunc)."""
    c09 = _c09()
    log = terms.CallLog()
    names = set(case["cached"]) if cached else set()
    pfs = {f["name"]: c09.make_pf(f, log, f["name"] in names) for f in case["funcs"]}
    nest = case.get("nest")
    with _quiet():
        if nest:
            on = nest.get("output_name")
            nf = NestedPipeFunc([pfs[n] for n in nest["members"]], output_name=None if on is None else _on(on))
            top, placed = [], False
            for f in case["funcs"]:
                if f["name"] in nest["members"]:
                    if not placed:
                        top.append(nf)
                        placed = True
                else:
                    top.append(pfs[f["name"]])
        else:
            top = [pfs[f["name"]] for f in case["funcs"]]
        p = Pipeline(top, **(_cache_args(case["cache"], base, cache_dir) if cached else {}))
    if nest and cached and nest.get("cache") is not None:
        for f in p.functions:                               # the pipeline holds a copy (which re-derives the flag from the members)
            if isinstance(f, NestedPipeFunc):
                f.cache = bool(nest["cache"])               # `cache=True` on the NestedPipeFunc itself
    return p, log


def units(case):
    """output name (canonical JSON string) of every top-level function → the logged names that run when it executes."""
    nest = case.get("nest") or {"members": []}
    out = {}
    for f in case["funcs"]:
        if f["name"] not in nest["members"]:
            out[json.dumps(f["outputs"])] = [f["name"]]
    return out


def snap(p):
    """Resident keys of the cache container, as (output names, repr of the rest)."""
    try:
        d = p.cache.cache
        keys = list(d.keys())
    except Exception:  # noqa: BLE001
        return None
    out = set()
    for k in keys:
        if isinstance(k, tuple) and len(k) == 2:
            on = k[0]
            out.add((json.dumps([on] if isinstance(on, str) else list(on)), repr(k[1])))
    return out


def observe(p, log, call):
    c09 = _c09()
    before = snap(p)
    obs = c09.observe(p, log, dict(call, out=_on(call["out"])))
    after = snap(p)
    if before is not None and after is not None:
        obs["put"] = sorted({k[0] for k in after - before})      # output names (JSON) whose key appeared during this call
    return obs


def apply_step(p, step):
    try:
        with _quiet():
            if "pf_defaults" in step:
                s = step["pf_defaults"]
                p[_on(s["o"]) if len(s["o"]) > 1 else s["o"][0]].update_defaults({k: c09_values.dec(v) for k, v in s["d"]})
            elif "pl_defaults" in step:
                s = step["pl_defaults"]                  # Pipeline.update_defaults, also with overwrite=True (every other default is dropped)
                p.update_defaults({k: c09_values.dec(v) for k, v in s["d"]}, overwrite=bool(s.get("overwrite")))
            else:
                raise ValueError(f"unknown step {step}")
    except Exception as e:  # noqa: BLE001
        return exc_enum(e)
    return None


def run_hist(case, base):
    try:
        pc, lc = build_ext(case, base, cached=True)
        pu, lu = build_ext(case, base, cached=False)
    except Exception as e:  # noqa: BLE001
        return {"construct": exc_enum(e), "msg": str(e)[:200]}
    steps = []
    for step in case["history"]:
        if "call" in step:
            u = observe(pu, lu, step["call"])
            c = observe(pc, lc, step["call"])
            steps.append({"c": c, "u": u})
        else:
            eu = apply_step(pu, step)
            ec = apply_step(pc, step)
            steps.append({"mut": [ec, eu]})
            if ec or eu:
                break
    return {"steps": steps}


# ---------------------------------------------------------------------------------------------- judging
def is_small(case):
    c = case.get("cache") or {}
    return bool(c.get("kwargs") and (c["kwargs"].get("max_size") or 999) < 8)


def _sub_multiset(a, b):
    ca, cb = collections.Counter(a), collections.Counter(b)
    return all(cb[k] >= n for k, n in ca.items())


def first_failure(case, impl):
    """(step index, what, class) of the first failure of the property on the implementation's own answers, or None."""
    if "construct" in impl:
        return -1, f"valid pipeline refused at construction: {impl['construct']}", "construct"
    small = is_small(case)
    un = units(case)
    nested_members = list((case.get("nest") or {}).get("members", []))
    prev = None          # (index, call, observation) of the directly preceding call step
    for i, (step, ob) in enumerate(zip(case["history"], impl["steps"])):
        if "call" not in step:
            prev = None
            if bool(ob["mut"][0]) != bool(ob["mut"][1]):
                return i, f"a mutation is refused on one side only (cached: {ob['mut'][0]}, twin: {ob['mut'][1]})", "mutation"
            continue
        c, u = ob["c"], ob["u"]
        if "err" in u:
            prev = None
            continue
        if "err" in c:
            return i, f"call succeeds without cache but raises {c['err']} with the cache", "value"
        if c["value"] != u["value"]:
            return i, "cached pipeline returns another value than the uncached twin", "value"
        if step["call"]["full"] and c.get("full") != u.get("full"):
            return i, "full_output of the cached pipeline differs from the uncached twin", "value"
        if prev is not None and not small and c09_values.call_key(prev[1]) == c09_values.call_key(step["call"]) and "err" not in prev[2]:
            # equal ARGUMENTS: the same values, however they were built and in whatever order the keywords come
            first = prev[2]
            if not _sub_multiset(c["calls"], first["calls"]):
                return i, f"an immediately repeated identical call executes {c['calls']}, the first one executed only {first['calls']}", "reexec"
            for put in first.get("put", []):
                ran = un.get(put, nested_members)        # a key of no top-level function is the NestedPipeFunc's
                again = [n for n in ran if n in c["calls"] and n in first["calls"]]
                if again:
                    return i, (f"cached function {again} is executed again by an immediately repeated identical call although the "
                               f"first call left its entry {put} resident"), "reexec"
        prev = (i, step["call"], c)
    return None


def nontrivial(impl):
    return any("c" in ob and "err" not in ob["u"] and "err" not in ob["c"] and len(ob["c"]["calls"]) < len(ob["u"]["calls"])
               for ob in impl.get("steps", []))


def _clean(impl):
    return "steps" in impl and all(("mut" in ob and not ob["mut"][0] and not ob["mut"][1]) or
                                   ("u" in ob and ob["u"].get("err") in OK_TWIN_ERR) for ob in impl["steps"])


def shrink(case, base, klass, budget=40):
    """Delete steps / cached names while a failure of the same class remains at the last step."""
    impl = run_hist(case, base)
    ff = first_failure(case, impl)
    if ff is None or ff[0] < 0:
        return case, impl, ff
    best = dict(case, history=case["history"][:ff[0] + 1])
    changed = True
    while changed and budget > 0:
        changed = False
        cands = [dict(best, history=best["history"][:k] + best["history"][k + 1:]) for k in range(len(best["history"]) - 1)]
        cands += [dict(best, cached=[n for n in best["cached"] if n != name]) for name in best["cached"]]
        for cand in cands:
            budget -= 1
            ci = run_hist(cand, base)
            cf = first_failure(cand, ci) if _clean(ci) else None
            if cf is not None and cf[2] == klass and cf[0] == len(cand["history"]) - 1:
                best, changed = cand, True
                break
            if budget <= 0:
                break
    impl = run_hist(best, base)
    return best, impl, first_failure(best, impl)


def judge_hist(ctx, stream, case, impl, base):
    """Record one history; a difference is re-run twice before it is reported (no flaky verdicts)."""
    ctx.record(case, nontrivial=nontrivial(impl))
    for kind in case.get("rich") or []:
        ctx.count(f"{stream}:rich-values:{kind}")
    ff = first_failure(case, impl)
    if ff is None:
        return True
    for _ in range(2):
        again = first_failure(case, run_hist(case, base))
        if again is None or again[:2] != ff[:2]:
            ctx.count(f"{stream}:flaky-difference-not-reported")
            return True
    sc, si, sf = shrink(case, base, ff[2])
    if sf is None:
        sc, si, sf = case, impl, ff
    ob = si["steps"][sf[0]] if "steps" in si and 0 <= sf[0] < len(si["steps"]) else si
    ctx.count(f"{stream}:property-failure:{sf[2]}")
    ctx.violation(sc, f"[{stream}] {sf[1]} (step {sf[0]} of the history)", impl={"step": sf[0], "observed": ob,
                                                                              "previous": si["steps"][sf[0] - 1] if sf[0] > 0 and "steps" in si else None})
    return False


# ---------------------------------------------------------------------------------------------- generators (histories)
def pick_cfg(rng):
    r = rng.random()
    if r < 0.35:
        return {"type": "simple"}
    if r < 0.55:
        return {"type": "lru", "kwargs": {"shared": False}}
    if r < 0.67:
        return {"type": "lru", "kwargs": {"shared": False, "max_size": rng.choice([1, 2])}}
    if r < 0.85:
        return {"type": "hybrid", "kwargs": {"shared": False}}
    return {"type": "disk"}


def cfg_tag(cfg):
    return cfg["type"] + ("-small" if is_small({"cache": cfg}) else "")


def subsets(rng, names, limit=3):
    if len(names) <= limit:
        return [list(s) for k in range(1, len(names) + 1) for s in itertools.combinations(names, k)]
    allsub = [list(s) for k in range(1, len(names) + 1) for s in itertools.combinations(names, k)]
    return rng.sample(allsub, 4)


def _outs_of(pu):
    return list(pu.output_to_func)             # strings and whole tuples


def fresh_call(rng, pu, out, p_roots_only=0.65):
    c09 = _c09()
    try:
        combos = sorted(pu.arg_combinations(out))
    except Exception:  # noqa: BLE001
        return None
    if not combos:
        return None
    flat = {n for o in _outs_of(pu) for n in ((o,) if isinstance(o, str) else o)}
    roots_only = [c for c in combos if not any(k in flat for k in c)]
    combo = rng.choice(roots_only) if roots_only and rng.random() < p_roots_only else rng.choice(combos)
    try:
        dn = set(pu.defaults)
    except Exception:  # noqa: BLE001
        dn = set()
    kw = [[k, c09.val(k, rng.randint(0, 1))] for k in combo if not (k in dn and rng.random() < 0.4)]
    return {"out": _js(out), "kw": kw, "full": rng.random() < 0.3}


def variant_call(rng, pu, earlier):
    """A call derived from an earlier one: identical, other full_output, other value, or another name of the same function."""
    c09 = _c09()
    c = copy.deepcopy(rng.choice(earlier))
    r = rng.random()
    if r < 0.3:
        c["full"] = not c["full"]
    elif r < 0.5 and c["kw"]:
        e = rng.choice(c["kw"])
        e[1] = c09.val(e[0], rng.randint(0, 1))
    elif r < 0.85:
        try:
            f = pu.output_to_func[_on(c["out"])]
            alts = [f.output_name] + (list(f.output_name) if isinstance(f.output_name, tuple) else [])
            c["out"] = _js(rng.choice(alts))
        except Exception:  # noqa: BLE001
            pass
    return c


def gen_history(rng, case, base, length, pick_out, mut_gen=None, p_mut=0.0, p_repeat=0.3, p_variant=0.3, p_roots_only=0.65):
    """Generate the history online against the twin (calls are valid by construction); returns the case or None."""
    try:
        pu, lu = build_ext(case, base, cached=False)
    except Exception:  # noqa: BLE001
        return None
    funcs = copy.deepcopy(case["funcs"])
    earlier, hist = [], []
    pending = None        # a call to be repeated right after a mutation
    for _ in range(length):
        if mut_gen is not None and hist and rng.random() < p_mut:
            step = mut_gen(rng, funcs)
            if step is None:
                continue
            if apply_step(pu, step):
                return None                     # refused on the twin, which may now be half-modified: drop the history
            hist.append(step)
            if earlier:
                pending = copy.deepcopy(earlier[-1])
            continue
        r = rng.random()
        if pending is not None and r < 0.8:
            c, pending = pending, None
            if rng.random() < 0.5 and c["kw"]:
                try:
                    dn = set(pu.defaults)
                except Exception:  # noqa: BLE001
                    dn = set()
                c["kw"] = [e for e in c["kw"] if e[0] not in dn]          # now use the (new) default
        elif earlier and r < p_repeat:
            c = copy.deepcopy(earlier[-1])                             # immediate identical repeat
        elif earlier and r < p_repeat + p_variant:
            c = variant_call(rng, pu, earlier)
        else:
            c = fresh_call(rng, pu, pick_out(rng, pu), p_roots_only)
        if c is None:
            continue
        if observe(pu, lu, c).get("err") not in OK_TWIN_ERR:
            continue
        earlier.append(c)
        hist.append({"call": c})
    if not any("call" in s for s in hist):
        return None
    if rng.random() < P_RICH:
        hist, styles = c09_values.richify_calls(rng, hist)
        return dict(case, history=hist, rich=sorted(set(styles.values())))
    return dict(case, history=hist)


# ---------------------------------------------------------------------------------------------- stream 1: whole tuples
def _pick_out_whole(rng, pu):
    outs = _outs_of(pu)
    tuples = [o for o in outs if isinstance(o, tuple)]
    r = rng.random()
    if tuples and r < 0.45:
        return rng.choice(tuples)
    if tuples and r < 0.75:
        return rng.choice(rng.choice(tuples))
    return rng.choice(outs)


def whole_family():
    """Exhaustive family: g(a)→(c,e), f(c,x)→d; histories of two calls over whole/member/downstream requests."""
    funcs = [{"name": "g", "params": [["a", "a"]], "outputs": ["c", "e"], "defaults": [], "bound": []},
             {"name": "f", "params": [["c", "c"], ["e", "x"]], "outputs": ["d"], "defaults": [], "bound": []}]
    c09 = _c09()
    calls = [{"out": o, "kw": [["a", c09.val("a", a)]], "full": full}
             for o in (["c", "e"], "c", "e", "d") for a in (0, 1) for full in (False, True)]
    calls += [{"out": "d", "kw": [["c", c09.val("c", 0)], ["e", c09.val("e", 0)]], "full": False}]
    for cached in (["g"], ["f"], ["f", "g"]):
        for hist in itertools.product(calls, repeat=2):
            yield {"kind": "ext:whole", "funcs": funcs, "cached": cached, "cache": {"type": "simple"},
                   "history": [{"call": copy.deepcopy(c)} for c in hist]}


def gen_whole_desc(rng):
    for _ in range(50):
        desc = pipegen.gen_dag(rng, max_funcs=rng.choice([1, 2, 2, 3, 3, 4]), roots=rng.choice([1, 2, 2, 3]), p_tuple=0.55,
                               p_bound=0.2, p_default=0.3)
        if any(len(f["outputs"]) > 1 for f in desc["funcs"]):
            return desc
    return None


def stream_whole(ctx, base, deadline):
    rng = ctx.rng
    stream = "ext:whole"
    fam = list(whole_family())
    if ctx.tier == "quick":
        fam = rng.sample(fam, min(len(fam), 90))
    cases = fam
    ctx.count(f"{stream}:family", len(fam))
    for _ in range(ctx.n(100, 2000)):
        desc = gen_whole_desc(rng)
        if desc is None:
            continue
        names = [f["name"] for f in desc["funcs"]]
        for sub in subsets(rng, names):
            cfg = pick_cfg(rng)
            case = gen_history(rng, {"kind": stream, "funcs": desc["funcs"], "cached": sub, "cache": cfg, "history": []}, base,
                               rng.randint(2, 6), _pick_out_whole)
            if case is None:
                ctx.skip(f"{stream}:history-not-generated")
                continue
            cases.append(case)
    for case in cases:
        if time.time() > deadline:
            ctx.count(f"{stream}:budget-cut")
            break
        impl = run_hist(case, base)
        ctx.count(f"{stream}:cache:{cfg_tag(case['cache'])}")
        for s, ob in zip(case["history"], impl.get("steps", [])):
            if "call" in s:
                kind = "whole-tuple" if isinstance(s["call"]["out"], list) else "single"
                ctx.count(f"{stream}:call:{kind}" + (":full" if s["call"]["full"] else ""))
                if "err" not in ob["u"] and "err" not in ob["c"] and len(ob["c"]["calls"]) < len(ob["u"]["calls"]):
                    ctx.count(f"{stream}:hit:{kind}")
        judge_hist(ctx, stream, case, impl, base)


# ---------------------------------------------------------------------------------------------- stream 2: PipeFunc.update_defaults
def _gen_pf_defaults(rng, funcs):
    outs_all = pipegen.all_outputs({"funcs": funcs})
    if rng.random() < 0.3:
        roots = sorted({p for f in funcs for p, _ in f["params"] if p not in outs_all and p not in {b[0] for b in f["bound"]}})
        if roots:
            ks = rng.sample(roots, min(len(roots), rng.choice([1, 1, 2])))
            tag = lambda k: {"s": f"pld:{k}:{rng.randint(0, 1)}"}      # noqa: E731
            d = [[k, c09_values.wrap(rng.choice(list(c09_values.KINDS)), tag(k), 0) if rng.random() < 0.3 else tag(k)] for k in ks]
            return {"pl_defaults": {"d": d, "overwrite": rng.random() < 0.5}}
    f = rng.choice(funcs)
    bound = {b[0] for b in f["bound"]}
    roots = [p for p, _ in f["params"] if p not in outs_all and p not in bound]
    unique = [p for p in roots if not any(p == q for g in funcs if g is not f for q, _ in g["params"])]
    pool = unique if unique and rng.random() < 0.9 else roots
    if not pool:
        return None
    k = rng.choice(pool)
    return {"pf_defaults": {"o": f["outputs"], "d": [[k, {"s": f"pfd:{k}:{rng.randint(0, 1)}"}]], "unique": k in unique}}


def stream_pf_defaults(ctx, base, deadline):
    rng = ctx.rng
    stream = "ext:pf-defaults"
    made = 0
    for _ in range(ctx.n(260, 5000)):
        if time.time() > deadline:
            ctx.count(f"{stream}:budget-cut")
            break
        desc = pipegen.gen_dag(rng, max_funcs=rng.choice([1, 2, 2, 3, 3]), roots=rng.choice([2, 3, 4]), p_bound=0.15, p_default=0.3)
        names = [f["name"] for f in desc["funcs"]]
        sub = [n for n in names if rng.random() < 0.7] or [rng.choice(names)]
        cfg = pick_cfg(rng)
        case = gen_history(rng, {"kind": stream, "funcs": desc["funcs"], "cached": sub, "cache": cfg, "history": []}, base,
                           rng.randint(3, 7), lambda r, pu: r.choice([o for o in _outs_of(pu)]), mut_gen=_gen_pf_defaults, p_mut=0.35)
        if case is None:
            ctx.skip(f"{stream}:history-not-generated-or-mutation-refused")
            continue
        if not any("pf_defaults" in s or "pl_defaults" in s for s in case["history"]):
            ctx.skip(f"{stream}:no-mutation-drawn")
            continue
        made += 1
        impl = run_hist(case, base)
        ctx.count(f"{stream}:cache:{cfg_tag(cfg)}")
        for s, ob in zip(case["history"], impl.get("steps", [])):
            if "pl_defaults" in s:
                ctx.count(f"{stream}:pipeline-update_defaults:" + ("overwrite" if s["pl_defaults"]["overwrite"] else "merge"))
            if "pf_defaults" in s:
                ctx.count(f"{stream}:update:" + ("unique-parameter" if s["pf_defaults"]["unique"] else "shared-parameter"))
                if ob["mut"][0] and ob["mut"][0] == ob["mut"][1]:
                    ctx.count(f"{stream}:refused-on-both-sides:{ob['mut'][0]}")
        judge_hist(ctx, stream, case, impl, base)
    ctx.count(f"{stream}:histories", made)


# ---------------------------------------------------------------------------------------------- stream 4: nested
def _gen_nest(rng, desc):
    funcs = desc["funcs"]
    pairs = [(a, b) for a in funcs for b in funcs if a is not b and any(p in a["outputs"] for p, _ in b["params"])]
    if not pairs:
        return None
    a, b = rng.choice(pairs)
    r = rng.random()
    if r < 0.45:
        on = None
    elif r < 0.7:
        on = _js(b["outputs"][0] if len(b["outputs"]) == 1 else b["outputs"])
    else:
        extra = [o for o in a["outputs"] if rng.random() < 0.6]
        on = list(b["outputs"]) + extra
        on = on[0] if len(on) == 1 else on
    return {"members": [a["name"], b["name"]], "output_name": on, "cache": None}


def stream_nested(ctx, base, deadline):
    """`cache=True` inside a NestedPipeFunc makes its inner Pipeline create a shared LRUCache of its own (one manager process
    per construction, ~0.1 s), so the number of cases with a cached member is budgeted separately."""
    rng = ctx.rng
    stream = "ext:nested"
    inner_left = ctx.n(6, 200)
    for _ in range(ctx.n(70, 1400)):
        if time.time() > deadline:
            ctx.count(f"{stream}:budget-cut")
            break
        desc = pipegen.gen_dag(rng, max_funcs=rng.choice([2, 3, 3, 4]), roots=rng.choice([1, 2, 2, 3]), p_tuple=0.3, p_bound=0.2, p_default=0.3)
        nest = _gen_nest(rng, desc)
        if nest is None:
            ctx.skip(f"{stream}:no-producer-consumer-pair")
            continue
        names = [f["name"] for f in desc["funcs"]]
        outer = [n for n in names if n not in nest["members"]]
        proto = {"kind": stream, "funcs": desc["funcs"], "nest": nest, "cached": [], "cache": None, "history": []}
        try:
            build_ext(proto, base, cached=False)
        except Exception as e:  # noqa: BLE001
            ctx.skip(f"{stream}:twin-construction:{exc_enum(e)}")
            continue
        plans = []
        if inner_left > 0:
            inner_left -= 1
            sub = [n for n in nest["members"] if rng.random() < 0.6] or [rng.choice(nest["members"])]
            plans.append((sorted(sub + [n for n in outer if rng.random() < 0.5]), rng.choice([None, None, None, True, False])))
        plans.append(([n for n in outer if rng.random() < 0.6], True))          # cache on the NestedPipeFunc itself only
        for sub, ncache in plans:
            cfg = pick_cfg(rng)
            nst = dict(nest, cache=ncache)
            case = gen_history(rng, dict(proto, nest=nst, cached=sub, cache=cfg), base, rng.randint(2, 6),
                               lambda r, pu: r.choice(_outs_of(pu)), p_repeat=0.35, p_roots_only=0.45)
            if case is None:
                ctx.skip(f"{stream}:history-not-generated")
                continue
            impl = run_hist(case, base)
            inner = [n for n in sub if n in nest["members"]]
            eff = ncache if ncache is not None else bool(inner)
            ctx.count(f"{stream}:cache:{cfg_tag(cfg)}")
            ctx.count(f"{stream}:cached-members:{len(inner)}")
            ctx.count(f"{stream}:nested-cache:" + ("attribute-" if ncache is not None else "from-members-") + str(bool(eff)))
            ctx.count(f"{stream}:nested-output:" + ("all" if nest["output_name"] is None else "str" if isinstance(nest["output_name"], str) else "tuple"))
            outs = set(pipegen.all_outputs(desc))
            for s, ob in zip(case["history"], impl.get("steps", [])):
                if "call" in s:
                    ctx.count(f"{stream}:call" + (":whole-tuple" if isinstance(s["call"]["out"], list) else "") +
                              (":intermediate" if any(k in outs for k, _ in s["call"]["kw"]) else ""))
                    if "err" not in ob["u"] and "err" not in ob["c"] and len(ob["c"]["calls"]) < len(ob["u"]["calls"]):
                        ctx.count(f"{stream}:hit")
            judge_hist(ctx, stream, case, impl, base)


# ---------------------------------------------------------------------------------------------- stream 3: map with every cache type
MAP_CFGS = [{"type": "simple"}, {"type": "lru", "kwargs": {"shared": False, "max_size": 4096}},
            {"type": "hybrid", "kwargs": {"shared": False, "max_size": 4096}}, {"type": "disk"}]


def map_failure(case, impl):
    """(what, class) of the first failure of a map case against its uncached twin, or None."""
    mode = case["mode"]
    if "construct" in impl:
        return f"valid map pipeline refused at construction: {impl['construct']}", "construct"
    u, c1, c2 = impl["u"], impl["c1"], impl["c2"]
    if "err" in u:
        return None
    for tag, c in (("first", c1), ("second", c2)):
        if "err" in c:
            return f"map succeeds without cache but raises {c['err']} with the cache ({tag} run, {mode}, {case['cache']['type']})", "value"
        if c["outputs"] != u["outputs"]:
            return f"map with a cache returns other arrays than without ({tag} run, {mode}, {case['cache']['type']})", "value"
    distinct = sorted({repr(c): c for c in u["calls"]}.values(), key=repr)
    if mode == "seq":
        if c1["calls"] != distinct:
            more = len(c1["calls"]) > len(distinct)
            return ("sequential map with a cache executes " + ("more" if more else "other") +
                    f" element calls than one per distinct (function, kwargs) of the uncached run ({case['cache']['type']})"), ("reexec" if more else "calls")
    elif sorted({repr(c) for c in c1["calls"]}) != sorted(repr(c) for c in distinct):
        return f"parallel map with a shared cache does not execute exactly the distinct element calls of the uncached run ({case['cache']['type']})", "calls"
    if c2["calls"]:
        return f"a second map run over the populated cache re-executes functions whose entries are resident ({mode}, {case['cache']['type']})", "reexec"
    return None


def run_map(case, base):
    c09 = _c09()
    impl = c09.run_map_case(case["desc"], case["cache"], case["mode"], base)
    for k in ("u3", "c3", "u4", "c4"):
        impl.pop(k, None)
    return impl


def stream_maps(ctx, base, deadline):
    rng = ctx.rng
    c09 = _c09()
    stream = "ext:map-all-caches"
    for k in range(ctx.n(24, 300)):
        desc = c09.repeat_inputs(mapgen.gen_case(rng, max_funcs=3, kinds=["elem", "elem", "outer", "partial", "full", "scalar"], p_bound=0.0, p_whole=0.4), rng)
        if k % 2:
            desc = c09.rich_map_inputs(desc, rng, p_rich=0.8)      # equal elements built in different ways (c09_values)
            for kind in desc.get("c09_rich_kinds") or []:
                ctx.count(f"{stream}:rich-values:{kind}")
        for cfg in MAP_CFGS:
            for mode in ("seq", "threads"):
                if time.time() > deadline:
                    ctx.count(f"{stream}:budget-cut")
                    return
                case = {"kind": stream, "desc": desc, "cache": cfg, "mode": mode}
                impl = run_map(case, base)
                ctx.count(f"{stream}:{mode}:{cfg['type']}")
                if "u" in impl and "err" in impl["u"]:
                    ctx.count(f"{stream}:twin-err:{impl['u']['err']}")
                    ctx.record(case, nontrivial=False)
                    continue
                nt = "u" in impl and "c1" in impl and "err" not in impl["c1"] and len(impl["c1"]["calls"]) < len(impl["u"]["calls"])
                nt = nt or ("c2" in impl and "u" in impl and "err" not in impl["c2"] and len(impl["c2"]["calls"]) < len(impl["u"]["calls"]))
                ctx.record(case, nontrivial=bool(nt))
                if nt and "c1" in impl and len(impl["c1"]["calls"]) < len(impl["u"]["calls"]):
                    ctx.count(f"{stream}:has-repeated-element-calls")
                ff = map_failure(case, impl)
                if ff is None:
                    continue
                err = next((impl[k]["err"] for k in ("c1", "c2") if k in impl and "err" in impl[k]), None)
                reruns = [map_failure(case, run_map(case, base)) for _ in range(2)]
                if any(r is None or r[0] != ff[0] for r in reruns):
                    ctx.count(f"{stream}:flaky-difference-not-reported:{mode}:{cfg['type']}:{err or ff[1]}")
                    continue
                if mode == "threads" and err is not None:
                    # an exception under a thread pool may be a race of a container that is not thread-safe even when it shows
                    # three times in a row: it is a verdict only if the same case also fails without threads
                    seq = dict(case, mode="seq")
                    if map_failure(seq, run_map(seq, base)) is None:
                        ctx.count(f"{stream}:thread-race-error-not-reported:{cfg['type']}:{err}")
                        continue
                ctx.count(f"{stream}:property-failure:{ff[1]}")
                ctx.violation(case, f"[{stream}] {ff[0]}", found_input=ff[1] != "calls", item=None if ff[1] != "calls" else "correspondence:ext-map-calls",
                              impl={"twin": impl.get("u"), "first": impl.get("c1"), "second": impl.get("c2")})


# ---------------------------------------------------------------------------------------------- stream 5: shared DiskCache directory
def _sig(call):
    return json.dumps(sorted(c09_values.abstract_kw(call["kw"]), key=lambda e: e[0]), sort_keys=True)


def shared_failure(case, twin, first, second):
    """Compare the observations of two users of one cache directory with the twin's; returns (index, what, class) or None."""
    un = units(case)
    resident = collections.defaultdict(set)           # call signature → output names (JSON) the first user left an entry for
    for s, f in zip(case["history"], first):
        if "err" not in f:
            resident[_sig(s["call"])] |= set(f.get("put", []))
    for who, obs in (("first", first), ("second", second)):
        for i, (s, u, c) in enumerate(zip(case["history"], twin, obs)):
            if "err" in u:
                continue
            if "err" in c:
                return i, f"call succeeds without cache but raises {c['err']} for the {who} user of a shared DiskCache directory", "value"
            if c["value"] != u["value"] or (s["call"]["full"] and c.get("full") != u.get("full")):
                return i, f"the {who} user of a shared DiskCache directory returns another value than the uncached twin", "value"
            if who == "second":
                for put in sorted(resident[_sig(s["call"])]):
                    again = [n for n in un.get(put, []) if n in c["calls"]]
                    if again:
                        return i, (f"cached function {again} is executed again by the second user of a shared DiskCache directory although "
                                   f"the first user left its entry {put} resident for equal arguments"), "reexec"
    return None


def run_shared_same(case, base):
    d = tempfile.mkdtemp(dir=base)
    try:
        p1, l1 = build_ext(case, base, cached=True, cache_dir=d)
        p2, l2 = build_ext(case, base, cached=True, cache_dir=d)
        pu, lu = build_ext(case, base, cached=False)
    except Exception as e:  # noqa: BLE001
        return {"construct": exc_enum(e)}
    twin = [observe(pu, lu, s["call"]) for s in case["history"]]
    if case.get("order") == "interleaved":
        first, second = [], []
        for s in case["history"]:
            first.append(observe(p1, l1, s["call"]))
            second.append(observe(p2, l2, s["call"]))
    else:
        first = [observe(p1, l1, s["call"]) for s in case["history"]]
        second = [observe(p2, l2, s["call"]) for s in case["history"]]
    return {"twin": twin, "first": first, "second": second}


def run_shared_cross(case, base):
    """Pipeline A then pipeline B (other functions under the same output and root names) over one directory."""
    d = tempfile.mkdtemp(dir=base)
    a = dict(case, funcs=case["funcs"])
    b = dict(case, funcs=case["funcs_b"])
    try:
        pa, la = build_ext(a, base, cached=True, cache_dir=d)
        pb, lb = build_ext(b, base, cached=True, cache_dir=d)
        pu, lu = build_ext(b, base, cached=False)
    except Exception as e:  # noqa: BLE001
        return {"construct": exc_enum(e)}
    first = [observe(pa, la, s["call"]) for s in case["history"]]
    twin = [observe(pu, lu, s["call"]) for s in case["history"]]
    second = [observe(pb, lb, s["call"]) for s in case["history"]]
    return {"twin": twin, "first": first, "second": second}


def child_main():
    """The other PROCESS of ext:disk-shared (c): same description, same directory; prints its observations as JSON."""
    req = json.loads(sys.stdin.read())
    case = req["case"]
    p, log = build_ext(case, None, cached=True, cache_dir=req["cache_dir"])
    obs = [observe(p, log, s["call"]) for s in case["history"]]
    sys.stdout.write("\nEXT-CHILD " + json.dumps({"obs": obs, "pid": os.getpid()}) + "\n")


def run_child(case, cache_dir, timeout=60):
    env = dict(os.environ)
    env["PYTHONPATH"] = os.path.dirname(os.path.abspath(__file__)) + os.pathsep + env.get("PYTHONPATH", "")
    try:
        p = subprocess.run([PY, os.path.abspath(__file__), "--child"], input=json.dumps({"case": case, "cache_dir": cache_dir}),
                           capture_output=True, text=True, timeout=timeout, env=env)           # killed on timeout
    except subprocess.TimeoutExpired:
        return {"infra": "timeout"}
    for line in p.stdout.splitlines():
        if line.startswith("EXT-CHILD "):
            return json.loads(line[len("EXT-CHILD "):])
    return {"infra": f"exit {p.returncode}: {p.stderr[-300:]}"}


def run_shared_process(case, base):
    d = tempfile.mkdtemp(dir=base)
    try:
        pp, lp = build_ext(case, base, cached=True, cache_dir=d)
        pu, lu = build_ext(case, base, cached=False)
    except Exception as e:  # noqa: BLE001
        return {"construct": exc_enum(e)}
    twin = [observe(pu, lu, s["call"]) for s in case["history"]]
    if case.get("direction") == "parent-first":
        first = [observe(pp, lp, s["call"]) for s in case["history"]]
        ch = run_child(case, d)
        if "infra" in ch:
            return ch
        return {"twin": twin, "first": first, "second": ch["obs"], "child_pid": ch["pid"]}
    ch = run_child(case, d)
    if "infra" in ch:
        return ch
    second = [observe(pp, lp, s["call"]) for s in case["history"]]
    return {"twin": twin, "first": ch["obs"], "second": second, "child_pid": ch["pid"]}


SHARED_RUNNERS = {"same": run_shared_same, "cross": run_shared_cross, "process": run_shared_process}


def _rename_funcs(funcs, rng):
    """Description B of variant (b): one function gets another name (= another body: its terms differ), same interface."""
    fb = copy.deepcopy(funcs)
    f = rng.choice(fb)
    f["name"] = f["name"] + "x"
    return fb, f["name"]


def _gen_shared_case(rng, base, variant):
    desc = pipegen.gen_dag(rng, max_funcs=rng.choice([1, 2, 2, 3]), roots=rng.choice([1, 2, 2]), p_bound=0.15, p_default=0.25)
    names = [f["name"] for f in desc["funcs"]]
    sub = [n for n in names if rng.random() < 0.8] or [rng.choice(names)]
    proto = {"kind": "ext:disk-shared", "variant": variant, "funcs": desc["funcs"], "cached": sub, "cache": {"type": "disk"}, "history": []}
    case = gen_history(rng, proto, base, rng.randint(2, 5), lambda r, pu: r.choice(_outs_of(pu)), p_repeat=0.15, p_variant=0.35)
    if case is None:
        return None
    if variant == "same":
        case["order"] = rng.choice(["after", "interleaved"])
    elif variant == "process":
        case["direction"] = rng.choice(["child-first", "child-first", "parent-first"])
    else:
        case["funcs_b"], renamed = _rename_funcs(case["funcs"], rng)
        case["cached"] = sorted(set(case["cached"]) | {renamed} | {n + "x" for n in case["cached"]})
    return case


def judge_shared(ctx, case, impl, base):
    stream = "ext:disk-shared"
    variant = case["variant"]
    if "infra" in impl:
        ctx.count(f"{stream}:{variant}:child-infra:{impl['infra'][:40]}")
        ctx.skip(f"{stream}:child-did-not-answer")
        return
    if "construct" in impl:
        ctx.count(f"{stream}:{variant}:construct:{impl['construct']}")
        return
    nt = any("err" not in c and "err" not in u and len(c["calls"]) < len(u["calls"]) for u, c in zip(impl["twin"], impl["second"]))
    ctx.record(case, nontrivial=nt)
    if nt:
        ctx.count(f"{stream}:{variant}:second-user-served-from-the-directory")
    if variant == "cross":
        # the key holds (output name, root values) only: an unrelated pipeline over the same directory may be served these
        # entries.  Counted, not reported (side observation; see the final report of the stream's author).
        stale = any("err" not in u and "err" not in c and c["value"] != u["value"] for u, c in zip(impl["twin"], impl["second"]))
        ctx.count(f"{stream}:cross-pipeline-" + ("stale" if stale else "same"))
        return
    ff = shared_failure(case, impl["twin"], impl["first"], impl["second"])
    if ff is None:
        return
    for _ in range(2):
        ri = SHARED_RUNNERS[variant](case, base)
        again = shared_failure(case, ri["twin"], ri["first"], ri["second"]) if "twin" in ri else None
        if again is None or again[:2] != ff[:2]:
            ctx.count(f"{stream}:{variant}:flaky-difference-not-reported")
            return
    ctx.count(f"{stream}:{variant}:property-failure:{ff[2]}")
    ctx.violation(case, f"[{stream}:{variant}] {ff[1]} (call {ff[0]})",
                  impl={"call": ff[0], "twin": impl["twin"][ff[0]], "first": impl["first"][ff[0]], "second": impl["second"][ff[0]]})


def probe_key_identity(ctx, base):
    """Side observation (counted, not reported): the file name of a DiskCache entry is the md5 of the PICKLED key, and pickle
    writes a back-reference for an object that occurs twice; two equal argument sets that differ in whether two equal values
    are one object or two therefore get different files, and the second user of the directory misses the resident entry."""
    c09 = _c09()
    d = tempfile.mkdtemp(dir=base)
    g = {"name": "g", "params": [["a", "a"], ["b", "b"]], "outputs": ["c"], "defaults": [], "bound": []}
    try:
        users = []
        for _ in range(2):
            log = terms.CallLog()
            with _quiet():
                users.append((Pipeline([c09.make_pf(g, log, True)], cache_type="disk", cache_kwargs={"cache_dir": d, "lru_shared": False}), log))
        s1, s2 = "".join(["va", "lue"]), "".join(["va", "lue"])
        (p1, l1), (p2, l2) = users
        with _quiet():
            r1 = p1.run("c", kwargs={"a": s1, "b": s1})
            r2 = p2.run("c", kwargs={"a": s1, "b": s2})
        ctx.count("ext:disk-shared:probe:equal-values-as-distinct-objects:" + ("miss-reexecuted" if l2.names() else "hit") +
                  (":values-equal" if terms.enc(r1) == terms.enc(r2) else ":VALUES-DIFFER"))
    except Exception as e:  # noqa: BLE001
        ctx.count(f"ext:disk-shared:probe:exception:{exc_enum(e)}")


def stream_disk_shared(ctx, base, deadline):
    rng = ctx.rng
    stream = "ext:disk-shared"
    probe_key_identity(ctx, base)
    plan = [("same", ctx.n(25, 700)), ("cross", ctx.n(15, 300)), ("process", ctx.n(2, 30))]
    for variant, n in plan:
        for _ in range(n):
            if time.time() > deadline:
                ctx.count(f"{stream}:budget-cut")
                return
            case = _gen_shared_case(rng, base, variant)
            if case is None:
                ctx.skip(f"{stream}:history-not-generated")
                continue
            ctx.count(f"{stream}:{variant}" + (":" + case.get("order", case.get("direction", "")) if variant != "cross" else ""))
            judge_shared(ctx, case, SHARED_RUNNERS[variant](case, base), base)


# ---------------------------------------------------------------------------------------------- entry points
def run_ext(ctx, base):
    """All extension streams, in priority order, inside the run's temporary directory."""
    quick = ctx.tier == "quick"
    t0 = time.time()
    total = (12.0 if quick else 180.0) * max(1.0, ctx.budget_scale)
    shares = [("whole", stream_whole, 0.30), ("pf-defaults", stream_pf_defaults, 0.15), ("map-all-caches", stream_maps, 0.25),
              ("nested", stream_nested, 0.15), ("disk-shared", stream_disk_shared, 0.15)]
    spent = 0.0
    for name, fn, share in shares:
        ts = time.time()
        spent += share
        _c09()._guarded(ctx, {"kind": f"ext:{name}"}, f"run the stream ext:{name}", fn, ctx, base, t0 + total * spent)   # an unused share carries over
        ctx.extra.setdefault("ext_wall_s", {})[name] = round(time.time() - ts, 2)
    ctx.extra["ext_wall_s"]["total"] = round(time.time() - t0, 2)


def replay_ext(ctx, case):
    kind = case.get("kind", "")
    base = tempfile.mkdtemp(prefix="verif-c09-")
    try:
        if kind == "ext:map-all-caches":
            impl = run_map(case, base)
            for k in ("u", "c1", "c2"):
                print({"u": "uncached twin :", "c1": "cached, 1st run:", "c2": "cached, 2nd run:"}[k], impl.get(k, impl))
            print("verdict:", map_failure(case, impl))
            return
        if kind == "ext:disk-shared":
            impl = SHARED_RUNNERS[case["variant"]](case, base)
            if "twin" not in impl:
                print("implementation:", impl)
                return
            for i, s in enumerate(case["history"]):
                print(f"call {i}: {s['call']}")
                print("   uncached twin      :", impl["twin"][i])
                print("   first user of dir  :", impl["first"][i])
                print("   second user of dir :", impl["second"][i])
            if case["variant"] != "cross":
                print("verdict:", shared_failure(case, impl["twin"], impl["first"], impl["second"]))
            return
        impl = run_hist(case, base)
        if "steps" not in impl:
            print("implementation:", impl)
            return
        for i, s in enumerate(case["history"]):
            print(f"step {i}: {s}")
            if i < len(impl["steps"]):
                ob = impl["steps"][i]
                if "mut" in ob:
                    print("   mutation refused (cached, twin):", ob["mut"])
                else:
                    print("   cached pipeline:", ob["c"])
                    print("   uncached twin  :", ob["u"])
        print("verdict:", first_failure(case, impl))
    finally:
        import shutil
        shutil.rmtree(base, ignore_errors=True)


if __name__ == "__main__":
    if "--child" in sys.argv:
        child_main()
