/-
Model of the pipeline result cache: the cache layer of `Pipeline._run` (`pipefunc/_pipeline/_base.py:_run`), `compute_cache_key`,
`get_result_from_cache`, `update_cache` (`pipefunc/_pipeline/_cache.py`), the mutation entry points `Pipeline.update_defaults`,
`PipeFunc.update_bound`, `Pipeline.replace` (none of which touches the cache), and `_get_or_set_cache` of `Pipeline.map`
(`pipefunc/map/_run.py`).  Built on `PF.Pipe` (the uncached call model of C02).  Core Lean only.

The cache container is abstract (`Policy`): any key→value store whose resident entries only ever come from a `put` (eviction allowed).
`to_hashable` is abstract (`h : Val → H`); its injectivity is C15's business and appears as a hypothesis in the theorems.
-/
import PfModel.Model.Pipeline
import PfModel.Model.MapRun
namespace PF.PipeCache
open PF PF.Pipe

/-- `_CACHE_KEY_TYPE`: `(func.output_name, ((root argument, to_hashable(value)), …))` -/
structure Key (H : Type) where
  outs : List String
  items : List (String × H)
  deriving Repr, DecidableEq

/-- A cache container (`pipefunc/cache.py`, C14) seen from the pipeline: `get` models `key in cache` followed by
    `cache.get(key)` (it may reorder the container), `put` models `cache.put`.  `res` is the abstraction "what is
    resident".  The three laws say that whatever is found was resident, and that resident entries are never invented:
    after any operation an entry is the one just put or was there before (eviction is allowed). -/
structure Policy (H C : Type) where
  get : C → Key H → Option (Val × C)
  put : C → Key H → Val → C
  res : C → Key H → Option Val
  get_res : ∀ c k v c', get c k = some (v, c') → res c k = some v
  get_sub : ∀ c k v c', get c k = some (v, c') → ∀ k' w, res c' k' = some w → res c k' = some w
  put_sub : ∀ c k v k' w, res (put c k v) k' = some w → (k' = k ∧ w = v) ∨ res c k' = some w

/-! ### which arguments an output depends on -/

/-- the names `Pipeline._run` can consult while evaluating `o`: the non-bound parameters of its producer and, through
    produced parameters, of every function upstream (the predecessors in `Pipeline.graph`, transitively) -/
def reach (fs : List Func) : Nat → String → List String
  | 0, _ => []
  | n+1, o =>
    match producer fs o with
    | none => []
    | some f => f.params.flatMap fun pq => if (alookup f.bound pq.1).isSome then [] else pq.1 :: reach fs n pq.1

def reachAll (fs : List Func) (o : String) : List String := reach fs (fuelFor fs) o

/-- insertion into a sorted duplicate-free list of names -/
def insertU (x : String) : List String → List String
  | [] => [x]
  | y :: ys => if x < y then x :: y :: ys else if x = y then y :: ys else y :: insertU x ys

/-- `tuple(sorted(set(names)))` -/
def normNames (l : List String) : List String := l.foldr insertU []

/-- `Pipeline.root_args(o)`: the reachable names that no function produces, sorted, without duplicates -/
def rootsOf (fs : List Func) (o : String) : List String :=
  normNames ((reachAll fs o).filter fun p => (producer fs p).isNone)

/-- every output name of the functions `o` depends on (`func_dependencies(o)` flattened) -/
def upstreamOutputs (fs : List Func) (o : String) : List String :=
  (reachAll fs o).flatMap fun p => match producer fs p with | some g => g.outputs | none => []

/-- `Pipeline._func_defaults(func)`: the pipeline-wide defaults of the function's parameters, else its own defaults
    (a signature default of a bound parameter is not a default: `PipeFunc.defaults`) -/
def funcDefaults (fs : List Func) (f : Func) : List (String × Val) :=
  (f.params.filterMap fun pq => (pdefault fs pq.1).map fun v => (pq.1, v)) ++
    f.defaults.filter fun kv => (alookup f.bound kv.1).isNone

/-- `(self._func_defaults(func) | flat_scope_kwargs)[x]` -/
def keyView (fs : List Func) (f : Func) (kw : List (String × Val)) (x : String) : Option Val :=
  match alookup kw x with
  | some v => some v
  | none => alookup (funcDefaults fs f) x

/-- the loop of `compute_cache_key`: `None` as soon as a root argument is absent -/
def collect {H} (view : String → Option Val) (h : Val → H) : List String → Option (List (String × H))
  | [] => some []
  | x :: xs =>
    match view x with
    | none => none
    | some v =>
      match collect view h xs with
      | none => none
      | some r => some ((x, h v) :: r)

/-- `Pipeline._intermediate_supplied`: a supplied keyword is an output of a function upstream of `o` -/
def intermediateSupplied (fs : List Func) (kw : List (String × Val)) (o : String) : Bool :=
  (akeys kw).any fun k => (upstreamOutputs fs o).contains k

/-- the cache key `_run` uses for function `f` when output `o` is requested: none when an intermediate value is
    supplied upstream of `f` (the result then depends on a value the key does not contain) or a root argument is absent -/
def computeKey {H} (h : Val → H) (fs : List Func) (kw : List (String × Val)) (f : Func) (o : String) : Option (Key H) :=
  if intermediateSupplied fs kw o then none else
  match collect (keyView fs f kw) h (rootsOf fs o) with
  | none => none
  | some items => some ⟨f.outputs, items⟩

/-- the key of the pinned code (before the two repairs): bound values shadow the keywords, intermediates are ignored.
    Used by no property theorem; kept for the witnesses `C09_intermediate_poisons` and `C09_bound_shadows_keyword`. -/
def computeKeyLegacy {H} (h : Val → H) (fs : List Func) (kw : List (String × Val)) (f : Func) (o : String) : Option (Key H) :=
  match collect (fun x => match alookup f.bound x with | some v => some v | none => keyView fs f kw x) h (rootsOf fs o) with
  | none => none
  | some items => some ⟨f.outputs, items⟩

/-! ### the cached `_run` -/

/-- what `_update_all_results` extracts from a cached raw return value `r` -/
def unpack (f : Func) (r : Val) : List (String × Val) :=
  match f.outputs with
  | [o] => [(o, r)]
  | os => match r with | .tup vs => os.zip vs | _ => []

structure CSt (H C : Type) where
  memo : List (String × Val)     -- `all_results`
  calls : List String            -- call log
  used : List String             -- `used_parameters`
  cache : C
  hit : Bool                     -- `None in used_parameters`: some result came from the cache without full_output
  hits : List (Key H)            -- log of the keys found in the cache (observation only)
  puts : List (Key H)            -- log of the keys written (observation only)

/-- `_get_func_args` over the cached state (same text as `PF.Pipe.argsWith`) -/
def argsWithC {H C} (rec : String → CSt H C → Except Err (Val × CSt H C)) (fs : List Func) (kw : List (String × Val)) (f : Func) :
    List (String × String) → CSt H C → Except Err (List (String × Val) × CSt H C)
  | [], s => .ok ([], s)
  | (p, orig) :: ps, s =>
    match resolve fs kw f p with
    | .missing => .error (.missing p)
    | .val v =>
      match argsWithC rec fs kw f ps { s with used := s.used ++ [p] } with
      | .error e => .error e
      | .ok (rest, s2) => .ok ((orig, v) :: rest, s2)
    | .upstream =>
      match rec p s with
      | .error e => .error e
      | .ok (v, s1) =>
        match argsWithC rec fs kw f ps { s1 with used := s1.used ++ [p] } with
        | .error e => .error e
        | .ok (rest, s2) => .ok ((orig, v) :: rest, s2)

/-- `get_result_from_cache`: is there a key, and is it in the cache? -/
def lookupC {H C} (P : Policy H C) (key : Option (Key H)) (c : C) : Option (Key H × Val × C) :=
  match key with
  | none => none
  | some k => match P.get c k with | none => none | some (r, c') => some (k, r, c')

/-- `update_cache`, guarded by `cache_key is not None` -/
def storeC {H C} (P : Policy H C) (key : Option (Key H)) (c : C) (r : Val) : C :=
  match key with
  | none => c
  | some k => P.put c k r

def logPut {H} (key : Option (Key H)) (l : List (Key H)) : List (Key H) :=
  match key with
  | none => l
  | some k => l ++ [k]

/-- `Pipeline._run` with the cache (`_base.py:_run`).  `ck kw f o` is the key computation, `cached f` is `func.cache`.
    On a hit the stored raw result is unpacked into `all_results`; without `full_output` the call returns at once,
    with `full_output` the arguments are still evaluated (so that `all_results` is complete) and the function is not run. -/
def runC {H C} (P : Policy H C) (cached : Func → Bool) (ck : List (String × Val) → Func → String → Option (Key H))
    (fs : List Func) (kw : List (String × Val)) (full : Bool) : Nat → String → CSt H C → Except Err (Val × CSt H C)
  | 0, _, _ => .error .fuel
  | n+1, o, s =>
    match alookup s.memo o with
    | some v => .ok (v, s)
    | none =>
      match producer fs o with
      | none => .error (.noFunc o)
      | some f =>
        let key := if cached f then ck kw f o else none
        match lookupC P key s.cache with
        | some (k, r, c') =>
          let s1 : CSt H C := { s with memo := unpack f r ++ s.memo, cache := c', hits := s.hits ++ [k] }
          if full then
            match argsWithC (runC P cached ck fs kw full n) fs kw f f.params s1 with
            | .error e => .error e
            | .ok (_, s2) =>
              match alookup s2.memo o with
              | some v => .ok (v, s2)
              | none => .error (.noFunc o)
          else
            match alookup s1.memo o with
            | some v => .ok (v, { s1 with hit := true })
            | none => .error (.noFunc o)
        | none =>
          match argsWithC (runC P cached ck fs kw full n) fs kw f f.params s with
          | .error e => .error e
          | .ok (args, s') =>
            let s'' : CSt H C := { s' with memo := outVals f args ++ s'.memo, calls := s'.calls ++ [f.name],
                                           cache := storeC P key s'.cache (result f args), puts := logPut key s'.puts }
            match alookup (outVals f args) o with
            | some v => .ok (v, s'')
            | none => .error (.noFunc o)

structure COutcome (H C : Type) where
  value : Val
  full : List (String × Val)
  calls : List String
  unused : List String           -- non-empty: the call ends in `UnusedParametersError` (after everything ran)
  cache : C
  hits : List (Key H)
  puts : List (Key H)

def initC {H C} (kw : List (String × Val)) (c : C) : CSt H C :=
  { memo := kw, calls := [], used := [], cache := c, hit := false, hits := [], puts := [] }

/-- `Pipeline.run(o, kwargs=kw, full_output=full)` with a cache; the surplus-keyword check is skipped after a hit.
    The check happens after the run, so the cache keeps what the run stored even when it fails. -/
def runTopC {H C} (P : Policy H C) (cached : Func → Bool) (ck : List (String × Val) → Func → String → Option (Key H))
    (fs : List Func) (c : C) (kw : List (String × Val)) (full : Bool) (o : String) : Except Err (COutcome H C) :=
  if (alookup kw o).isSome then .error .outputInKwargs else
  match runC P cached ck fs kw full (fuelFor fs) o (initC kw c) with
  | .error e => .error e
  | .ok (v, s) =>
    .ok { value := v, full := s.memo, calls := s.calls, cache := s.cache, hits := s.hits, puts := s.puts,
          unused := if s.hit then [] else (akeys kw).filter fun k => !(s.used.contains k) }

/-- the call returns normally -/
def COutcome.succeeded {H C} (out : COutcome H C) : Bool := out.unused.isEmpty

/-! ### mutations (none of them touches the cache) -/

def upsert (upd old : List (String × Val)) : List (String × Val) :=
  upd ++ old.filter fun kv => (alookup upd kv.1).isNone

/-- `Pipeline.update_defaults(d)`: every function takes the entries that name one of its non-bound parameters -/
def updateDefaults (fs : List Func) (d : List (String × Val)) : List Func :=
  fs.map fun f =>
    { f with defaults := upsert (d.filter fun kv => f.params.any (·.1 = kv.1) && (alookup f.bound kv.1).isNone) f.defaults }

/-- `pipeline[output_name].update_bound(b)`: the function is addressed by its output name -/
def updateBound (fs : List Func) (outs : List String) (b : List (String × Val)) : List Func :=
  fs.map fun f => if f.outputs = outs then { f with bound := upsert b f.bound } else f

/-- `Pipeline.replace(new)`: the function with the same output name is dropped, `new` is appended -/
def replace (fs : List Func) (new : Func) : List Func :=
  fs.filter (fun f => f.outputs ≠ new.outputs) ++ [new]

inductive Mut
  | updateDefaults (d : List (String × Val))
  | updateBound (outs : List String) (b : List (String × Val))
  | replace (new : Func)
  deriving Repr

def applyMut (fs : List Func) : Mut → List Func
  | .updateDefaults d => updateDefaults fs d
  | .updateBound n b => updateBound fs n b
  | .replace new => replace fs new

inductive Step
  | call (o : String) (kw : List (String × Val)) (full : Bool)
  | mutate (m : Mut)
  deriving Repr

/-- the cached pipeline driven through a history: one entry per step (`none` for a mutation).  A call that fails in
    the middle of the evaluation (missing argument, unknown output) ends the modelled history: what such a run leaves
    in the cache is not modelled. -/
def histC {H C} (P : Policy H C) (cached : Func → Bool)
    (ck : List Func → List (String × Val) → Func → String → Option (Key H)) :
    List Func → C → List Step → List (Option (Except Err (COutcome H C)))
  | _, _, [] => []
  | fs, c, .mutate m :: rest => none :: histC P cached ck (applyMut fs m) c rest
  | fs, c, .call o kw full :: rest =>
    match runTopC P cached (ck fs) fs c kw full o with
    | .error e => [some (.error e)]
    | .ok out => some (.ok out) :: histC P cached ck fs out.cache rest

/-- the identical pipeline without a cache driven through the same history (`PF.Pipe.runTop`) -/
def histU : List Func → List Step → List (Option (Except Err Outcome))
  | _, [] => []
  | fs, .mutate m :: rest => none :: histU (applyMut fs m) rest
  | fs, .call o kw _ :: rest => some (runTop fs kw (.name o)) :: histU fs rest

/-! ### the unbounded container (`SimpleCache`; `LRUCache`/`HybridCache`/`DiskCache` below their size limit) -/

def mapGet {H} [DecidableEq H] : List (Key H × Val) → Key H → Option Val
  | [], _ => none
  | (k, v) :: r, x => if k = x then some v else mapGet r x

def simplePolicy (H : Type) [DecidableEq H] : Policy H (List (Key H × Val)) where
  get c k := match mapGet c k with | none => none | some v => some (v, c)
  put c k v := (k, v) :: c
  res c k := mapGet c k
  get_res := by
    intro c k v c' h
    cases hm : mapGet c k with
    | none => simp [hm] at h
    | some w => simp [hm] at h; rw [h.1]
  get_sub := by
    intro c k v c' h k' w hw
    cases hm : mapGet c k with
    | none => simp [hm] at h
    | some w' => simp [hm] at h; rw [h.2]; exact hw
  put_sub := by
    intro c k v k' w h
    simp only [mapGet] at h
    split at h
    · next e => left; exact ⟨e.symm, by injection h with h; exact h.symm⟩
    · right; exact h

/-! ### `Pipeline.map`: `_get_or_set_cache` -/

/-- `_get_or_set_cache(func, kwargs, cache, compute_fn)`: returns the value and whether `compute_fn` ran -/
def getOrSet {H C} (P : Policy H C) (c : C) (k : Key H) (compute : Val) : Val × Bool × C :=
  match P.get c k with
  | some (v, c') => (v, false, c')
  | none => (compute, true, P.put c k compute)

/-- one element computation of a map run: the function's output names, its selected keyword arguments (they form the
    key) and the raw value the call returns -/
structure Elem where
  outs : List String
  kwargs : List (String × Val)
  value : Val

def elemKey {H} (h : Val → H) (e : Elem) : Key H := ⟨e.outs, e.kwargs.map fun kv => (kv.1, h kv.2)⟩

/-- the element computations of a map run pushed through the shared cache in the order in which they happen to be
    scheduled: the value each one delivers and whether it executed the function -/
def runElems {H C} (P : Policy H C) (h : Val → H) : C → List Elem → List (Val × Bool) × C
  | c, [] => ([], c)
  | c, e :: es =>
    match getOrSet P c (elemKey h e) e.value with
    | (v, ran, c') =>
      match runElems P h c' es with
      | (rs, c'') => ((v, ran) :: rs, c'')

/-- the raw value a map element call returns (`func(**selected)`): the term, or the tuple of picks -/
def elemOfCall (outsOf : String → List String) (cl : PF.Map.Call) : Elem :=
  { outs := outsOf cl.name, kwargs := cl.args,
    value := match outsOf cl.name with
      | [_] => .app cl.name cl.args
      | os => .tup (os.map fun o => .pick (.app cl.name cl.args) o) }


/-! ### decidable well-formedness checks (the hypotheses of the theorems, evaluated by the driver on every case) -/

def sameSet (a b : List String) : Bool := a.all (b.contains ·) && b.all (a.contains ·)

/-- length of the longest chain of (non-bound) produced parameters below `o`: the candidate rank of `Ranked` -/
def depth (fs : List Func) : Nat → String → Nat
  | 0, _ => 0
  | n+1, o =>
    match producer fs o with
    | none => 0
    | some f => 1 + (f.params.map fun pq =>
        if (alookup f.bound pq.1).isSome || (producer fs pq.1).isNone then 0 else depth fs n pq.1).foldl max 0

/-- `Ranked fs (depth fs (fuelFor fs))` and the depth bound, checked on every function (acyclic, fuel deep enough) -/
def rankedB (fs : List Func) : Bool :=
  fs.all fun f => f.outputs.all fun o =>
    decide (depth fs (fuelFor fs) o < fuelFor fs) &&
    f.params.all fun pq => (alookup f.bound pq.1).isSome || (producer fs pq.1).isNone ||
      decide (depth fs (fuelFor fs) pq.1 < depth fs (fuelFor fs) o)

/-- `UniqueOut`: no output name is produced twice -/
def uniqueOutB (fs : List Func) : Bool :=
  let os := fs.flatMap (·.outputs)
  os.eraseDups.length == os.length

/-- the model's root set is what `root_args` (mirrored by `PF.Pipe.rootArgs`, C02) lists -/
def rootsAgreeB (fs : List Func) : Bool :=
  fs.all fun f => f.outputs.all fun o =>
    match rootArgs fs o with
    | some r => sameSet r (rootsOf fs o)
    | none => false

/-- `ConsistentDefaults` (values compared through the printer below) -/
def consistentDefaultsB (enc : Val → String) (fs : List Func) : Bool :=
  fs.all fun f => fs.all fun g => f.defaults.all fun kv => g.defaults.all fun kw => kv.1 != kw.1 || enc kv.2 == enc kw.2

/-! ### an injective-looking printer of values, used as `to_hashable` by the driver and the closed witnesses -/

mutual
def encVal : Val → String
  | .int n => "i" ++ toString n
  | .str s => "s<" ++ s ++ ">"
  | .none => "N"
  | .masked => "M"
  | .app f a => f ++ "(" ++ encArgs a ++ ")"
  | .pick v o => "pick(" ++ encVal v ++ "," ++ o ++ ")"
  | .proj v i => "proj(" ++ encVal v ++ "," ++ toString i ++ ")"
  | .arr s e => "arr(" ++ toString s ++ ";" ++ encList e ++ ")"
  | .tup e => "tup(" ++ encList e ++ ")"
def encList : List Val → String
  | [] => ""
  | v :: r => encVal v ++ "," ++ encList r
def encArgs : List (String × Val) → String
  | [] => ""
  | (k, v) :: r => k ++ "=" ++ encVal v ++ "," ++ encArgs r
end

end PF.PipeCache
