import PfModel.Props.C10Total
import PfModel.Lemmas.RewriteNestWrap
/-!
C10 (ext5) — a value on its way OUT of a `NestedPipeFunc`: `call_full_output` (dictionary) → `_NestedFuncWrapper.__call__` (tuple in
`output_name` order) → `_default_output_picker` (positional).  `PF.Rw.nestBody` — what `C10_nest`, `C10_simplify`, `C10_nest_map_cell`
are about — says "the requested inner output is looked up"; the theorems here show that the three steps of the code (`PF.Rw.Wrap`, executed
by the driver's `nest_wrap` entry on the dictionaries the real inner pipelines return) compute exactly that, for a string and for a tuple
`output_name`, in any order, whatever the pickers of the inner functions are.  The seeded change C10-s3-A (hand the raw return value of a
multi-output leaf on when the nest exports exactly the leaf's tuple) is `wrapperCallSeeded`: provably harmless for a leaf with the default
picker, wrong for a leaf with a custom picker (witness).
-/
namespace PF.C10
open PF PF.Pipe PF.Rw PF.Rw.Wrap

/-- **Pack, then pick = look up.**  For a string or a tuple `output_name` (any order, duplicates allowed): when the dictionary has
    every exported name, output `name` of the nested function is the dictionary's entry; and whatever the dictionary, an answer of the
    nested function for `name` is the dictionary's entry for a name that is exported. -/
theorem C10_nest_wrapper_roundtrip (on : OutName) (rd : RDict) (name : String) :
    ((∀ o ∈ on.names, (alookup rd o).isSome) → name ∈ on.names → nestOut on rd name = getItem rd name) ∧
    (∀ v, nestOut on rd name = .ok v → name ∈ on.names ∧ alookup rd name = some v) :=
  ⟨nestOut_complete on rd name, fun v h => nestOut_ok on rd name v h⟩

/-- **Soundness of one call of the nested function** (unconditional): what run → dictionary → tuple → positional pick answers for
    `name` is what `nestBody` answers. -/
theorem C10_nest_call_sound (S : List RFunc) (on : OutName) (leaf : String) (args : List (String × Val)) (name : String) (v : Val)
    (h : nestCall S on leaf args name = .ok v) : name ∈ on.names ∧ nestBody S leaf args name = .ok v :=
  nestCall_sound S on leaf args name v h

/-- **Completeness**: when every exported name is an inner output that evaluates (and the leaf does), the code's three steps
    answer exactly as `nestBody` for every exported name. -/
theorem C10_nest_call_complete (S : List RFunc) (on : OutName) (leaf : String) (args : List (String × Val)) (name : String)
    (hall : ∀ o ∈ on.names, o ∈ allOutputs S ∧ ∃ w, eval S args (fuelOf S) o = .ok w)
    (hleaf : ∃ w, eval S args (fuelOf S) leaf = .ok w) (hn : name ∈ on.names) :
    nestCall S on leaf args name = nestBody S leaf args name :=
  nestCall_complete S on leaf args name hall hleaf hn

/-- **The nested function returns the ORIGINAL pipeline's value for every output it exports**, through the dictionary, the tuple and
    the positional pick: the hypotheses of `C10_nest_body_total` (the group `S ⊆ fs` received the original's values for outside names, the
    original evaluates every nested function), an `output_name` made of outputs of `S`, the leaf an output of `S`. -/
theorem C10_nest_call_total (fs S : List RFunc) (kw args : List (String × Val)) (rank : String → Nat)
    (hS : ∀ g ∈ S, g ∈ fs) (hu : UniqueOutR fs) (hK : RootKw fs kw)
    (hA1 : ∀ p val, alookup args p = some val → ValOld fs kw p val)
    (hA2 : ∀ g ∈ S, ∀ p ∈ freeParams g, (∃ h ∈ S, p ∈ h.core.outputs) ∨ (alookup args p).isSome)
    (hac : AcyclicR fs rank) (hEv : ∀ g ∈ S, ∀ q ∈ g.core.outputs, ∃ m w, eval fs kw m q = .ok w)
    (on : OutName) (leaf : String) (hon : ∀ o ∈ on.names, ∃ g ∈ S, o ∈ g.core.outputs) (hleaf : ∃ g ∈ S, leaf ∈ g.core.outputs)
    (name : String) (hn : name ∈ on.names) (m : Nat) (w : Val) (hw : eval fs kw m name = .ok w) :
    nestCall S on leaf args name = .ok w := by
  have tot : ∀ q, (∃ g ∈ S, q ∈ g.core.outputs) → ∃ w', eval S args (fuelOf S) q = .ok w' := by
    intro q hq
    obtain ⟨g, hg, hqg⟩ := hq
    obtain ⟨m', w', hw'⟩ := hEv g hg q hqg
    exact ⟨w', C10_nest_body_total fs S kw args rank hS hu hK hA1 hA2 hac hEv q ⟨g, hg, hqg⟩ m' w' hw'⟩
  have hall : ∀ o ∈ on.names, o ∈ allOutputs S ∧ ∃ w', eval S args (fuelOf S) o = .ok w' := by
    intro o ho
    obtain ⟨g, hg, hog⟩ := hon o ho
    exact ⟨List.mem_flatMap.mpr ⟨g, hg, hog⟩, tot o ⟨g, hg, hog⟩⟩
  rw [nestCall_complete S on leaf args name hall (tot leaf hleaf) hn]
  have hname := C10_nest_body_total fs S kw args rank hS hu hK hA1 hA2 hac hEv name (hon name hn) m w hw
  obtain ⟨wl, hwl⟩ := tot leaf hleaf
  simp [nestBody, hwl, hname]

/-- **A nest whose outputs were renamed or scoped afterwards** (`update_renames`, `update_scope` on the `NestedPipeFunc`: the wrapper
    keeps packing by the inner names `orig`, the picker reads positionally by the current names `cur`): the current name `c` of the
    output originally called `o` reads exactly what `o` read before the renaming. -/
theorem C10_nest_wrapper_renamed (cur orig : List String) (rd : RDict) (c o : String) (hno : orig.Nodup)
    (hl : cur.length = orig.length) (h : alookup (cur.zip orig) c = some o) (v : Val) :
    nestOutCur cur orig rd c = .ok v ↔ nestOut (.tuple orig) rd o = .ok v :=
  nestOutCur_ok_iff cur orig rd c o hno hl h v

/-- **`outVal` is "apply the picker to the raw return value"**, for the default picker (raw = tuple in `output_name` order, read
    positionally) and for a custom picker (raw opaque, read by the picker under the ORIGINAL output name) alike: the model's
    `pick (app f args) originalName` needs no case distinction. -/
theorem C10_picker_outVal (pk : Picker) (f : RFunc) (args : List (String × Val)) (o oo : String)
    (hb : f.body = none) (ho : origOf f o = some oo) (hl : f.outOrig.length ≠ 1) (hn : oo ∈ f.outOrig) :
    outVal f args o = applyPicker pk f.outOrig (rawOf pk f.core.name f.outOrig args) oo ∧
    outVal f args o = .ok (.pick (.app f.core.name args) oo) := by
  have h := outVal_is_picker pk f args o oo hb ho hl hn
  exact ⟨h, by rw [h, applyPicker_rawOf pk f.core.name f.outOrig args oo hl hn]⟩

/-- **Why the seeded wrapper passes every test with default pickers**: for a leaf with the default picker, the raw tuple IS what the
    wrapper builds from the dictionary. -/
theorem C10_nest_wrapper_seeded_default (rd : RDict) (fname : String) (os : List String) (args : List (String × Val))
    (hl : os.length ≠ 1) (hrd : ∀ o ∈ os, alookup rd o = some (.pick (.app fname args) o)) :
    wrapperCallSeeded (.tuple os) rd (.tuple os) (rawOf .default fname os args) = wrapperCall (.tuple os) rd :=
  wrapperCallSeeded_default rd fname os args hl hrd

/-- **Witness: with a custom picker the seeded wrapper is wrong.**  `g(x, a) -> (c, d)` with a custom picker, nested with
    `output_name = (c, d)`: the code's wrapper gives `c = pick raw c`; the seeded one hands `raw` to the positional picker, which fails. -/
theorem C10_nest_wrapper_seeded_witness :
    let raw := rawOf .custom "g" ["c", "d"] [("x", .int 1)]
    let rd : RDict := [("x", .int 1), ("c", .pick raw "c"), ("d", .pick raw "d")]
    nestOut (.tuple ["c", "d"]) rd "c" = .ok (.pick raw "c") ∧
    (match wrapperCallSeeded (.tuple ["c", "d"]) rd (.tuple ["c", "d"]) raw with
     | .ok ret => readOut (.tuple ["c", "d"]) ret "c"
     | .error e => .error e) = .error (.noFunc "c") := by
  exact ⟨rfl, rfl⟩

/-! ### non-vacuity -/

/-- the group `{f0, f1}` of `P3`: its leaf `f1` has the tuple output `(o1a, o1b)` -/
def S2 : List RFunc := [g0, g1].map embed

example : nestCall S2 (.tuple ["o1a", "o1b"]) "o1a" [("r0", .int 1), ("r1", .int 7)] "o1b"
    = .ok (.pick (.app "f1" [("x", .app "f0" [("a", .int 1)]), ("r1", .int 7)]) "o1b") := rfl
example : nestCall S2 (.tuple ["o1b", "o0"]) "o1a" [("r0", .int 1), ("r1", .int 7)] "o0" = .ok (.app "f0" [("a", .int 1)]) := rfl
example : nestCall S2 (.single "o1b") "o1a" [("r0", .int 1), ("r1", .int 7)] "o1b"
    = nestBody S2 "o1a" [("r0", .int 1), ("r1", .int 7)] "o1b" := rfl

/-- `C10_nest_wrapper_roundtrip`, both halves, on a dictionary with a missing name -/
example : nestOut (.tuple ["b", "a"]) [("a", .int 1), ("b", .int 2), ("c", .int 3)] "a" = .ok (.int 1) :=
  ((C10_nest_wrapper_roundtrip (.tuple ["b", "a"]) [("a", .int 1), ("b", .int 2), ("c", .int 3)] "a").1 (by decide) (by decide)).trans rfl
example : nestOut (.tuple ["b", "z"]) [("a", .int 1), ("b", .int 2)] "b" = .error (.noFunc "z") := rfl

/-- `C10_nest_wrapper_renamed`: a swap of the two exported names -/
example : nestOutCur ["b", "a"] ["a", "b"] [("a", .int 1), ("b", .int 2)] "b" = .ok (.int 1) :=
  (C10_nest_wrapper_renamed ["b", "a"] ["a", "b"] [("a", .int 1), ("b", .int 2)] "b" "a" (by decide) rfl rfl (.int 1)).mpr rfl

/-- `C10_nest_call_complete` applied end to end to `S2` exporting exactly the tuple of its leaf -/
example : nestCall S2 (.tuple ["o1a", "o1b"]) "o1a" [("r0", .int 1), ("r1", .int 7)] "o1a"
    = nestBody S2 "o1a" [("r0", .int 1), ("r1", .int 7)] "o1a" := by
  have hdec : ∀ o ∈ ["o1a", "o1b"], o ∈ allOutputs S2 ∧ (eval S2 [("r0", .int 1), ("r1", .int 7)] (fuelOf S2) o).toOption.isSome = true := by decide
  refine C10_nest_call_complete S2 (.tuple ["o1a", "o1b"]) "o1a" _ "o1a" ?_ ?_ (by decide)
  · intro o ho
    obtain ⟨h1, h2⟩ := hdec o ho
    refine ⟨h1, ?_⟩
    cases he : eval S2 [("r0", .int 1), ("r1", .int 7)] (fuelOf S2) o with
    | ok w => exact ⟨w, rfl⟩
    | error e => rw [he] at h2; simp [Except.toOption] at h2
  · obtain ⟨_, h2⟩ := hdec "o1a" (by decide)
    cases he : eval S2 [("r0", .int 1), ("r1", .int 7)] (fuelOf S2) "o1a" with
    | ok w => exact ⟨w, rfl⟩
    | error e => rw [he] at h2; simp [Except.toOption] at h2

/-- `C10_nest_call_total` applied: the whole of `P3` nested, exporting `(o2, o1a)`; every hypothesis is a closed fact -/
example : ∃ w, nestCall P3 (.tuple ["o2", "o1a"]) "o2" [("r0", .int 1), ("r1", .int 7)] "o1a" = .ok w := by
  have hK : RootKw P3 [("r0", .int 1)] := by
    intro p ⟨c, hc⟩
    simp only [alookup]
    split
    · next e =>
      subst e
      have : producer (cores P3) "r0" = none := by decide
      rw [this] at hc; cases hc
    · rfl
  have hdec : ∀ g ∈ P3, ∀ q ∈ g.core.outputs, (eval P3 [("r0", .int 1)] 5 q).toOption.isSome = true := by decide
  have hEv : ∀ g ∈ P3, ∀ q ∈ g.core.outputs, ∃ m w, eval P3 [("r0", .int 1)] m q = .ok w := by
    intro g hg q hq
    have := hdec g hg q hq
    cases he : eval P3 [("r0", .int 1)] 5 q with
    | ok w => exact ⟨5, w, he⟩
    | error e => rw [he] at this; simp [Except.toOption] at this
  obtain ⟨m, w, hw⟩ := hEv (embed g1) (by simp [P3]) "o1a" (by simp [embed, g1])
  have hA1 : ∀ p val, alookup [("r0", Val.int 1), ("r1", Val.int 7)] p = some val → ValOld P3 [("r0", .int 1)] p val := by
    intro p val h
    simp only [alookup] at h
    split at h
    · next e => subst e; injection h with h; subst h; exact Or.inl rfl
    · split at h
      · next e => subst e; injection h with h; subst h; exact Or.inr (Or.inr ⟨rfl, rfl, rfl⟩)
      · cases h
  exact ⟨w, C10_nest_call_total P3 P3 [("r0", .int 1)] [("r0", .int 1), ("r1", .int 7)]
    (fun s => if s = "o0" then 0 else if s = "o2" then 2 else 1)
    (fun _ h => h) (C10_dupOutputs_unique P3 (by decide)) hK hA1 (by decide) ⟨by decide⟩ hEv
    (.tuple ["o2", "o1a"]) "o2" (by decide) (by decide) "o1a" (by decide) m w hw⟩

/-- `C10_picker_outVal` on `f1` of `P3` with a custom picker; `C10_nest_wrapper_seeded_default` on a closed dictionary -/
example : outVal (embed g1) [("x", .int 1)] "o1b" = applyPicker .custom ["o1a", "o1b"] (rawOf .custom "f1" ["o1a", "o1b"] [("x", .int 1)]) "o1b" :=
  (C10_picker_outVal .custom (embed g1) [("x", .int 1)] "o1b" "o1b" rfl (by decide) (by decide) (by decide)).1
example : wrapperCallSeeded (.tuple ["c", "d"]) [("c", .pick (.app "g" []) "c"), ("d", .pick (.app "g" []) "d")] (.tuple ["c", "d"])
    (rawOf .default "g" ["c", "d"] []) = wrapperCall (.tuple ["c", "d"]) [("c", .pick (.app "g" []) "c"), ("d", .pick (.app "g" []) "d")] :=
  C10_nest_wrapper_seeded_default _ "g" ["c", "d"] [] (by decide) (by
    intro o ho
    rcases List.mem_cons.mp ho with e | ho
    · subst e; rfl
    · rcases List.mem_cons.mp ho with e | ho
      · subst e; rfl
      · cases ho)

end PF.C10
