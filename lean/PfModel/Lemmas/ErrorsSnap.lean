import PfModel.Lemmas.Errors
import PfModel.Lemmas.ErrorsAsync
/-! Lemmas for `Props/C13Snap.lean`: the invocation whose exception surfaces is in the call log (every mode, every schedule,
    `map` and `map_async`), and what `pipelineSnapshot` / `funcSnapshot` hold after such a run. -/
namespace PF.Errors
open PF PF.Map

/-- the surfaced exception is the exception of an invocation that was executed (it is in the call log) -/
def InLog (fails : Oracle) (r : Raised) (log : List Task) : Prop :=
  ∃ t, t ∈ log ∧ failOf fails t = some r.exn ∧ r = raisedOf t r.exn

/-! ### where a raised future comes from -/

theorem awaitAll_src (futs : Futs) : ∀ (ts : List Task) (off : Nat) (t : Task) (x : Exn), awaitAll futs ts off = .raised t x →
    ∃ i, ts[i]? = some t ∧ futs (off + i) = some (some x) := by
  intro ts
  induction ts with
  | nil => intro off t x h; simp [awaitAll] at h
  | cons a ts ih =>
    intro off t x h
    simp only [awaitAll] at h
    cases hf : futs off with
    | none => simp [hf] at h
    | some v =>
      cases v with
      | some y =>
        simp only [hf] at h
        injection h with h1 h2
        subst h1; subst h2
        exact ⟨0, by simp, by simpa using hf⟩
      | none =>
        simp only [hf] at h
        obtain ⟨i, hi, hfi⟩ := ih (off + 1) t x h
        exact ⟨i + 1, by simpa using hi, by rw [show off + (i + 1) = off + 1 + i by omega]; exact hfi⟩

theorem awaitGather_src (futs : Futs) (ρ : List Nat) (ts : List Task) (off : Nat) (t : Task) (x : Exn)
    (h : awaitGather futs ρ ts off = .raised t x) : ∃ i, ts[i]? = some t ∧ futs (off + i) = some (some x) := by
  unfold awaitGather at h
  cases hg : gatherFail futs ts off ρ with
  | some tx =>
    obtain ⟨t', x'⟩ := tx
    simp only [hg] at h
    injection h with h1 h2
    subst h1; subst h2
    obtain ⟨_, k, _, _, hk, hf, _⟩ := gatherFail_some futs ts off ρ _ _ hg
    exact ⟨k, hk, hf⟩
  | none =>
    simp only [hg] at h
    split at h <;> cases h

/-- the raised outcome of `_process_generation` is the exception held by the future of a task of the generation, at that
    task's own position -/
theorem procGen_src (futs : Futs) : ∀ (frs : List (MFunc × FuncResult)) (off : Nat) (r : Raised) (sl : List (String × Slot)),
    procGen futs frs off = .raised r sl →
    ∃ i t x, (genTasks frs)[i]? = some t ∧ futs (off + i) = some (some x) ∧ r = raisedOf t x := by
  intro frs
  induction frs with
  | nil => intro off r sl h; simp [procGen] at h
  | cons fr rest ih =>
    obtain ⟨f, r0⟩ := fr
    intro off r sl h
    simp only [procGen] at h
    rw [genTasks_cons]
    cases hw : awaitAll futs (tasksOf f r0) off with
    | hang => simp [hw] at h
    | raised t x =>
      simp only [hw] at h
      injection h with h1 h2
      obtain ⟨i, hi, hfi⟩ := awaitAll_src futs _ off t x hw
      have hlt := (List.getElem?_eq_some_iff.mp hi).1
      exact ⟨i, t, x, by rw [List.getElem?_append_left hlt]; exact hi, hfi, h1.symm⟩
    | allDone =>
      simp only [hw] at h
      cases hp : procGen futs rest (off + r0.calls.length) with
      | ok => simp [hp] at h
      | hang => simp [hp] at h
      | raised rr sl' =>
        simp only [hp] at h
        injection h with h1 h2
        obtain ⟨i, t, x, hi, hfi, e⟩ := ih _ _ _ hp
        refine ⟨(tasksOf f r0).length + i, t, x, ?_, ?_, ?_⟩
        · rw [List.getElem?_append_right (by omega)]; simpa using hi
        · rw [length_tasksOf, show off + (r0.calls.length + i) = off + r0.calls.length + i by omega]; exact hfi
        · rw [← h1]; exact e

theorem procGenA_src (futs : Futs) (ρ : List Nat) : ∀ (frs : List (MFunc × FuncResult)) (off : Nat) (r : Raised)
    (sl : List (String × Slot)), procGenA futs ρ frs off = .raised r sl →
    ∃ i t x, (genTasks frs)[i]? = some t ∧ futs (off + i) = some (some x) ∧ r = raisedOf t x := by
  intro frs
  induction frs with
  | nil => intro off r sl h; simp [procGenA] at h
  | cons fr rest ih =>
    obtain ⟨f, r0⟩ := fr
    intro off r sl h
    simp only [procGenA] at h
    rw [genTasks_cons]
    cases hw : awaitGather futs ρ (tasksOf f r0) off with
    | hang => simp [hw] at h
    | raised t x =>
      simp only [hw] at h
      injection h with h1 h2
      obtain ⟨i, hi, hfi⟩ := awaitGather_src futs ρ _ off t x hw
      have hlt := (List.getElem?_eq_some_iff.mp hi).1
      exact ⟨i, t, x, by rw [List.getElem?_append_left hlt]; exact hi, hfi, h1.symm⟩
    | allDone =>
      simp only [hw] at h
      cases hp : procGenA futs ρ rest (off + r0.calls.length) with
      | ok => simp [hp] at h
      | hang => simp [hp] at h
      | raised rr sl' =>
        simp only [hp] at h
        injection h with h1 h2
        obtain ⟨i, t, x, hi, hfi, e⟩ := ih _ _ _ hp
        refine ⟨(tasksOf f r0).length + i, t, x, ?_, ?_, ?_⟩
        · rw [List.getElem?_append_right (by omega)]; simpa using hi
        · rw [length_tasksOf, show off + (r0.calls.length + i) = off + r0.calls.length + i by omega]; exact hfi
        · rw [← h1]; exact e

/-- a finished future was run by the pool (its position is in the schedule) and holds the result of its own task -/
theorem execAll_src (fails : Oracle) (tasks : List Task) (σ : List Nat) (j : Nat) (v : Option Exn)
    (h : execAll fails tasks σ (fun _ => none) j = some v) : j ∈ σ ∧ ∃ t, tasks[j]? = some t ∧ v = failOf fails t := by
  rw [execAll_get] at h
  cases ht : tasks[j]? with
  | none => simp [ht] at h
  | some t =>
    simp only [ht] at h
    by_cases hj : j ∈ σ
    · simp only [hj, ↓reduceIte] at h
      injection h with h
      exact ⟨hj, t, rfl, h.symm⟩
    · simp [hj] at h

/-- a future of the schedule that holds an exception: its task is in the call log and the oracle fails it with that exception -/
theorem inLog_of_fut (fails : Oracle) (tasks : List Task) (σ : List Nat) (i : Nat) (t : Task) (x : Exn) (r : Raised)
    (hi : tasks[i]? = some t) (hf : execAll fails tasks σ (fun _ => none) (0 + i) = some (some x)) (e : r = raisedOf t x) :
    InLog fails r (σ.filterMap fun i => tasks[i]?) := by
  rw [Nat.zero_add] at hf
  obtain ⟨hiσ, t', ht', hv⟩ := execAll_src fails tasks σ i _ hf
  rw [hi] at ht'
  injection ht' with ht'
  subst ht'
  subst e
  exact ⟨t, List.mem_filterMap.mpr ⟨i, hiσ, hi⟩, hv.symm, rfl⟩

/-! ### one generation -/

theorem seqGen_in_log (fails : Oracle) (R : Env → MFunc → M FuncResult) (env : Env) (gen : List MFunc) (r : Raised)
    (log : List Task) (sl : List (String × Slot)) (h : seqGen fails R env gen = .raised r log sl) : InLog fails r log := by
  have := seqGen_facts fails R env gen
  rw [h] at this
  obtain ⟨_, pre, t, x, e, _, hx, hr⟩ := this
  subst hr; subst e
  exact ⟨t, by simp, hx, rfl⟩

theorem poolGen_in_log (fails : Oracle) (σ : List Nat) (R : Env → MFunc → M FuncResult) (env : Env) (gen : List MFunc)
    (r : Raised) (log : List Task) (sl : List (String × Slot)) (h : poolGen fails σ R env gen = .raised r log sl) :
    InLog fails r log := by
  unfold poolGen at h
  cases hr : runGenWith R env gen with
  | error e => simp [hr] at h
  | ok rs =>
    simp only [hr] at h
    cases hp : procGen (execAll fails (genTasks (gen.zip rs)) σ fun _ => none) (gen.zip rs) 0 with
    | ok => simp [hp] at h
    | hang => simp [hp] at h
    | raised r' sl' =>
      simp only [hp] at h
      injection h with h1 h2 h3
      subst h1; subst h2
      obtain ⟨i, t, x, hi, hfi, e⟩ := procGen_src _ _ _ _ _ hp
      exact inLog_of_fut fails _ σ i t x _ hi hfi e

theorem poolGenA_in_log (fails : Oracle) (σ ρ : List Nat) (R : Env → MFunc → M FuncResult) (env : Env) (gen : List MFunc)
    (r : Raised) (log : List Task) (sl : List (String × Slot)) (h : poolGenA fails σ ρ R env gen = .raised r log sl) :
    InLog fails r log := by
  unfold poolGenA at h
  cases hr : runGenWith R env gen with
  | error e => simp [hr] at h
  | ok rs =>
    simp only [hr] at h
    cases hp : procGenA (execAll fails (genTasks (gen.zip rs)) σ fun _ => none) ρ (gen.zip rs) 0 with
    | ok => simp [hp] at h
    | hang => simp [hp] at h
    | raised r' sl' =>
      simp only [hp] at h
      injection h with h1 h2 h3
      subst h1; subst h2
      obtain ⟨i, t, x, hi, hfi, e⟩ := procGenA_src _ _ _ _ _ _ hp
      exact inLog_of_fut fails _ σ i t x _ hi hfi e

/-! ### the generation loop -/

/-- per-generation hypothesis: a raised generation executed the invocation whose exception it raises -/
def GenInLog (fails : Oracle) (G : Nat → Env → List MFunc → GenOut) : Prop :=
  ∀ g env gen r log sl, G g env gen = .raised r log sl → InLog fails r log

theorem runGensG_in_log (fails : Oracle) (G : Nat → Env → List MFunc → GenOut) (hG : GenInLog fails G) :
    ∀ (gens : List (List MFunc)) (env : Env) (g g' : Nat) (r : Raised) (log : List Task) (store : List (String × Slot)),
      runGensG G gens env g = .raised g' r log store → InLog fails r log := by
  intro gens
  induction gens with
  | nil => intro env g g' r log store h; simp [runGensG] at h
  | cons gen rest ih =>
    intro env g g' r log store h
    simp only [runGensG] at h
    cases hg : G g env gen with
    | refused e => simp [hg] at h
    | hang l => simp [hg] at h
    | raised r0 log0 slots =>
      simp only [hg] at h
      injection h with h1 h2 h3 h4
      subst h2; subst h3
      exact hG _ _ _ _ _ _ hg
    | ok rs log0 =>
      simp only [hg] at h
      cases hrec : runGensG G rest { env with store := env.store ++ rs.flatMap (·.slots) } (g + 1) with
      | ok a b c => simp [hrec] at h
      | refused e => simp [hrec] at h
      | hang a b => simp [hrec] at h
      | raised g1 r1 log1 st1 =>
        simp only [hrec] at h
        injection h with h1 h2 h3 h4
        subst h2; subst h3
        obtain ⟨t, ht, hx, e⟩ := ih _ _ _ _ _ _ hrec
        exact ⟨t, List.mem_append_right _ ht, hx, e⟩

theorem genInLog_genE (mode : Mode) (fails : Oracle) (sched : Nat → List Nat) (R : Env → MFunc → M FuncResult) :
    GenInLog fails (fun g env gen => genE mode fails (sched g) R env gen) := by
  intro g env gen r log sl h
  cases mode with
  | seq => exact seqGen_in_log fails R env gen r log sl h
  | pool => exact poolGen_in_log fails (sched g) R env gen r log sl h

theorem genInLog_poolGenA (fails : Oracle) (sched loopo : Nat → List Nat) (R : Env → MFunc → M FuncResult) :
    GenInLog fails (fun g env gen => poolGenA fails (sched g) (loopo g) R env gen) :=
  fun g env gen r log sl h => poolGenA_in_log fails (sched g) (loopo g) R env gen r log sl h

theorem runGensE_in_log (mode : Mode) (fails : Oracle) (sched : Nat → List Nat) (R : Env → MFunc → M FuncResult)
    (gens : List (List MFunc)) (env : Env) (g g' : Nat) (r : Raised) (log : List Task) (store : List (String × Slot))
    (h : runGensE mode fails sched R gens env g = .raised g' r log store) : InLog fails r log := by
  rw [← runGensG_genE] at h
  exact runGensG_in_log fails _ (genInLog_genE mode fails sched R) gens env g g' r log store h

theorem runGensA_in_log (fails : Oracle) (sched loopo : Nat → List Nat) (R : Env → MFunc → M FuncResult)
    (gens : List (List MFunc)) (env : Env) (g g' : Nat) (r : Raised) (log : List Task) (store : List (String × Slot))
    (h : runGensA fails sched loopo R gens env g = .raised g' r log store) : InLog fails r log :=
  runGensG_in_log fails _ (genInLog_poolGenA fails sched loopo R) gens env g g' r log store h

/-! ### the snapshots a log exposes -/

theorem findSome?_of_mem {α β} (F : α → Option β) : ∀ l : List α, (∃ t, t ∈ l ∧ F t ≠ none) →
    ∃ s t, l.findSome? F = some s ∧ t ∈ l ∧ F t = some s := by
  intro l
  induction l with
  | nil => intro h; obtain ⟨t, ht, _⟩ := h; cases ht
  | cons a l ih =>
    intro h
    cases hF : F a with
    | some b => exact ⟨b, a, by simp [List.findSome?, hF], by simp, hF⟩
    | none =>
      obtain ⟨t, ht, hne⟩ := h
      rcases List.mem_cons.mp ht with hta | ht
      · subst hta; exact absurd hF hne
      · obtain ⟨s, u, e, hu, hs⟩ := ih ⟨t, ht, hne⟩
        exact ⟨s, u, by simp [List.findSome?, hF, e], List.mem_cons_of_mem _ hu, hs⟩

theorem findSome?_none_of_all {α β} (F : α → Option β) : ∀ l : List α, (∀ t ∈ l, F t = none) → l.findSome? F = none := by
  intro l
  induction l with
  | nil => intro _; rfl
  | cons a l ih =>
    intro h
    simp only [List.findSome?, h a (by simp)]
    exact ih fun t ht => h t (List.mem_cons_of_mem _ ht)

/-- `Pipeline.error_snapshot` is set iff some executed invocation raised … -/
theorem pipelineSnapshot_none (fails : Oracle) (log : List Task) (h : ∀ t ∈ log, failOf fails t = none) :
    pipelineSnapshot fails log = none := by
  unfold pipelineSnapshot
  apply findSome?_none_of_all
  intro t ht
  simp [h t (List.mem_reverse.mp ht)]

/-- … and then it is the snapshot of a raising invocation of the log -/
theorem pipelineSnapshot_any (fails : Oracle) (log : List Task) (h : ∃ t, t ∈ log ∧ failOf fails t ≠ none) :
    ∃ s t, pipelineSnapshot fails log = some s ∧ t ∈ log ∧ failOf fails t = some s.exn ∧ s = (raisedOf t s.exn).snap := by
  obtain ⟨t0, ht0, hne⟩ := h
  obtain ⟨s, t, e, ht, hs⟩ := findSome?_of_mem
    (fun t => (failOf fails t).map fun x => ({ fname := t.f.name, exn := x, kwargs := t.c.args } : Snapshot)) log.reverse
    ⟨t0, List.mem_reverse.mpr ht0, by cases hx : failOf fails t0 <;> simp_all⟩
  refine ⟨s, t, e, List.mem_reverse.mp ht, ?_⟩
  cases hx : failOf fails t with
  | none => simp [hx] at hs
  | some x =>
    simp only [hx, Option.map_some] at hs
    injection hs with hs
    subst hs
    exact ⟨rfl, rfl⟩

/-- one step of the fold of `funcSnapshot` -/
def snapStep (fails : Oracle) (fname : String) (acc : Option Snapshot) (t : Task) : Option Snapshot :=
  if t.f.name = fname then
    match failOf fails t with
    | some x => some { fname := fname, exn := x, kwargs := t.c.args }
    | none => acc
  else acc

theorem funcSnapshot_eq (fails : Oracle) (fname : String) (log : List Task) :
    funcSnapshot fails fname log = log.foldl (snapStep fails fname) none := rfl

/-- the fold either keeps its accumulator (no invocation of the function raised) or ends with the snapshot of a raising
    invocation of that function from the log -/
theorem snapFold_cases (fails : Oracle) (fname : String) : ∀ (log : List Task) (acc : Option Snapshot),
    (log.foldl (snapStep fails fname) acc = acc ∧ ∀ t ∈ log, t.f.name = fname → failOf fails t = none) ∨
    (∃ s t, log.foldl (snapStep fails fname) acc = some s ∧ t ∈ log ∧ t.f.name = fname ∧ failOf fails t = some s.exn ∧
      s = (raisedOf t s.exn).snap) := by
  intro log
  induction log with
  | nil => intro acc; left; simp
  | cons a l ih =>
    intro acc
    simp only [List.foldl_cons]
    rcases ih (snapStep fails fname acc a) with ⟨e, hnone⟩ | ⟨s, t, e, ht, hn, hx, hs⟩
    · by_cases hn : a.f.name = fname
      · cases hx : failOf fails a with
        | none =>
          left
          have hstep : snapStep fails fname acc a = acc := by simp [snapStep, hn, hx]
          rw [hstep] at e ⊢
          refine ⟨e, ?_⟩
          intro t ht hnt
          rcases List.mem_cons.mp ht with hta | ht
          · subst hta; exact hx
          · exact hnone t ht hnt
        | some x =>
          right
          have hstep : snapStep fails fname acc a = some { fname := fname, exn := x, kwargs := a.c.args } := by
            simp [snapStep, hn, hx]
          rw [hstep] at e ⊢
          refine ⟨_, a, e, by simp, hn, hx, ?_⟩
          subst hn; rfl
      · left
        have hstep : snapStep fails fname acc a = acc := by simp [snapStep, hn]
        rw [hstep] at e ⊢
        refine ⟨e, ?_⟩
        intro t ht hnt
        rcases List.mem_cons.mp ht with hta | ht
        · subst hta; exact absurd hnt hn
        · exact hnone t ht hnt
    · right; exact ⟨s, t, e, List.mem_cons_of_mem _ ht, hn, hx, hs⟩

theorem funcSnapshot_none (fails : Oracle) (fname : String) (log : List Task)
    (h : ∀ t ∈ log, t.f.name = fname → failOf fails t = none) : funcSnapshot fails fname log = none := by
  rw [funcSnapshot_eq]
  rcases snapFold_cases fails fname log none with ⟨e, _⟩ | ⟨s, t, _, ht, hn, hx, _⟩
  · exact e
  · rw [h t ht hn] at hx; cases hx

theorem funcSnapshot_any (fails : Oracle) (fname : String) (log : List Task)
    (h : ∃ t, t ∈ log ∧ t.f.name = fname ∧ failOf fails t ≠ none) :
    ∃ s t, funcSnapshot fails fname log = some s ∧ t ∈ log ∧ t.f.name = fname ∧ failOf fails t = some s.exn ∧
      s = (raisedOf t s.exn).snap := by
  rw [funcSnapshot_eq]
  rcases snapFold_cases fails fname log none with ⟨_, hnone⟩ | h'
  · obtain ⟨t, ht, hn, hne⟩ := h
    exact absurd (hnone t ht hn) hne
  · exact h'

/-- a snapshot of a raising invocation reproduces that invocation's exception, also after `save`/`load` -/
theorem reproduce_of_snap (fails : Oracle) (t : Task) (s : Snapshot) (hx : failOf fails t = some s.exn)
    (hs : s = (raisedOf t s.exn).snap) : reproduce fails (load (save s)) = .error s.exn := by
  have h1 : s.fname = t.f.name := congrArg (·.fname) hs
  have h2 : s.kwargs = t.c.args := congrArg (·.kwargs) hs
  have h3 : fails t.f.name t.c.args = some s.exn := hx
  simp only [reproduce, load, save, h1, h2, h3]

/-- a snapshot of a raising invocation with the name and arguments of `t` is the snapshot of `t` -/
theorem snap_eq_of_same (fails : Oracle) (t u : Task) (x : Exn) (s : Snapshot) (hx : failOf fails t = some x)
    (hxu : failOf fails u = some s.exn) (hs : s = (raisedOf u s.exn).snap) (hn : u.f.name = t.f.name) (ha : u.c.args = t.c.args) :
    s = (raisedOf t x).snap := by
  have hxe : s.exn = x := by
    have h1 : fails u.f.name u.c.args = some s.exn := hxu
    have h2 : fails t.f.name t.c.args = some x := hx
    rw [hn, ha, h2] at h1
    injection h1 with h1
    exact h1.symm
  rw [hs, hxe]
  simp only [raisedOf, handleError, hn, ha]

/-! ### from "in the log" to the snapshots -/

theorem pipelineSnapshot_of_inLog (fails : Oracle) (r : Raised) (log : List Task) (h : InLog fails r log) :
    ∃ s t, pipelineSnapshot fails log = some s ∧ t ∈ log ∧ failOf fails t = some s.exn ∧ s = (raisedOf t s.exn).snap ∧
      reproduce fails (load (save s)) = .error s.exn := by
  obtain ⟨t0, ht0, hx0, _⟩ := h
  obtain ⟨s, t, e, ht, hx, hs⟩ := pipelineSnapshot_any fails log ⟨t0, ht0, by rw [hx0]; simp⟩
  exact ⟨s, t, e, ht, hx, hs, reproduce_of_snap fails t s hx hs⟩

theorem funcSnapshot_of_inLog (fails : Oracle) (r : Raised) (log : List Task) (h : InLog fails r log) :
    ∃ s t, funcSnapshot fails r.noteFunc log = some s ∧ t ∈ log ∧ t.f.name = r.noteFunc ∧ failOf fails t = some s.exn ∧
      s = (raisedOf t s.exn).snap ∧ reproduce fails (load (save s)) = .error s.exn := by
  obtain ⟨t0, ht0, hx0, hr⟩ := h
  have hn0 : t0.f.name = r.noteFunc := (congrArg (·.noteFunc) hr).symm
  obtain ⟨s, t, e, ht, hn, hx, hs⟩ := funcSnapshot_any fails r.noteFunc log ⟨t0, ht0, hn0, by rw [hx0]; simp⟩
  exact ⟨s, t, e, ht, hn, hx, hs, reproduce_of_snap fails t s hx hs⟩

theorem snapshot_single_of_inLog (fails : Oracle) (r : Raised) (log : List Task) (h : InLog fails r log)
    (hone : ∀ u ∈ log, failOf fails u ≠ none → u.f.name = r.snap.fname ∧ u.c.args = r.snap.kwargs) :
    pipelineSnapshot fails log = some r.snap ∧ funcSnapshot fails r.noteFunc log = some r.snap := by
  obtain ⟨t, ht, hx, hr⟩ := h
  generalize r.exn = x at hx hr
  subst hr
  have hne : failOf fails t ≠ none := by rw [hx]; simp
  constructor
  · obtain ⟨s, u, e, hu, hxu, hs⟩ := pipelineSnapshot_any fails log ⟨t, ht, hne⟩
    obtain ⟨hn, ha⟩ := hone u hu (by rw [hxu]; simp)
    rw [e, snap_eq_of_same fails t u x s hx hxu hs hn ha]
  · obtain ⟨s, u, e, hu, _, hxu, hs⟩ := funcSnapshot_any fails t.f.name log ⟨t, ht, rfl, hne⟩
    obtain ⟨hn, ha⟩ := hone u hu (by rw [hxu]; simp)
    have e' : funcSnapshot fails (raisedOf t x).noteFunc log = some s := e
    rw [e', snap_eq_of_same fails t u x s hx hxu hs hn ha]

end PF.Errors
