import PfModel.DriverVal
import PfModel.Model.SubPipe
import PfModel.Model.SubPipeDecide
import PfModel.Model.SubPipeScope
/-! Driver for C11 (`pipe.sub`, `pipe.call`, `map.sub`): subpipeline selection (repaired and pinned variant), calling the
partial pipeline, and `map(output_names=…, auto_subpipeline=…)`. -/
open Lean PF PF.Drv PF.Sub

def getFunc (j : Json) : R Pipe.Func := do
  return { name := ← strF j "name", params := ← listF (asPair asStr asStr) j "params", outputs := ← listF asStr j "outputs",
           defaults := (← optF getKw j "defaults").getD [], bound := (← optF getKw j "bound").getD [] }

def getASpec (j : Json) : R Map.ASpec := do
  let (n, ax) ← asPair asStr (asList (asOpt asStr)) j
  return { name := n, axes := ax }

def getMSpec (j : Json) : R Map.MSpec := do
  return { inputs := ← listF getASpec j "inputs", outputs := ← listF getASpec j "outputs" }

def getMFunc (j : Json) : R Map.MFunc := do
  return { name := ← strF j "name", params := ← listF (asPair asStr asStr) j "params", outputs := ← listF asStr j "outputs",
           mapspec := ← optF getMSpec j "mapspec", ret := ← optF (asList asNat) j "ret", internal := ← optF (asList asNat) j "internal",
           defaults := (← optF getKw j "defaults").getD [], bound := (← optF getKw j "bound").getD [] }

def putSErr : SErr → Json
  | .noArgs => jObj [("err", jStr "ValueError"), ("why", jStr "noArgs")]
  | .unknown n => jObj [("err", jStr "KeyError"), ("name", jStr n)]
  | .missing rs => jObj [("err", jStr "ValueError"), ("missing", jList jStr rs)]
  | .fuel => jObj [("err", jStr "RecursionError")]

def putPipeErr : Pipe.Err → Json
  | .fuel => jObj [("err", jStr "RecursionError")]
  | .missing p => jObj [("err", jStr "ValueError"), ("missing", jList jStr [p])]
  | .noFunc _ => jObj [("err", jStr "KeyError")]
  | .unused ps => jObj [("err", jStr "UnusedParametersError"), ("unused", jList jStr ps)]
  | .outputInKwargs => jObj [("err", jStr "ValueError")]
  | .mapspec => jObj [("err", jStr "RuntimeError")]

def putMErr : Map.Err → Json
  | .value w => jObj [("err", jStr "ValueError"), ("why", jStr w)]
  | .type w => jObj [("err", jStr "TypeError"), ("why", jStr w)]
  | .index w => jObj [("err", jStr "IndexError"), ("why", jStr w)]
  | .key w => jObj [("err", jStr "KeyError"), ("why", jStr w)]
  | .fuel => jObj [("err", jStr "RecursionError")]

def putOutcome : Except Pipe.Err Pipe.Outcome → Json
  | .error e => putPipeErr e
  | .ok o => jObj [("value", putVal o.value), ("calls", jList jStr o.calls)]

def putCall (c : Map.Call) : Json := jArr [jStr c.name, putKw c.args]

/-- one item of an inputs dict in any spelling: `[name, value]` or `[scope, {"scope": [[name, value], …]}]` -/
def getKwArg (j : Json) : R (String × Rw.KwArg) := do
  let (k, v) ← asPair asStr pure j
  match fld? v "scope" with
  | some items => return (k, .scope (← getKw items))
  | none => return (k, .val (← getVal v))

def optNames (a : Json) (k : String) : R (Option (List String)) := optF (asList asStr) a k

def handle (m : String) (a : Json) : R Json := do
  match m with
  | "pipe.sub" =>
    let fs ← listF getFunc a "funcs"
    let I ← optNames a "inputs"
    let S ← optNames a "outputs"
    let put : Except SErr (List Pipe.Func) → Json
      | .error e => putSErr e
      | .ok sub => jObj [("kept", jList jStr (sub.map (·.name))), ("roots", jList jStr (roots funcNode sub).eraseDups),
                         ("defaults", jList jStr (dnames funcNode sub).eraseDups)]
    return jObj [("now", put (subpipeline funcNode fs I S)), ("legacy", put (Legacy.subpipeline funcNode fs I S))]
  | "pipe.call" =>
    let fs ← listF getFunc a "funcs"
    let kw ← getKw (← fld a "kw")
    let S ← listF asStr a "S"
    let o ← strF a "out"
    let sub : Json := match callSub fs kw S o with
      | .error e => putSErr e
      | .ok r => putOutcome r
    -- the full pipeline called with the provided names as keywords, and the memo-free composition
    let full := putOutcome (Pipe.runTop fs kw (.name o))
    let spec : Json := match Pipe.compose fs kw (Pipe.fuelFor fs) o with | .ok v => putVal v | .error _ => Json.null
    return jObj [("sub", sub), ("full", full), ("spec", spec)]
  | "map.sub" =>
    let fs ← listF getMFunc a "funcs"
    -- "given": the inputs as the caller spelled them (scope dictionaries allowed): `flatInputs` (`prepare_run` flattens first), so that what
    -- follows IS `mapSubScoped`; else "inputs": flat
    let inputs ← match ← optF (asList getKwArg) a "given" with
      | some g => pure (flatInputs fs g)
      | none => getKw (← fld a "inputs")
    let internal := (← optF (asList (asPair asStr (asList asNat))) a "internal").getD []
    let S ← optNames a "outputs"
    let auto := (← optF asBool a "auto").getD false
    let legacy : Json := match (if auto || S.isSome then Legacy.subpipeline mfuncNode fs (some (akeys inputs)) S else .ok fs) with
      | .error e => putSErr e
      | .ok sub => jObj [("kept", jList jStr (sub.map (·.name)))]
    match mapSub fs inputs internal S auto with
    | .error (.sub e) => return jObj [("now", putSErr e), ("at", jStr "subpipeline"), ("legacy", legacy)]
    | .error (.map e) => return jObj [("now", putMErr e), ("at", jStr "map"), ("legacy", legacy)]
    | .ok (sub, r) =>
      let specOk : Bool := match mapSubSpec fs inputs internal S auto with
        | .ok (_, r') => (r'.outputs.map fun kv => (kv.1, (putVal kv.2).compress)) == (r.outputs.map fun kv => (kv.1, (putVal kv.2).compress))
        | .error _ => false
      return jObj [("now", jObj [("kept", jList jStr (sub.map (·.name))), ("outputs", putKw r.outputs), ("calls", jList putCall r.calls),
                                  ("spec_agrees", jBool specOk), ("flat", jList jStr (akeys inputs))]),
                   ("legacy", legacy)]
  | "map.lenient" =>
    -- round 3: the answering behaviour for an over-provided request (`mapSubLenient`, = `mapSub` when nothing is over-provided)
    let fs ← listF getMFunc a "funcs"
    let inputs ← getKw (← fld a "inputs")
    let internal := (← optF (asList (asPair asStr (asList asNat))) a "internal").getD []
    let S ← optNames a "outputs"
    let auto := (← optF asBool a "auto").getD false
    match mapSubLenient fs inputs internal S auto with
    | .error (.sub e) => return jObj [("now", putSErr e), ("at", jStr "subpipeline")]
    | .error (.map e) => return jObj [("now", putMErr e), ("at", jStr "map")]
    | .ok (sub, r) =>
      return jObj [("now", jObj [("kept", jList jStr (sub.map (·.name))), ("outputs", putKw r.outputs), ("calls", jList putCall r.calls)])]
  | "pipe.computable" =>
    -- round 3: "S is computable from I" decided over the FULL pipeline (`computableB`, proved ⇔ `Computable` in `C11_computable_decided`)
    let fs ← listF getFunc a "funcs"
    let I ← listF asStr a "inputs"
    let S ← listF asStr a "outputs"
    return jObj [("computable", jBool (computableB funcNode fs I S)), ("lacking", jList jStr (lackingNames funcNode fs I S)),
                 ("unknown", jList jStr (unknownOutputs funcNode fs S)),
                 ("needed", jList jStr ((neededFns funcNode fs I S).map (·.name)))]
  | "map.computable" =>
    let fs ← listF getMFunc a "funcs"
    let inputs ← getKw (← fld a "inputs")
    let S ← listF asStr a "outputs"
    let I := akeys inputs
    return jObj [("computable", jBool (computableB mfuncNode fs I S)), ("lacking", jList jStr (lackingNames mfuncNode fs I S)),
                 ("unknown", jList jStr (unknownOutputs mfuncNode fs S)),
                 ("needed", jList jStr ((neededFns mfuncNode fs I S).map (·.name))),
                 ("extras", jList jStr (extras (neededFns mfuncNode fs I S) inputs))]
  | _ => .error s!"unknown entry {m}"

def main : IO Unit := loop handle
