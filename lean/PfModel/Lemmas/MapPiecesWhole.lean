import PfModel.Model.MapPiecesWhole
import PfModel.Lemmas.MapPieces
import PfModel.Lemmas.MapPiecesFlowRun
import PfModel.Lemmas.MapPiecesFlowDerive
/-!
Round 9 of C06: the structure of the store a partial run leaves, independent of what it read (no data-flow hypotheses):
every slot is the previous slot plus the selected missing elements (`part_cells`), a complete folder makes the next run compute
nothing (`final_run`), and the folder after a covering sequence of parts is complete (`pieces_complete`).
-/
namespace PF.Pieces
open PF PF.Map

/-! ### one function -/

/-- what one function of a part leaves, whatever environment it read its arguments from -/
def FuncShape (shapes : List (String × List Nat)) (masks : List (String × List Bool)) (fixed : Option (List (String × Sel)))
    (old : List (String × Slot)) (f : MFunc) (r : FuncResult) : Prop :=
  (∀ ms sh mk, mappedInfo shapes masks f = some (ms, sh, mk) →
    ∃ fm A, fixedMask fixed ms sh mk = .ok fm ∧ r = selResult old (selOf fm) f sh mk A) ∧
  (mappedInfo shapes masks f = none →
    (∃ vals : String → Val, r.slots = f.outputs.map fun o => (o, Slot.single (vals o))) ∧
    (f.outputs ≠ [] → (loadSingles old f.outputs).isSome = true → r.calls = []))

theorem loadSingles_vals (old : List (String × Slot)) : ∀ (outs : List String) (vs : List (String × Val)),
    loadSingles old outs = some vs →
    ∃ vals : String → Val, vs = outs.map fun o => (o, vals o) := by
  intro outs
  induction outs with
  | nil => intro vs h; simp [loadSingles] at h; subst h; exact ⟨fun _ => .none, rfl⟩
  | cons o r ih =>
    intro vs h
    simp only [loadSingles] at h
    split at h
    · next v vs' hv1 hv2 =>
      cases h
      obtain ⟨vals, hvals⟩ := ih vs' hv2
      refine ⟨fun x => if x = o then v else vals x, ?_⟩
      simp only [List.map_cons, ↓reduceIte, List.cons.injEq, true_and]
      rw [hvals]
      apply List.map_congr_left
      intro x hx
      by_cases e : x = o
      · subst e
        -- `o` occurs again in the tail: the tail's value is the same stored value
        have : (x, vals x) ∈ vs' := by rw [hvals]; exact List.mem_map.mpr ⟨x, hx, rfl⟩
        simp
        clear this
        -- both come from `alookup old x`
        have hk : ∀ (outs : List String) (ws : List (String × Val)), loadSingles old outs = some ws →
            ∀ kv ∈ ws, alookup old kv.1 = some (.single kv.2) := by
          intro outs
          induction outs with
          | nil => intro ws h; simp [loadSingles] at h; subst h; simp
          | cons o' r' ih' =>
            intro ws h
            simp only [loadSingles] at h
            split at h
            · next v' ws' h1 h2 =>
              cases h
              intro kv hkv
              rcases List.mem_cons.mp hkv with e | e
              · subst e; exact h1
              · exact ih' ws' h2 kv e
            · cases h
        have h1 := hk r vs' hv2 (x, vals x) (by rw [hvals]; exact List.mem_map.mpr ⟨x, hx, rfl⟩)
        simp only [] at h1
        rw [hv1] at h1
        cases h1; rfl
      · simp [e]
    · cases h

theorem loadSingles_some (old : List (String × Slot)) : ∀ (outs : List String),
    (∀ o ∈ outs, ∃ v, alookup old o = some (.single v)) → (loadSingles old outs).isSome = true := by
  intro outs
  induction outs with
  | nil => intro _; simp [loadSingles]
  | cons o r ih =>
    intro h
    obtain ⟨v, hv⟩ := h o List.mem_cons_self
    have := ih (fun o' ho' => h o' (List.mem_cons_of_mem _ ho'))
    simp only [loadSingles, hv]
    cases hl : loadSingles old r with
    | none => rw [hl] at this; cases this
    | some vs => rfl

theorem runSingle_slots (fs : List MFunc) (env : Env) (f : MFunc) (r : FuncResult) (h : runSingle fs env f = .ok r) :
    ∃ vals : String → Val, r.slots = f.outputs.map fun o => (o, Slot.single (vals o)) := by
  unfold runSingle at h
  simp only [bind, Except.bind] at h
  split at h
  · cases h
  · next args _ =>
    simp only [pure, Except.pure, Except.ok.injEq] at h
    subst h
    exact ⟨fun o => outVal f args o, by simp [List.map_map, Function.comp]⟩

theorem runSinglePart_shape (fs : List MFunc) (old : List (String × Slot)) (env : Env) (f : MFunc) (r : FuncResult)
    (h : runSinglePart fs old env f = .ok r) :
    (∃ vals : String → Val, r.slots = f.outputs.map fun o => (o, Slot.single (vals o))) ∧
    (f.outputs ≠ [] → (loadSingles old f.outputs).isSome = true → r.calls = []) := by
  unfold runSinglePart at h
  split at h
  · next he =>
    refine ⟨runSingle_slots fs env f r h, fun hne => ?_⟩
    exact absurd (List.isEmpty_iff.mp he) hne
  · split at h
    · next vs hvs =>
      simp only [pure, Except.pure, Except.ok.injEq] at h
      subst h
      obtain ⟨vals, hvals⟩ := loadSingles_vals old f.outputs vs hvs
      refine ⟨⟨vals, ?_⟩, fun _ _ => rfl⟩
      simp only [hvals, List.map_map]
      rfl
    · next hnone =>
      refine ⟨runSingle_slots fs env f r h, fun _ hs => ?_⟩
      rw [hnone] at hs; cases hs

theorem runFuncPart_shape (fs : List MFunc) (shapes : List (String × List Nat)) (masks : List (String × List Bool))
    (fixed : Option (List (String × Sel))) (old : List (String × Slot)) (env : Env) (f : MFunc) (r : FuncResult)
    (h : runFuncPart fs shapes masks fixed old env f = .ok r) : FuncShape shapes masks fixed old f r := by
  unfold runFuncPart at h
  unfold FuncShape mappedInfo
  cases hms : f.mapspec with
  | none =>
    rw [hms] at h
    simp only []
    exact ⟨fun _ _ _ e => (by cases e), fun _ => runSinglePart_shape fs old env f r h⟩
  | some ms =>
    rw [hms] at h
    simp only [] at h ⊢
    by_cases hin : ms.inputs.isEmpty = true
    · rw [if_pos hin] at h
      simp only [hin, ↓reduceIte]
      exact ⟨fun _ _ _ e => (by cases e), fun _ => runSinglePart_shape fs old env f r h⟩
    · rw [if_neg hin] at h
      simp only [hin, Bool.false_eq_true, ↓reduceIte]
      cases ho : f.outputs.head? with
      | none => rw [ho] at h; cases h
      | some o =>
        rw [ho] at h
        simp only [] at h ⊢
        cases hs : alookup shapes o with
        | none => rw [hs] at h; cases h
        | some sh =>
          cases hk : alookup masks o with
          | none => rw [hs, hk] at h; cases h
          | some mk =>
            rw [hs, hk] at h
            simp only [] at h ⊢
            by_cases hl : sh.length = mk.length
            · simp only [hl, ne_eq, not_true_eq_false, ↓reduceIte] at h ⊢
              refine ⟨?_, fun e => (by cases e)⟩
              intro ms' sh' mk' e
              simp only [Option.some.injEq, Prod.mk.injEq] at e
              obtain ⟨e1, e2, e3⟩ := e
              subst e1; subst e2; subst e3
              unfold runMappedPart at h
              cases hfm : fixedMask fixed ms sh mk with
              | error e => rw [hfm] at h; cases h
              | ok fm =>
                rw [hfm] at h
                have h' : runMappedSel fs old (selOf fm) env f ms sh mk = .ok r := h
                obtain ⟨A, _, hr⟩ := runMappedSel_inv fs old _ env f ms sh mk r h'
                exact ⟨fm, A, rfl, hr⟩
            · simp only [hl, ne_eq, not_false_eq_true, ↓reduceIte] at h
              cases h

theorem map_fst_map {β} (g : String → β) : ∀ (l : List String), (l.map fun o => (o, g o)).map (·.1) = l := by
  intro l; induction l <;> simp_all

theorem funcShape_keys (shapes : List (String × List Nat)) (masks : List (String × List Bool)) (fixed : Option (List (String × Sel)))
    (old : List (String × Slot)) (f : MFunc) (r : FuncResult) (h : FuncShape shapes masks fixed old f r) :
    r.slots.map (·.1) = f.outputs := by
  cases hi : mappedInfo shapes masks f with
  | none =>
    obtain ⟨⟨vals, hv⟩, _⟩ := h.2 hi
    rw [hv]; exact map_fst_map _ _
  | some t =>
    obtain ⟨ms, sh, mk⟩ := t
    obtain ⟨fm, A, _, hr⟩ := h.1 ms sh mk hi
    rw [hr]; simp only [selResult]; exact map_fst_map _ _

/-! ### the generation loop, generically -/

theorem runGenWith_all (R : Env → MFunc → M FuncResult) (Q : MFunc → FuncResult → Prop) (env : Env) :
    ∀ (gen : List MFunc) (rs : List FuncResult), (∀ f ∈ gen, ∀ r, R env f = .ok r → Q f r) → runGenWith R env gen = .ok rs →
    (∀ f ∈ gen, ∃ r ∈ rs, Q f r) ∧ (∀ r ∈ rs, ∃ f ∈ gen, Q f r) ∧
    ((∀ f r, Q f r → r.slots.map (·.1) = f.outputs) → (rs.flatMap (·.slots)).map (·.1) = gen.flatMap (·.outputs)) := by
  intro gen
  induction gen with
  | nil =>
    intro rs _ h
    simp only [runGenWith, pure, Except.pure, Except.ok.injEq] at h
    subst h
    simp
  | cons g rest ih =>
    intro rs hQ h
    simp only [runGenWith, bind, Except.bind] at h
    cases h1 : R env g with
    | error e => rw [h1] at h; cases h
    | ok r =>
      rw [h1] at h
      simp only [] at h
      cases h2 : runGenWith R env rest with
      | error e => rw [h2] at h; cases h
      | ok rs' =>
        rw [h2] at h
        simp only [pure, Except.pure, Except.ok.injEq] at h
        subst h
        obtain ⟨a1, a2, a3⟩ := ih rs' (fun f hf => hQ f (List.mem_cons_of_mem _ hf)) h2
        have hq := hQ g List.mem_cons_self r h1
        refine ⟨?_, ?_, ?_⟩
        · intro f hf
          rcases List.mem_cons.mp hf with e | e
          · subst e; exact ⟨r, List.mem_cons_self, hq⟩
          · obtain ⟨r', hr', hq'⟩ := a1 f e
            exact ⟨r', List.mem_cons_of_mem _ hr', hq'⟩
        · intro r' hr'
          rcases List.mem_cons.mp hr' with e | e
          · subst e; exact ⟨g, List.mem_cons_self, hq⟩
          · obtain ⟨f, hf, hq'⟩ := a2 r' e
            exact ⟨f, List.mem_cons_of_mem _ hf, hq'⟩
        · intro hk
          simp only [List.flatMap_cons, List.map_append]
          rw [hk g r hq, a3 hk]

theorem runGensWith_all (R : Env → MFunc → M FuncResult) (Q : MFunc → FuncResult → Prop) :
    ∀ (gens : List (List MFunc)) (env : Env) (rs : List FuncResult) (env' : Env),
    (∀ f ∈ gens.flatten, ∀ env r, R env f = .ok r → Q f r) → runGensWith R gens env = .ok (rs, env') →
    env'.store = env.store ++ rs.flatMap (·.slots) ∧
    (∀ f ∈ gens.flatten, ∃ r ∈ rs, Q f r) ∧ (∀ r ∈ rs, ∃ f ∈ gens.flatten, Q f r) ∧
    ((∀ f r, Q f r → r.slots.map (·.1) = f.outputs) → (rs.flatMap (·.slots)).map (·.1) = gens.flatten.flatMap (·.outputs)) := by
  intro gens
  induction gens with
  | nil =>
    intro env rs env' _ h
    simp only [runGensWith, pure, Except.pure, Except.ok.injEq, Prod.mk.injEq] at h
    obtain ⟨h1, h2⟩ := h
    subst h1; subst h2
    simp
  | cons gen rest ih =>
    intro env rs env' hQ h
    simp only [runGensWith, bind, Except.bind] at h
    cases h1 : runGenWith R env gen with
    | error e => rw [h1] at h; cases h
    | ok rs1 =>
      rw [h1] at h
      simp only [] at h
      cases h2 : runGensWith R rest { env with store := env.store ++ rs1.flatMap (·.slots) } with
      | error e => rw [h2] at h; cases h
      | ok r2 =>
        obtain ⟨rs2, env2⟩ := r2
        rw [h2] at h
        simp only [pure, Except.pure, Except.ok.injEq, Prod.mk.injEq] at h
        obtain ⟨e1, e2⟩ := h
        subst e1; subst e2
        obtain ⟨a1, a2, a3⟩ := runGenWith_all R Q env gen rs1
          (fun f hf r hr => hQ f (by simp only [List.flatten_cons, List.mem_append]; exact Or.inl hf) env r hr) h1
        obtain ⟨b0, b1, b2, b3⟩ := ih _ rs2 env2
          (fun f hf => hQ f (by simp only [List.flatten_cons, List.mem_append]; exact Or.inr hf)) h2
        refine ⟨?_, ?_, ?_, ?_⟩
        · rw [b0]; simp only [List.flatMap_append, List.append_assoc]
        · intro f hf
          simp only [List.flatten_cons, List.mem_append] at hf
          rcases hf with e | e
          · obtain ⟨r, hr, hq⟩ := a1 f e
            exact ⟨r, List.mem_append_left _ hr, hq⟩
          · obtain ⟨r, hr, hq⟩ := b1 f e
            exact ⟨r, List.mem_append_right _ hr, hq⟩
        · intro r hr
          simp only [List.flatten_cons, List.mem_append]
          rcases List.mem_append.mp hr with e | e
          · obtain ⟨f, hf, hq⟩ := a2 r e
            exact ⟨f, Or.inl hf, hq⟩
          · obtain ⟨f, hf, hq⟩ := b2 r e
            exact ⟨f, Or.inr hf, hq⟩
        · intro hk
          simp only [List.flatten_cons, List.flatMap_append, List.map_append]
          rw [a3 hk, b3 hk]

/-! ### one part -/

/-- a successful partial run, taken apart: its store and calls are those of the function results, one per function of the
    pipeline, each of the form `FuncShape` -/
theorem runPart_inv (fs : List MFunc) (inputs : List (String × Val)) (ui : List (String × List Nat))
    (fixed : Option (List (String × Sel))) (old : List (String × Slot)) (r : PartResult) (h : runPart fs inputs ui fixed old = .ok r) :
    ∃ rs : List FuncResult, r.store = rs.flatMap (·.slots) ∧ r.res.calls = rs.flatMap (·.calls) ∧
      (∀ f ∈ (generations fs).flatten, ∃ r' ∈ rs, FuncShape r.res.shapes r.res.masks fixed old f r') ∧
      (∀ r' ∈ rs, ∃ f ∈ (generations fs).flatten, FuncShape r.res.shapes r.res.masks fixed old f r') ∧
      akeys r.store = (generations fs).flatten.flatMap (·.outputs) := by
  unfold runPart at h
  cases hv : validateInputs fs inputs with
  | error e => rw [hv] at h; cases h
  | ok u =>
    rw [hv] at h
    simp only [bind, Except.bind, pure, Except.pure] at h
    split at h
    · cases h
    · cases hf : validateFixed fs inputs fixed with
      | error e => rw [hf] at h; cases h
      | ok u' =>
        rw [hf] at h
        simp only [] at h
        cases hm : mapShapes fs inputs (constructInternal fs ui) with
        | error e => rw [hm] at h; cases h
        | ok sm =>
          obtain ⟨shapes, masks⟩ := sm
          rw [hm] at h
          simp only [] at h
          cases hg : runGensWith (runFuncPart fs shapes masks fixed old) (generations fs) { inputs := inputs, store := [] } with
          | error e => rw [hg] at h; cases h
          | ok re =>
            obtain ⟨rs, env'⟩ := re
            rw [hg] at h
            simp only [Except.ok.injEq] at h
            subst h
            simp only []
            obtain ⟨a0, a1, a2, a3⟩ := runGensWith_all (runFuncPart fs shapes masks fixed old) (FuncShape shapes masks fixed old)
              (generations fs) _ rs env' (fun f _ env r hr => runFuncPart_shape fs shapes masks fixed old env f r hr) hg
            simp only [List.nil_append] at a0
            refine ⟨rs, a0, rfl, a1, a2, ?_⟩
            rw [a0]
            exact a3 (fun f r hq => funcShape_keys shapes masks fixed old f r hq)

/-- **the cells of a part, pipeline level** -/
theorem part_cells (fs : List MFunc) (inputs : List (String × Val)) (ui : List (String × List Nat))
    (fixed : Option (List (String × Sel))) (old : List (String × Slot)) (r : PartResult) (h : runPart fs inputs ui fixed old = .ok r)
    (hnd : ((generations fs).flatten.flatMap (·.outputs)).Nodup) :
    ∀ f ∈ (generations fs).flatten,
      (∀ ms sh mk, mappedInfo r.res.shapes r.res.masks f = some (ms, sh, mk) →
        ∃ (fm : Option (List Bool)) (A : Nat → List (String × Val)), fixedMask fixed ms sh mk = .ok fm ∧ ∀ o ∈ f.outputs, ∀ li, cellLookup (oldCells r.store o) li =
          if li ∈ todoOf f.outputs (prod (extOf mk sh)) (selOf fm) (oldCells old) then some (outVal f (A li) o)
          else cellLookup (oldCells old o) li) ∧
      (mappedInfo r.res.shapes r.res.masks f = none → ∀ o ∈ f.outputs, ∃ v, alookup r.store o = some (.single v)) := by
  obtain ⟨rs, hst, _, hall, _, hkeys⟩ := runPart_inv fs inputs ui fixed old r h
  have hnd' : (akeys r.store).Nodup := by rw [hkeys]; exact hnd
  intro f hf
  obtain ⟨r', hr', hq⟩ := hall f hf
  have hsub : ∀ kv ∈ r'.slots, kv ∈ r.store := by
    intro kv hkv
    rw [hst]
    exact List.mem_flatMap.mpr ⟨r', hr', hkv⟩
  constructor
  · intro ms sh mk hi
    obtain ⟨fm, A, hfm, hr⟩ := hq.1 ms sh mk hi
    refine ⟨fm, A, hfm, ?_⟩
    intro o ho li
    have hmem : (o, Slot.array sh mk (stepC f A (todoOf f.outputs (prod (extOf mk sh)) (selOf fm) (oldCells old)) (oldCells old) o)) ∈ r'.slots := by
      rw [hr]
      simp only [selResult]
      exact List.mem_map.mpr ⟨o, ho, rfl⟩
    have hl := alookup_of_mem_nodup r.store o _ hnd' (hsub _ hmem)
    simp only [oldCells, hl]
    exact lookup_stepC f A _ (oldCells old) o li
  · intro hi o ho
    obtain ⟨⟨vals, hv⟩, _⟩ := hq.2 hi
    refine ⟨vals o, ?_⟩
    apply alookup_of_mem_nodup r.store o _ hnd'
    apply hsub
    rw [hv]
    exact List.mem_map.mpr ⟨o, ho, rfl⟩

/-! ### a complete folder -/

/-- the folder misses nothing (the proposition `completeB` decides) -/
def Complete (fs : List MFunc) (shapes : List (String × List Nat)) (masks : List (String × List Bool)) (S : List (String × Slot)) : Prop :=
  ∀ f ∈ (generations fs).flatten,
    (∀ ms sh mk, mappedInfo shapes masks f = some (ms, sh, mk) →
      ∀ li, li < prod (extOf mk sh) → missingIn f.outputs (oldCells S) li = false) ∧
    (mappedInfo shapes masks f = none → ∀ o ∈ f.outputs, ∃ v, alookup S o = some (.single v))

theorem completeB_iff (fs : List MFunc) (shapes : List (String × List Nat)) (masks : List (String × List Bool)) (S : List (String × Slot)) :
    completeB fs shapes masks S = true ↔ Complete fs shapes masks S := by
  unfold completeB Complete
  rw [List.all_eq_true]
  constructor
  · intro h f hf
    have := h f hf
    cases hi : mappedInfo shapes masks f with
    | none =>
      rw [hi] at this
      simp only [List.all_eq_true] at this
      refine ⟨fun _ _ _ e => (by cases e), fun _ o ho => ?_⟩
      have := this o ho
      split at this
      · next v hv => exact ⟨v, hv⟩
      · cases this
    | some t =>
      obtain ⟨ms, sh, mk⟩ := t
      rw [hi] at this
      simp only [List.all_eq_true, List.mem_range, Bool.not_eq_eq_eq_not, Bool.not_true] at this
      refine ⟨fun ms' sh' mk' e => ?_, fun e => (by cases e)⟩
      simp only [Option.some.injEq, Prod.mk.injEq] at e
      obtain ⟨_, e2, e3⟩ := e
      subst e2; subst e3
      exact this
  · intro h f hf
    obtain ⟨h1, h2⟩ := h f hf
    cases hi : mappedInfo shapes masks f with
    | none =>
      simp only [List.all_eq_true]
      intro o ho
      obtain ⟨v, hv⟩ := h2 hi o ho
      rw [hv]
    | some t =>
      obtain ⟨ms, sh, mk⟩ := t
      simp only [List.all_eq_true, List.mem_range, Bool.not_eq_eq_eq_not, Bool.not_true]
      exact h1 ms sh mk hi

/-- **a run on a complete folder computes nothing and leaves every stored element as it was** -/
theorem final_run (fs : List MFunc) (inputs : List (String × Val)) (ui : List (String × List Nat)) (S : List (String × Slot))
    (r : PartResult) (h : runPart fs inputs ui none S = .ok r) (hne : ∀ f ∈ (generations fs).flatten, f.outputs ≠ [])
    (hnd : ((generations fs).flatten.flatMap (·.outputs)).Nodup) (hc : Complete fs r.res.shapes r.res.masks S) :
    r.res.calls = [] ∧
    (∀ f ∈ (generations fs).flatten, ∀ ms sh mk, mappedInfo r.res.shapes r.res.masks f = some (ms, sh, mk) →
      ∀ o ∈ f.outputs, ∀ li, cellLookup (oldCells r.store o) li = cellLookup (oldCells S o) li) ∧
    Complete fs r.res.shapes r.res.masks r.store := by
  have hcells := part_cells fs inputs ui none S r h hnd
  have htodo : ∀ f ∈ (generations fs).flatten, ∀ ms sh mk, mappedInfo r.res.shapes r.res.masks f = some (ms, sh, mk) →
      ∀ sel, todoOf f.outputs (prod (extOf mk sh)) sel (oldCells S) = [] := by
    intro f hf ms sh mk hi sel
    unfold todoOf
    rw [List.filter_eq_nil_iff]
    intro li hli
    rw [(hc f hf).1 ms sh mk hi li (List.mem_range.mp hli)]
    simp
  obtain ⟨rs, _, hcalls, _, hall, _⟩ := runPart_inv fs inputs ui none S r h
  refine ⟨?_, ?_, ?_⟩
  · rw [hcalls]
    rw [List.flatMap_eq_nil_iff]
    intro r' hr'
    obtain ⟨f, hf, hq⟩ := hall r' hr'
    cases hi : mappedInfo r.res.shapes r.res.masks f with
    | none =>
      exact (hq.2 hi).2 (hne f hf) (loadSingles_some S f.outputs ((hc f hf).2 hi))
    | some t =>
      obtain ⟨ms, sh, mk⟩ := t
      obtain ⟨fm, A, _, hr⟩ := hq.1 ms sh mk hi
      rw [hr]
      simp only [selResult, htodo f hf ms sh mk hi, List.map_nil]
  · intro f hf ms sh mk hi o ho li
    obtain ⟨fm, A, _, hcell⟩ := (hcells f hf).1 ms sh mk hi
    rw [hcell o ho li, htodo f hf ms sh mk hi]
    simp
  · intro f hf
    refine ⟨?_, (hcells f hf).2⟩
    intro ms sh mk hi li hli
    obtain ⟨fm, A, _, hcell⟩ := (hcells f hf).1 ms sh mk hi
    have hS := (hc f hf).1 ms sh mk hi li hli
    unfold missingIn at hS ⊢
    rw [List.any_eq_false] at hS ⊢
    intro o ho
    rw [hcell o ho li, htodo f hf ms sh mk hi]
    simpa using hS o ho

/-! ### a sequence of parts -/

theorem selectedBy_of (fx : List (String × Sel)) (ms : MSpec) (sh : List Nat) (mk : List Bool) (fm : Option (List Bool))
    (h : fixedMask (some fx) ms sh mk = .ok fm) (li : Nat) : selectedBy fx ms sh mk li = selOf fm li := by
  unfold selectedBy; rw [h]

/-- after a part, an element of a mapped function is present in every output when it was before or the part selects it -/
theorem part_present (fs : List MFunc) (inputs : List (String × Val)) (ui : List (String × List Nat))
    (fx : List (String × Sel)) (old : List (String × Slot)) (r : PartResult) (h : runPart fs inputs ui (some fx) old = .ok r)
    (hnd : ((generations fs).flatten.flatMap (·.outputs)).Nodup) (f : MFunc) (hf : f ∈ (generations fs).flatten)
    (ms : MSpec) (sh : List Nat) (mk : List Bool) (hi : mappedInfo r.res.shapes r.res.masks f = some (ms, sh, mk)) (li : Nat)
    (hli : li < prod (extOf mk sh))
    (hp : missingIn f.outputs (oldCells old) li = false ∨ selectedBy fx ms sh mk li = true) :
    missingIn f.outputs (oldCells r.store) li = false := by
  obtain ⟨fm, A, hfm, hcell⟩ := ((part_cells fs inputs ui (some fx) old r h hnd) f hf).1 ms sh mk hi
  rw [selectedBy_of fx ms sh mk fm hfm] at hp
  have hold : missingIn f.outputs (oldCells old) li = false ∨ li ∈ todoOf f.outputs (prod (extOf mk sh)) (selOf fm) (oldCells old) := by
    rcases hp with hp | hp
    · exact Or.inl hp
    · cases hm : missingIn f.outputs (oldCells old) li with
      | false => exact Or.inl rfl
      | true => exact Or.inr ((mem_todoOf _ _ _ _ li).mpr ⟨hli, hp, hm⟩)
  unfold missingIn
  rw [List.any_eq_false]
  intro o ho
  rw [hcell o ho li]
  rcases hold with hm | hm
  · by_cases ht : li ∈ todoOf f.outputs (prod (extOf mk sh)) (selOf fm) (oldCells old)
    · rw [if_pos ht]; simp
    · rw [if_neg ht]
      unfold missingIn at hm
      rw [List.any_eq_false] at hm
      exact hm o ho
  · rw [if_pos hm]; simp

theorem runPieces_cons_inv (fs : List MFunc) (inputs : List (String × Val)) (ui : List (String × List Nat))
    (p : Option (List (String × Sel))) (ps : List (Option (List (String × Sel)))) (old : List (String × Slot)) (rs : List PartResult)
    (h : runPieces fs inputs ui (p :: ps) old = .ok rs) :
    ∃ r rs', rs = r :: rs' ∧ runPart fs inputs ui p old = .ok r ∧ runPieces fs inputs ui ps r.store = .ok rs' := by
  simp only [runPieces, bind, Except.bind] at h
  cases h1 : runPart fs inputs ui p old with
  | error e => rw [h1] at h; cases h
  | ok r =>
    rw [h1] at h
    simp only [] at h
    cases h2 : runPieces fs inputs ui ps r.store with
    | error e => rw [h2] at h; cases h
    | ok rs' =>
      rw [h2] at h
      simp only [pure, Except.pure, Except.ok.injEq] at h
      exact ⟨r, rs', h.symm, rfl, h2⟩

/-- **presence accumulates over a sequence of parts**: an element present at the start or selected by some part is present in
    the folder the sequence leaves -/
theorem pieces_present (fs : List MFunc) (inputs : List (String × Val)) (ui : List (String × List Nat))
    (shapes : List (String × List Nat)) (masks : List (String × List Bool))
    (hsm : mapShapes fs inputs (constructInternal fs ui) = .ok (shapes, masks))
    (hnd : ((generations fs).flatten.flatMap (·.outputs)).Nodup) (f : MFunc) (hf : f ∈ (generations fs).flatten)
    (ms : MSpec) (sh : List Nat) (mk : List Bool) (hi : mappedInfo shapes masks f = some (ms, sh, mk)) (li : Nat)
    (hli : li < prod (extOf mk sh)) :
    ∀ (parts : List (List (String × Sel))) (old : List (String × Slot)) (rs : List PartResult),
      runPieces fs inputs ui (parts.map some) old = .ok rs →
      (missingIn f.outputs (oldCells old) li = false ∨ ∃ fx ∈ parts, selectedBy fx ms sh mk li = true) →
      missingIn f.outputs (oldCells (finalStore rs old)) li = false := by
  intro parts
  induction parts with
  | nil =>
    intro old rs h hp
    simp only [List.map_nil, runPieces, pure, Except.pure, Except.ok.injEq] at h
    subst h
    simp only [finalStore]
    rcases hp with hp | ⟨fx, hfx, _⟩
    · exact hp
    · cases hfx
  | cons fx rest ih =>
    intro old rs h hp
    obtain ⟨r, rs', e, h1, h2⟩ := runPieces_cons_inv fs inputs ui (some fx) (rest.map some) old rs h
    subst e
    simp only [finalStore]
    have hs := runPart_shapes fs inputs ui (some fx) old r h1
    rw [hsm] at hs
    simp only [Except.ok.injEq, Prod.mk.injEq] at hs
    have hi' : mappedInfo r.res.shapes r.res.masks f = some (ms, sh, mk) := by rw [← hs.1, ← hs.2]; exact hi
    apply ih r.store rs' h2
    rcases hp with hp | ⟨fx', hfx', hsel⟩
    · exact Or.inl (part_present fs inputs ui fx old r h1 hnd f hf ms sh mk hi' li hli (Or.inl hp))
    · rcases List.mem_cons.mp hfx' with e | e
      · subst e
        exact Or.inl (part_present fs inputs ui fx' old r h1 hnd f hf ms sh mk hi' li hli (Or.inr hsel))
      · exact Or.inr ⟨fx', e, hsel⟩

/-- the folder a non-empty sequence leaves is the store of one of its parts -/
theorem finalStore_last (fs : List MFunc) (inputs : List (String × Val)) (ui : List (String × List Nat)) :
    ∀ (ps : List (Option (List (String × Sel)))) (old : List (String × Slot)) (rs : List PartResult),
      ps ≠ [] → runPieces fs inputs ui ps old = .ok rs →
      ∃ p old' r, r ∈ rs ∧ runPart fs inputs ui p old' = .ok r ∧ finalStore rs old = r.store := by
  intro ps
  induction ps with
  | nil => intro _ _ h; exact absurd rfl h
  | cons p rest ih =>
    intro old rs _ h
    obtain ⟨r, rs', e, h1, h2⟩ := runPieces_cons_inv fs inputs ui p rest old rs h
    subst e
    simp only [finalStore]
    cases rest with
    | nil =>
      simp only [runPieces, pure, Except.pure, Except.ok.injEq] at h2
      subst h2
      exact ⟨p, old, r, List.mem_cons_self, h1, rfl⟩
    | cons q qs =>
      obtain ⟨p', old', r', hr', hrun, he⟩ := ih r.store rs' (by simp) h2
      exact ⟨p', old', r', List.mem_cons_of_mem _ hr', hrun, he⟩

theorem coverB_elim (fs : List MFunc) (shapes : List (String × List Nat)) (masks : List (String × List Bool))
    (parts : List (List (String × Sel))) (h : coverB fs shapes masks parts = true) (f : MFunc) (hf : f ∈ (generations fs).flatten)
    (ms : MSpec) (sh : List Nat) (mk : List Bool) (hi : mappedInfo shapes masks f = some (ms, sh, mk)) (li : Nat)
    (hli : li < prod (extOf mk sh)) : ∃ fx ∈ parts, selectedBy fx ms sh mk li = true := by
  unfold coverB at h
  have := (List.all_eq_true.mp h) f hf
  rw [hi] at this
  simp only [List.all_eq_true, List.mem_range, List.any_eq_true] at this
  exact this li hli

/-- **the folder after a covering sequence of parts is complete** -/
theorem pieces_complete (fs : List MFunc) (inputs : List (String × Val)) (ui : List (String × List Nat))
    (shapes : List (String × List Nat)) (masks : List (String × List Bool))
    (hsm : mapShapes fs inputs (constructInternal fs ui) = .ok (shapes, masks))
    (hnd : ((generations fs).flatten.flatMap (·.outputs)).Nodup)
    (parts : List (List (String × Sel))) (hpne : parts ≠ []) (old : List (String × Slot)) (rs : List PartResult)
    (h : runPieces fs inputs ui (parts.map some) old = .ok rs) (hcov : coverB fs shapes masks parts = true) :
    Complete fs shapes masks (finalStore rs old) := by
  intro f hf
  constructor
  · intro ms sh mk hi li hli
    exact pieces_present fs inputs ui shapes masks hsm hnd f hf ms sh mk hi li hli parts old rs h
      (Or.inr (coverB_elim fs shapes masks parts hcov f hf ms sh mk hi li hli))
  · intro hi o ho
    obtain ⟨p, old', r, _, hrun, he⟩ := finalStore_last fs inputs ui (parts.map some) old rs (by simpa using hpne) h
    rw [he]
    have hs := runPart_shapes fs inputs ui p old' r hrun
    rw [hsm] at hs
    simp only [Except.ok.injEq, Prod.mk.injEq] at hs
    have hi' : mappedInfo r.res.shapes r.res.masks f = none := by rw [← hs.1, ← hs.2]; exact hi
    exact ((part_cells fs inputs ui p old' r hrun hnd) f hf).2 hi' o ho

/-! ### what stays missing -/

/-- after a part an element of a mapped function is present in every output exactly when it was before or the part selects it -/
theorem part_present_iff (fs : List MFunc) (inputs : List (String × Val)) (ui : List (String × List Nat))
    (fx : List (String × Sel)) (old : List (String × Slot)) (r : PartResult) (h : runPart fs inputs ui (some fx) old = .ok r)
    (hnd : ((generations fs).flatten.flatMap (·.outputs)).Nodup) (f : MFunc) (hf : f ∈ (generations fs).flatten)
    (ms : MSpec) (sh : List Nat) (mk : List Bool) (hi : mappedInfo r.res.shapes r.res.masks f = some (ms, sh, mk)) (li : Nat)
    (hli : li < prod (extOf mk sh)) :
    missingIn f.outputs (oldCells r.store) li = false ↔
      (missingIn f.outputs (oldCells old) li = false ∨ selectedBy fx ms sh mk li = true) := by
  constructor
  · intro hm
    obtain ⟨fm, A, hfm, hcell⟩ := ((part_cells fs inputs ui (some fx) old r h hnd) f hf).1 ms sh mk hi
    rw [selectedBy_of fx ms sh mk fm hfm]
    by_cases ht : li ∈ todoOf f.outputs (prod (extOf mk sh)) (selOf fm) (oldCells old)
    · exact Or.inr ((mem_todoOf _ _ _ _ li).mp ht).2.1
    · left
      unfold missingIn at hm ⊢
      rw [List.any_eq_false] at hm ⊢
      intro o ho
      have := hm o ho
      rw [hcell o ho li, if_neg ht] at this
      exact this
  · exact part_present fs inputs ui fx old r h hnd f hf ms sh mk hi li hli

theorem pieces_present_iff (fs : List MFunc) (inputs : List (String × Val)) (ui : List (String × List Nat))
    (shapes : List (String × List Nat)) (masks : List (String × List Bool))
    (hsm : mapShapes fs inputs (constructInternal fs ui) = .ok (shapes, masks))
    (hnd : ((generations fs).flatten.flatMap (·.outputs)).Nodup) (f : MFunc) (hf : f ∈ (generations fs).flatten)
    (ms : MSpec) (sh : List Nat) (mk : List Bool) (hi : mappedInfo shapes masks f = some (ms, sh, mk)) (li : Nat)
    (hli : li < prod (extOf mk sh)) :
    ∀ (parts : List (List (String × Sel))) (old : List (String × Slot)) (rs : List PartResult),
      runPieces fs inputs ui (parts.map some) old = .ok rs →
      (missingIn f.outputs (oldCells (finalStore rs old)) li = false ↔
        (missingIn f.outputs (oldCells old) li = false ∨ ∃ fx ∈ parts, selectedBy fx ms sh mk li = true)) := by
  intro parts
  induction parts with
  | nil =>
    intro old rs h
    simp only [List.map_nil, runPieces, pure, Except.pure, Except.ok.injEq] at h
    subst h
    simp [finalStore]
  | cons fx rest ih =>
    intro old rs h
    obtain ⟨r, rs', e, h1, h2⟩ := runPieces_cons_inv fs inputs ui (some fx) (rest.map some) old rs h
    subst e
    simp only [finalStore]
    have hs := runPart_shapes fs inputs ui (some fx) old r h1
    rw [hsm] at hs
    simp only [Except.ok.injEq, Prod.mk.injEq] at hs
    have hi' : mappedInfo r.res.shapes r.res.masks f = some (ms, sh, mk) := by rw [← hs.1, ← hs.2]; exact hi
    rw [ih r.store rs' h2, part_present_iff fs inputs ui fx old r h1 hnd f hf ms sh mk hi' li hli]
    simp only [List.mem_cons, exists_eq_or_imp, or_assoc]

theorem filterMap_congr' {α β} (f g : α → Option β) : ∀ (l : List α), (∀ a ∈ l, f a = g a) → l.filterMap f = l.filterMap g := by
  intro l
  induction l with
  | nil => intro _; rfl
  | cons a as ih =>
    intro h
    rw [List.filterMap_cons, List.filterMap_cons, h a List.mem_cons_self, ih (fun x hx => h x (List.mem_cons_of_mem _ hx))]

theorem missingIn_empty (outs : List String) (hne : outs ≠ []) (li : Nat) : missingIn outs (oldCells []) li = true := by
  cases outs with
  | nil => exact absurd rfl hne
  | cons o os => simp [missingIn, oldCells, alookup, cellLookup]

/-- **what a final full run finds missing after parts started on an empty folder: the indices no part selected** -/
theorem missingOf_eq_uncovered (fs : List MFunc) (inputs : List (String × Val)) (ui : List (String × List Nat))
    (shapes : List (String × List Nat)) (masks : List (String × List Bool))
    (hsm : mapShapes fs inputs (constructInternal fs ui) = .ok (shapes, masks))
    (hnd : ((generations fs).flatten.flatMap (·.outputs)).Nodup) (hne : ∀ f ∈ (generations fs).flatten, f.outputs ≠ [])
    (parts : List (List (String × Sel))) (rs : List PartResult)
    (h : runPieces fs inputs ui (parts.map some) [] = .ok rs) :
    missingOf fs shapes masks (finalStore rs []) = uncovered fs shapes masks parts := by
  unfold missingOf uncovered
  apply filterMap_congr'
  intro f hf
  cases hi : mappedInfo shapes masks f with
  | none => rfl
  | some t =>
    obtain ⟨ms, sh, mk⟩ := t
    simp only [Option.some.injEq, Prod.mk.injEq, true_and]
    unfold todoOf uncoveredOf
    apply List.filter_congr
    intro li hli
    have hlt := List.mem_range.mp hli
    have hiff := pieces_present_iff fs inputs ui shapes masks hsm hnd f hf ms sh mk hi li hlt parts [] rs h
    rw [missingIn_empty f.outputs (hne f hf) li] at hiff
    simp only [Bool.true_eq_false, false_or] at hiff
    simp only [Bool.true_and]
    cases hm : missingIn f.outputs (oldCells (finalStore rs [])) li with
    | false =>
      obtain ⟨fx, hfx, hs⟩ := hiff.mp hm
      have : (parts.any fun fx => selectedBy fx ms sh mk li) = true := List.any_eq_true.mpr ⟨fx, hfx, hs⟩
      rw [this]; rfl
    | true =>
      have : (parts.any fun fx => selectedBy fx ms sh mk li) = false := by
        cases ha : (parts.any fun fx => selectedBy fx ms sh mk li) with
        | false => rfl
        | true =>
          have := hiff.mpr (List.any_eq_true.mp ha)
          rw [hm] at this; cases this
      rw [this]; rfl

/-! ### pieces = whole, given that the folder never holds anything the full run does not store -/

theorem pieces_whole_core (fs : List MFunc) (inputs : List (String × Val)) (ui : List (String × List Nat)) (rF : PartResult)
    (hF : runPart fs inputs ui none [] = .ok rF) (hnd : ((generations fs).flatten.flatMap (·.outputs)).Nodup)
    (hne : ∀ f ∈ (generations fs).flatten, f.outputs ≠ [])
    (parts : List (List (String × Sel))) (hpne : parts ≠ []) (old : List (String × Slot)) (rs : List PartResult)
    (hle : ∀ r ∈ rs, OldLe r.store rF.store)
    (hcov : coverB fs rF.res.shapes rF.res.masks parts = true)
    (h : runPieces fs inputs ui (parts.map some) old = .ok rs) :
    (∀ f ∈ (generations fs).flatten, ∀ ms sh mk, mappedInfo rF.res.shapes rF.res.masks f = some (ms, sh, mk) →
      ∀ o ∈ f.outputs, ∀ li, li < prod (extOf mk sh) →
        (cellLookup (oldCells (finalStore rs old) o) li).isSome = true ∧
        cellLookup (oldCells (finalStore rs old) o) li = cellLookup (oldCells rF.store o) li) ∧
    OldLe (finalStore rs old) rF.store ∧
    completeB fs rF.res.shapes rF.res.masks (finalStore rs old) = true ∧
    ∀ rL, runPart fs inputs ui none (finalStore rs old) = .ok rL → rL.res.calls = [] ∧
      (∀ f ∈ (generations fs).flatten, ∀ ms sh mk, mappedInfo rF.res.shapes rF.res.masks f = some (ms, sh, mk) →
        ∀ o ∈ f.outputs, ∀ li, cellLookup (oldCells rL.store o) li = cellLookup (oldCells (finalStore rs old) o) li) := by
  have hsm := runPart_shapes fs inputs ui none [] rF hF
  have hcomp := pieces_complete fs inputs ui rF.res.shapes rF.res.masks hsm hnd parts hpne old rs h hcov
  obtain ⟨p, old', r, hr, _, he⟩ := finalStore_last fs inputs ui (parts.map some) old rs (by simpa using hpne) h
  have hleS : OldLe (finalStore rs old) rF.store := by rw [he]; exact hle r hr
  refine ⟨?_, hleS, (completeB_iff _ _ _ _).mpr hcomp, ?_⟩
  · intro f hf ms sh mk hi o ho li hli
    have hm := (hcomp f hf).1 ms sh mk hi li hli
    unfold missingIn at hm
    rw [List.any_eq_false] at hm
    have hp := hm o ho
    cases hc : cellLookup (oldCells (finalStore rs old) o) li with
    | none => rw [hc] at hp; simp at hp
    | some v => exact ⟨rfl, (hleS.1 o li v hc).symm⟩
  · intro rL hL
    have hsL := runPart_shapes fs inputs ui none (finalStore rs old) rL hL
    rw [hsm] at hsL
    simp only [Except.ok.injEq, Prod.mk.injEq] at hsL
    have hcompL : Complete fs rL.res.shapes rL.res.masks (finalStore rs old) := by rw [← hsL.1, ← hsL.2]; exact hcomp
    obtain ⟨a, b, _⟩ := final_run fs inputs ui (finalStore rs old) rL hL hne hnd hcompL
    refine ⟨a, ?_⟩
    intro f hf ms sh mk hi
    exact b f hf ms sh mk (by rw [← hsL.1, ← hsL.2]; exact hi)

/-! ### distinct output names along the execution order -/

theorem nodup_flatMap_outputs : ∀ l : List MFunc, (∀ f ∈ l, f.outputs.Nodup) → l.Pairwise Disj → (l.flatMap (·.outputs)).Nodup := by
  intro l
  induction l with
  | nil => intro _ _; simp
  | cons f rest ih =>
    intro h1 h2
    rw [List.flatMap_cons, List.nodup_append]
    rw [List.pairwise_cons] at h2
    refine ⟨h1 f List.mem_cons_self, ih (fun g hg => h1 g (List.mem_cons_of_mem _ hg)) h2.2, ?_⟩
    intro a ha b hb e
    subst e
    obtain ⟨g, hg, hag⟩ := List.mem_flatMap.mp hb
    exact h2.1 g hg a ha hag

theorem outputs_nodup_of_mem : ∀ (fs : List MFunc), (allOutputs fs).Nodup → ∀ f ∈ fs, f.outputs.Nodup := by
  intro fs
  induction fs with
  | nil => intro _ f hf; cases hf
  | cons g rest ih =>
    intro h f hf
    unfold allOutputs at h
    rw [List.flatMap_cons, List.nodup_append] at h
    rcases List.mem_cons.mp hf with e | e
    · subst e; exact h.1
    · exact ih h.2.1 f e

/-- distinct output names of the pipeline are distinct output names along the execution order -/
theorem gens_outputs_nodup (fs : List MFunc) (h : (allOutputs fs).Nodup) : ((generations fs).flatten.flatMap (·.outputs)).Nodup := by
  apply nodup_flatMap_outputs
  · intro f hf
    obtain ⟨gen, hgen, hfg⟩ := List.mem_flatten.mp hf
    exact outputs_nodup_of_mem fs h f (layers_mem fs (fs.length + 1) [] fs (fun g hg => hg) gen hgen f hfg)
  · exact flow_layers_pairwise fs Disj (fun a b hab => Disj.symm hab) (fs.length + 1) [] fs (pairwise_disj_of_nodup fs h)

end PF.Pieces
