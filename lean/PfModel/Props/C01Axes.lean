import PfModel.Lemmas.MapConsistent
/-!
C01, the `consistentAxes` conjunct of `Conforms` (`Lemmas/MapTotal.lean`): it IS `validate_consistent_axes`
(`pipefunc/map/_mapspec.py:384-413`).  `Model/MapConsistent.lean` mirrors the algorithm of that function (group by array name in
dict order, rank check, walk with a `position -> index name` dict); here: the algorithm accepts exactly when the pairwise
predicate holds, and the pairwise predicate says "every array has ONE axis naming".  `Driver/C01Axes.lean` +
`harness/props_extra/c01_axes.py` compare the algorithm with the real function.
-/
namespace PF.C01
open PF PF.Map PF.MapAxes

/-- **The algorithm is the predicate.**  For every function list (functions without MapSpec contribute nothing), the model of
    `validate_consistent_axes` accepts the MapSpecs iff `consistentAxes` holds.  No hypotheses. -/
theorem C01_consistent_axes_model (fs : List MFunc) :
    validate (mapspecsOf fs) = .ok () ↔ consistentAxes fs = true :=
  validate_ok_iff fs

/-- the same over a plain list of MapSpecs: accepted iff any two ArraySpecs of one array name have one rank and never name one
    position differently.  No hypotheses. -/
theorem C01_consistent_axes_model_specs (ms : List MSpec) :
    validate ms = .ok () ↔
      ∀ a ∈ specsOf ms, ∀ b ∈ specsOf ms, a.name = b.name → axesAgree a.axes b.axes = true :=
  validateSpecs_ok_iff (specsOf ms)

/-- what `axesAgree` says: one rank, and no position named differently -/
theorem C01_axes_agree_iff (a b : List (Option String)) :
    axesAgree a b = true ↔
      a.length = b.length ∧ ∀ (p : Nat) (n n' : String), a[p]? = some (some n) → b[p]? = some (some n') → n = n' :=
  axesAgree_iff a b

/-- **One axis naming per array.**  `consistentAxes` holds iff there is an assignment `g` of ONE axis list to every array name
    such that every ArraySpec of the pipeline has the rank of `g name` and every index name it carries is the one `g name`
    carries at that position (`:` is free).  Both directions, no hypotheses. -/
theorem C01_consistent_axes_iff_naming (fs : List MFunc) :
    consistentAxes fs = true ↔
      ∃ g : String → List (Option String), ∀ a ∈ allSpecs fs,
        a.axes.length = (g a.name).length ∧
        ∀ (p : Nat) (n : String), a.axes[p]? = some (some n) → (g a.name)[p]? = some (some n) := by
  rw [consistentAxes_iff]
  constructor
  · intro h
    exact ⟨naming (allSpecs fs), fun a ha => naming_spec (allSpecs fs) h a ha⟩
  · rintro ⟨g, hg⟩ a ha b hb hab
    rw [axesAgree_iff]
    obtain ⟨la, na⟩ := hg a ha
    obtain ⟨lb, nb⟩ := hg b hb
    rw [hab] at la na
    refine ⟨by omega, ?_⟩
    intro p n n' h1 h2
    have e1 := na p n h1
    have e2 := nb p n' h2
    rw [e1] at e2
    simpa using e2

/-- a refusal names an array that really occurs, and its kind says which clause fails for that array: `length` — two of its
    specs differ in rank; `name` — all its specs have one rank and two of them name one position differently -/
theorem C01_consistent_axes_refusal (ms : List MSpec) (nm : String) (k : Kind) (h : validate ms = .error (nm, k)) :
    ∃ a ∈ specsOf ms, ∃ b ∈ specsOf ms, a.name = nm ∧ b.name = nm ∧
      match k with
      | .length => a.axes.length ≠ b.axes.length
      | .name => a.axes.length = b.axes.length ∧
          ∃ (p : Nat) (n n' : String), a.axes[p]? = some (some n) ∧ b.axes[p]? = some (some n') ∧ n ≠ n' :=
  validate_error_spec ms nm k h

/-! ### witnesses -/

section Examples

private def sp (name : String) (axes : List (Option String)) : ASpec := ⟨name, axes⟩
private def mfn (ms : Option MSpec) : MFunc :=
  { name := "f", params := [], outputs := [], mapspec := ms, ret := none, internal := none, defaults := [], bound := [] }

/-- `x[i, j] -> a[i, j]` next to `x[j, i] -> b[j, i]`: refused, kind `name`, at `x` -/
private def swapped : List MSpec :=
  [⟨[sp "x" [some "i", some "j"]], [sp "a" [some "i", some "j"]]⟩, ⟨[sp "x" [some "j", some "i"]], [sp "b" [some "j", some "i"]]⟩]
example : validate swapped = .error ("x", .name) := by decide
example : consistentAxes (swapped.map fun m => mfn (some m)) = false := by decide

/-- `x[i] -> a[i]` next to `x[i, j] -> b[i, j]`: refused, kind `length` -/
private def ranks : List MSpec :=
  [⟨[sp "x" [some "i"]], [sp "a" [some "i"]]⟩, ⟨[sp "x" [some "i", some "j"]], [sp "b" [some "i", some "j"]]⟩]
example : validate ranks = .error ("x", .length) := by decide
example : consistentAxes (ranks.map fun m => mfn (some m)) = false := by decide

/-- the rank check comes first: `x[i]` next to `x[j, k]` is a `length` refusal although position 0 is also named differently -/
example : validate [⟨[sp "x" [some "i"]], [sp "a" [some "i"]]⟩, ⟨[sp "x" [some "j", some "k"]], [sp "b" [some "j", some "k"]]⟩]
    = .error ("x", .length) := by decide

/-- the first refused NAME in dict order: `y` is filed before `x` here -/
example : validate [⟨[sp "y" [some "i"], sp "x" [some "i"]], [sp "a" [some "i"]]⟩,
                    ⟨[sp "x" [some "j"], sp "y" [some "i", some "j"]], [sp "b" [some "j"]]⟩]
    = .error ("y", .length) := by decide

/-- `x[i, :] -> a[i]` next to `x[:, j] -> b[j]`: accepted (`:` is free) -/
private def masked : List MSpec :=
  [⟨[sp "x" [some "i", none]], [sp "a" [some "i"]]⟩, ⟨[sp "x" [none, some "j"]], [sp "b" [some "j"]]⟩]
example : validate masked = .ok () := by decide
example : consistentAxes (masked.map fun m => mfn (some m)) = true := by decide

/-- agreement is not transitive: `x[i, :]`, `x[:, j]`, `x[k, :]` — the first and third disagree, the second agrees with both -/
private def nontrans : List MSpec :=
  masked ++ [⟨[sp "x" [some "k", none]], [sp "c" [some "k"]]⟩]
example : validate nontrans = .error ("x", .name) := by decide
example : consistentAxes (nontrans.map fun m => mfn (some m)) = false := by decide
example : axesAgree [some "i", none] [none, some "j"] = true ∧ axesAgree [none, some "j"] [some "k", none] = true
    ∧ axesAgree [some "i", none] [some "k", none] = false := by decide

/-- functions without a MapSpec are skipped -/
example : validate (mapspecsOf [mfn none, mfn (some masked.head!), mfn none]) = .ok () := by decide

/-- non-vacuity of `C01_consistent_axes_refusal`: both kinds of refusal occur -/
example : ∃ ms nm, validate ms = .error (nm, .length) := ⟨ranks, "x", by decide⟩
example : ∃ ms nm, validate ms = .error (nm, .name) := ⟨swapped, "x", by decide⟩

end Examples

end PF.C01
