"""C13 — User-function failures surface unchanged, attributed and reproducible.

Correspondence: real `pipeline(...)` / `Pipeline.run` / `Pipeline.func` calls (pipegen DAGs) and real `Pipeline.map` /
`map_async` runs (mapgen pipelines) in which chosen invocations of the generated functions raise — every (function, call index)
of every generated pipeline, four exception classes, sequential / thread pool / process pool / async execution, several
raising invocations at once, and a second failing run on the same pipeline object — against the failure models of
lean/PfModel/Model/Errors.lean (`Call.runTopE`, `runMapE`).  Every real run happens in a worker process under a watchdog.
"""
from __future__ import annotations

import collections
import copy
import json
import multiprocessing as mp
import multiprocessing.connection
import os
import shutil
import tempfile
import time

import pfimport  # noqa: F401
from pfimport import exc_enum

import c13_exc
import c13_file
import c13_worker
import mapgen
import pipegen
import terms

PID = "C13"
PROPS = ["PfModel.Props.C13", "PfModel.Props.C13Async", "PfModel.Props.C13Store", "PfModel.Props.C13Kinds", "PfModel.Props.C13Proto",
         "PfModel.Props.C13File", "PfModel.Props.C13Snap", "PfModel.Props.C13Gens", "PfModel.Props.C13Owed", "PfModel.Props.C13Fair"]
DRIVER = "C13"
RULE = ("mapgen pipelines (1-4 functions, mapped / reducing / internal-axis / generator / plain, 1-3 generations) and pipegen DAGs "
        "(1-5 functions, tuple outputs, renames, defaults, bound); for every invocation of the failure-free run (function, call "
        "index) one run in which exactly that invocation raises, cycling exception class {ValueError(args), RuntimeError(), "
        "custom picklable class, ValueError subclass, custom no-argument class, 2 x a protocol class: any builtin / concurrent.futures / "
        "asyncio / pickle / queue / subprocess exception class, without args / ('boom', tag) / (tag,) / its own constructor signature, the "
        "classes the runtime and the executors give a meaning to (StopIteration x3, StopAsyncIteration, KeyError, AttributeError, IndexError, "
        "TimeoutError, CancelledError, FileNotFoundError, ...) drawn 70 % of the time} x mode {sequential, thread pool(3), thread pool(1), process pool(2), default "
        "process pool, map_async} x storage {file_array, dict}; plus runs with 2-3 raising invocations (which one surfaces), a "
        "second failing run on the same pipeline object (stale snapshots), and injections that match nothing (no failure: the "
        "model must equal PF.Map.runMap); plus the stream `snapfile` (c13_file.py): real ErrorSnapshots of failing PipeFunc calls (1-3 keyword "
        "arguments, or built directly with positional args) whose argument values are atoms / tuples / lists / dicts / dataclass instances "
        "(DBox, Pair) nested to depth 3, any exception kind, saved and loaded, every dataclass field compared with the file model. After every failed in-process run on file storage the worker also reports the log in the order it was written (entered / returned): the elements of the invocations that returned before the first raising one was entered (`map.owed`, `owedStore`) must each load as the value of the failure-free run - also inside the failing generation. Non-trivial = some other invocation runs besides the raising one; distinct by "
        "(pipeline, raising invocations, exception class, mode, storage)")
ASSUMPTIONS = ["exception pickling across processes and executor shutdown are runtime behaviour: checked by the harness (type/args/notes at the "
               "caller, watchdog), not proved; save_to_file/load_from_file is the token-stream model of Model/ErrorsFile.lean (C13_file_roundtrip) - that "
               "cloudpickle IS such a stack machine on these value kinds is what the stream `snapfile` compares (every field of the loaded snapshot)",
               "the order of functions inside one generation is taken from the implementation (networkx) and given to the model",
               "the model's store after a failure describes file-based storage (cells written by the worker); in-memory storage is "
               "only persisted by a successful run, so the 'loadable' clause is checked with storage='file_array'",
               "with several raising invocations map_async surfaces one of the candidates of C13_async_surface (raising invocations of the first "
               "function of the generation that has one); which one depends on the loop order, a free parameter of the model",
               "kinds outside the text (BaseException-only classes, unpicklable args, a raising output_picker, the parent's snapshot after a "
               "process pool) are modelled / counted as `outside-text:*`, never a violation of the property",
               "the re-run after a failure (C13_resume_completes) is compared for file_array storage and sequential re-runs; pipelines using "
               "PipeFunc.internal_shape are skipped (DF-30, C06)",
               "'completed before the failure' is read off the implementation's log: an invocation whose `done` record precedes the `call` record of the first raising "
               "invocation (one O_APPEND file: real-time order, also across pool threads); only element-wise invocations (mapspec with inputs) owe an element - whole-value "
               "outputs of the FAILING generation are dumped by `_process_generation`, which a failing generation never reaches (modelled, `seqGen`; not judged); invocations "
               "that receive equal values (interpreted constants) are listed only when all of them completed",
               "a pool schedule is fair: every submitted task eventually runs (hypothesis of C13_surface / C13_no_hang)",
               "map_async and a StopIteration: no coroutine can raise one (PEP 479), so the caller of `await` gets the RuntimeError of "
               "`awaitExn` whose __cause__ is the user function's StopIteration (notes copied); every other clause is judged on the cause "
               "(counted `language:pep479:*`)",
               "a class whose own `__reduce__` drops the instance `__dict__` (asyncio.IncompleteReadError, json.JSONDecodeError) loses its note "
               "in the process pool's pickling: counted `outside-text:class-pickling-drops-notes`, everything but the note still required",
               "a watchdog verdict (20 s) is confirmed by one repetition alone with a 60 s watchdog before it is reported (machine load)",
               "a protocol exception is handed to the model as a stand-in exception plus the renaming table of `mapOracle` "
               "(`C13_class_parametric`): the model never looks at an exception's class"]

IN_PROCESS = ("seq", "thread", "thread1", "async")
MODE_CYCLE_QUICK = ["seq", "thread", "seq", "async", "thread1", "thread", "seq", "process", "thread", "seq", "async", "thread"]
MODE_CYCLE_THOROUGH = ["seq", "thread", "process", "async", "thread1", "seq", "thread", "process", "async", "process_default"]
HARD_TIMEOUT = 2 * c13_worker.SOFT_TIMEOUT + 25


# ------------------------------------------------------------------------------------------------ helpers
def canon_kw(kw):
    return sorted(([k, terms.canon(v)] for k, v in kw), key=lambda kv: kv[0])


def kw_key(kw):
    """The key the worker's hook computes from the arguments a function actually receives."""
    return json.dumps(canon_kw(kw), sort_keys=True)


def exn_pair(x):
    return (x["cls"], json.dumps([terms.canon(a) for a in x["args"]], sort_keys=True))


def obs_exn_pair(e):
    return (e["cls"], json.dumps(e["args"], sort_keys=True))


def is_scalar(v):
    return v is None or isinstance(v, int) or (isinstance(v, dict) and any(k in v for k in ("s", "f", "pick", "proj")))


def note_fragments(fname, note_kw):
    """Ordered substrings the note must contain.  The model's values are free terms: `terms.canon` maps them to their image
    under the interpretation of the constant functions (`f_none(...)` is `None`, ...) before they are printed."""
    frags = [f"`{fname}("]
    for k, v in note_kw:
        v = terms.canon(v)
        frags.append(f"{k}=" + (repr(terms.dec(v)) if is_scalar(v) else ""))
        if not is_scalar(v) and isinstance(v, dict) and "arr" in v:
            # an array argument: the note must show the array that was passed (the repr of its elements, in order), not the
            # storage object it was loaded from
            for e in v["arr"][1][:6]:
                if e != "M" and not (isinstance(e, dict) and "arr" in e):
                    try:
                        frags.append(repr(terms.dec(e)))
                    except Exception:  # noqa: BLE001
                        pass
    return frags


def contains_in_order(text, frags):
    pos = 0
    for f in frags:
        i = text.find(f, pos)
        if i < 0:
            return False
        pos = i + len(f)
    return True


def strip_models(inj):
    j = {k: v for k, v in inj.items() if k != "then" and not k.startswith("model")}
    if inj.get("then"):
        j["then"] = strip_models(inj["then"])
    return j


def all_masked(v, top=True):
    """nothing loadable: a masked element / an all-masked array / a load error / `None` for a whole output (`load_outputs` of an
    output that was never stored returns `None`).  Inside an array `None` is a VALUE (an interpreted constant), not "missing"."""
    if isinstance(v, dict) and "err" in v:
        return True
    if v is None:
        return top
    return v == "M" or (isinstance(v, dict) and "arr" in v and all(all_masked(x, False) for x in v["arr"][1]))


# ------------------------------------------------------------------------------------------------ workers
def run_jobs(ctx, jobs, nworkers, hard_timeout=None):
    """Run every job's injections in worker processes; returns one list of observations per job."""
    hard = hard_timeout or HARD_TIMEOUT
    mpctx = mp.get_context("fork")
    results = [[None] * len(j["injections"]) for j in jobs]
    pending = collections.deque((ji, 0) for ji in range(len(jobs)) if jobs[ji]["injections"])
    active = {}

    def start(ji, off):
        parent, child = mpctx.Pipe(duplex=False)
        job = dict(jobs[ji])
        job["injections"] = [strip_models(i) for i in jobs[ji]["injections"][off:]]
        proc = mpctx.Process(target=c13_worker.worker_main, args=(child, job), daemon=False)
        proc.start()
        child.close()
        active[parent] = {"proc": proc, "ji": ji, "next": off, "deadline": time.time() + hard, "hard": hard}

    def finish(conn):
        st = active.pop(conn)
        conn.close()
        st["proc"].join(timeout=5)
        if st["proc"].is_alive():
            st["proc"].kill()
        return st

    try:
        _pump(jobs, results, pending, active, nworkers, start, finish)
    finally:
        for st in active.values():              # never leave a worker behind
            try:
                st["proc"].kill()
            except Exception:  # noqa: BLE001
                pass
    return results


def _pump(jobs, results, pending, active, nworkers, start, finish):
    while pending or active:
        while pending and len(active) < nworkers:
            start(*pending.popleft())
        ready = multiprocessing.connection.wait(list(active), timeout=1.0)
        for conn in ready:
            st = active[conn]
            total = len(jobs[st["ji"]]["injections"])
            try:
                obs = conn.recv()
            except (EOFError, OSError):
                st = finish(conn)
                if st["next"] < total:
                    if st.get("ended_after_hang"):          # the worker stops after reporting a hang: carry on afresh
                        pending.append((st["ji"], st["next"]))
                    else:                                   # it died before reporting this one
                        results[st["ji"]][st["next"]] = {"harness_err": "worker process died"}
                        if st["next"] + 1 < total:
                            pending.append((st["ji"], st["next"] + 1))
                continue
            results[st["ji"]][st["next"]] = obs
            st["next"] += 1
            st["deadline"] = time.time() + st["hard"]
            st["ended_after_hang"] = any(r.get("outcome") == "hang" or r.get("drain_hang") for r in obs.get("runs", []))
            if st["next"] >= total:
                finish(conn)
        now = time.time()
        for conn in [c for c, st in active.items() if now > st["deadline"]]:
            st = active[conn]
            st["proc"].kill()
            st = finish(conn)
            total = len(jobs[st["ji"]]["injections"])
            results[st["ji"]][st["next"]] = {"runs": [{"outcome": "hang", "hard": True, "calls": []}]}
            if st["next"] + 1 < total:
                pending.append((st["ji"], st["next"] + 1))


def is_hang(obs):
    return isinstance(obs, dict) and any(r.get("outcome") == "hang" or r.get("drain_hang") for r in obs.get("runs", []))


MAX_CONFIRM = 4


def confirm_hangs(ctx, jobs, results, base):
    """A watchdog verdict depends on the machine: under heavy load a process pool of `cpu_count` workers may need longer than the
    watchdog allows.  Every run that ended "hang" is repeated once — alone, after everything else has finished, with three times the
    watchdog — and only a run that hangs again is reported as one (otherwise the second observation is judged)."""
    again = [(ji, ii) for ji, obs_list in enumerate(results) for ii, obs in enumerate(obs_list) if is_hang(obs)]
    for ji, ii in again[:MAX_CONFIRM]:
        ctx.count("watchdog:hang-rerun")
        job = dict(jobs[ji])
        job["injections"] = [jobs[ji]["injections"][ii]]
        job["soft_timeout"] = 3 * c13_worker.SOFT_TIMEOUT
        res = run_jobs(ctx, [job], 1, hard_timeout=2 * 3 * c13_worker.SOFT_TIMEOUT + 25)[0][0]
        if is_hang(res):
            ctx.count("watchdog:hang-confirmed")
        else:
            ctx.count("watchdog:hang-not-confirmed(load)")
            results[ji][ii] = res


# ------------------------------------------------------------------------------------------------ case construction
def order_by_generations(desc):
    """The implementation's generations (networkx order inside a generation) and the description re-listed in that order, so
    that the model's Kahn layers enumerate the functions of a generation in the same order."""
    p, _ = mapgen.build(desc)
    gens = [[f.__name__ for f in g] for g in p.topological_generations.function_lists]
    by = {f["name"]: f for f in desc["funcs"]}
    listed = [n for g in gens for n in g]
    if sorted(listed) != sorted(by):
        return None, gens
    d = dict(desc)
    d["funcs"] = [by[n] for n in listed]
    return d, gens


def with_rename(fail):
    """The oracle handed to the model lists a protocol exception (`StopIteration`, `TimeoutError`, …) as a stand-in exception and the
    request's `rename` table maps the stand-in to the protocol exception: the driver then runs `mapOracle h fails`, the renamed run
    of `C13_class_parametric` (the model never looks at the class — by theorem)."""
    out, table = [], []
    for m in fail:
        x = m["exn"]
        if x.get("proto"):
            tag = 7000 + len(table)
            table.append([c13_exc.standin_exn(tag), {k: v for k, v in x.items() if k != "proto"}])
            m = dict(m)
            m["exn"] = c13_exc.standin_exn(tag)
        out.append(m)
    return out, table


def boxed_names(funcs, fail):
    """the own-name parameters of the failing functions that the worker hands over as `terms.DBox` instances (`terms.box_some` decides by
    the name of the root argument): the driver evaluates `reproduce` THROUGH THE FILE MODEL with these kinds (`boxNamed`, `C13_snapshot_file`)"""
    produced = {o for f in funcs for o in f["outputs"]}
    names = {m["f"] for m in fail}
    return sorted({own for f in funcs if f["name"] in names for pn, own in f["params"]
                   if pn not in produced and isinstance(terms.box_some(pn, terms.Term("probe", ())), terms.DBox)})


def map_request(mdesc, fail, mode, extra=()):
    a = mapgen.model_request(mdesc)
    a["boxed"] = boxed_names(mdesc["funcs"], fail)
    a["fail"], table = with_rename(list(fail) + list(extra))
    if table:
        a["rename"] = table
    a["mode"] = "seq" if mode == "seq" else "async" if mode == "async" else "pool"
    return {"m": "map.fail", "a": a}


def call_request(desc, out, kw, fail):
    fail, table = with_rename(fail)
    a = {"funcs": desc["funcs"], "kw": kw, "out": out, "fail": fail, "boxed": boxed_names(desc["funcs"], fail)}
    if table:
        a["rename"] = table
    return {"m": "call.fail", "a": a}


def make_target(name, kw, kind, tag):
    """(worker target, model oracle entry) for one raising invocation; kw None = every invocation of the function."""
    x = c13_exc.model_exn(kind, tag)
    if c13_exc.is_proto(kind):
        x["proto"] = True
    return ([name, None if kw is None else kw_key(kw), kind, tag], {"f": name, "kw": kw, "exn": x})


def colliding(calls, step):
    """Under the interpretation of constant functions two invocations that are different free terms may receive the same
    values (`f1(y=f0_false(x[0]))` and `f1(y=f0_false(x[1]))` both get `y=False`): the implementation's hook (which sees values)
    then raises for both.  The oracle handed to the model raises the same exception for every such invocation."""
    extra = []
    for t, m in zip(step["targets"], step["fail"]):
        if t[1] is None:
            continue
        for n, kw in calls:
            if n == t[0] and kw != m["kw"] and kw_key(kw) == t[1]:
                extra.append({"f": n, "kw": kw, "exn": m["exn"]})
    return extra


# the exception kinds of the single-failure runs: the five of the text, then two draws from the protocol classes (`c13_exc.proto_pool`:
# every builtin / stdlib exception class, the ones the runtime, the executors or storage code give a meaning to — StopIteration first —
# weighted up).  VERIF_C13_PROTO=<share> overrides the share for experiments.
PROTO_SHARE = float(os.environ.get("VERIF_C13_PROTO", "0.2857"))
KIND_CYCLE = list(c13_exc.KINDS) + ["proto", "proto"]
if "VERIF_C13_PROTO" in os.environ:
    _np = max(0, min(40, round(len(c13_exc.KINDS) * PROTO_SHARE / max(1e-9, 1 - PROTO_SHARE)))) if PROTO_SHARE < 1 else None
    KIND_CYCLE = ["proto"] if _np is None else list(c13_exc.KINDS) + ["proto"] * _np


def resolve_kind(rng, kind):
    return c13_exc.pick_proto(rng) if kind == "proto" else kind


def any_kind(rng):
    return c13_exc.pick_proto(rng) if rng.random() < PROTO_SHARE else rng.choice(c13_exc.KINDS)


def pick_proto_with_args(rng):
    """a protocol kind whose args carry the tag (several raising invocations must be told apart by their exception)"""
    while True:
        k = c13_exc.pick_proto(rng)
        if k.endswith((":a", ":v")):
            return k


def outside_kind(rng):
    """a kind outside the text: the harness's BaseException-only class / unpicklable args / a BaseException-only builtin
    (`KeyboardInterrupt`, `SystemExit`, `GeneratorExit`, `asyncio.CancelledError`, `BaseExceptionGroup`)"""
    return c13_exc.pick_proto(rng, base_ok=True) if rng.random() < 0.4 else rng.choice(c13_exc.OUTSIDE_KINDS)


def plan_map(ctx, rng, mdesc, calls, modes, k0):
    """Injections for one map pipeline: every invocation once, plus multi-failure, rerun and no-match injections."""
    injs = []
    n = len(calls)
    combos = [(kind, mode) for kind in KIND_CYCLE for mode in modes]
    per_inv = 1 if ctx.tier == "quick" else 3
    k = k0
    for i, (name, kw) in enumerate(calls):
        for _ in range(per_inv):
            kind = KIND_CYCLE[k % len(KIND_CYCLE)]
            mode = modes[(k // 1) % len(modes)] if ctx.tier == "quick" else combos[(k * 11) % len(combos)][1]
            if ctx.tier != "quick":
                kind = combos[(k * 11) % len(combos)][0]
            kind = resolve_kind(rng, kind)
            storage = "dict" if k % 5 == 4 else "file_array"
            t, m = make_target(name, kw, kind, 100 + i)
            injs.append({"what": "single", "targets": [t], "fail": [m], "mode": mode, "storage": storage, "index": i})
            k += 1
    if n >= 2:
        for _ in range(2 if ctx.tier == "quick" else 4):
            pick = sorted(rng.sample(range(n), min(n, rng.choice([2, 2, 3]))))
            kinds = rng.sample(c13_exc.KINDS, len(pick))          # distinct classes: at most one without args
            if rng.random() < PROTO_SHARE + 0.15:                  # … one of them a protocol class (with args: the tags differ)
                kinds[rng.randrange(len(kinds))] = pick_proto_with_args(rng)
            ts, ms = zip(*[make_target(calls[i][0], calls[i][1], kd, 200 + i) for i, kd in zip(pick, kinds)])
            mode = rng.choice(["thread", "seq", "thread1", "async", "process"] if ctx.tier != "quick" else ["thread", "seq", "thread", "async", "thread1"])
            injs.append({"what": "multi", "targets": list(ts), "fail": list(ms), "mode": mode, "storage": "file_array", "index": pick})
        a, b = rng.sample(range(n), 2)
        ta, ma = make_target(calls[a][0], calls[a][1], any_kind(rng), 300 + a)
        tb, mb = make_target(calls[b][0], calls[b][1], any_kind(rng), 400 + b)
        mode = rng.choice(["seq", "thread"])
        injs.append({"what": "rerun", "targets": [ta], "fail": [ma], "mode": mode, "storage": "file_array", "index": a,
                     "then": {"what": "rerun2", "targets": [tb], "fail": [mb], "mode": mode, "storage": "file_array", "index": b}})
    # ---- map_async, two raising invocations of the SAME function (asyncio.gather: either may surface, `C13_async_surface`)
    byf = collections.defaultdict(list)
    for i, (name, kw) in enumerate(calls):
        byf[name].append(i)
    multi_f = [ix for ix in byf.values() if len(ix) >= 2]
    if multi_f:
        pick = sorted(rng.sample(rng.choice(multi_f), 2))
        kinds = rng.sample(c13_exc.KINDS, 2)
        if rng.random() < PROTO_SHARE + 0.15:
            kinds[rng.randrange(2)] = pick_proto_with_args(rng)
        ts, ms = zip(*[make_target(calls[i][0], calls[i][1], kd, 250 + i) for i, kd in zip(pick, kinds)])
        injs.append({"what": "multi", "targets": list(ts), "fail": list(ms), "mode": "async", "storage": "file_array", "index": pick})
    # ---- kinds OUTSIDE the property's quantifier: a BaseException-only class, an exception with unpicklable args
    if calls:
        i = rng.randrange(n)
        kind = outside_kind(rng)
        mode = rng.choice(["seq", "thread", "async", "thread1"] + (["process"] if ctx.tier != "quick" or rng.random() < 0.3 else []))
        t, m = make_target(calls[i][0], calls[i][1], kind, 900 + i)
        injs.append({"what": "outside", "targets": [t], "fail": [m], "mode": mode, "storage": "file_array", "index": i})
    # ---- a raising `output_picker` (user code, but not the wrapped function: outside the text, behaviour counted)
    tuples = [f["name"] for f in mdesc["funcs"] if len(f["outputs"]) > 1 and any(c[0] == f["name"] for c in calls)]
    if tuples and rng.random() < 0.7:
        injs.append({"what": "picker", "targets": [], "fail": [], "picker": [[rng.choice(tuples), rng.choice(["value", "custom", "quiet"]), 950]],
                     "mode": rng.choice(["seq", "thread", "async", "process"]), "storage": "file_array", "index": -2})
    # ---- which runs are followed by a re-run on the folder they left (`C13_resume_completes`); `PipeFunc.internal_shape`
    #      refuses every resume (DF-30, owned by C06)
    resumable = not any(f.get("internal") for f in mdesc["funcs"])
    for inj in injs:
        if inj["what"] in ("single", "multi") and inj["storage"] == "file_array" and inj["mode"] in ("seq", "thread", "thread1", "async"):
            if resumable:
                if ctx.tier != "quick" or rng.random() < 0.5:
                    inj["resume"] = True
            else:
                ctx.count("resume:skipped(internal_shape, DF-30)")
    if calls and rng.random() < 0.5:
        t, m = make_target(calls[0][0], [["zz", {"s": "no such argument"}]], "value", 999)
        injs.append({"what": "nomatch", "targets": [t], "fail": [m], "mode": rng.choice(["seq", "thread"]), "storage": "file_array", "index": -1})
    return injs, k


def plan_call(ctx, rng, desc, out, kw, calls):
    injs = []
    for i, name in enumerate(calls):
        kind = resolve_kind(rng, KIND_CYCLE[(i + len(calls)) % len(KIND_CYCLE)])
        entry = rng.choice(["call", "call", "run", "full", "func", "scope", "scope", "nested", "nested_rest", "nested_rest"]) if isinstance(out, str) else "call"
        if entry == "func" and any(k in pipegen.all_outputs(desc) for k, _ in kw):
            entry = "call"
        t, m = make_target(name, None, kind, 500 + i)
        inj = {"what": "single", "targets": [t], "fail": [m], "out": out, "kw": kw, "entry": entry, "mode": "call", "index": i}
        # nest only functions the call invokes: a NestedPipeFunc asks for the root arguments of ALL its functions, and `kw` holds the
        # root arguments of `out` only
        if entry == "nested":
            inj["nest_out"] = [o for f in desc["funcs"] if f["name"] in calls for o in f["outputs"]]
        if entry == "nested_rest":
            inj["nest_out"] = [o for f in desc["funcs"] if f["name"] in calls and f["name"] != name for o in f["outputs"]]
        injs.append(inj)
    if calls:
        i = rng.randrange(len(calls))
        t, m = make_target(calls[i], None, outside_kind(rng), 550 + i)
        injs.append({"what": "outside", "targets": [t], "fail": [m], "out": out, "kw": kw, "entry": "call", "mode": "call", "index": i})

    if len(calls) >= 2:
        a, b = rng.sample(range(len(calls)), 2)
        ta, ma = make_target(calls[a], None, any_kind(rng), 600 + a)
        tb, mb = make_target(calls[b], None, any_kind(rng), 700 + b)
        injs.append({"what": "rerun", "targets": [ta], "fail": [ma], "out": out, "kw": kw, "entry": "call", "mode": "call", "index": a,
                     "then": {"what": "rerun2", "targets": [tb], "fail": [mb], "out": out, "kw": kw, "entry": "call", "mode": "call", "index": b}})
        ts, ms = zip(*[make_target(calls[i], None, kd, 800 + i) for i, kd in zip(sorted((a, b)), rng.sample(c13_exc.KINDS, 2))])
        injs.append({"what": "multi", "targets": list(ts), "fail": list(ms), "out": out, "kw": kw, "entry": "call", "mode": "call", "index": [a, b]})
    return injs


# ------------------------------------------------------------------------------------------------ what a failed run owes
def completed_before_failure(step, o):
    """The invocations the IMPLEMENTATION logged as returned ("done") before the first raising invocation was entered — the text's
    "results completed before the failure", read off the implementation's own log (no model involved)."""
    ev = o.get("events")
    if ev is None:
        return None
    done = []
    for name, kw_enc, phase in ev:
        if phase == "call" and any(t[0] == name and (t[1] is None or t[1] == json.dumps(kw_enc, sort_keys=True)) for t in step["targets"]):
            return done
        if phase == "done":
            done.append([name, kw_enc])
    return None          # no raising invocation was entered


def owed_request(ctx, desc, step, o):
    """`map.owed` for one failed in-process run on file storage: the elements the completed invocations produced (`owedStore`).
    An invocation of the log is named to the model by the invocation(s) of the failure-free run that receive the same values; when
    several do (interpreted constants) and not all of them completed, none of them is listed (which one ran is not observable)."""
    if step.get("mode") not in IN_PROCESS or o.get("outcome") != "raised" or o.get("loaded") is None or not step.get("model_calls"):
        return None
    done = completed_before_failure(step, o)
    if not done:
        return None
    full = collections.defaultdict(list)
    for n, kw in step["model_calls"]:
        full[json.dumps([n, canon_kw(kw)], sort_keys=True)].append([n, kw])
    completed = []
    for key, k in collections.Counter(json.dumps(c, sort_keys=True) for c in done).items():
        if key not in full:
            ctx.count("owed:invocation-unknown-to-the-model(not listed)")
        elif k >= len(full[key]):
            completed += full[key]
        else:
            ctx.count("owed:colliding-invocations-partly-completed(not listed)")
    if not completed:
        return None
    a = mapgen.model_request(desc)
    a["completed"] = completed
    return {"m": "map.owed", "a": a}


def attach_owed(ctx, items):
    """one driver batch for all runs: `step["model_owed"]` = the owed elements of the run observed as `o`"""
    reqs, slots = [], []
    for desc, step, o in items:
        try:
            rq = owed_request(ctx, desc, step, o)
        except Exception:  # noqa: BLE001  (an observation of an unexpected form is judged elsewhere)
            rq = None
        if rq is not None:
            reqs.append(rq)
            slots.append(step)
    if reqs:
        for step, resp in zip(slots, ctx.lean(reqs)):
            step["model_owed"] = resp["r"]


def judge_owed(ctx, case, step, o, mode):
    """Clause "results completed before the failure remain loadable", element by element: every element produced by an invocation the
    implementation itself logged as completed before the failing one must load as the value of the failure-free run."""
    R = step.get("model_owed")
    if R is None:
        return True
    if "owed" not in R:
        raise AssertionError(f"driver: map.owed refuses a generated case: {R} {json.dumps(case)[:400]}")
    bad, n = [], 0
    for out, v in R["owed"]:
        wv = terms.canon(v)
        cells = wv["arr"][1] if isinstance(wv, dict) and "arr" in wv else []
        gv = o["loaded"].get(out)
        gcells = gv["arr"][1] if isinstance(gv, dict) and "arr" in gv and gv["arr"][0] == wv["arr"][0] else None
        for i, c in enumerate(cells):
            if c == "M":
                continue
            n += 1
            if gcells is None or gcells[i] != c:
                bad.append((out, i, "not loadable" if gcells is None or gcells[i] == "M" else "wrong value"))
    if n:
        ctx.count("clause:loadable(elements completed before the failure)")
        ctx.count(f"owed-elements:{mode}:{'1' if n == 1 else '2-3' if n <= 3 else '4+'}")
    if bad:
        outs = sorted({b[0] for b in bad})
        ctx.violation(case, f"results completed before the failure do not remain loadable: {len(bad)} of the {n} elements whose invocations returned before the "
                      f"failing invocation was entered ({', '.join(f'{o_}[{i}] {w}' for o_, i, w in bad[:4])}{', …' if len(bad) > 4 else ''}) (mode {mode})",
                      impl={"loaded": {k: o["loaded"].get(k) for k in outs}}, model={"owed": {k: terms.canon(v) for k, v in R["owed"] if k in outs}})
        return False
    return True


# ------------------------------------------------------------------------------------------------ judging
def judge_picker(ctx, case, step, o, M):
    """A raising `output_picker`: user code that is not the wrapped function, so the property's text does not cover it.  What is
    checked all the same: the exception reaches the caller with its type and args, the call returns, nothing of a later
    generation runs.  Whether it is annotated / snapshotted is counted."""
    mode = step["mode"]
    fname, kd, tg = step["picker"][0]
    ctx.count(f"outside-text:picker:{mode}")
    ctx.record(case, True)
    if o["outcome"] == "hang" or o.get("drain_hang"):
        ctx.violation(case, f"the call did not return within {c13_worker.SOFT_TIMEOUT:.0f}s after an output_picker raised (mode {mode})", impl=o)
        return
    if o["outcome"] == "returned":
        ctx.violation(case, f"no exception reached the caller although the output_picker of `{fname}` raised (mode {mode})", impl={"calls": o["calls"]})
        return
    want = exn_pair(c13_exc.model_exn(kd, tg))
    if obs_exn_pair(o["exc"]) != want:
        ctx.violation(case, f"the exception at the caller is {o['exc']['cls']}{tuple(o['exc']['args'])!r}, not the exception the output_picker raised "
                      f"({want[0]}) (mode {mode})", impl=o["exc"])
        return
    gen_of = {n: gi for gi, g in enumerate(o.get("gens", [])) for n in g}
    later = sorted({c[0] for c in o["calls"] if gen_of.get(c[0], 0) > gen_of.get(fname, 0)})
    if later:
        ctx.violation(case, f"functions of a later generation were invoked after the output_picker of `{fname}` raised: {later} (mode {mode})",
                      impl={"calls": [c[0] for c in o["calls"]], "gens": o.get("gens")})
        return
    ctx.count("outside-text:picker:" + ("annotated" if any("Error occurred while executing" in n for n in o["exc"]["notes"]) else "not-annotated"))
    ctx.count("outside-text:picker:" + ("snapshot" if o.get("snap_pipeline") else "no-snapshot"))


def judge_resume(ctx, case, step, o, M, mode, store_agrees=True):
    """`C13_resume_completes` on the real code: the re-run (`cleanup=False`, nothing raises) on the folder the failed run left."""
    R, r = M.get("resume"), o.get("resume")
    if r is None or R is None:
        return True
    ctx.count("clause:resume-after-failure")
    if R.get("outputs") is None:
        raise AssertionError(f"driver: the model's resumed run does not complete (C13_resume_completes): {json.dumps(case)[:500]}")
    if r["outcome"] != "returned":
        ctx.violation(case, f"the results stored before the failure are not usable: re-running the map on the run folder (cleanup=False, no failure) "
                      f"ends with {r['outcome']} {(r.get('exc') or {}).get('cls', '')}{tuple((r.get('exc') or {}).get('args', []))!r} (failing run: mode {mode})", impl=r)
        return False
    full = {k: terms.canon(v) for k, v in step["model_full"]}
    bad = sorted(k for k, v in r["loaded"].items() if k in full and v != full[k])
    if bad:
        ctx.violation(case, f"after the failure and a re-run on the same folder {bad} do not load as the values of the failure-free run: an element "
                      f"stored by the failed run is wrong (failing run: mode {mode})", impl={k: r["loaded"][k] for k in bad}, model={k: full[k] for k in bad})
        return False
    got = sorted(json.dumps(c, sort_keys=True) for c in r["calls"])
    want = sorted(json.dumps([n, canon_kw(kw)], sort_keys=True) for n, kw in R["calls"])
    if not store_agrees:
        return True              # the stores differ already: the caller reports that
    if got != want:
        stored_again = [c for c in got if c not in want]
        ctx.violation(case, "the re-run after the failure " + ("invokes user functions for elements the model holds as stored" if stored_again else
                      "does not invoke everything the model holds as missing") + f" (failing run: mode {mode})", found_input=False,
                      item="correspondence:C13_resume_completes(calls)", impl={"calls": r["calls"]}, model={"calls": R["calls"]})
        return False
    ctx.count("resume:calls=" + ("0" if not got else "some"))
    return True


def judge_step(ctx, case, kind, step, o, M):
    """One failing run: the implementation's observation `o` against the property clauses and the model's answer `M`."""
    mode = step["mode"]
    what = step["what"]
    targets = step["targets"]
    entry = step.get("entry", "")
    tag = f"{kind}:{mode}"
    ctx.count(f"run:{tag}")
    ctx.count(f"inject:{what}")
    if entry:
        ctx.count(f"entry:{entry}")
    for t in targets:
        ctx.count("exception:" + ("protocol" if c13_exc.is_proto(t[2]) else t[2]))
        if c13_exc.is_proto(t[2]):
            ctx.count(f"protocol:{t[2].split(':')[1].rpartition('.')[2]}:{mode}")
    if "err" in M:
        raise AssertionError(f"model refuses a generated case: {M} {json.dumps(case)[:600]}")
    if what == "picker":
        judge_picker(ctx, case, step, o, M)
        return
    if o.get("outcome") == "variant_err":        # scope / nesting not applicable to this pipeline (e.g. several leaves)
        ctx.count(f"variant-not-applicable:{entry}")
        ctx.skip(f"{entry}: {o.get('msg', '')[:60]}")
        return
    if kind == "map" and what == "single":
        f = next(g for g in case["desc"]["funcs"] if g["name"] == targets[0][0])
        ctx.count("failing-func:" + ("mapped" if f["mapspec"] and f["mapspec"]["inputs"] else "generator" if f["mapspec"] else "plain")
                  + ("+tuple" if len(f["outputs"]) > 1 else "") + ("+renamed" if any(a != b for a, b in f["params"]) else ""))
        if "gen" in M:
            ctx.count(f"failing-generation:{min(M['gen'], 2)}{'+' if M['gen'] >= 2 else ''}")
            ctx.count("failing-call:" + ("first-of-run" if len(M["log"]) == 1 and mode == "seq" else "later"))
    if what == "nomatch":
        if "raised" in M or "hang" in M:
            raise AssertionError(f"model fails although nothing matches: {json.dumps(case)[:600]}")
        ctx.record(case, False)
        if o["outcome"] != "returned":
            ctx.violation(case, f"a run in which no function raises did not complete ({o['outcome']}, {mode})", impl=o, model=M)
            return
        got = sorted(json.dumps(c, sort_keys=True) for c in o["calls"])
        want = sorted(json.dumps([n, canon_kw(kw)], sort_keys=True) for n, kw in M["calls"])
        if got != want:
            ctx.violation(case, "without failures the calls differ from PF.Map.runMap", found_input=False, item="correspondence:no-failure-calls",
                          impl={"calls": o["calls"]}, model={"calls": M["calls"]})
        return
    if "raised" not in M:
        raise AssertionError(f"model does not raise for a generated injection: {json.dumps(M)[:300]} {json.dumps(case)[:600]}")
    mlog = [[n, canon_kw(kw)] for n, kw in (M["log"] if kind == "map" else M["calls"])]
    ctx.record(case, len(mlog) > 1)
    outside = [t[2] for t in targets if c13_exc.is_outside(t[2])]
    annotated = M.get("annotated", True)          # False: a BaseException-only class (`surface`, C13_kinds)
    # ---- the call returns
    if o["outcome"] == "hang":
        ctx.violation(case, f"the call did not return within {c13_worker.SOFT_TIMEOUT:.0f}s after a user function raised (mode {mode})", impl=o)
        return
    if o.get("drain_hang"):
        ctx.violation(case, f"the executor did not finish its submitted tasks within {c13_worker.SOFT_TIMEOUT:.0f}s after the failure (mode {mode})", impl=o)
        return
    if o["outcome"] == "returned":
        ctx.violation(case, f"no exception reached the caller although a user function raised {', '.join(sorted({m['exn']['cls'] for m in step['fail']}))} "
                      f"(mode {mode})", impl={"calls": o["calls"]}, model=M)
        return
    # ---- same type and args
    exc = o["exc"]
    got = obs_exn_pair(exc)
    injected = {exn_pair(m["exn"]): (t, m) for t, m in zip(targets, step["fail"])}
    lost = False
    # `map_async` and a StopIteration: no coroutine can raise one (PEP 479), so `await` hands over the RuntimeError of `awaitExn`
    # (`_result_async`) whose `__cause__` is the user function's exception, notes included (`C13_await_kinds`).  Everything else is
    # then judged on the cause.
    stop_pairs = {exn_pair(m["exn"]) for m in step["fail"] if m["exn"].get("stop")}
    if mode == "async" and stop_pairs:
        cause = exc.get("cause_exc")
        if got in stop_pairs:          # cannot happen in Python (PEP 479); never crash on it
            ctx.violation(case, "map_async: a StopIteration reached the awaiting caller, which PEP 479 rules out", found_input=False,
                          item="correspondence:C13_await_kinds", impl=exc, model=M.get("awaited"))
            return
        if cause is not None and obs_exn_pair(cause) in stop_pairs:
            aw = M.get("awaited") or {}
            wrapper = exn_pair(aw["exn"]) if len(targets) == 1 and aw.get("cause") else ("builtins.RuntimeError", None)
            if exc["cls"] != wrapper[0] or (wrapper[1] is not None and got[1] != wrapper[1]):
                ctx.violation(case, f"map_async: the StopIteration of the user function arrives wrapped in {exc['cls']}{tuple(exc['args'])!r}; the model's `awaitExn` "
                              f"wraps it in {wrapper[0]}", found_input=False, item="correspondence:C13_await_kinds", impl=exc, model=aw)
                return
            if len(targets) == 1 and (aw.get("cause") is None or exn_pair(aw["cause"]) != obs_exn_pair(cause)):
                raise AssertionError(f"driver: awaitExn does not name the StopIteration as the cause: {aw}")
            ctx.count("language:pep479:StopIteration-under-await-arrives-as-RuntimeError-from-cause")
            got = obs_exn_pair(cause)
    elif mode == "async" and len(targets) == 1 and "awaited" in M:
        if M["awaited"].get("cause") is not None or exn_pair(M["awaited"]["exn"]) != exn_pair(M["exn"]):
            raise AssertionError(f"driver: awaitExn changes an exception that is not a StopIteration: {M['awaited']}")
    if got not in injected:
        if "unpicklable" in outside and mode in ("process", "process_default"):
            # outside the text ("custom picklable classes"): the worker cannot pickle the exception, the pool reports that instead
            ctx.count("outside-text:unpicklable-args-across-processes:" + exc["cls"])
            lost = True
        else:
            ctx.violation(case, f"the exception at the caller is {exc['cls']}{tuple(exc['args'])!r}, not the exception the user function raised "
                          f"({', '.join(c for c, _ in injected)}) (mode {mode})", impl=exc, model=M["exn"])
            return
    surf_t, surf_m = (targets[0], step["fail"][0]) if lost else injected[got]
    # with several raising invocations `map_async` surfaces one of the candidates of `C13_async_surface`
    gather = mode == "async" and len(targets) > 1
    exact = not gather and not lost
    if exact and got != exn_pair(M["exn"]):
        ctx.violation(case, f"with several raising invocations the exception {exc['cls']}{tuple(exc['args'])!r} of `{surf_t[0]}` surfaced; the first raising "
                      f"invocation in submission order is `{M['noteFunc']}` with {M['exn']['cls']}{tuple(M['exn']['args'])!r} (mode {mode})", found_input=False, item="correspondence:C13_surface(submission order)", impl=exc, model=M["exn"])
        return
    if kind == "map" and mode != "async" and M.get("spec") is not None and exn_pair(M["spec"]["exn"]) != exn_pair(M["exn"]):
        raise AssertionError("driver: runMapE and specGens disagree (C13_surface)")
    surfaced = M                                   # the model's description of the invocation whose exception surfaced
    if gather:
        cands = (M.get("candidates") or {}).get("of") or []
        if not cands or exn_pair(cands[0]["exn"]) != exn_pair(M["spec"]["exn"]):
            raise AssertionError("driver: the head of the async candidates is not the synchronous answer (C13_async_candidates_head)")
        ctx.count(f"async-candidates:{min(len(cands), 3)}")
        hit = [c for c in cands if exn_pair(c["exn"]) == got]
        if not hit:
            ctx.violation(case, f"map_async surfaced the exception {exc['cls']}{tuple(exc['args'])!r} of `{surf_t[0]}`, which is not a raising invocation of the first "
                          f"function of the generation that has one (`{cands[0]['noteFunc']}`; asyncio.gather per function, in generation order)", found_input=False,
                          item="correspondence:C13_async_surface(candidates)", impl=exc, model=[c["exn"] for c in cands])
            return
        surfaced = hit[0]
        ctx.count("async-surfaced:" + ("first-in-submission-order" if hit[0] is cands[0] else "another-candidate"))
    # ---- annotated with the function and the keyword arguments of the failing invocation
    pf_notes = [n for n in exc["notes"] if "Error occurred while executing function" in n]
    if lost:
        pass
    elif mode in ("process", "process_default") and not c13_exc.pickle_keeps_notes(surf_t[2]):
        # the class's own `__reduce__` drops the instance `__dict__`: the pool's pickling (not pipefunc) loses the note
        ctx.count("outside-text:class-pickling-drops-notes:" + exc["cls"])
    elif not annotated:
        # a BaseException-only class: outside the text; the model (`except Exception`) says neither note nor snapshot
        ctx.count("outside-text:base-exception:" + mode)
        if pf_notes or o.get("snap_pipeline") is not None:
            ctx.violation(case, f"a BaseException-only class is annotated / snapshotted although `except Exception` does not see it (mode {mode})",
                          found_input=False, item="correspondence:C13_kinds(base exception)", impl={"notes": exc["notes"], "snap": o.get("snap_pipeline")})
            return
    else:
        note_kw = surfaced["noteKw"]
        if entry == "scope":      # `update_scope("s", inputs="*", outputs="*")` renames everything but bound parameters
            fdesc = next(g for g in case["desc"]["funcs"] if g["name"] == surfaced["noteFunc"])
            bound = {k for k, _ in fdesc.get("bound", [])}
            note_kw = [[k if k in bound else "s." + k, v] for k, v in note_kw]
        frags = note_fragments(surfaced["noteFunc"], note_kw)
        if not any(contains_in_order(n, frags) for n in pf_notes):
            ctx.violation(case, f"the exception is not annotated with the failing function and the keyword arguments of the failing invocation "
                          f"(expected {' … '.join(frags)[:160]}) (mode {mode}{', ' + entry if entry else ''})", impl={"notes": exc["notes"]},
                          model={"noteFunc": surfaced["noteFunc"], "noteKw": note_kw})
            return
        want_notes = 2 if entry == "nested" else 1      # a NestedPipeFunc is itself a function of the outer pipeline: its own note follows
        if len(exc["notes"]) != want_notes:
            ctx.violation(case, f"{len(exc['notes'])} notes on the exception, the model adds exactly {want_notes}", found_input=False,
                          item="correspondence:note-count", impl={"notes": exc["notes"]})
            return
    # ---- no function of a later generation
    calls = o["calls"]
    if kind == "map":
        gen_of = {n: gi for gi, g in enumerate(o["gens"]) for n in g}
        gfail = gen_of.get(surf_t[0], 0)
        later = sorted({c[0] for c in calls if gen_of.get(c[0], 0) > gfail})
        if later:
            ctx.violation(case, f"functions of a later generation were invoked after `{surf_t[0]}` raised: {later} (mode {mode})",
                          impl={"calls": [c[0] for c in calls], "gens": o["gens"]}, model={"log": [c[0] for c in mlog]})
            return
        if M["gens"] != o["gens"]:
            # the order was read from the implementation when the case was built: the implementation changed its mind
            ctx.violation(case, f"the generations of the pipeline differ between two constructions: {M['gens']} vs {o['gens']}", found_input=False,
                          item="correspondence:generation-order", impl={"gens": o["gens"]}, model={"gens": M["gens"]})
            return
    if entry in ("nested", "nested_rest"):
        # the nested pipeline evaluates all its outputs in its own order: only "nothing ran after the failure" is compared
        ctx.count("nested:call-log-not-compared")
        if calls and calls[-1][0] != surf_t[0]:
            ctx.violation(case, f"a function ran after `{surf_t[0]}` raised (pipeline with a NestedPipeFunc): {[c[0] for c in calls]}", impl={"calls": calls})
            return
    elif mode in ("seq", "call"):
        if calls != mlog:
            ctx.violation(case, f"the call log of the failing run differs from the model (something ran after the failure, or before it did not) (mode {mode})",
                          found_input=False, item="correspondence:call-log", impl={"calls": calls}, model={"log": mlog})
            return
    else:
        a = sorted(json.dumps(c, sort_keys=True) for c in calls)
        b = sorted(json.dumps(c, sort_keys=True) for c in mlog)
        if a != b:
            ctx.violation(case, f"the invocations of the failing run differ from the model (every task of the failing generation, nothing later) (mode {mode})",
                          found_input=False, item="correspondence:call-log", impl={"calls": calls}, model={"log": mlog})
            return
    if lost:
        return
    # ---- ErrorSnapshot (in-process execution)
    if (mode in IN_PROCESS or mode == "call") and annotated:
        if "snap_err" in o:
            ctx.violation(case, f"reading error_snapshot failed: {o['snap_err']}", impl=o)
            return
        single = len(targets) == 1 or mode in ("seq", "call")
        want_snap = {"fname": M["snap"]["fname"], "kwargs": canon_kw(M["snap"]["kwargs"])}
        allowed = [{"fname": t[0], "kw_key": t[1], "exn": exn_pair(m["exn"])} for t, m in zip(targets, step["fail"])]
        labels = [("pipeline.error_snapshot", o.get("snap_pipeline"))]
        if entry != "nested":        # the functions of the outer pipeline are the NestedPipeFunc only
            labels.append((f"{surf_t[0]}.error_snapshot", (o.get("snap_func") or {}).get(surf_t[0])))
        for label, sp in labels:
            if sp is None:
                ctx.violation(case, f"{label} is None after the failure (mode {mode}{', ' + entry if entry else ''})", impl={"snap_func": sorted(o.get('snap_func') or {})})
                return
            if "err" in sp:
                ctx.violation(case, f"{label} cannot be inspected: {sp['err']}", impl=sp)
                return
            sp_exn = obs_exn_pair(sp["exc"])
            if entry == "nested":
                ok = sp_exn == exn_pair(M["exn"])            # function and kwargs are those of the NestedPipeFunc
            elif single:
                ok = sp["fname"] == want_snap["fname"] and sp["kwargs"] == want_snap["kwargs"] and sp_exn == exn_pair(M["exn"])
            else:
                ok = any(sp["fname"] == a["fname"] and sp_exn == a["exn"] and (a["kw_key"] is None or a["kw_key"] == json.dumps(sp["kwargs"], sort_keys=True))
                         for a in allowed)
            if not ok or sp["args"] != []:
                ctx.violation(case, f"{label} does not hold the failing function, its exception and the keyword arguments of the failing invocation "
                              f"(holds {sp['fname']} {sp['exc']['cls']}) (mode {mode}, step {what})", impl=sp, model=M["snap"])
                return
            checks = [("reproduce()", sp.get("reproduce")), ("reproduce() after save_to_file/load_from_file", (sp.get("reloaded") or {}).get("reproduce"))]
            if "unpicklable" in outside:
                # outside the text ("custom picklable classes"): cloudpickle cannot save the exception's args
                ctx.count("outside-text:unpicklable-args:save_to_file-" + ("fails" if "err" in (sp.get("reloaded") or {}) else "works"))
                checks = checks[:1]
            for where, rep in checks:
                if not isinstance(rep, dict) or obs_exn_pair(rep) != sp_exn:
                    ctx.violation(case, f"{label}.{where} does not raise the same exception (got {rep if not isinstance(rep, dict) else rep.get('cls')}; "
                                  f"{(sp.get('reloaded') or {}).get('err', '')}) (mode {mode})", impl=sp, model=M["exn"])
                    return
            rl = sp.get("reloaded") or {}
            if "unpicklable" not in outside and (rl.get("fname") != sp["fname"] or rl.get("kwargs") != sp["kwargs"]):
                ctx.violation(case, f"{label} changes through save_to_file/load_from_file", impl=sp)
                return
        if single and entry != "nested" and M.get("pipelineSnap") and canon_kw(M["pipelineSnap"]["kwargs"]) != want_snap["kwargs"]:
            raise AssertionError("driver: pipelineSnapshot differs from the raised snapshot in a single-failure run")
        # the model's reproduce() THROUGH THE FILE (saveFile / loadFile / reproduceFile with the kinds the worker uses) is the exception raised
        rf = M.get("reproduceFile")
        if not isinstance(rf, dict) or exn_pair(rf) != exn_pair(M["exn"]):
            raise AssertionError(f"driver: reproduceFile is not the raised exception (C13_snapshot_file): {rf}")
        ctx.count("clause:snapshot-file(model)")
        # one raising invocation, any mode and schedule: the function and the pipeline expose THE snapshot (C13_snapshot_single); with several,
        # the snapshot of one of the raising invocations of this run (C13_pipeline_snapshot_any / C13_func_snapshot_any: the `allowed` test above)
        if kind == "map" and "funcSnap" in M:
            if len(targets) == 1 and targets[0][1] is not None and not step.get("fail_extra"):
                fsn = M["funcSnap"]
                if fsn is None or fsn["fname"] != M["snap"]["fname"] or canon_kw(fsn["kwargs"]) != want_snap["kwargs"] or exn_pair(fsn["exn"]) != exn_pair(M["exn"]):
                    raise AssertionError(f"driver: funcSnapshot differs from the raised snapshot in a single-failure run (C13_snapshot_single): {fsn}")
                ctx.count("clause:func-snapshot=raised(model, single)")
            else:
                ctx.count("clause:func-snapshot-any(model, several)")
        # ---- … also in a fresh interpreter: nothing of the failing process survives but the file
        fr = o.get("fresh")
        if fr is not None:
            ctx.count("clause:snapshot-fresh-interpreter")
            sp = o["snap_pipeline"]
            if "err" in fr or not isinstance(fr.get("reproduce"), dict) or obs_exn_pair(fr["reproduce"]) != obs_exn_pair(sp["exc"]) \
                    or fr.get("fname") != sp["fname"] or fr.get("kwargs") != sp["kwargs"]:
                ctx.violation(case, f"pipeline.error_snapshot saved with save_to_file and loaded with load_from_file in a fresh interpreter does not "
                              f"reproduce the same exception ({fr.get('err') or fr.get('reproduce')}) (mode {mode})", impl=fr, model=M["exn"])
                return
        ctx.count("clause:snapshot")
    elif mode in ("process", "process_default") and annotated:
        # the snapshot lives in the worker process; the text promises one for in-process execution only.  What the parent
        # exposes is counted; a snapshot it does expose must be the right one.
        sp = o.get("snap_pipeline")
        ctx.count("outside-text:process-parent-snapshot:" + ("none" if sp is None else "present"))
        if sp is not None and "err" not in sp and what in ("single", "multi", "outside"):
            if obs_exn_pair(sp["exc"]) not in injected or not isinstance(sp.get("reproduce"), dict) or obs_exn_pair(sp["reproduce"]) != obs_exn_pair(sp["exc"]):
                ctx.violation(case, f"after a failure in a process pool the parent exposes an ErrorSnapshot that does not reproduce the failure (holds {sp['fname']} {sp['exc']['cls']})",
                              found_input=False, item="correspondence:process-parent-snapshot", impl=sp)
                return
    # ---- completed results remain loadable
    if kind == "map" and o.get("loaded") is not None:
        want = {k: terms.canon(v) for k, v in M["stored"]}
        gen_of_out = {}
        for f in case["desc"]["funcs"]:
            for out in f["outputs"]:
                gen_of_out[out] = gen_of.get(f["name"], 0)
        # ---- … element by element, against the implementation's own log (no model store involved)
        if not judge_owed(ctx, case, step, o, mode):
            return
        pending = None          # a model / implementation disagreement on the failing generation's store (not a clause of the text)
        for out, got_v in o["loaded"].items():
            earlier = gen_of_out.get(out, 0) < gfail
            if out in want:
                if got_v != want[out]:
                    if earlier:
                        ctx.violation(case, f"`{out}`, completed in a generation before the failure, does not load as the value the run computed (mode {mode})",
                                      impl={"loaded": got_v}, model={"stored": want[out]})
                        return
                    pending = pending or (f"`{out}` of the failing generation loads differently from the model's store (mode {mode})",
                                          {"loaded": got_v}, {"stored": want[out]})
            elif not all_masked(got_v):
                pending = pending or (f"`{out}` loads although the model holds nothing for it (mode {mode})", {"loaded": got_v}, None)
        if pending is not None:
            # search for a real failure first: is what the failed run stored usable (the re-run on the same folder)?
            if not judge_resume(ctx, case, step, o, M, mode, store_agrees=False):
                return
            ctx.violation(case, pending[0], found_input=False, item="correspondence:partial-store", impl=pending[1], model=pending[2])
            return
        ctx.count("clause:loadable")
        if not judge_resume(ctx, case, step, o, M, mode):
            return
    ctx.count(f"agree:{tag}")


def judge(ctx, kind, desc, inj, obs):
    case = {"kind": kind, "desc": desc, "inj": strip_models(inj)}
    if obs is None or "harness_err" in obs:
        # the harness must not crash because pipefunc misbehaves: whatever kept the worker from observing the run (an exception out of
        # pipefunc at a place where none is expected, a dead worker process) is itself the observation
        ctx.count("harness:run-not-observable")
        ctx.record(case, False)
        ctx.violation(case, f"the run could not be observed: {(obs or {}).get('harness_err', 'no observation')}", found_input=False,
                      item="correspondence:run-not-observable", impl=obs)
        return
    if "construct_err" in obs:
        ctx.violation(case, f"valid pipeline refused at construction: {obs['construct_err']} {obs.get('msg', '')[:100]}", impl=obs)
        return
    steps = [inj] + ([inj["then"]] if inj.get("then") else [])
    for step, o in zip(steps, obs["runs"]):
        before = len(ctx.violations) + ctx.suppressed + len(ctx.known_hits)
        judge_step(ctx, case, kind, step, o, step["model"])
        if len(ctx.violations) + ctx.suppressed + len(ctx.known_hits) != before:
            return


# ------------------------------------------------------------------------------------------------ corpus
def _mf(name, params, outputs, mapspec=None, mapspec_str=None):
    return {"name": name, "params": params, "outputs": outputs, "mapspec": mapspec, "mapspec_str": mapspec_str, "autogen": False, "ret": None,
            "internal": None, "defaults": [], "bound": []}


def _inp(name, n):
    return [name, {"arr": [[n], [{"f": "in", "k": [["n", {"s": name}], ["at", {"arr": [[1], [i]]}]]} for i in range(n)]]}]


# fixed regression: a second failing call whose failing function is listed later — `Pipeline.error_snapshot` used to return the
# stale snapshot of the function that failed first (fix: most recent failure)
CORPUS_CALL = [
    ({"funcs": [{"name": "f0", "params": [["r0", "r0"]], "outputs": ["o0"], "defaults": [], "bound": []},
                {"name": "f1", "params": [["o0", "a0"]], "outputs": ["o1"], "defaults": [], "bound": []}]},
     "o1", [["r0", {"s": "kw:r0"}]], (0, 1)),
]
# fixed regression (DF-C13-02): a pipeline containing a NestedPipeFunc that did not itself fail — `Pipeline.error_snapshot` raised
# AttributeError (NestedPipeFunc never initialised `error_snapshot`) instead of exposing the snapshot of the function that failed
CORPUS_CALL_INJ = [
    ({"funcs": [{"name": "f0", "params": [["r0", "r0"]], "outputs": ["o0"], "defaults": [], "bound": []},
                {"name": "f1", "params": [["o0", "o0"]], "outputs": ["o1"], "defaults": [], "bound": []},
                {"name": "f2", "params": [["o1", "a0"]], "outputs": ["o2"], "defaults": [], "bound": []}]},
     "o2", [["r0", {"s": "kw:r0"}]], 2, "nested_rest"),
]
CORPUS_MAP = [
    ({"funcs": [_mf("f0", [["x0", "x0"]], ["y0"], {"inputs": [["x0", ["i"]]], "outputs": [["y0", ["i"]]]}, "x0[i] -> y0[i]"),
                _mf("f1", [["y0", "a0"]], ["y1"], {"inputs": [["y0", ["i"]]], "outputs": [["y1", ["i"]]]}, "y0[i] -> y1[i]")],
      "inputs": [_inp("x0", 3)], "input_kinds": {"x0": "list"}, "internal": [], "sizes": {}}, (1, 4)),
]


# regressions of the protocol classes (ext3).  Seeded change C13-s3-A: `[f(i) for i in xs]` → `list(map(f, xs))` at the two collection
# sites of map/_run.py — a StopIteration raised by an element is swallowed (sequential and executor).  DF-C13-03 (fixed): `map_async`
# awaited the futures through `asyncio.wrap_future` — a StopIteration hung the call for ever, a TimeoutError lost its note,
# `concurrent.futures.CancelledError` / `InvalidStateError` changed type.  (call index of the failure-free run, kind, mode)
_STOP = "x:builtins.StopIteration:"
CORPUS_MAP_PROTO = [
    (CORPUS_MAP[0][0], [(1, _STOP + "n", "seq"), (1, _STOP + "v", "thread"), (4, _STOP + "a", "thread1"), (0, _STOP + "n", "async"),
                        (4, _STOP + "v", "async"), (2, _STOP + "v", "process"), (0, "x:builtins.TimeoutError:n", "async"),
                        (1, "x:builtins.TimeoutError:a", "async"), (1, "x:concurrent.futures._base.CancelledError:a", "async"),
                        (5, "x:concurrent.futures._base.InvalidStateError:v", "async"), (1, "x:builtins.StopAsyncIteration:n", "async"),
                        (2, "x:builtins.KeyError:v", "seq"), (3, "x:builtins.AttributeError:a", "thread"), (1, "x:builtins.IndexError:n", "seq"),
                        (2, "x:builtins.FileNotFoundError:a", "thread"), (1, "x:builtins.GeneratorExit:n", "seq"),
                        (1, "x:asyncio.exceptions.CancelledError:n", "thread"),
                        # classes whose own `__reduce__` drops `__notes__`: in-process annotated like any other, across a process pool not
                        (1, "x:json.decoder.JSONDecodeError:s", "process"), (2, "x:json.decoder.JSONDecodeError:s", "thread"),
                        (2, "x:asyncio.exceptions.IncompleteReadError:s", "process")]),
]
# seeded change C13-s4-A (`_process_task_async` awaits the single future of a function WITHOUT mapspec inputs through `asyncio.wrap_future` again):
# the DF-C13-03 failures (StopIteration hangs, TimeoutError loses its note, CancelledError changes type) for a plain / reducing function only.
# Reached by the generator on some seeds only; recorded here: x0[i] -> y0[i], then the reduction f2(y0) (call index 3), `map_async`.
CORPUS_MAP_PROTO.append(
    ({"funcs": [_mf("f0", [["x0", "x0"]], ["y0"], {"inputs": [["x0", ["i"]]], "outputs": [["y0", ["i"]]]}, "x0[i] -> y0[i]"),
                _mf("f2", [["y0", "a0"]], ["y2"])],
      "inputs": [_inp("x0", 3)], "input_kinds": {"x0": "list"}, "internal": [], "sizes": {}},
     [(3, "x:builtins.TimeoutError:a", "async"), (3, _STOP + "n", "async"), (3, "x:concurrent.futures._base.CancelledError:a", "async"),
      (3, "x:builtins.TimeoutError:n", "thread")]))
CORPUS_CALL_PROTO = [
    (CORPUS_CALL[0][0], "o1", [["r0", {"s": "kw:r0"}]], [(0, _STOP + "n", "call"), (1, _STOP + "v", "run"), (1, "x:builtins.KeyError:v", "func"),
                                                        (0, "x:builtins.AttributeError:n", "scope")]),
]


# ------------------------------------------------------------------------------------------------ run
def run(ctx):
    rng = ctx.rng
    base = tempfile.mkdtemp(prefix="verif-c13-")
    # interpreted constant functions (`f_none`, `f_zero`, `f_false`, `f_empty`, see terms.py): policy "all" — the failure models never
    # compare values, and notes / kwargs / stored cells are compared through `terms.canon`.  An explicit VERIF_CONST wins.
    const_env = os.environ.get("VERIF_CONST")
    if const_env is None:
        os.environ["VERIF_CONST"] = "all"
    try:
        modes = MODE_CYCLE_QUICK if ctx.tier == "quick" else MODE_CYCLE_THOROUGH
        # ---- pipelines
        maps, callsd = [], []
        for desc, rr in CORPUS_MAP:
            maps.append((copy.deepcopy(desc), rr))
        for desc, plist in CORPUS_MAP_PROTO:
            maps.append((copy.deepcopy(desc), ("proto", plist)))
        for _ in range(ctx.n(60, 540)):
            maps.append((mapgen.gen_case(rng, max_funcs=4), None))
        for desc, out, kw, rr in CORPUS_CALL:
            callsd.append((copy.deepcopy(desc), out, kw, rr))
        for desc, out, kw, idx, entry in CORPUS_CALL_INJ:
            callsd.append((copy.deepcopy(desc), out, kw, ("inj", idx, entry)))
        for desc, out, kw, plist in CORPUS_CALL_PROTO:
            callsd.append((copy.deepcopy(desc), out, kw, ("proto", plist)))
        for _ in range(ctx.n(40, 400)):
            desc = pipegen.gen_dag(rng)
            try:
                p, _ = pipegen.build(desc)
                outs = [o for f in desc["funcs"] for o in f["outputs"]]
                out = rng.choice(outs[-2:])
                kw = [[k, {"s": f"kw:{k}"}] for k in p.root_args(out)]
            except Exception as e:  # noqa: BLE001
                ctx.skip(f"call pipeline not constructible: {exc_enum(e)}")
                continue
            callsd.append((desc, out, kw, None))
        # ---- failure-free model runs: the invocations to choose from
        reqs, metas = [], []
        for desc, rr in maps:
            try:
                mdesc, gens = order_by_generations(desc)
            except Exception as e:  # noqa: BLE001
                ctx.skip(f"map pipeline not constructible: {exc_enum(e)}")
                continue
            if mdesc is None:
                ctx.skip("generations do not list every function")
                continue
            reqs.append(map_request(mdesc, [], "seq"))
            metas.append(("map", mdesc, rr))
        for desc, out, kw, rr in callsd:
            reqs.append(call_request(desc, out, kw, []))
            metas.append(("call", (desc, out, kw), rr))
        outs = ctx.lean(reqs)
        # ---- injections
        jobs, reqs2, slots = [], [], []
        k = 0
        fresh_left = ctx.n(9, 240)                # reproduce() after save/load in a FRESH interpreter (≈ 1 s each, in the workers)
        for (kind, d, rr), resp in zip(metas, outs):
            r = resp["r"]
            if kind == "map":
                if "done" not in r:
                    raise AssertionError(f"model refuses a generated map case: {r}")
                calls = [(n, kw) for n, kw in r["calls"]]
                injs, k = plan_map(ctx, rng, d, calls, modes, k)
                if rr is not None and rr[0] == "proto":       # corpus: recorded protocol-class failures, instead of the planned ones
                    injs = []
                    for n_, (i, kd, md) in enumerate(rr[1]):
                        t, m = make_target(calls[i][0], calls[i][1], kd, 100 + n_)
                        injs.append({"what": "outside" if c13_exc.is_outside(kd) else "single", "targets": [t], "fail": [m], "mode": md,
                                     "storage": "file_array", "index": i, "resume": md != "process" and not c13_exc.is_outside(kd)})
                elif rr is not None:          # corpus: the recorded rerun pair first
                    a, b = rr
                    ta, ma = make_target(calls[a][0], calls[a][1], "value", 300 + a)
                    tb, mb = make_target(calls[b][0], calls[b][1], "custom", 400 + b)
                    injs.insert(0, {"what": "rerun", "targets": [ta], "fail": [ma], "mode": "seq", "storage": "file_array", "index": a,
                                    "then": {"what": "rerun2", "targets": [tb], "fail": [mb], "mode": "seq", "storage": "file_array", "index": b}})
                desc = d
                for inj in injs:
                    if inj.get("resume"):
                        inj["model_full"] = r["stored"]
                    if fresh_left > 0 and inj["what"] == "single" and inj["mode"] in IN_PROCESS and rng.random() < 0.2:
                        inj["fresh"] = True
                        fresh_left -= 1
                    for step in [inj] + ([inj["then"]] if inj.get("then") else []):
                        step["model_calls"] = calls
                        step["fail_extra"] = colliding(calls, step)
                        if step["fail_extra"]:
                            ctx.count("interpreted:colliding-invocations")
                        reqs2.append(map_request(d, step["fail"], step["mode"], step["fail_extra"]))
                        slots.append(step)
            else:
                desc, out, kw = d
                if "value" not in r:
                    ctx.skip("call case refused by the model without failures")
                    continue
                injs = plan_call(ctx, rng, desc, out, kw, r["calls"])
                if rr is not None and rr[0] == "proto":
                    injs = []
                    for n_, (i, kd, entry) in enumerate(rr[1]):
                        t, m = make_target(r["calls"][i], None, kd, 560 + n_)
                        injs.append({"what": "single", "targets": [t], "fail": [m], "out": out, "kw": kw, "entry": entry, "mode": "call", "index": i})
                elif rr is not None and rr[0] == "inj":
                    _, idx, entry = rr
                    name = r["calls"][idx]
                    t, m = make_target(name, None, "value", 560 + idx)
                    injs.insert(0, {"what": "single", "targets": [t], "fail": [m], "out": out, "kw": kw, "entry": entry, "mode": "call", "index": idx,
                                    "nest_out": [o for f in desc["funcs"] if f["name"] != name for o in f["outputs"]]})
                elif rr is not None:
                    a, b = rr
                    ta, ma = make_target(r["calls"][a], None, "value", 600 + a)
                    tb, mb = make_target(r["calls"][b], None, "custom", 700 + b)
                    injs.insert(0, {"what": "rerun", "targets": [ta], "fail": [ma], "out": out, "kw": kw, "entry": "call", "mode": "call", "index": a,
                                    "then": {"what": "rerun2", "targets": [tb], "fail": [mb], "out": out, "kw": kw, "entry": "call", "mode": "call", "index": b}})
                for inj in injs:
                    if fresh_left > 0 and inj["what"] == "single" and rng.random() < 0.15:
                        inj["fresh"] = True
                        fresh_left -= 1
                    for step in [inj] + ([inj["then"]] if inj.get("then") else []):
                        reqs2.append(call_request(desc, out, kw, step["fail"]))
                        slots.append(step)
            jobs.append({"kind": kind, "desc": desc, "injections": injs, "base": base})
        for step, resp in zip(slots, ctx.lean(reqs2)):
            step["model"] = resp["r"]
        # ---- the real runs, in worker processes under a watchdog
        jobs.sort(key=lambda j: -len(j["injections"]))
        results = run_jobs(ctx, jobs, 6 if ctx.tier == "quick" else 14)
        confirm_hangs(ctx, jobs, results, base)
        # ---- what each failed run owes, given the invocations the implementation logged as completed before the failure (`map.owed`)
        attach_owed(ctx, [(job["desc"], step, o) for job, obs_list in zip(jobs, results) if job["kind"] == "map"
                          for inj, obs in zip(job["injections"], obs_list) if isinstance(obs, dict) and "runs" in obs
                          for step, o in zip([inj] + ([inj["then"]] if inj.get("then") else []), obs["runs"])])
        for job, obs_list in zip(jobs, results):
            for inj, obs in zip(job["injections"], obs_list):
                judge(ctx, job["kind"], job["desc"], inj, obs)
        # ---- stream `snapfile`: ErrorSnapshot.save_to_file / load_from_file against the file model (Props/C13File.lean)
        c13_file.run_stream(ctx, base, ctx.n(110, 1500))
    finally:
        if const_env is None:
            os.environ.pop("VERIF_CONST", None)
        shutil.rmtree(base, ignore_errors=True)


def replay(ctx, case):
    base = tempfile.mkdtemp(prefix="verif-c13-")
    try:
        if case.get("kind") == "snapfile":
            c13_file.replay(ctx, case["case"], base)
            return
        inj = case["inj"]
        desc = case["desc"]
        steps = [inj] + ([inj["then"]] if inj.get("then") else [])
        reqs = [map_request(desc, s["fail"], s["mode"], s.get("fail_extra", ())) if case["kind"] == "map" else call_request(desc, s["out"], s["kw"], s["fail"]) for s in steps]
        if case["kind"] == "map":
            reqs.append(map_request(desc, [], "seq"))
        resps = ctx.lean(reqs)
        for s, resp in zip(steps, resps):
            s["model"] = resp["r"]
            if s.get("resume"):
                s["model_full"] = resps[-1]["r"]["stored"]
            if case["kind"] == "map":
                s["model_calls"] = [(n, kw) for n, kw in resps[-1]["r"]["calls"]]
        res = run_jobs(ctx, [{"kind": case["kind"], "desc": desc, "injections": [inj], "base": base}], 1)
        if case["kind"] == "map" and isinstance(res[0][0], dict) and "runs" in res[0][0]:
            attach_owed(ctx, [(desc, s, o) for s, o in zip(steps, res[0][0]["runs"])])
        print("implementation:", json.dumps(res[0][0], indent=1)[:6000])
        print("model:", json.dumps([s["model"] for s in steps], indent=1)[:6000])
        judge(ctx, case["kind"], desc, inj, res[0][0])
        for v in ctx.violations:
            print("VIOLATION", v["what"])
    finally:
        shutil.rmtree(base, ignore_errors=True)
