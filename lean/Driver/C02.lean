import PfModel.DriverVal
import PfModel.Model.Pipeline
/-! Driver for C02 (`pipe.run`, `pipe.argcombos`). -/
open Lean PF PF.Drv PF.Pipe

/-- `{"name": "f", "params": [["p", "orig"], …], "outputs": ["a", "b"], "defaults": [["p", v]], "bound": [["p", v]]}` -/
def getFunc (j : Json) : R Func := do
  return { name := ← strF j "name", params := ← listF (asPair asStr asStr) j "params", outputs := ← listF asStr j "outputs",
           defaults := (← optF getKw j "defaults").getD [], bound := (← optF getKw j "bound").getD [] }

def putErr : Err → Json
  | .fuel => jObj [("err", jStr "RecursionError")]
  | .missing _ => jObj [("err", jStr "ValueError")]
  | .noFunc _ => jObj [("err", jStr "KeyError")]
  | .unused ps => jObj [("err", jStr "UnusedParametersError"), ("unused", jList jStr ps)]
  | .outputInKwargs => jObj [("err", jStr "ValueError")]
  | .mapspec => jObj [("err", jStr "RuntimeError")]

def getReq (j : Json) : R Req := do
  match j with
  | .str s => return .name s
  | _ => return .whole (← asList asStr j)

def handle (m : String) (a : Json) : R Json := do
  let fs ← listF getFunc a "funcs"
  match m with
  | "run" =>
    let kw ← getKw (← fld a "kw")
    let req ← getReq (← fld a "out")
    match runTop fs kw req with
    | .error e => return putErr e
    | .ok o =>
      -- the specification, evaluated alongside (the refinement theorem says they agree)
      let spec : Json := match req with
        | .name n => match compose fs kw (fuelFor fs) n with | .ok v => putVal v | .error _ => Json.null
        | .whole _ => Json.null
      return jObj [("value", putVal o.value), ("full", putKw o.full), ("calls", jList jStr o.calls), ("spec", spec)]
  | "argcombos" =>
    let o ← strF a "out"
    return jObj [("combos", jOpt (jList (jList jStr)) (argCombinations fs o)), ("root_args", jOpt (jList jStr) (rootArgs fs o)),
                 ("deps", match producerIdx fs o with
                          | some i => jList (fun j => jList jStr (funcAt fs j).outputs) (funcDeps fs (fs.length * fs.length + 2) [i] [])
                          | none => Json.null)]
  | _ => .error s!"unknown entry {m}"

def main : IO Unit := loop handle
