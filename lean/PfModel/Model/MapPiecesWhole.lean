/-
Round 9 of C06 — "pieces = whole" at pipeline level: the executable predicates the theorems of `Props/C06Whole.lean` are stated
with and the driver (`pieces.whole`) evaluates on every generated sequence of parts.
`mappedInfo` is the case split of `runFuncPart` (`_run.py:_submit_func`: a function with MapSpec inputs is run element-wise over
its storage arrays, any other is run once); `selectedBy` is one bit of the mask `_mask_fixed_axes` (`_run.py:648-661`) builds for a
`fixed_indices` dictionary; `uncovered` lists, per mapped function, the external linear indices that NO part of a sequence
selects (what `_existing_and_missing_indices`, `_run.py:577-596`, reports as missing to the final full run); `completeB` says a
run folder misses nothing (every storage array full, every whole value dumped).
Core Lean only.
-/
import PfModel.Model.MapPieces
namespace PF.Pieces
open PF PF.Map

/-- how `runFuncPart` runs `f`: `some (ms, shape, mask)` = element-wise over the storage arrays of its outputs (shape and mask of
    the first output), `none` = once (`_execute_single`) -/
def mappedInfo (shapes : List (String × List Nat)) (masks : List (String × List Bool)) (f : MFunc) :
    Option (MSpec × List Nat × List Bool) :=
  match f.mapspec with
  | some ms =>
    if ms.inputs.isEmpty then none else
    match f.outputs.head? with
    | none => none
    | some o =>
      match alookup shapes o, alookup masks o with
      | some sh, some mk => if sh.length ≠ mk.length then none else some (ms, sh, mk)
      | _, _ => none
  | none => none

/-- is external linear index `li` inside the mask `_mask_fixed_axes` builds for `fx`? (`false` when NumPy refuses the key) -/
def selectedBy (fx : List (String × Sel)) (ms : MSpec) (sh : List Nat) (mk : List Bool) (li : Nat) : Bool :=
  match fixedMask (some fx) ms sh mk with
  | .ok fm => selOf fm li
  | .error _ => false

/-- the external linear indices of `f` that no part selects -/
def uncoveredOf (parts : List (List (String × Sel))) (ms : MSpec) (sh : List Nat) (mk : List Bool) : List Nat :=
  (List.range (prod (extOf mk sh))).filter fun li => !(parts.any fun fx => selectedBy fx ms sh mk li)

/-- per mapped function (in execution order): name and uncovered indices -/
def uncovered (fs : List MFunc) (shapes : List (String × List Nat)) (masks : List (String × List Bool))
    (parts : List (List (String × Sel))) : List (String × List Nat) :=
  (generations fs).flatten.filterMap fun f =>
    match mappedInfo shapes masks f with
    | some (ms, sh, mk) => some (f.name, uncoveredOf parts ms sh mk)
    | none => none

/-- the parts cover the index space of every mapped function -/
def coverB (fs : List MFunc) (shapes : List (String × List Nat)) (masks : List (String × List Bool))
    (parts : List (List (String × Sel))) : Bool :=
  (generations fs).flatten.all fun f =>
    match mappedInfo shapes masks f with
    | some (ms, sh, mk) => (List.range (prod (extOf mk sh))).all fun li => parts.any fun fx => selectedBy fx ms sh mk li
    | none => true

/-- the run folder `S` misses nothing: every element of every output of every mapped function is present, every output of a
    function run once is dumped -/
def completeB (fs : List MFunc) (shapes : List (String × List Nat)) (masks : List (String × List Bool))
    (S : List (String × Slot)) : Bool :=
  (generations fs).flatten.all fun f =>
    match mappedInfo shapes masks f with
    | some (_, sh, mk) => (List.range (prod (extOf mk sh))).all fun li => !missingIn f.outputs (oldCells S) li
    | none => f.outputs.all fun o => match alookup S o with | some (.single _) => true | _ => false

/-- the folder a sequence of parts leaves: the store of the last part (the folder it started on when there is no part) -/
def finalStore : List PartResult → List (String × Slot) → List (String × Slot)
  | [], s => s
  | r :: rs, _ => finalStore rs r.store

/-- what the final full run on the folder computes, per mapped function: the indices it finds missing -/
def missingOf (fs : List MFunc) (shapes : List (String × List Nat)) (masks : List (String × List Bool))
    (S : List (String × Slot)) : List (String × List Nat) :=
  (generations fs).flatten.filterMap fun f =>
    match mappedInfo shapes masks f with
    | some (_, sh, mk) => some (f.name, todoOf f.outputs (prod (extOf mk sh)) (fun _ => true) (oldCells S))
    | none => none

end PF.Pieces
