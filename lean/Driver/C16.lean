import PfModel.DriverLib
import PfModel.Model.Typing
import PfModel.Model.TypingPipe
import PfModel.Model.TypingX
-- BEGIN C16r9-inc
import PfModel.Model.TypingInc
-- END C16r9-inc
/-! Driver for C16 (`typing.compat`, `typing.pipeline`, `typing.desc`). Run: `lake env lean --run Driver/C16.lean < requests.jsonl`.

Annotation grammar (JSON): `"int" | "bool" | "float" | "str" | "bytes" | "None" | "A" | "B" (user classes, `B(A)`) | "Any" | "NoAnn" | "ndarray" | "T"`
(free TypeVar), `{"g": "list"|"set"|"tuple"|"dict", "a": [ty..]}`, `{"u": [ty..]}`, `{"an": ty}`, `{"arr": ty}`,
`{"tvb": ty}` (bound TypeVar), `{"tvc": [ty..]}` (constrained TypeVar).
Extended grammar (entry `typing.compatx`, `PF.Typing.XTy`): additionally `{"lit": [v..]}` (`Literal[..]`, `v` an integer, a string, a boolean
or `null`) and `{"vt": ty}` (`tuple[ty, ...]`). -/
open Lean PF.Drv PF.Typing

def getGen (s : String) : R Gen :=
  match s with
  | "list" => .ok .list | "set" => .ok .set | "tuple" => .ok .tuple | "dict" => .ok .dict
  | g => .error s!"unknown generic {g}"

partial def getTy (j : Json) : R Ty := do
  match j with
  | .str "int" => return .base .int
  | .str "bool" => return .base .bool
  | .str "float" => return .base .float
  | .str "str" => return .base .str
  | .str "bytes" => return .base .bytes
  | .str "None" => return .base .none
  | .str "A" => return .base .clsA
  | .str "B" => return .base .clsB
  | .str "Any" => return .any
  | .str "NoAnn" => return .noann
  | .str "ndarray" => return .ndarr
  | .str "T" => return .tvFree
  | .str s => .error s!"unknown type name {s}"
  | _ =>
    if let some g := fld? j "g" then
      return .gen (← getGen (← asStr g)) (← (← asArr (← fld j "a")).mapM getTy)
    else if let some u := fld? j "u" then return .union (← (← asArr u).mapM getTy)
    else if let some t := fld? j "an" then return .annot (← getTy t)
    else if let some t := fld? j "arr" then return .array (← getTy t)
    else if let some t := fld? j "tvb" then return .tvBound (← getTy t)
    else if let some c := fld? j "tvc" then return .tvConstr (← (← asArr c).mapM getTy)
    else .error s!"bad type {j.compress}"

/-- only well-formed annotations (what the `typing` constructors return) are accepted -/
def getWfTy (j : Json) : R Ty := do
  let t ← getTy j
  if t.wf then return t else .error s!"annotation is not well-formed (nested union / nested Annotated / empty union): {j.compress}"

def getMSpec (j : Json) : R MSpec := do
  return { ins := ← listF (asPair asStr (asList (asOpt asStr))) j "ins",
           outs := ← listF (asPair asStr (asList asStr)) j "outs",
           generated := ← boolF j "generated" }

def getEdge (j : Json) : R Edge := do
  return { param := ← strF j "param", out := ← getWfTy (← fld j "out"), inp := ← getWfTy (← fld j "inp"),
           prod := ← optF getMSpec j "prod", cons := ← optF getMSpec j "cons" }

def putBase : Base → String
  | .int => "int" | .bool => "bool" | .float => "float" | .str => "str" | .bytes => "bytes" | .none => "None"
  | .clsA => "A" | .clsB => "B"
def putGen : Gen → String
  | .list => "list" | .set => "set" | .tuple => "tuple" | .dict => "dict"

partial def putTy : Ty → Json
  | .base b => jStr (putBase b)
  | .any => jStr "Any"
  | .noann => jStr "NoAnn"
  | .ndarr => jStr "ndarray"
  | .tvFree => jStr "T"
  | .gen g ts => jObj [("g", jStr (putGen g)), ("a", jList putTy ts)]
  | .union ts => jObj [("u", jList putTy ts)]
  | .annot t => jObj [("an", putTy t)]
  | .array t => jObj [("arr", putTy t)]
  | .tvBound t => jObj [("tvb", putTy t)]
  | .tvConstr ts => jObj [("tvc", jList putTy ts)]

/-- a hint: an annotation or `"UNRES"` (`Unresolvable`) -/
def getHint (j : Json) : R Hint :=
  match j with
  | .str "UNRES" => .ok .unres
  | _ => do return .ty (← getWfTy j)

def putHint : Hint → Json
  | .unres => jStr "UNRES"
  | .ty t => putTy t

/-- the `return` hint: `null` (missing), `"UNRES"`, `{"variadic": ty}` (`tuple[ty, ...]`) or an annotation -/
def getRet (j : Json) : R RetHint :=
  match j with
  | .null => .ok .missing
  | .str "UNRES" => .ok .unres
  | _ =>
    match fld? j "variadic" with
    | some t => do return .variadic (← getWfTy t)
    | none => do return .ty (← getWfTy j)

def getKind (j : Json) : R Kind :=
  match j with
  | .str "plain" => .ok .plain
  | .str "picker" => .ok .picker
  | .str "nested" => .ok .nested
  | _ =>
    match fld? j "cls" with
    | some t => do return .cls (← getWfTy t)
    | none => .error s!"unknown kind {j.compress}"

def getFunc (j : Json) : R Func := do
  let f : Func := { outs := ← listF asStr j "outs", outIsTuple := ← boolF j "out_tuple", params := ← listF asStr j "params",
                    bound := ← listF asStr j "bound", renames := ← listF (asPair asStr asStr) j "renames",
                    phints := ← listF (asPair asStr getHint) j "phints", ret := ← getRet (← fld j "ret"),
                    kind := ← getKind (← fld j "kind"), mapspec := ← optF getMSpec j "mapspec" }
  if f.wf then return f else .error s!"function description outside the modelled fragment: {j.compress}"

def putAnn (d : List (String × Hint)) : Json := jList (fun kv => Json.arr #[jStr kv.1, putHint kv.2]) d

def putCEdge (c : CEdge) : Json :=
  let cls : List (String × Json) :=
    match c.toEdge? with
    | some e => [("resolved", jBool true), ("reduced", jBool (axisIsReduced e)), ("generated", jBool (mapspecIsGenerated e)),
                 ("internal", jBool (withInternalShape e)), ("cmp_out", putTy (wrapOut e)), ("ok", jBool (edgeOk e))]
    | none =>
      let e : Edge := ⟨c.param, .noann, .noann, c.pm, c.cm⟩
      [("resolved", jBool false), ("generated", jBool (mapspecIsGenerated e)), ("internal", jBool (withInternalShape e)),
       ("cmp_out", match c.out with
                   | .ty o => putTy (wrapOut { e with out := o })
                   | .unres => jStr "UNRES"),
       ("ok", jBool true)]
  jObj ([("prod", jNat c.prod), ("cons", jNat c.cons), ("param", jStr c.param), ("out", putHint c.out), ("inp", putHint c.inp),
         ("warns", jBool c.warns)] ++ cls)

-- BEGIN C16r9 (extended annotation language)
def getLitV (j : Json) : R LitV :=
  match j with
  | .null => .ok .none
  | .bool b => .ok (.bool b)
  | .str s => .ok (.str s)
  | _ => do return .int (← asInt j)

partial def getXTy (j : Json) : R XTy := do
  match j with
  | .str "int" => return .base .int
  | .str "bool" => return .base .bool
  | .str "float" => return .base .float
  | .str "str" => return .base .str
  | .str "bytes" => return .base .bytes
  | .str "None" => return .base .none
  | .str "A" => return .base .clsA
  | .str "B" => return .base .clsB
  | .str "Any" => return .any
  | .str "NoAnn" => return .noann
  | .str "ndarray" => return .ndarr
  | .str "T" => return .tvFree
  | .str s => .error s!"unknown type name {s}"
  | _ =>
    if let some g := fld? j "g" then
      return .gen (← getGen (← asStr g)) (← (← asArr (← fld j "a")).mapM getXTy)
    else if let some u := fld? j "u" then return .union (← (← asArr u).mapM getXTy)
    else if let some t := fld? j "an" then return .annot (← getXTy t)
    else if let some t := fld? j "arr" then return .array (← getXTy t)
    else if let some t := fld? j "tvb" then return .tvBound (← getXTy t)
    else if let some c := fld? j "tvc" then return .tvConstr (← (← asArr c).mapM getXTy)
    else if let some l := fld? j "lit" then return .lit (← (← asArr l).mapM getLitV)
    else if let some t := fld? j "vt" then return .vtuple (← getXTy t)
    else .error s!"bad type {j.compress}"

def getWfXTy (j : Json) : R XTy := do
  let t ← getXTy j
  if t.wf then return t else .error s!"annotation is not well-formed (nested union / nested Annotated / empty union / empty Literal): {j.compress}"
-- END C16r9

def putOutcome : Outcome → Json
  | .ok => jStr "ok"
  | .typeError => jStr "TypeError"

def handle (m : String) (a : Json) : R Json := do
  match m with
  | "typing.compat" =>
    let ps ← listF (asPair getWfTy getWfTy) a "pairs"
    -- the extended model must agree with the old one on the old language (`compatX ∘ emb = compat`, checked, not proved)
    match ps.find? (fun p => compatX p.1.emb p.2.emb != compat p.1 p.2) with
    | some p => .error s!"compatX (emb a) (emb b) differs from compat a b on {(putTy p.1).compress} -> {(putTy p.2).compress}"
    | none => return jList (fun p => jBool (compat p.1 p.2)) ps
  | "typing.compatx" =>
    let ps ← listF (asPair getWfXTy getWfXTy) a "pairs"
    return jList (fun p => jBool (compatX p.1 p.2)) ps
  | "typing.pipeline" =>
    let es ← listF getEdge a "edges"
    let v ← boolF a "validate"
    return jObj [("outcome", putOutcome (construct v es)),
                 ("edges", jList (fun e => jObj [("reduced", jBool (axisIsReduced e)), ("generated", jBool (mapspecIsGenerated e)),
                                                 ("internal", jBool (withInternalShape e)), ("wrapped", jBool (axisIsReduced e && !isObjArr e.out && !(match e.out with | .noann => true | _ => false))),
                                                 ("ok", jBool (edgeOk e))]) es)]
  | "typing.desc" =>
    let fs ← listF getFunc a "funcs"
    let v ← boolF a "validate"
    return jObj [("outcome", putOutcome (constructP v fs)),
                 ("params", jList (fun f => putAnn (paramAnnotations f)) fs),
                 ("outputs", jList (fun f => putAnn (outputAnnotation f)) fs),
                 ("visited", jList putCEdge (visit fs))]
  -- BEGIN C16r9-inc
  | "typing.inc" =>
    -- `Pipeline.add` validates after every function: one description per stage (`Model/TypingInc.lean`)
    let stages ← listF (asList getFunc) a "stages"
    let v ← boolF a "validate"
    return jObj [("outcome", putOutcome (constructInc v stages)),
                 ("firstBad", jOpt jNat (firstBad stages)),
                 ("perStage", jList (fun s => putOutcome (constructP true s)) stages),
                 ("perStageVisited", jList (fun s => jList putCEdge (visit s)) stages)]
  -- END C16r9-inc
  | _ => .error s!"unknown entry {m}"

def main : IO Unit := loop handle
