import PfModel.Lemmas.PipeCacheStable
import PfModel.Props.C09
import PfModel.Props.C09Outcome
/-!
C09, extension (round 9) — the Boolean flag the driver evaluates on every case *is* the hypothesis of the theorems.

The C09 theorems assume `WF fs rank` (unique outputs, consistent defaults, acyclic with a depth the fuel covers) and, from
round 2 on, `WFp fs rk` (unique function names, unique outputs, acyclic by a rank on names).  The driver evaluates
`stableB encVal fs` (`Model/PipeCacheStable.lean`) on every case.  Here: `stableB enc fs = true` implies both hypotheses
(the printer `enc` has to be injective, or at least injective on the default values that occur), with the explicit ranks
`depth fs (fuelFor fs)` and `nameRank fs`; and three main theorems restated with the flag in place of the hypotheses.
-/
namespace PF.C09
open PF PF.Pipe PF.PipeCache

/-- **The flag implies `WF`**, needing the printer to be injective only on the default values that occur in `fs`. -/
theorem C09_stable_wf_on (enc : Val → String) (fs : List Func)
    (hinj : ∀ f ∈ fs, ∀ g ∈ fs, ∀ kv ∈ f.defaults, ∀ kw ∈ g.defaults, enc kv.2 = enc kw.2 → kv.2 = kw.2)
    (h : stableB enc fs = true) : WF fs (depth fs (fuelFor fs)) := by
  obtain ⟨hr, hu, hc, _⟩ := stableB_parts enc fs h
  exact ⟨uniqueOut_of_B fs hu, consistentDefaults_of_B_on enc fs hc hinj, ranked_of_B fs hr, depth_lt_of_B fs hr⟩

/-- **The flag implies `WF`** with the rank `depth fs (fuelFor fs)` the flag itself computes. -/
theorem C09_stable_wf (enc : Val → String) (hinj : ∀ a b, enc a = enc b → a = b) (fs : List Func)
    (h : stableB enc fs = true) : WF fs (depth fs (fuelFor fs)) :=
  C09_stable_wf_on enc fs (fun _ _ _ _ kv _ kw _ e => hinj kv.2 kw.2 e) h

/-- **The flag implies `WFp`** with the explicit rank `nameRank fs` (the depth of the function's first output; a function
    without outputs sits above everything).  No assumption on the printer. -/
theorem C09_stable_wfp_rank (enc : Val → String) (fs : List Func) (h : stableB enc fs = true) : WFp fs (nameRank fs) := by
  obtain ⟨hr, hu, _, hn⟩ := stableB_parts enc fs h
  exact wfp_of_parts fs (uniqueNames_of_B fs hn) (uniqueOut_of_B fs hu) (ranked_of_B fs hr) (depth_lt_of_B fs hr)

theorem C09_stable_wfp (enc : Val → String) (fs : List Func) (h : stableB enc fs = true) : ∃ rk, WFp fs rk :=
  ⟨_, C09_stable_wfp_rank enc fs h⟩

/-- a history of calls on a pipeline that passes the flag is well-formed throughout -/
theorem C09_stable_wfhist (enc : Val → String) (hinj : ∀ a b, enc a = enc b → a = b) (fs : List Func)
    (h : stableB enc fs = true) : ∀ (steps : List Step), callsOnly steps = true → WFHist fs steps := by
  intro steps
  induction steps with
  | nil => intro _; trivial
  | cons st rest ih =>
    intro hc
    cases st with
    | mutate m => simp [callsOnly] at hc
    | call o kw full =>
      simp only [callsOnly] at hc
      exact ⟨⟨_, C09_stable_wf enc hinj fs h⟩, ih hc⟩

/-- `C09_call` with the flag in place of `WF` -/
theorem C09_stable_call {H C} (P : Policy H C) (h : Val → H) (hinj : ∀ a b, h a = h b → a = b) (cached : Func → Bool)
    (enc : Val → String) (henc : ∀ a b, enc a = enc b → a = b)
    (fs : List Func) (hst : stableB enc fs = true) (c : C) (kw : List (String × Val)) (full : Bool) (o : String)
    (u : Outcome) (hi : Inv P h fs c) (htw : runTop fs kw (.name o) = .ok u) :
    ∃ out, runTopC P cached (computeKey h fs) fs c kw full o = .ok out ∧ out.value = u.value ∧ Inv P h fs out.cache ∧
      ∀ q w, alookup kw q = none → alookup out.full q = some w → ∃ k, compose fs kw k q = .ok w :=
  C09_call P h hinj cached fs _ (C09_stable_wf enc henc fs hst) c kw full o u hi htw

/-- `C09_transparent` with the flag in place of `WFHist` -/
theorem C09_stable_transparent {H C} (P : Policy H C) (h : Val → H) (hinj : ∀ a b, h a = h b → a = b) (cached : Func → Bool)
    (enc : Val → String) (henc : ∀ a b, enc a = enc b → a = b)
    (steps : List Step) (fs : List Func) (c : C) (hcalls : callsOnly steps = true) (hst : stableB enc fs = true)
    (hi : Inv P h fs c) :
    Agrees (histU fs steps) (histC P cached (fun fs => computeKey h fs) fs c steps) :=
  C09_transparent P h hinj cached steps fs c hcalls (C09_stable_wfhist enc henc fs hst steps hcalls) hi

/-- `C09_refines_uncached` (round 2; needs `WF` and `WFp`) with the flag in place of both -/
theorem C09_stable_refines_uncached {H C} (P : Policy H C) (h : Val → H) (hinj : ∀ a b, h a = h b → a = b)
    (cached : Func → Bool) (enc : Val → String) (henc : ∀ a b, enc a = enc b → a = b)
    (fs : List Func) (hst : stableB enc fs = true) (c : C) (kw : List (String × Val)) (full : Bool)
    (o : String) (out : COutcome H C) (hi : Inv P h fs c)
    (hrun : runTopC P cached (computeKey h fs) fs c kw full o = .ok out) (hno : full = true ∨ out.hits = []) :
    ∃ v s, run fs kw (fuelFor fs) o ⟨kw, [], []⟩ = .ok (v, s) ∧ out.value = v ∧
      (∀ q, alookup out.full q = alookup s.memo q) ∧
      out.unused = (akeys kw).filter (fun k => !(s.used.contains k)) ∧
      (∀ a, s.calls.count a = out.calls.count a + (hitNames fs out.hits).count a) ∧ Inv P h fs out.cache :=
  C09_refines_uncached P h hinj cached fs _ _ (C09_stable_wf enc henc fs hst) (C09_stable_wfp_rank enc fs hst) c kw full o out hi
    hrun hno

/-! ### non-vacuity -/

/-- the flag holds of the chain `g(a)→c`, `f(c,a)→d` with the driver's printer … -/
example : stableB encVal [gA, fD] = true := by decide

/-- … and of the same chain with an agreeing default on both functions -/
example : stableB encVal [⟨"g", [("a", "a")], ["c"], [("a", .int 1)], []⟩,
                          ⟨"f", [("c", "c"), ("a", "a")], ["d"], [("a", .int 1)], []⟩] = true := by decide

/-- the flag rejects a cycle, a duplicate output, a duplicate name and conflicting defaults (it is not constantly true) -/
example : stableB encVal [⟨"g", [("d", "d")], ["c"], [], []⟩, fD] = false ∧
    stableB encVal [gA, ⟨"f", [("a", "a")], ["c"], [], []⟩] = false ∧
    stableB encVal [gA, ⟨"g", [("a", "a")], ["d"], [], []⟩] = false ∧
    stableB encVal [⟨"g", [("a", "a")], ["c"], [("a", .int 1)], []⟩,
                    ⟨"f", [("c", "c"), ("a", "a")], ["d"], [("a", .int 2)], []⟩] = false := by decide

/-- `C09_stable_wf_on`: all hypotheses hold of the chain with defaults (the printer separates the values that occur) -/
example : ∀ fs, fs = [⟨"g", [("a", "a")], ["c"], [("a", .int 1)], []⟩, ⟨"f", [("c", "c"), ("a", "a")], ["d"], [("a", .int 1)], []⟩] →
    WF fs (depth fs (fuelFor fs)) := by
  intro fs e
  subst e
  refine C09_stable_wf_on encVal _ ?_ (by decide)
  intro f hf g hg kv hkv kw hkw _
  simp only [List.mem_cons, List.mem_nil_iff, or_false] at hf hg
  rcases hf with rfl | rfl <;> rcases hg with rfl | rfl <;>
    simp only [List.mem_cons, List.mem_nil_iff, or_false] at hkv hkw <;> rw [hkv, hkw]

/-- `C09_stable_wf`: the flag holds of the chain whatever the printer (no defaults: the printer is never consulted).  That an
    injective `Val → String` exists is not proved here (injectivity of `to_hashable`/`encVal` is C15's business, as for `h` in
    the main theorems); `C09_stable_wf_on` above is the form all of whose hypotheses are discharged. -/
example (enc : Val → String) (hinj : ∀ a b, enc a = enc b → a = b) : WF [gA, fD] (depth [gA, fD] (fuelFor [gA, fD])) :=
  C09_stable_wf enc hinj [gA, fD] (by
    have h : stableB enc [gA, fD] = stableB encVal [gA, fD] := by
      simp [stableB, consistentDefaultsB, gA, fD]
    rw [h]; decide)

/-- `C09_stable_wfp_rank`, `C09_stable_wfp` -/
example : WFp [gA, fD] (nameRank [gA, fD]) := C09_stable_wfp_rank encVal _ (by decide)
example : ∃ rk, WFp [gA, fD] rk := C09_stable_wfp encVal _ (by decide)
example : nameRank [gA, fD] "g" = 1 ∧ nameRank [gA, fD] "f" = 2 := by decide

/-- `C09_stable_wfhist`, `C09_stable_transparent`: hypotheses other than the printer's injectivity, on a history that hits -/
example : stableB encVal [gA, fD] = true ∧ callsOnly hPoisoned = true ∧ Inv (simplePolicy String) hS [gA, fD] [] :=
  ⟨by decide, rfl, C09_empty_inv hS _⟩

/-- `C09_stable_call`, `C09_stable_refines_uncached`: the uncached call succeeds, the cached call is evaluated without a hit -/
example : stableB encVal [gA, fD] = true ∧ Inv (simplePolicy String) hS [gA, fD] [] ∧
    (∃ u, runTop [gA, fD] [("a", .str "1")] (.name "d") = .ok u) ∧
    (∃ out, runTopC (simplePolicy String) (fun _ => true) (computeKey hS [gA, fD]) [gA, fD] [] [("a", .str "1")] false "d" = .ok out ∧
      out.hits = []) :=
  ⟨by decide, C09_empty_inv hS _, ⟨_, rfl⟩, ⟨_, rfl, rfl⟩⟩

end PF.C09
