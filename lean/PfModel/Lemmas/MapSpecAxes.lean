/-
Lemmas for `C08Axes`: what `validate_consistent_axes`, `mapspec_axes`, `mapspec_dimensions` compute.
-/
import PfModel.Model.MapSpecAxes
namespace PF.MS

/-- two axes tuples never give one position two different names -/
def AgreeAt (l1 l2 : List (Option String)) : Prop :=
  ∀ (i : Nat) (x y : String), l1[i]? = some (some x) → l2[i]? = some (some y) → x = y

theorem agreeAt_cons (h1 h2 : Option String) (r s : List (Option String)) :
    AgreeAt (h1 :: r) (h2 :: s) ↔ (∀ x y, h1 = some x → h2 = some y → x = y) ∧ AgreeAt r s := by
  constructor
  · intro h
    refine ⟨fun x y e1 e2 => h 0 x y (by simp [e1]) (by simp [e2]), fun i x y e1 e2 => h (i + 1) x y (by simpa using e1) (by simpa using e2)⟩
  · intro ⟨h0, hr⟩ i x y e1 e2
    cases i with
    | zero => simp at e1 e2; exact h0 x y e1 e2
    | succ j => simp at e1 e2; exact hr j x y e1 e2

/-- `axesClash` is false exactly when the ranks are equal and no position gets two names -/
theorem axesClash_false_iff : ∀ (l1 l2 : List (Option String)),
    axesClash l1 l2 = false ↔ l1.length = l2.length ∧ AgreeAt l1 l2
  | [], [] => by simp [axesClash, AgreeAt]
  | [], _ :: _ => by simp [axesClash]
  | _ :: _, [] => by simp [axesClash]
  | h1 :: r, h2 :: s => by
    have ih := axesClash_false_iff r s
    rw [agreeAt_cons]
    cases h1 with
    | none =>
      simp only [axesClash, ih, List.length_cons, Nat.add_right_cancel_iff]
      constructor
      · intro ⟨a, b⟩; exact ⟨a, (by intro x y e; cases e), b⟩
      · intro ⟨a, _, b⟩; exact ⟨a, b⟩
    | some a =>
      cases h2 with
      | none =>
        simp only [axesClash, ih, List.length_cons, Nat.add_right_cancel_iff]
        constructor
        · intro ⟨a, b⟩; exact ⟨a, (by intro x y _ e; cases e), b⟩
        · intro ⟨a, _, b⟩; exact ⟨a, b⟩
      | some b =>
        simp only [axesClash, Bool.or_eq_false_iff, ih, List.length_cons, Nat.add_right_cancel_iff]
        constructor
        · intro ⟨hab, hl, hg⟩
          have : a = b := by simpa using hab
          exact ⟨hl, (by intro x y e1 e2; cases e1; cases e2; exact this), hg⟩
        · intro ⟨hl, h0, hg⟩
          exact ⟨by simp [h0 a b rfl rfl], hl, hg⟩

/-! ### `firstOcc`, `lookup` -/

theorem mem_firstOcc : ∀ (l : List String) (y : String), y ∈ firstOcc l ↔ y ∈ l
  | [], y => by simp [firstOcc]
  | x :: xs, y => by
    have ih := mem_firstOcc xs y
    simp only [firstOcc, List.mem_cons, List.mem_filter, ih, bne_iff_ne]
    constructor
    · rintro (h | ⟨h, _⟩)
      · exact Or.inl h
      · exact Or.inr h
    · rintro (h | h)
      · exact Or.inl h
      · by_cases e : y = x
        · exact Or.inl e
        · exact Or.inr ⟨h, e⟩

theorem lookup_map_self {β : Type} (f : String → β) : ∀ (l : List String) (n : String), n ∈ l →
    lookup n (l.map fun k => (k, f k)) = some (f n)
  | [], n, h => by cases h
  | k :: r, n, h => by
    simp only [List.map_cons, lookup]
    by_cases e : k = n
    · simp [e]
    · have : n ∈ r := by
        rcases List.mem_cons.1 h with h | h
        · exact absurd h.symm e
        · exact h
      simp [e, lookup_map_self f r n this]

/-! ### `mapspec_dimensions` -/

theorem lastRank_some (n : String) : ∀ (specs : List ArraySpec) (k : Nat), lastRank n specs = some k →
    ∃ a ∈ specs, a.name = n ∧ a.axes.length = k
  | [], k, h => by simp [lastRank] at h
  | a :: r, k, h => by
    simp only [lastRank] at h
    cases hr : lastRank n r with
    | some k' =>
      rw [hr] at h
      injection h with h; subst h
      obtain ⟨b, hb, e1, e2⟩ := lastRank_some n r k' hr
      exact ⟨b, List.mem_cons_of_mem _ hb, e1, e2⟩
    | none =>
      rw [hr] at h
      simp only [] at h
      split at h
      · next hn => injection h with h; exact ⟨a, List.mem_cons_self, hn, h⟩
      · cases h

theorem lastRank_isSome (n : String) : ∀ (specs : List ArraySpec), (∃ a ∈ specs, a.name = n) → ∃ k, lastRank n specs = some k
  | [], h => by obtain ⟨a, ha, _⟩ := h; cases ha
  | a :: r, h => by
    simp only [lastRank]
    cases hr : lastRank n r with
    | some k' => exact ⟨k', rfl⟩
    | none =>
      simp only []
      by_cases hn : a.name = n
      · exact ⟨a.axes.length, by simp [hn]⟩
      · exfalso
        obtain ⟨b, hb, e⟩ := h
        rcases List.mem_cons.1 hb with hb | hb
        · subst hb; exact hn e
        · obtain ⟨k, hk⟩ := lastRank_isSome n r ⟨b, hb, e⟩
          rw [hr] at hk; cases hk

/-! ### `mapspec_axes` -/

theorem mem_namedAt : ∀ (axes : List (Option String)) (k i : Nat) (x : String),
    (i, x) ∈ namedAt k axes ↔ k ≤ i ∧ axes[i - k]? = some (some x)
  | [], k, i, x => by simp [namedAt]
  | none :: r, k, i, x => by
    simp only [namedAt, mem_namedAt r (k + 1) i x]
    constructor
    · intro ⟨h1, h2⟩
      refine ⟨by omega, ?_⟩
      have : i - k = (i - (k + 1)) + 1 := by omega
      rw [this]; simpa using h2
    · intro ⟨h1, h2⟩
      by_cases e : i = k
      · subst e; simp at h2
      · refine ⟨by omega, ?_⟩
        have : i - k = (i - (k + 1)) + 1 := by omega
        rw [this] at h2; simpa using h2
  | some a :: r, k, i, x => by
    simp only [namedAt, List.mem_cons, mem_namedAt r (k + 1) i x, Prod.mk.injEq]
    constructor
    · rintro (⟨e1, e2⟩ | ⟨h1, h2⟩)
      · subst e1; subst e2; simp
      · refine ⟨by omega, ?_⟩
        have : i - k = (i - (k + 1)) + 1 := by omega
        rw [this]; simpa using h2
    · intro ⟨h1, h2⟩
      by_cases e : i = k
      · subst e; simp at h2; exact Or.inl ⟨rfl, h2.symm⟩
      · right
        refine ⟨by omega, ?_⟩
        have : i - k = (i - (k + 1)) + 1 := by omega
        rw [this] at h2; simpa using h2

theorem natLookupLast_mem (i : Nat) : ∀ (dct : List (Nat × String)) (x : String), natLookupLast i dct = some x → (i, x) ∈ dct
  | [], x, h => by simp [natLookupLast] at h
  | (k, v) :: r, x, h => by
    simp only [natLookupLast] at h
    cases hr : natLookupLast i r with
    | some w =>
      rw [hr] at h; injection h with h; subst h
      exact List.mem_cons_of_mem _ (natLookupLast_mem i r w hr)
    | none =>
      rw [hr] at h
      simp only [] at h
      split at h
      · next e => injection h with h; subst h; subst e; exact List.mem_cons_self
      · cases h

theorem natLookupLast_of_mem (i : Nat) (x : String) : ∀ (dct : List (Nat × String)), (i, x) ∈ dct →
    ∃ y, natLookupLast i dct = some y
  | [], h => by cases h
  | (k, v) :: r, h => by
    simp only [natLookupLast]
    cases hr : natLookupLast i r with
    | some w => exact ⟨w, rfl⟩
    | none =>
      simp only []
      rcases List.mem_cons.1 h with h | h
      · injection h with h1 h2; subst h1; exact ⟨v, by simp⟩
      · obtain ⟨y, hy⟩ := natLookupLast_of_mem i x r h
        rw [hr] at hy; cases hy

theorem collectAxes_length (dct : List (Nat × String)) : ∀ (k i : Nat), (collectAxes dct k i).length = k
  | 0, i => by simp [collectAxes]
  | k + 1, i => by simp [collectAxes, collectAxes_length dct k (i + 1)]

theorem collectAxes_get (dct : List (Nat × String)) : ∀ (k i j : Nat), j < k →
    (collectAxes dct k i)[j]? = some (natLookupLast (i + j) dct)
  | 0, i, j, h => by cases h
  | k + 1, i, 0, _ => by simp [collectAxes]
  | k + 1, i, j + 1, h => by
    have := collectAxes_get dct k (i + 1) j (by omega)
    simp only [collectAxes, List.getElem?_cons_succ, this]
    congr 2; omega

/-- the `dict[int, str]` that `mapspec_axes` fills for the array `n` -/
def dctOf (specs : List ArraySpec) (n : String) : List (Nat × String) :=
  (specs.filter (·.name == n)).flatMap fun a => namedAt 0 a.axes

theorem mem_dctOf (specs : List ArraySpec) (n : String) (i : Nat) (x : String) :
    (i, x) ∈ dctOf specs n ↔ ∃ b ∈ specs, b.name = n ∧ b.axes[i]? = some (some x) := by
  unfold dctOf
  simp only [List.mem_flatMap, List.mem_filter, beq_iff_eq, mem_namedAt, Nat.zero_le, true_and, Nat.sub_zero]
  constructor
  · rintro ⟨b, ⟨hb, hn⟩, h⟩; exact ⟨b, hb, hn, h⟩
  · rintro ⟨b, hb, hn, h⟩; exact ⟨b, ⟨hb, hn⟩, h⟩

theorem lookup_go (specs : List ArraySpec) : ∀ (ns : List String) (n : String), n ∈ ns →
    lookup n (mapspecAxesGo specs ns) = some (collectAxes (dctOf specs n) (maxRank specs n) 0)
  | [], n, h => by cases h
  | k :: r, n, h => by
    simp only [mapspecAxesGo, lookup]
    by_cases e : k = n
    · subst e; simp [dctOf]
    · have : n ∈ r := by
        rcases List.mem_cons.1 h with h | h
        · exact absurd h.symm e
        · exact h
      simp [e, lookup_go specs r n this]

theorem foldl_max_const (L : Nat) : ∀ (l : List ArraySpec) (m0 : Nat), (∀ a ∈ l, a.axes.length = L) → l ≠ [] →
    l.foldl (fun m a => max m a.axes.length) m0 = max m0 L
  | [], _, _, h => absurd rfl h
  | [a], m0, hl, _ => by simp [hl a List.mem_cons_self]
  | a :: b :: r, m0, hl, _ => by
    have := foldl_max_const L (b :: r) (max m0 a.axes.length) (fun c hc => hl c (List.mem_cons_of_mem _ hc)) (by simp)
    simp only [List.foldl_cons] at this ⊢
    rw [this, hl a List.mem_cons_self]
    omega

end PF.MS
