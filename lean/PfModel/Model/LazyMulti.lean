/-
Several lazy pipelines in one Python process: the state `pipefunc/lazy.py` shares ACROSS pipelines, and what each pipeline keeps.

Global (one per process):
* the id counter and the objects made so far — `_LazyFunction._counter` (`lazy.py:23, 38-39`): `GSt.nodes`, id = position;
* the `_evaluated/_result` slots of all objects and the log of invocations (`lazy.py:35-36, 60-69`): `GSt.ev`;
* `_TASK_GRAPH` (`lazy.py:104-115`): `GSt.tg`; its graph (`graph.add_node/add_edge`, `lazy.py:41-58`) and, per pipeline called inside
  the block, the cache that pipeline uses there (`TaskGraph.owners`, `TaskGraph.cache_for`, `lazy.py:84-101`): `GTG.caches`, in
  `owners` order, so the FIRST entry is the one that got `TaskGraph.cache`.
Per pipeline (`PSt`): `Pipeline.cache` (its own cache, used outside blocks: `_current_cache`, `_base.py:511-516`) and the output
names of its `cache=True` functions.

A call on pipeline `i` (`gcall`) is the EXISTING single-pipeline `lrunTop fss[i]` on the projection `proj g i` of the global state
(`tg.cache := cache_for i`), written back (`writeBack`).  `evaluate()` (`geval`) looks at the global table and slots only.
An eager pipeline called inside a block also takes an `owners` slot (`_current_cache` does not look at `lazy`) and stores plain
values there; it creates no `_LazyFunction`, so it touches none of `nodes/ev/gnodes/edges`.  It is NOT modelled here (the only
observable difference: if it is the block's first caller, `TaskGraph.cache` is its cache) — implementation-only, harness stream `foreign`.
Core Lean only.
-/
import PfModel.Model.Lazy
namespace PF.Lazy
open PF PF.Pipe

/-- `TaskGraph` with its `owners` list (`lazy.py:78-101`) -/
structure GTG where
  gnodes : List Nat
  edges : List (Nat × Nat)
  caches : List (Nat × List (Key × LArg))   -- `owners`: (pipeline, the cache it uses in this block), in order of first call
  deriving Repr, Inhabited

/-- what a pipeline keeps for itself -/
structure PSt where
  own : Option (List (Key × LArg))
  cfn : List (List String)
  deriving Repr, Inhabited

structure GSt where
  nodes : List Node
  ev : ESt
  tg : Option GTG
  pipes : List PSt
  deriving Repr, Inhabited

/-- `TaskGraph.cache_for(pipeline)` as a lookup (`lazy.py:96-98`); a pipeline not yet in `owners` gets an empty cache: the first
    one `TaskGraph.cache` (nobody else has written to it), every further one `SimpleCache()` (`lazy.py:99-101`) -/
def cacheFor : List (Nat × List (Key × LArg)) → Nat → List (Key × LArg)
  | [], _ => []
  | (j, c) :: r, i => if j = i then c else cacheFor r i

/-- the owner's cache after the call; a new owner is appended (`self.owners.append`, `lazy.py:100`) -/
def setCache : List (Nat × List (Key × LArg)) → Nat → List (Key × LArg) → List (Nat × List (Key × LArg))
  | [], i, c => [(i, c)]
  | (j, d) :: r, i, c => if j = i then (j, c) :: r else (j, d) :: setCache r i c

def getPipe (g : GSt) (i : Nat) : PSt := match g.pipes[i]? with | some p => p | none => ⟨none, []⟩

/-- pipeline `i`'s view of the process: the global table, slots and graph; `_current_cache()` = `tg.cache_for(self)`; its own cache -/
def proj (g : GSt) (i : Nat) : LSt :=
  { memo := [], used := [], usedNone := false, nodes := g.nodes,
    tg := match g.tg with
      | none => none
      | some t => some ⟨t.gnodes, t.edges, cacheFor t.caches i⟩,
    ev := g.ev, own := (getPipe g i).own, cfn := (getPipe g i).cfn }

def wbTG (old : Option GTG) (i : Nat) (new : Option TG) : Option GTG :=
  match old, new with
  | some t, some t' => some ⟨t'.gnodes, t'.edges, setCache t.caches i t'.cache⟩
  | _, _ => none

/-- the global state after pipeline `i`'s call left its view as `s'` -/
def writeBack (g : GSt) (i : Nat) (s' : LSt) : GSt :=
  { nodes := s'.nodes, ev := s'.ev, tg := wbTG g.tg i s'.tg,
    pipes := g.pipes.set i ⟨s'.own, (getPipe g i).cfn⟩ }

/-- `pipelines[i](req, **kw)` -/
def gcall (fss : List (List Func)) (i : Nat) (kw : List (String × Val)) (req : Req) (g : GSt) : Except Err (LArg × GSt) :=
  match fss[i]?, g.pipes[i]? with
  | some fs, some _ =>
    match lrunTop fs kw req (proj g i) with
    | .error e => .error e
    | .ok (a, s') => .ok (a, writeBack g i s')
  | _, _ => .error (.noFunc "pipeline")

/-- `x.evaluate()`: the global table and slots only -/
def geval (a : LArg) (g : GSt) : Except EErr (Val × GSt) :=
  match evalArg (eval g.nodes (g.nodes.length + 1)) a g.ev with
  | .error e => .error e
  | .ok (v, e) => .ok (v, { g with ev := e })

/-- `construct_dag().__enter__` (`lazy.py:107-108`): a new graph, a new `TaskGraph.cache`, no owners; `__exit__` (`:112`) -/
def genter (g : GSt) : GSt := { g with tg := some ⟨[], [], []⟩ }
def gexit (g : GSt) : GSt := { g with tg := none }

/-- `len(tg.cache.cache)` after the block: `TaskGraph.cache` is the first owner's cache -/
def firstCacheLen (t : GTG) : Nat := match t.caches with | [] => 0 | (_, c) :: _ => c.length

inductive Op
  | enter
  | exit
  | call (i : Nat) (kw : List (String × Val)) (req : Req)
  | eval (a : LArg)
  deriving Inhabited

/-- one operation of a session; a refused call / a failing `evaluate()` leaves the state (the harness ends a session there) -/
def gstep (fss : List (List Func)) (g : GSt) : Op → GSt
  | .enter => genter g
  | .exit => gexit g
  | .call i kw req => match gcall fss i kw req g with | .ok (_, g') => g' | .error _ => g
  | .eval a => match geval a g with | .ok (_, g') => g' | .error _ => g

def runOps (fss : List (List Func)) : List Op → GSt → GSt
  | [], g => g
  | op :: ops, g => runOps fss ops (gstep fss g op)

/-- a new process: nothing created, no block, every pipeline's own cache empty (or absent) -/
def ginit (pipes : List (Bool × List (List String))) : GSt :=
  { nodes := [], ev := ⟨[], []⟩, tg := none, pipes := pipes.map fun (own, cfn) => ⟨if own then some [] else none, cfn⟩ }

end PF.Lazy
