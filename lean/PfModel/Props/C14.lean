import PfModel.Lemmas.CachePolicyDisk
/-!
C14 — Cache containers conform to their replacement-policy model.
Property theorems only; the model is `Model/CachePolicy.lean`, helper lemmas are in `Lemmas/CachePolicy*.lean`.

Clauses: (a) no operation raises — `C14_*_inv` (the model raises wherever the Python would; under the representation
invariant it does not); (b) `len ≤ max_size` — `C14_*_len_le`; (c) present exactly when `get` returns the value most
recently put — `C14_present_iff_get_*`; (d) the evicted entry is the policy's — `C14_lru_refines` + `C14_lru_evicts_front`,
`C14_hybrid_evicts_min`, `C14_disk_evicts_oldest`, `C14_disk_reopen`.
-/
namespace PF.C14
open PF.Cache

/-! ### LRUCache -/

/-- (a) for LRUCache: from a state satisfying the invariant every operation returns normally and keeps the invariant -/
theorem C14_lru_inv (s : LRU) (op : Op) (h : s.Inv) (hwf : op.WF) : ∃ s' o, s.step op = .ok (s', o) ∧ s'.Inv :=
  lru_lawful.total s op h hwf

/-- (b) and the ANCHOR "must stay a bijection": the queue lists exactly the resident keys, once each; `len` is the queue
    length and at most `max_size` -/
theorem C14_lru_len_le (s : LRU) (h : s.Inv) :
    s.queue.Nodup ∧ (∀ k, k ∈ s.queue ↔ has s.dict k = true) ∧ s.dict.length = s.queue.length ∧ s.dict.length ≤ s.max :=
  ⟨h.qnodup, h.same, h.len_eq, by rw [h.len_eq]; exact h.bound⟩

/-- (d) refinement: through the abstraction `LRU.abs` (queued keys with their values) `put` and `get` are the `put` and
    `get` of the recency list, the answers are the same, and the recency list answers every key as the dict does -/
theorem C14_lru_refines (s : LRU) (h : s.Inv) :
    (∀ k, lookup s.abs k = lookup s.dict k) ∧
    (∀ k v, ∃ s', s.put k v = .ok s' ∧ s'.abs = Recency.put s.max s.abs k v ∧ s'.Inv) ∧
    (∀ k, ∃ s', s.get k = .ok (s', (Recency.get s.abs k).2) ∧ s'.abs = (Recency.get s.abs k).1 ∧ s'.Inv) := by
  refine ⟨LRU.abs_view s h, ?_, ?_⟩
  · intro k v; obtain ⟨s', h1, h2, h3, _⟩ := LRU.abs_put s k v h; exact ⟨s', h1, h2, h3⟩
  · intro k; obtain ⟨s', h1, h2, h3, _⟩ := LRU.abs_get s k h; exact ⟨s', h1, h2, h3⟩

/-- (d) what the recency list does on `put`: a resident key or a list with room loses nothing; a new key put into a full
    list pushes out exactly the front — the entry whose last `put`/`get` is the oldest -/
theorem C14_lru_evicts_front (max : Nat) (r : Recency) (k : Key) (v : Val) (hlen : r.length ≤ max) :
    (has r k = false → r.length = max → 0 < max → Recency.put max r k v = r.tail ++ [(k, v)]) ∧
    (has r k = false → r.length < max → Recency.put max r k v = r ++ [(k, v)]) ∧
    ((keys r).Nodup → has r k = true → Recency.put max r k v = erase r k ++ [(k, v)]) := by
  refine ⟨?_, ?_, ?_⟩
  · intro hk hfull hpos
    unfold Recency.put
    rw [erase_of_not_has r k hk]
    have : max < (r ++ [(k, v)]).length := by simp; omega
    simp only [this, if_true]
    cases r with
    | nil => simp at hfull; omega
    | cons a as => simp
  · intro hk hlt
    unfold Recency.put
    rw [erase_of_not_has r k hk]
    have : ¬ max < (r ++ [(k, v)]).length := by simp; omega
    simp only [this, if_false]
  · intro hnd hk
    unfold Recency.put
    have := length_erase_has r k hnd hk
    have : ¬ max < (erase r k ++ [(k, v)]).length := by simp; omega
    simp only [this, if_false]

/-! ### HybridCache -/

/-- (a) for HybridCache (with the DF-02 repair: also when every duration is 0) -/
theorem C14_hybrid_inv (s : Hyb) (op : Op) (h : s.Inv) (hwf : op.WF) : ∃ s' o, s.step op = .ok (s', o) ∧ s'.Inv :=
  hyb_lawful.total s op h hwf

/-- (b) for HybridCache; the three dicts hold the same keys -/
theorem C14_hybrid_len_le (s : Hyb) (h : s.Inv) : s.dict.length ≤ s.max ∧ keys s.ac = keys s.dict ∧ keys s.du = keys s.dict :=
  ⟨h.bound, h.kac, h.kdu⟩

/-- (d) `put` on a full HybridCache removes exactly one entry `e`, chosen before the new entry is stored: no resident
    entry scores lower than `e`, and every entry in front of `e` in insertion order scores strictly higher (first
    minimum). With room left nothing is removed. `Hyb.score` is the documented weighted sum of normalised access count
    and normalised duration times a positive constant. -/
theorem C14_hybrid_evicts_min (s : Hyb) (k : Key) (v : Val) (d : Nat) (h : s.Inv) :
    ∃ s' ev, s.put k v d = .ok (s', ev) ∧
      (s.dict.length < s.max → ev = none ∧ s' = s.store k v d) ∧
      (s.dict.length = s.max → ∃ e sc, ev = some e ∧ has s.dict e = true ∧
        s' = Hyb.store { s with dict := erase s.dict e, ac := erase s.ac e, du := erase s.du e } k v d ∧
        (∀ p ∈ s.ac, sc ≤ Hyb.score s.wa s.wd (total s.ac) (total s.du) p.2 ((lookup s.du p.1).getD 0)) ∧
        ∃ pre post, Hyb.scores s = pre ++ (e, sc) :: post ∧ ∀ p ∈ pre, sc < p.2) := by
  obtain ⟨s', ev, hp, _, _, hc⟩ := Hyb.put_spec s k v d h
  refine ⟨s', ev, hp, ?_, ?_⟩
  · intro hlt
    rcases hc with ⟨_, h1, h2⟩ | ⟨hfull, _⟩
    · exact ⟨h1, h2⟩
    · omega
  · intro hfull
    rcases hc with ⟨hlt, _⟩ | ⟨_, e, sc, h1, ha, he, h2⟩
    · omega
    · obtain ⟨hle, hfirst⟩ := argmin_spec _ _ _ ha
      refine ⟨e, sc, h1, he, h2, ?_, hfirst⟩
      intro p hp
      exact hle (p.1, _) (by simp only [Hyb.scores, List.mem_map]; exact ⟨p, hp, rfl⟩)

/-! ### DiskCache -/

/-- (a) for DiskCache, including a new DiskCache on the same directory (`reopen`) -/
theorem C14_disk_inv (s : Disk) (op : Op) (h : s.Inv) (hwf : op.WF) : ∃ s' o, s.step op = .ok (s', o) ∧ s'.Inv :=
  disk_lawful.total s op h hwf

/-- (b) for DiskCache: right after a `put` no more than `max_size` files are left — whatever the directory held before
    (DF-03: also when it held more than `max_size + 1`); no other operation adds a file -/
theorem C14_disk_len_le (s : Disk) (k : Key) (v : Val) (h : s.Inv) :
    ∃ s', s.put k v = .ok s' ∧ (∀ m, s.max = some m → s'.files.length ≤ m) ∧
      (∀ k', ∃ s2, s.get k' = .ok (s2, s.view k') ∧ s2.files = s.files) ∧ s.clear.files = [] := by
  obtain ⟨s', hp, _, _, _, hlen, _⟩ := Disk.put_spec s k v h
  refine ⟨s', hp, hlen, ?_, rfl⟩
  intro k'
  obtain ⟨s2, hg, _, _, hf, _⟩ := Disk.get_spec s k' h
  exact ⟨s2, hg, hf⟩

/-- (d) every round of `_evict_if_needed` unlinks a file whose ctime no file still in the directory undercuts — the
    oldest — and the rounds continue on what is left; the file just written has the newest ctime and stays -/
theorem C14_disk_evicts_oldest (n : Nat) (f : Files) (hne : f ≠ []) :
    (∃ e t, argmin (stamps f) = some (e, t) ∧ has f e = true ∧ (∀ p ∈ f, t ≤ p.2.2) ∧ evictN (n + 1) f = evictN n (erase f e)) ∧
    (∀ (s : Disk) k v, s.Inv → lookup (s.writeFile k v).files k = some (v, s.clock) ∧ ∀ p ∈ s.files, p.2.2 < s.clock) := by
  constructor
  · cases ha : argmin (stamps f) with
    | none =>
      have : stamps f = [] := (argmin_none _).mp ha
      exact absurd (by simpa [stamps] using this) hne
    | some p =>
      obtain ⟨e, t⟩ := p
      obtain ⟨he, hle⟩ := argmin_stamps_oldest f e t ha
      exact ⟨e, t, rfl, he, hle, by simp [evictN, ha]⟩
  · intro s k v hi
    exact ⟨(Disk.writeFile_spec s k v hi).2.2.1, hi.fresh⟩

/-- (d) a DiskCache reopened on the same directory: the files are the same, every key answers what its file holds,
    nothing that was absent becomes present, and the next `put` brings the directory down to the new `max_size` -/
theorem C14_disk_reopen (s : Disk) (m l : Option Nat) (h : s.Inv) (hm : m ≠ some 0) (hl : l ≠ some 0) :
    (s.reopen m l).Inv ∧ (s.reopen m l).files = s.files ∧
    (∀ k, (s.reopen m l).view k = (lookup s.files k).map (·.1)) ∧
    (∀ x y, (s.reopen m l).view x = some y → s.view x = some y) ∧
    (∀ k v n, m = some n → ∃ s', (s.reopen m l).put k v = .ok s' ∧ s'.files.length ≤ n) := by
  obtain ⟨hi, hf, hv, hmono⟩ := Disk.reopen_spec s m l h hm hl
  refine ⟨hi, hf, hv, hmono, ?_⟩
  intro k v n hmn
  obtain ⟨s', hp, _, _, _, hlen, _⟩ := Disk.put_spec (s.reopen m l) k v hi
  exact ⟨s', hp, hlen n (by simp [Disk.reopen, hmn])⟩

/-! ### (c) present exactly when `get` returns the value most recently put — all four containers -/

/-- After any history `h` on a new LRUCache: `k in cache` is `true` exactly when `cache.get(k)` is a value, and then it
    is the value of the most recent `put` of `k` in `h`. -/
theorem C14_present_iff_get_lru (max : Nat) (hmax : 0 < max) (h : List Op) (hwf : ∀ op ∈ h, op.WF) (k : Key) :
    ∃ s os, lruSem.run (LRU.empty max) h = .ok (s, os) ∧ ∃ b o s2, s.step (.has k) = .ok (s, .bool b) ∧
      s.step (.get k) = .ok (s2, .val o) ∧ b = o.isSome ∧ (∀ x, o = some x → lastPut h k = some x) :=
  lru_lawful.present_iff_get (LRU.empty max) (LRU.inv_empty max hmax) (fun _ => rfl) h hwf k

theorem C14_present_iff_get_hybrid (max wa wd : Nat) (hmax : 0 < max) (h : List Op) (hwf : ∀ op ∈ h, op.WF) (k : Key) :
    ∃ s os, hybSem.run (Hyb.empty max wa wd) h = .ok (s, os) ∧ ∃ b o s2, s.step (.has k) = .ok (s, .bool b) ∧
      s.step (.get k) = .ok (s2, .val o) ∧ b = o.isSome ∧ (∀ x, o = some x → lastPut h k = some x) :=
  hyb_lawful.present_iff_get (Hyb.empty max wa wd) (Hyb.inv_empty max wa wd hmax) (fun _ => rfl) h hwf k

theorem C14_present_iff_get_simple (h : List Op) (hwf : ∀ op ∈ h, op.WF) (k : Key) :
    ∃ s os, simpleSem.run ⟨[]⟩ h = .ok (s, os) ∧ ∃ b o s2, s.step (.has k) = .ok (s, .bool b) ∧
      s.step (.get k) = .ok (s2, .val o) ∧ b = o.isSome ∧ (∀ x, o = some x → lastPut h k = some x) :=
  simple_lawful.present_iff_get ⟨[]⟩ trivial (fun _ => rfl) h hwf k

/-- … and on a DiskCache over a new directory, where the history may reopen the directory any number of times with other
    `max_size` / LRU sizes -/
theorem C14_present_iff_get_disk (m l : Option Nat) (hm : m ≠ some 0) (hl : l ≠ some 0) (h : List Op)
    (hwf : ∀ op ∈ h, op.WF) (k : Key) :
    ∃ s os, diskSem.run (Disk.empty m l) h = .ok (s, os) ∧ ∃ b o s2, s.step (.has k) = .ok (s, .bool b) ∧
      s.step (.get k) = .ok (s2, .val o) ∧ b = o.isSome ∧ (∀ x, o = some x → lastPut h k = some x) :=
  disk_lawful.present_iff_get (Disk.empty m l) (Disk.inv_empty m l hm hl)
    (by intro k; cases l <;> simp [Disk.empty, Disk.view, diskSem, LRU.empty, lookup]) h hwf k

/-- (a)+(b) along whole histories: every history on a new container runs to the end without raising -/
theorem C14_histories_never_raise (h : List Op) (hwf : ∀ op ∈ h, op.WF) :
    (∀ max, 0 < max → ∃ s os, lruSem.run (LRU.empty max) h = .ok (s, os) ∧ s.dict.length ≤ max) ∧
    (∀ max wa wd, 0 < max → ∃ s os, hybSem.run (Hyb.empty max wa wd) h = .ok (s, os) ∧ s.dict.length ≤ max) ∧
    (∀ m l, m ≠ some 0 → l ≠ some 0 → ∃ s os, diskSem.run (Disk.empty m l) h = .ok (s, os)) := by
  refine ⟨?_, ?_, ?_⟩
  · intro max hmax
    obtain ⟨s, os, hr, hi, _⟩ := lru_lawful.run_ok h (LRU.empty max) (LRU.inv_empty max hmax) hwf
    have hm : s.max = max := lru_run_max h (LRU.empty max) s os (LRU.inv_empty max hmax) hwf hr
    have := (C14_lru_len_le s hi).2.2.2
    exact ⟨s, os, hr, by rw [← hm]; exact this⟩
  · intro max wa wd hmax
    obtain ⟨s, os, hr, hi, _⟩ := hyb_lawful.run_ok h (Hyb.empty max wa wd) (Hyb.inv_empty max wa wd hmax) hwf
    have hm : s.max = max := hyb_run_max h (Hyb.empty max wa wd) s os (Hyb.inv_empty max wa wd hmax) hwf hr
    exact ⟨s, os, hr, by rw [← hm]; exact hi.bound⟩
  · intro m l hm hl
    obtain ⟨s, os, hr, _, _⟩ := disk_lawful.run_ok h (Disk.empty m l) (Disk.inv_empty m l hm hl) hwf
    exact ⟨s, os, hr⟩

/-! ### the pinned code (before the repairs) violates the property: witnesses -/

def errOf {α : Type} : Except Err α → Option Err
  | .ok _ => none
  | .error e => some e

/-- DF-01: `LRUCache(max_size=2)`: `put a; put a; put b; put c` — the pinned `put` queues `a` twice and the fourth put pops a
    key that has already left the dict (`KeyError`); the repaired `put` runs the same history -/
theorem C14_lru_reput_breaks :
    errOf (((LRU.empty 2).putPinned 0 1 >>= (·.putPinned 0 2)) >>= (·.putPinned 1 3) >>= (·.putPinned 2 4)) = some .keyError ∧
    errOf (((LRU.empty 2).put 0 1 >>= (·.put 0 2)) >>= (·.put 1 3) >>= (·.put 2 4)) = none := by decide

/-- DF-01, `max_size=1`: `put a; put a` — the pinned `put` evicts the key it has just stored -/
theorem C14_lru_reput_evicts_itself :
    (((LRU.empty 1).putPinned 0 1 >>= (·.putPinned 0 2)).toOption.map fun s => has s.dict 0) = some false ∧
    (((LRU.empty 1).put 0 1 >>= (·.put 0 2)).toOption.map fun s => lookup s.dict 0) = some (some 2) := by decide

/-- DF-02: `HybridCache(max_size=1)`: `put(a, ·, 0.0); put(b, ·, 0.0)` — the pinned `_expire` divides by the zero total -/
theorem C14_hybrid_zero_total :
    errOf ((Hyb.empty 1 1 1).putPinned 0 1 0 >>= (·.1.putPinned 1 2 0)) = some .zeroDivision ∧
    errOf ((Hyb.empty 1 1 1).put 0 1 0 >>= (·.1.put 1 2 0)) = none := by decide

/-- DF-03: whenever two or more files have to go, the pinned `_evict_if_needed` stats a file it has unlinked -/
theorem C14_disk_stale_list (n : Nat) (f : Files) : errOf (evictPinned (n + 2) f) = some .fileNotFound := rfl

/-! ### non-vacuity -/

example : (LRU.empty 2).Inv := LRU.inv_empty 2 (by decide)
example : (Hyb.empty 1 1 1).Inv := Hyb.inv_empty 1 1 1 (by decide)
example : (Disk.empty (some 2) (some 1)).Inv := Disk.inv_empty _ _ (by decide) (by decide)
example : ∀ op ∈ [Op.put 0 1 0, .reopen (some 1) none, .get 0], op.WF := by
  intro op h; simp at h; rcases h with rfl | rfl | rfl <;> simp [Op.WF]
/-- an eviction really happens in the model: max 1, two keys -/
example : ((lruSem.run (LRU.empty 1) [.put 0 1 0, .put 1 2 0, .has 0, .get 1]).toOption.map (·.2)) =
    some [.unit, .unit, .bool false, .val (some 2)] := by decide
/-- hybrid: the hit on key 0 protects it, key 1 (first minimum among the rest) leaves -/
example : ((hybSem.run (Hyb.empty 2 1 1) [.put 0 1 2, .put 1 2 2, .get 0, .put 2 3 2, .has 0, .has 1]).toOption.map (·.2)) =
    some [.unit, .unit, .val (some 1), .unit, .bool true, .bool false] := by decide
/-- disk: 4 files, reopened with max_size 2, one put leaves 2 files (the pinned code raised here) -/
example : ((diskSem.run (Disk.empty none none) [.put 0 1 0, .put 1 2 0, .put 2 3 0, .put 3 4 0, .reopen (some 2) none, .put 0 5 0, .len,
    .has 3, .has 1]).toOption.map (·.2)) = some [.unit, .unit, .unit, .unit, .unit, .unit, .nat 2, .bool true, .bool false] := by decide

end PF.C14
