import PfModel.Lemmas.Typing
/-!
Value semantics of annotations and the semantic soundness of `compat` (C16).
-/
namespace PF.Typing

/-- Python values, as far as annotations of the grammar can tell them apart -/
inductive PyV
  | int : Int → PyV
  | bool : Bool → PyV
  | float : Nat → PyV
  | str : String → PyV
  | bytes : String → PyV
  | none : PyV
  | list : List PyV → PyV
  | set : List PyV → PyV
  | tuple : List PyV → PyV
  | dict : List (PyV × PyV) → PyV
  | ndarray : List PyV → PyV          -- an object array and its elements
  | objA : PyV                         -- an instance of exactly the user class `clsA`
  | objB : PyV                         -- an instance of the user class `clsB`, a subclass of `clsA`
  | other : PyV                        -- an instance of a class outside the grammar

def baseHas : Base → PyV → Prop
  | .int, .int _ => True
  | .int, .bool _ => True          -- bool is a subclass of int
  | .bool, .bool _ => True
  | .float, .float _ => True
  | .str, .str _ => True
  | .bytes, .bytes _ => True
  | .none, .none => True
  | .clsA, .objA => True
  | .clsA, .objB => True           -- clsB is a subclass of clsA
  | .clsB, .objB => True
  | _, _ => False

mutual
/-- `HasTy t v`: the value `v` is acceptable where `t` is required.  A missing annotation, `Any` and a free TypeVar accept every
    value; a bounded TypeVar accepts the values of its bound, a constrained one those of a constraint; an unparametrised
    generic accepts every container of its kind; `ndarr` accepts every object array, `Array[T]` those whose elements are `T`. -/
def HasTy : Ty → PyV → Prop
  | .base b, v => baseHas b v
  | .any, _ => True
  | .noann, _ => True
  | .tvFree, _ => True
  | .tvBound t, v => HasTy t v
  | .tvConstr ts, v => AnyHas ts v
  | .ndarr, .ndarray _ => True
  | .ndarr, _ => False
  | .gen .list [], .list _ => True
  | .gen .set [], .set _ => True
  | .gen .tuple [], .tuple _ => True
  | .gen .dict [], .dict _ => True
  | .gen .list [t], .list xs => AllHas t xs
  | .gen .set [t], .set xs => AllHas t xs
  | .gen .tuple (t :: ts), .tuple xs => ZipHas (t :: ts) xs
  | .gen .dict [k, w], .dict kvs => AllHas k (kvs.map Prod.fst) ∧ AllHas w (kvs.map Prod.snd)
  | .gen _ _, _ => False
  | .union ts, v => AnyHas ts v
  | .annot t, v => HasTy t v
  | .array t, .ndarray xs => AllHas t xs
  | .array _, _ => False
def AllHas : Ty → List PyV → Prop
  | _, [] => True
  | t, x :: xs => HasTy t x ∧ AllHas t xs
def ZipHas : List Ty → List PyV → Prop
  | [], [] => True
  | t :: ts, x :: xs => HasTy t x ∧ ZipHas ts xs
  | _, _ => False
def AnyHas : List Ty → PyV → Prop
  | [], _ => False
  | t :: ts, v => HasTy t v ∨ AnyHas ts v
end

mutual
/-- no gradual part anywhere in the annotation: no missing annotation, no TypeVar (an incoming TypeVar is accepted by fiat),
    no unparametrised generic and no object array without element type (both accepted for any parametrisation) -/
def Clean : Ty → Prop
  | .noann => False
  | .tvFree => False
  | .tvBound _ => False
  | .tvConstr _ => False
  | .ndarr => False
  | .gen _ ts => ts ≠ [] ∧ CleanL ts
  | .union ts => CleanL ts
  | .annot t => Clean t
  | .array t => Clean t
  | .base _ => True
  | .any => True
def CleanL : List Ty → Prop
  | [] => True
  | t :: ts => Clean t ∧ CleanL ts
end

inductive All2 (R : Ty → Ty → Prop) : List Ty → List Ty → Prop
  | nil : All2 R [] []
  | cons {a b as bs} : R a b → All2 R as bs → All2 R (a :: as) (b :: bs)

/-- every value of `a` is acceptable where `b` is required -/
def Imp (a b : Ty) : Prop := ∀ v, HasTy a v → HasTy b v

theorem allHas_mono {t u : Ty} (h : Imp t u) : ∀ xs, AllHas t xs → AllHas u xs
  | [], _ => by simp [AllHas]
  | x :: xs, hx => by
      simp only [AllHas] at hx ⊢
      exact ⟨h x hx.1, allHas_mono h xs hx.2⟩

theorem zipHas_mono : ∀ (as bs : List Ty), All2 Imp as bs → ∀ xs, ZipHas as xs → ZipHas bs xs
  | [], [], _, [], _ => by simp [ZipHas]
  | [], [], _, _ :: _, h => by simp [ZipHas] at h
  | a :: as, b :: bs, hf, [], h => by simp [ZipHas] at h
  | a :: as, b :: bs, hf, x :: xs, h => by
      cases hf with
      | cons h1 h2 =>
        simp only [ZipHas] at h ⊢
        exact ⟨h1 x h.1, zipHas_mono as bs h2 xs h.2⟩
  | [], _ :: _, hf, _, _ => by cases hf
  | _ :: _, [], hf, _, _ => by cases hf

theorem base_sound (a b : Base) (h : Base.sub a b = true) (v : PyV) (hv : baseHas a v) : baseHas b v := by
  cases a <;> cases b <;> cases v <;> simp_all [Base.sub, baseHas]

/-- covariance of the parametrised generics, semantically -/
theorem gen_sound (g : Gen) (as bs : List Ty) (hf : All2 Imp as bs) (v : PyV)
    (hv : HasTy (.gen g as) v) : HasTy (.gen g bs) v := by
  cases g with
  | list =>
    cases hf with
    | nil => exact hv
    | @cons t u as' bs' h1 h2 =>
      cases h2 with
      | nil => cases v <;> simp only [HasTy] at hv ⊢ <;> first | exact allHas_mono h1 _ hv | exact hv.elim
      | cons _ _ => cases v <;> simp [HasTy] at hv
  | set =>
    cases hf with
    | nil => exact hv
    | @cons t u as' bs' h1 h2 =>
      cases h2 with
      | nil => cases v <;> simp only [HasTy] at hv ⊢ <;> first | exact allHas_mono h1 _ hv | exact hv.elim
      | cons _ _ => cases v <;> simp [HasTy] at hv
  | tuple =>
    cases hf with
    | nil => exact hv
    | @cons t u as' bs' h1 h2 =>
      cases v <;> simp only [HasTy] at hv ⊢ <;> first | exact zipHas_mono _ _ (All2.cons h1 h2) _ hv | exact hv.elim
  | dict =>
    cases hf with
    | nil => exact hv
    | @cons k k' as' bs' h1 h2 =>
      cases h2 with
      | nil => cases v <;> simp [HasTy] at hv
      | @cons w w' as'' bs'' h3 h4 =>
        cases h4 with
        | nil =>
          cases v <;> simp only [HasTy] at hv ⊢ <;>
            first | exact ⟨allHas_mono h1 _ hv.1, allHas_mono h3 _ hv.2⟩ | exact hv.elim
        | cons _ _ => cases v <;> simp [HasTy] at hv

/-- a value of a parametrised generic is a container of that kind -/
theorem gen_bare_sound (g : Gen) (as : List Ty) (v : PyV) (hv : HasTy (.gen g as) v) : HasTy (.gen g []) v := by
  cases g <;> cases v <;> first | (simp [HasTy]; done) | skip
  all_goals (cases as with
    | nil => exact hv
    | cons a as => cases as with
      | nil => simp [HasTy] at hv ⊢
      | cons b bs => cases bs <;> simp [HasTy] at hv ⊢)

theorem anyHas_of_mem {ts : List Ty} {t : Ty} {v : PyV} (ht : t ∈ ts) (hv : HasTy t v) : AnyHas ts v := by
  induction ts with
  | nil => cases ht
  | cons u us ih =>
    simp only [AnyHas]
    rcases List.mem_cons.mp ht with rfl | ht
    · exact Or.inl hv
    · exact Or.inr (ih ht)

/-- Semantic soundness: when the source has no gradual part, everything `compat` accepts is an inclusion of value sets. -/
theorem compat_sem : ∀ a b, compat a b = true → Clean a → Imp a b := by
  intro a b
  refine compat.induct
    (motive1 := fun a b => compat a b = true → Clean a → Imp a b)
    (motive2 := fun as bs => compatZip as bs = true → as.length = bs.length → CleanL as → All2 Imp as bs)
    (motive3 := fun as b => compatAll as b = true → CleanL as → ∀ v, AnyHas as v → HasTy b v)
    (motive4 := fun a bs => compatAny a bs = true → Clean a → ∀ v, HasTy a v → AnyHas bs v)
    ?_ ?_ ?_ ?_ ?_ ?_ ?_ ?_ ?_ ?_ ?_ ?_ ?_ ?_ ?_ ?_ ?_ ?_ ?_ ?_ ?_ ?_ ?_ ?_ ?_ ?_ ?_ a b
  · intro p b ih h hc v hv
    unfc h
    exact ih h (by simpa [Clean] using hc) v (by simpa [HasTy] using hv)
  · intro x _ hc; simp [Clean] at hc
  · intro a x _ hc; simp [Clean] at hc
  · intro a x _ hc; simp [Clean] at hc
  · intro x _ _ _ _ _ _ v _; simp [HasTy]
  · intro x _ _ hc; simp [Clean] at hc
  · intro x _ _ _ _ _ _ _ v _; simp [HasTy]
  · intro x _ _ _ _ _ _ _ v _; simp [HasTy]
  · intro a t h1 h2 h3 h4 h5 ih h hc v hv
    unfc h
    simpa [HasTy] using ih h hc v hv
  · intro as cs ih4 ih3 h hc v hv
    unfc h
    simp only [Bool.or_eq_true] at h
    simp only [HasTy]
    rcases h with h | h
    · exact ih4 h hc v hv
    · simpa [HasTy] using ih3 h (by simpa [Clean] using hc) v (by simpa [HasTy] using hv)
  · intro a cs h1 h2 h3 h4 h5 h6 ih4 h hc v hv
    unfc h
    simpa [HasTy] using ih4 h hc v hv
  · intro as b h1 h2 h3 h4 h5 ih3 h hc v hv
    unfc h
    exact ih3 h (by simpa [Clean] using hc) v (by simpa [HasTy] using hv)
  · intro a bs h1 h2 h3 h4 h5 h6 ih4 h hc v hv
    unfc h
    simpa [HasTy] using ih4 h hc v hv
  · intro e f ih h hc v hv
    unfc h
    have himp := ih h (by simpa [Clean] using hc)
    cases v <;> simp only [HasTy] at hv ⊢ <;> first | exact allHas_mono himp _ hv | exact hv.elim
  · intro a q h1 h2 h3 h4 h5 h6 ih h hc v hv
    unfc h
    simpa [HasTy] using ih h hc v hv
  · intro a b h1 h2 h3 h4 h5 h6 h7 h8 ih h hc v hv
    unfc h
    cases b <;> simp_all [compat]
    cases v <;> simp_all [HasTy]
  · intro a f h1 h2 h3 h4 h5 h6 h7 ih h hc v hv
    unfc h
    cases a <;> simp_all [compat, Clean]
  · intro x y h _ v hv
    unfc h
    simpa [HasTy] using base_sound x y h v (by simpa [HasTy] using hv)
  · intro g as h' bs ih h hc v hv
    unfc h
    simp only [Bool.and_eq_true, Bool.or_eq_true, beq_iff_eq, List.isEmpty_iff] at h
    obtain ⟨rfl, h⟩ := h
    simp only [Clean] at hc
    rcases h with (rfl | rfl) | ⟨hl, hz⟩
    · exact absurd rfl hc.1
    · exact gen_bare_sound g as v hv
    · exact gen_sound g as bs (ih hz hl hc.2) v hv
  · intro _ hc; simp [Clean] at hc
  · intro x y h1 h2 h3 h4 h5 h6 h7 h8 h9 h10 h11 h12 h13 h14 h15 h16 h17 h18 h19 h20 h
    unfc h
  · intro a as b bs ih1 ih2 h hl hc
    rw [compatZip] at h
    simp only [Bool.and_eq_true] at h
    simp only [CleanL] at hc
    exact All2.cons (ih1 h.1 hc.1) (ih2 h.2 (by simpa using hl) hc.2)
  · intro x y hne _ hl _
    match x, y, hl with
    | [], [], _ => exact All2.nil
    | a :: as, b :: bs, _ => exact absurd rfl (hne a as b bs rfl)
  · intro x _ _ v hv; simp [AnyHas] at hv
  · intro a as b ih1 ih3 h hc v hv
    rw [compatAll] at h
    simp only [Bool.and_eq_true] at h
    simp only [CleanL] at hc
    simp only [AnyHas] at hv
    rcases hv with hv | hv
    · exact ih1 h.1 hc.1 v hv
    · exact ih3 h.2 hc.2 v hv
  · intro x h; rw [compatAny] at h; exact absurd h (by decide)
  · intro a b bs ih1 ih4 h hc v hv
    rw [compatAny] at h
    simp only [Bool.or_eq_true] at h
    simp only [AnyHas]
    rcases h with h | h
    · exact Or.inl (ih1 h hc v hv)
    · exact Or.inr (ih4 h hc v hv)

/-! ### the converse on the nominal fragment -/

def Ty.isBase : Ty → Bool
  | .base _ => true
  | _ => false

/-- classes, `Any`, and unions of classes -/
def Flat : Ty → Bool
  | .base _ => true
  | .any => true
  | .union ts => ts.all Ty.isBase
  | _ => false

/-- a value of class `x` that belongs to no class of the grammar except the superclasses of `x` -/
def wit : Base → PyV
  | .int => .int 0
  | .bool => .bool true
  | .float => .float 0
  | .str => .str ""
  | .bytes => .bytes ""
  | .none => .none
  | .clsA => .objA
  | .clsB => .objB

theorem wit_has (x : Base) : baseHas x (wit x) := by cases x <;> simp [wit, baseHas]

theorem wit_sub (x y : Base) : baseHas y (wit x) → Base.sub x y = true := by
  cases x <;> cases y <;> simp [wit, baseHas, Base.sub]

theorem anyHas_bases {ts : List Ty} (h : ts.all Ty.isBase = true) (x : Base) :
    AnyHas ts (wit x) → compatAny (.base x) ts = true := by
  induction ts with
  | nil => intro hv; simp [AnyHas] at hv
  | cons t ts ih =>
    intro hv
    simp only [List.all_cons, Bool.and_eq_true] at h
    rw [compatAny, Bool.or_eq_true]
    simp only [AnyHas] at hv
    rcases hv with hv | hv
    · left
      cases t <;> simp [Ty.isBase] at h
      rename_i y
      unfg
      exact wit_sub x y (by simpa [HasTy] using hv)
    · exact Or.inr (ih h.2 hv)

theorem flat_base_complete (x : Base) (b : Ty) (hb : Flat b = true) (h : Imp (.base x) b) : compat (.base x) b = true := by
  have hw := h (wit x) (by simpa [HasTy] using wit_has x)
  cases b <;> simp [Flat] at hb
  · rename_i y; unfg; exact wit_sub x y (by simpa [HasTy] using hw)
  · exact compat_any_r _
  · rename_i ts
    unfg
    exact anyHas_bases (by simpa using hb) x (by simpa [HasTy] using hw)

theorem anyHas_other_bases {ts : List Ty} (h : ts.all Ty.isBase = true) : ¬ AnyHas ts .other := by
  induction ts with
  | nil => simp [AnyHas]
  | cons t ts ih =>
    simp only [List.all_cons, Bool.and_eq_true] at h
    simp only [AnyHas]
    rintro (hv | hv)
    · cases t <;> simp [Ty.isBase] at h
      rename_i y
      cases y <;> simp [HasTy, baseHas] at hv
    · exact ih h.2 hv

/-- On classes, `Any` and unions of classes `compat` is also complete for the value semantics: an inclusion of value sets is
    accepted. -/
theorem flat_complete (a b : Ty) (ha : Flat a = true) (hb : Flat b = true) (h : Imp a b) : compat a b = true := by
  cases a <;> simp [Flat] at ha
  · exact flat_base_complete _ b hb h
  · have ho := h .other (by simp [HasTy])
    cases b <;> simp [Flat] at hb
    · rename_i y; cases y <;> simp [HasTy, baseHas] at ho
    · exact compat_any_r _
    · rename_i ts; exact absurd (by simpa [HasTy] using ho) (anyHas_other_bases (by simpa using hb))
  · rename_i as
    refine (compat_union_l as b).mpr (fun t ht => ?_)
    have hbt : t.isBase = true := by
      have := List.all_eq_true.mp (by simpa using ha : as.all Ty.isBase = true) t ht
      exact this
    cases t <;> simp [Ty.isBase] at hbt
    rename_i x
    exact flat_base_complete x b hb (fun v hv => h v (by simpa [HasTy] using anyHas_of_mem ht hv))

end PF.Typing
