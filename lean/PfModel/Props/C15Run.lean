import PfModel.Lemmas.HashableRun
import PfModel.Lemmas.HashableKeys
/-!
C15, the last sentence of the statement at the level of a whole history of calls: "memoize … return[s] a stored result only
for a call whose arguments equal those of the call that produced it".

`C15_memoize`, `C15_memoize_call`, `C15_memoize_call_var` speak about ONE call against a table `m` and carry the hypothesis
`m.Inv` ("every entry is stored under the key of its argument"); their conclusion is "some entry `(k, a, r)` of the table
has an equal argument" — that the entry's `r` was really computed for `a` is only the reading of the field names.  Here the
hypothesis is discharged (the empty table satisfies it, every call keeps it) and the conclusion is about the calls themselves:
in `Memo.run {} as` — a memoized function called on `as` one after the other, starting with an empty cache —
every hit is the result of an EARLIER REAL CALL of the same run whose argument is the same value; that call is unique (real
calls return fresh results); and conversely a later call with the same value is always served from the cache.
No hypothesis on the values (no `wf`, no `comparable`) in the soundness theorems.
-/
namespace PF.C15
open PF.Hashable

/-- The invariant `Memo.Inv` assumed by `C15_memoize`, `C15_memoize_inv`, `C15_memoize_call`, `C15_memoize_call_var`
    holds of the empty cache (and is kept by every call: `C15_memoize_inv`), hence of every table a history can reach. -/
theorem C15_memoize_inv_empty : Memo.Inv {} := Memo.inv_empty

/-- **memoize returns a stored result only for a call whose argument equals that of the call that produced it**, for
    every history of calls from an empty cache: if the `j`-th call is a hit returning `r`, then an earlier call `i < j` of
    the same history was a real call (a miss) that returned `r`, and the two arguments are the same value. -/
theorem C15_memoize_run (as : List PV) (j r : Nat) (h : (Memo.run {} as)[j]? = some (some (r, true))) :
    ∃ i a b, i < j ∧ as[i]? = some a ∧ as[j]? = some b ∧ (Memo.run {} as)[i]? = some (some (r, false)) ∧ Equiv b a := by
  obtain ⟨b, hb, hh⟩ := Memo.run_sound as {} Memo.inv_empty j r h
  rcases hh with ⟨k, a, hm, _⟩ | ⟨i, a, hij, ha, hr, he⟩
  · cases hm
  · exact ⟨i, a, b, hij, ha, hb, hr, he⟩

/-- non-vacuity: the third call hits the result of the first (a list equal to it), the look-alike tuple in between does not -/
example : Memo.run {} [.node .list [natAtom 1], tagged .list (tup [natAtom 1]), .node .list [natAtom 1]] =
    [some (0, false), some (1, false), some (0, true)] := by decide

/-- Real calls return fresh results: the results of the misses of a history increase strictly. -/
theorem C15_memoize_run_fresh (as : List PV) (i i' r r' : Nat) (hlt : i < i')
    (h : (Memo.run {} as)[i]? = some (some (r, false))) (h' : (Memo.run {} as)[i']? = some (some (r', false))) : r < r' :=
  Memo.run_miss_lt as {} i i' r r' hlt h h'

example : (Memo.run {} [natAtom 1, natAtom 2])[0]? = some (some (0, false)) ∧
    (Memo.run {} [natAtom 1, natAtom 2])[1]? = some (some (1, false)) := by decide

/-- … hence "the call that produced it" is well defined: a result is produced by at most one call of the history. -/
theorem C15_memoize_run_producer_unique (as : List PV) (i i' r : Nat)
    (h : (Memo.run {} as)[i]? = some (some (r, false))) (h' : (Memo.run {} as)[i']? = some (some (r, false))) : i = i' := by
  rcases Nat.lt_trichotomy i i' with hlt | he | hgt
  · have := Memo.run_miss_lt as {} i i' r r hlt h h'; omega
  · exact he
  · have := Memo.run_miss_lt as {} i' i r r hgt h' h; omega

/-- The history answers position by position what `to_hashable` answers: `none` (the exception propagates) exactly where
    the key is undefined, a result where it is defined.  With `C15_defined_iff`: for well-formed values a call fails iff the
    value is not `comparable`. -/
theorem C15_memoize_run_defined (as : List PV) (i : Nat) (a : PV) (ha : as[i]? = some a) :
    ((Memo.run {} as)[i]? = some none ↔ ∃ e, key true a = .error e) ∧
    ((∃ r hit, (Memo.run {} as)[i]? = some (some (r, hit))) ↔ ∃ k, key true a = .ok k) := by
  rcases Memo.run_key as {} i a ha with ⟨e, hk, hr⟩ | ⟨k, r, hit, hk, hr⟩
  · refine ⟨⟨fun _ => ⟨e, hk⟩, fun _ => hr⟩, ⟨?_, ?_⟩⟩
    · rintro ⟨r, hit, h⟩; rw [hr] at h; cases h
    · rintro ⟨k, h⟩; rw [hk] at h; cases h
  · refine ⟨⟨?_, ?_⟩, ⟨fun _ => ⟨k, hk⟩, fun _ => ⟨r, hit, hr⟩⟩⟩
    · intro h; rw [hr] at h; cases h
    · rintro ⟨e, h⟩; rw [hk] at h; cases h

example : Memo.run {} [.node .list [.node .set [natAtom 1, .atom (.str [97])]], natAtom 1] = [none, some (0, false)] := by decide

/-- Equal values are served from the cache ("equal keys for equal values", at the level of calls): if call `i` succeeded
    with result `r` (computed or itself a hit), every later call with the same value — up to the iteration order of sets
    and mappings at any depth — is a hit and returns `r`. -/
theorem C15_memoize_run_complete (as : List PV) (i j r : Nat) (hit : Bool) (a b : PV) (hlt : i < j)
    (ha : as[i]? = some a) (hb : as[j]? = some b) (he : Equiv a b) (hwa : wf a = true)
    (hr : (Memo.run {} as)[i]? = some (some (r, hit))) : (Memo.run {} as)[j]? = some (some (r, true)) := by
  rcases Memo.run_key as {} i a ha with ⟨e, _, hn⟩ | ⟨k, _, _, hk, _⟩
  · rw [hn] at hr; cases hr
  · exact Memo.run_complete as {} i j r hit a b k hlt ha hb hk (key_equiv a b he hwa k hk) hr

/-- non-vacuity: a set listed in another iteration order, inside a list -/
example : Equiv (.node .list [.node .set [natAtom 1, natAtom 2]]) (.node .list [.node .set [natAtom 2, natAtom 1]]) ∧
    wf (.node .list [.node .set [natAtom 1, natAtom 2]]) = true ∧
    Memo.run {} [.node .list [.node .set [natAtom 1, natAtom 2]], natAtom 1, .node .list [.node .set [natAtom 2, natAtom 1]]] =
      [some (0, false), some (1, false), some (0, true)] := by
  refine ⟨?_, by decide, by decide⟩
  refine .node .list _ _ _ _ rfl (.cons _ _ _ _ ?_ .nil) rfl
  exact .node .set _ [natAtom 2, natAtom 1] [natAtom 2, natAtom 1] _ (List.Perm.swap _ _ _)
    (.cons _ _ _ _ (.atom _) (.cons _ _ _ _ (.atom _) .nil)) (List.Perm.refl _)

/-- Exactly when a hit happens (both directions, one statement): call `j` of a history is a hit returning `r` iff an
    earlier real call returned `r` for the same value — for histories of well-formed values. -/
theorem C15_memoize_run_hit_iff (as : List PV) (hw : ∀ a ∈ as, wf a = true) (j r : Nat) (b : PV) (hb : as[j]? = some b) :
    (Memo.run {} as)[j]? = some (some (r, true)) ↔
      ∃ i a, i < j ∧ as[i]? = some a ∧ (Memo.run {} as)[i]? = some (some (r, false)) ∧ Equiv b a := by
  constructor
  · intro h
    obtain ⟨i, a, b', hij, ha, hb', hr, he⟩ := C15_memoize_run as j r h
    rw [hb] at hb'; cases hb'
    exact ⟨i, a, hij, ha, hr, he⟩
  · rintro ⟨i, a, hij, ha, hr, he⟩
    exact C15_memoize_run_complete as i j r false a b hij ha hb (Equiv.symm b a he)
      (hw a (List.mem_of_getElem? ha)) hr

example : ∀ a ∈ [PV.node .list [natAtom 1], PV.node .list [natAtom 1]], wf a = true := by decide

/-- The same for the key `memoize` really uses, `to_hashable((args, kwargs))`: in a history of calls `f(*args, **kw)` from an
    empty cache, a hit returns the result computed by an earlier call with the same positional values, the same keywords
    (in any order) and — for every signature — the same effective arguments under Python's binding. -/
theorem C15_memoize_calls_run (cs : List (List PV × List (Name × PV))) (hn : ∀ c ∈ cs, (c.2.map Prod.fst).Nodup)
    (j r : Nat) (h : (Memo.run {} (cs.map fun c => callArg c.1 c.2))[j]? = some (some (r, true))) :
    ∃ i c0 c, i < j ∧ cs[i]? = some c0 ∧ cs[j]? = some c ∧
      (Memo.run {} (cs.map fun c => callArg c.1 c.2))[i]? = some (some (r, false)) ∧
      All2 Equiv c.1 c0.1 ∧ KwSame c.2 c0.2 ∧ ∀ ps, BindSame (bindArgs ps c.1 c.2) (bindArgs ps c0.1 c0.2) := by
  obtain ⟨i, a, b, hij, ha, hb, hr, he⟩ := C15_memoize_run _ j r h
  rw [List.getElem?_map] at ha hb
  cases hci : cs[i]? with
  | none => rw [hci] at ha; cases ha
  | some c0 =>
    cases hcj : cs[j]? with
    | none => rw [hcj] at hb; cases hb
    | some c =>
      rw [hci] at ha; rw [hcj] at hb
      simp only [Option.map_some, Option.some.injEq] at ha hb
      subst ha; subst hb
      obtain ⟨h1, h2⟩ := equiv_callArg_inv he
      have hks := kwSame_of_equiv h2 (hn c (List.mem_of_getElem? hcj)) (hn c0 (List.mem_of_getElem? hci))
      exact ⟨i, c0, c, hij, (by first | exact hci | rfl), (by first | exact hcj | rfl), hr, h1, hks, fun ps => bindArgs_congr ps h1 hks⟩

/-- non-vacuity: `f([1], x=1, y=2)`, `f((1,), x=1, y=2)`, `f([1], y=2, x=1)` — the third call hits the first -/
example : (∀ c ∈ [([PV.node .list [natAtom 1]], [([120], natAtom 1), ([121], natAtom 2)]),
      ([tup [natAtom 1]], [([120], natAtom 1), ([121], natAtom 2)]),
      ([PV.node .list [natAtom 1]], [([121], natAtom 2), ([120], natAtom 1)])], (c.2.map Prod.fst).Nodup) ∧
    Memo.run {} ([([PV.node .list [natAtom 1]], [([120], natAtom 1), ([121], natAtom 2)]),
      ([tup [natAtom 1]], [([120], natAtom 1), ([121], natAtom 2)]),
      ([PV.node .list [natAtom 1]], [([121], natAtom 2), ([120], natAtom 1)])].map fun c => callArg c.1 c.2) =
      [some (0, false), some (1, false), some (0, true)] := by
  refine ⟨by decide, by decide⟩

end PF.C15
