import PfModel.Lemmas.MapTotalRun
/-! The call list of `runMap` is laid out generation by generation, and the Kahn layers respect the dependencies. -/
namespace PF.C01
open PF PF.Map

/-- the call list splits into consecutive blocks, one per generation, the `k`-th block holding only calls of functions of
    the `k`-th generation -/
def Blocks : List (List String) → List Call → Prop
  | [], cs => cs = []
  | g :: gs, cs => ∃ a b, cs = a ++ b ∧ (∀ c ∈ a, c.name ∈ g) ∧ Blocks gs b

/-- every function of a generation has all producers of its (non-bound) parameters among the functions of strictly earlier
    generations (`done` = the names of everything in earlier generations) -/
def Ordered (fs : List MFunc) : List String → List (List MFunc) → Prop
  | _, [] => True
  | done, g :: gs => (∀ f ∈ g, Ready fs done f) ∧ Ordered fs (done ++ g.map (·.name)) gs

theorem runSingle_calls (fs : List MFunc) (env : Env) (f : MFunc) (r : FuncResult) (h : runSingle fs env f = .ok r) :
    ∀ c ∈ r.calls, c.name = f.name := by
  unfold runSingle at h
  simp only [bind, Except.bind] at h
  split at h
  · cases h
  · simp only [pure, Except.pure] at h
    cases h
    intro c hc
    simp only [List.mem_singleton] at hc
    rw [hc]

theorem runMapped_calls (arr : MFunc → List Nat → List Bool → (Nat → List (String × Val)) → String → Val)
    (fs : List MFunc) (env : Env) (f : MFunc) (ms : MSpec) (sh : List Nat) (mk : List Bool) (r : FuncResult)
    (h : runMappedWith arr fs env f ms sh mk = .ok r) : ∀ c ∈ r.calls, c.name = f.name := by
  unfold runMappedWith at h
  simp only [bind, Except.bind] at h
  split at h
  · cases h
  · simp only [pure, Except.pure] at h
    cases h
    intro c hc
    simp only [List.mem_map] at hc
    obtain ⟨a, _, rfl⟩ := hc
    rfl

theorem runFunc_calls (arr : MFunc → List Nat → List Bool → (Nat → List (String × Val)) → String → Val)
    (fs : List MFunc) (shapes : List (String × List Nat)) (masks : List (String × List Bool)) (env : Env) (f : MFunc)
    (r : FuncResult) (h : runFuncWith arr fs shapes masks env f = .ok r) : ∀ c ∈ r.calls, c.name = f.name := by
  unfold runFuncWith at h
  split at h
  · split at h
    · exact runSingle_calls fs env f r h
    · split at h
      · cases h
      · split at h
        · split at h
          · cases h
          · exact runMapped_calls arr fs env f _ _ _ r h
        · cases h
  · exact runSingle_calls fs env f r h

theorem runGen_calls (R : Env → MFunc → M FuncResult) (hR : ∀ env f r, R env f = .ok r → ∀ c ∈ r.calls, c.name = f.name)
    (env : Env) : ∀ (gen : List MFunc) (rs : List FuncResult), runGenWith R env gen = .ok rs →
      ∀ c ∈ rs.flatMap (·.calls), c.name ∈ gen.map (·.name) := by
  intro gen
  induction gen with
  | nil =>
    intro rs h c hc
    simp only [runGenWith, pure, Except.pure] at h
    cases h
    simp at hc
  | cons f rest ih =>
    intro rs h c hc
    simp only [runGenWith, bind, Except.bind] at h
    split at h
    · cases h
    · next r hr =>
      split at h
      · cases h
      · next rs' hrs =>
        simp only [pure, Except.pure] at h
        cases h
        simp only [List.flatMap_cons, List.mem_append] at hc
        rcases hc with hc | hc
        · simp [hR env f r hr c hc]
        · exact List.mem_cons_of_mem _ (ih rs' hrs c hc)

theorem runGens_blocks (R : Env → MFunc → M FuncResult) (hR : ∀ env f r, R env f = .ok r → ∀ c ∈ r.calls, c.name = f.name) :
    ∀ (gens : List (List MFunc)) (env : Env) (res : List FuncResult × Env), runGensWith R gens env = .ok res →
      Blocks (gens.map fun g => g.map (·.name)) (res.1.flatMap (·.calls)) := by
  intro gens
  induction gens with
  | nil =>
    intro env res h
    simp only [runGensWith, pure, Except.pure] at h
    cases h
    simp [Blocks]
  | cons g gs ih =>
    intro env res h
    simp only [runGensWith, bind, Except.bind] at h
    split at h
    · cases h
    · next rs hrs =>
      split at h
      · cases h
      · next res' hres =>
        simp only [pure, Except.pure] at h
        cases h
        simp only [List.map_cons, Blocks, List.flatMap_append]
        exact ⟨_, _, rfl, runGen_calls R hR env g rs hrs, ih _ res' hres⟩

theorem layers_ordered (fs : List MFunc) : ∀ (fuel : Nat) (done : List String) (rest : List MFunc),
    Ordered fs done (layers fs fuel done rest) := by
  intro fuel
  induction fuel with
  | zero => intro done rest; simp [layers, Ordered]
  | succ fuel ih =>
    intro done rest
    unfold layers
    split
    · simp [Ordered]
    · simp only []
      split
      · simp [Ordered]
      · simp only [Ordered]
        refine ⟨?_, ih _ _⟩
        intro f hf
        exact ready_of_upstream fs done f (List.mem_filter.mp hf).2

end PF.C01
