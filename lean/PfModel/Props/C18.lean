import PfModel.Lemmas.LazySession
/-!
C18 — Lazy pipelines evaluate to the eager result, at most once per node.

`PF.Lazy.lrunTop` mirrors `Pipeline.run` with `lazy=True` (node table, `all_results` of node ids, the task graph's cache, edge
registration in `_LazyFunction.__init__`), `PF.Lazy.evaluate` mirrors `_LazyFunction.evaluate` (`_evaluated/_result`), `PF.Lazy.den`
is the memo-free, log-free value a node stands for and `PF.Pipe.compose` is the eager specification of C02.
A *session* is a sequence of lazy calls, `evaluate()`s and `construct_dag()` blocks on one pipeline; `Sess` is its invariant.
-/
namespace PF.C18
open PF PF.Pipe PF.Lazy

/-- a new session satisfies the invariant (whatever the keyword arguments) -/
theorem C18_session_init (fs : List Func) (kw : List (String × Val)) :
    Sess fs kw { memo := [], used := [], usedNone := false, nodes := [], tg := none, ev := ⟨[], []⟩ } := by
  refine ⟨?_, ?_, ?_, ?_, ⟨List.nodup_nil, ?_⟩⟩
  · intro i nd h; simp at h
  · intro g h; cases h
  · intro g h; cases h
  · intro i w h; simp [dlookup] at h
  · intro i h; cases h

/-- entering `construct_dag()` starts an empty graph with an empty cache; leaving it drops both -/
theorem C18_session_dag (fs : List Func) (kw : List (String × Val)) (s : LSt) (h : Sess fs kw s) :
    Sess fs kw (enterDag s) ∧ Sess fs kw (exitDag s) := by
  refine ⟨⟨h.closed, ?_, ?_, h.done, h.log⟩, ⟨h.closed, ?_, ?_, h.done, h.log⟩⟩
  · intro g hg key a hmem
    simp only [enterDag, Option.some.injEq] at hg; subst hg; cases hmem
  · intro g hg
    simp only [enterDag, Option.some.injEq] at hg; subst hg
    refine ⟨?_, ?_⟩
    · intro n hn; cases hn
    · intro a n
      constructor
      · intro h; cases h
      · intro h; cases h.1
  · intro g hg; cases hg
  · intro g hg; cases hg

/-- **Deferred.** A lazy call evaluates nothing: no node's `_evaluated` flag or `_result` changes and the call log is the
    one from before the call; nodes are only added. -/
theorem C18_deferred (fs : List Func) (kw : List (String × Val)) (hu : Unique fs) (s : LSt) (hs : Sess fs kw s) (o : String)
    (a : LArg) (s' : LSt) (h : lrunTop fs kw (.name o) s = .ok (a, s')) :
    s'.ev = s.ev ∧ (∃ ext, s'.nodes = s.nodes ++ ext) ∧ Sess fs kw s' := by
  obtain ⟨hst, hi, _⟩ := lrunTop_name hu hs h
  exact ⟨hst.2.1, hst.1, sess_after hs hst hi⟩

/-- **`evaluate()` equals the eager result.** The object a lazy call returns stands for the value of the memo-free composition
    along the DAG (C02's specification), and whenever `evaluate()` returns, it returns that value — whatever was evaluated
    before, whatever is shared with other calls of the session, inside or outside `construct_dag()`. -/
theorem C18_eager (fs : List Func) (kw : List (String × Val)) (hu : Unique fs) (s : LSt) (hs : Sess fs kw s) (o : String)
    (a : LArg) (s' : LSt) (h : lrunTop fs kw (.name o) s = .ok (a, s')) :
    ∃ v, (∃ k, compose fs kw k o = .ok v) ∧ den s'.nodes a = some v ∧
      ∀ v' s'', evaluate a s' = .ok (v', s'') → v' = v := by
  obtain ⟨hst, hi, v, k, hd, hc⟩ := lrunTop_name hu hs h
  have hs' := sess_after hs hst hi
  refine ⟨v, ⟨k, hc⟩, hd, ?_⟩
  intro v' s'' he
  simp only [evaluate] at he
  split at he
  · cases he
  · next v1 e1 hev =>
    injection he with he; injection he with h1 _; subst h1
    obtain ⟨hd', _⟩ := evalArg_sound (eval_sound hs'.closed _) a s'.ev v1 e1 hs'.done hev
    rw [hd] at hd'; injection hd' with hd'; exact hd'.symm

/-- `evaluate()` of any object of the session keeps the session invariant, returns the value the object stands for, and only
    appends to the call log -/
theorem C18_evaluate (fs : List Func) (kw : List (String × Val)) (s : LSt) (hs : Sess fs kw s) (a : LArg) (v : Val) (s' : LSt)
    (h : evaluate a s = .ok (v, s')) :
    den s.nodes a = some v ∧ Sess fs kw s' ∧ s'.nodes = s.nodes ∧ s'.tg = s.tg ∧ ∃ new, s'.ev.log = s.ev.log ++ new := by
  simp only [evaluate] at h
  split at h
  · cases h
  · next v1 e1 hev =>
    injection h with h; injection h with h1 h2; subst h1; subst h2
    obtain ⟨hd, hds⟩ := evalArg_sound (eval_sound hs.closed _) a s.ev v1 e1 hs.done hev
    cases a with
    | val w =>
      simp [evalArg] at hev; obtain ⟨_, rfl⟩ := hev
      exact ⟨hd, ⟨hs.closed, hs.cache, hs.graph, hds, hs.log⟩, rfl, rfl, [], by simp⟩
    | ref i =>
      obtain ⟨⟨hli, _, _, hnew⟩, _⟩ := eval_once hs.closed _ i s.ev v1 e1 hs.log hev
      exact ⟨hd, ⟨hs.closed, hs.cache, hs.graph, hds, hli⟩, rfl, rfl, hnew⟩

/-- **At most once.** In every state a session can reach — after any number of lazy calls and `evaluate()`s on any of the
    returned objects, however many consumers share a node — the log of invocations has no duplicates: no node's function
    (user function or output picker) is invoked twice. -/
theorem C18_once (fs : List Func) (kw : List (String × Val)) (s : LSt) (hs : Sess fs kw s) : s.ev.log.Nodup := hs.log.1

/-- **…however often `evaluate()` is called.** Evaluating an object again returns the same value and changes nothing (in
    particular invokes nothing). -/
theorem C18_once_again (fs : List Func) (kw : List (String × Val)) (s : LSt) (hs : Sess fs kw s) (a : LArg) (v : Val) (s' : LSt)
    (h : evaluate a s = .ok (v, s')) : evaluate a s' = .ok (v, s') := by
  obtain ⟨_, hs', hn, _, _⟩ := C18_evaluate fs kw s hs a v s' h
  simp only [evaluate] at h ⊢
  split at h
  · cases h
  · next v1 e1 hev =>
    injection h with h; injection h with h1 h2; subst h1; subst h2
    cases a with
    | val w => simp [evalArg] at hev ⊢; exact hev.1
    | ref i =>
      simp only [evalArg] at hev ⊢
      obtain ⟨_, hdone⟩ := eval_once hs.closed _ i s.ev v1 e1 hs.log hev
      obtain ⟨w, hw⟩ := Option.isSome_iff_exists.mp hdone
      have hsound := (eval_sound hs.closed _ i s.ev v1 e1 hs.done hev)
      have hw' := hsound.2 i w hw
      rw [hsound.1] at hw'; injection hw' with hw'; subst hw'
      rw [eval_done _ _ _ _ _ hw]

/-- **The task graph.** After a lazy call inside `construct_dag()`, the recorded graph has an edge `(x, n)` exactly when `n` is a
    recorded node and `x` is a `_LazyFunction` among `n`'s arguments; every edge goes from an older to a newer node; hence
    there is no directed cycle. -/
theorem C18_dag (fs : List Func) (kw : List (String × Val)) (hu : Unique fs) (s : LSt) (hs : Sess fs kw s) (o : String)
    (a : LArg) (s' : LSt) (h : lrunTop fs kw (.name o) s = .ok (a, s')) (g : TG) (hg : s'.tg = some g) :
    (∀ x n, (x, n) ∈ g.edges ↔ (n ∈ g.gnodes ∧ ∃ nd, s'.nodes[n]? = some nd ∧ x ∈ nd.refs)) ∧
    (∀ x n, (x, n) ∈ g.edges → x < n) ∧ (∀ n, ¬ Path g.edges n n) := by
  obtain ⟨_, hi, _⟩ := lrunTop_name hu hs h
  obtain ⟨_, hedges⟩ := hi.graph g hg
  have hlt : ∀ x n, (x, n) ∈ g.edges → x < n := by
    intro x n he
    obtain ⟨_, nd, hnd, hx⟩ := (hedges x n).mp he
    exact hi.closed n nd hnd x hx
  exact ⟨hedges, hlt, fun n p => Nat.lt_irrefl n (path_lt hlt p)⟩

/-- no edge is registered for an argument that is not a `_LazyFunction` -/
theorem C18_dag_values_no_edge (f : Func) (args : List (String × Val)) :
    (Lazy.Node.call f (args.map fun (k, v) => (k, LArg.val v))).refs = [] := by
  induction args with
  | nil => rfl
  | cons e r ih => obtain ⟨k, v⟩ := e; simpa [Node.refs, argRefs] using ih

/-! ### non-vacuity: a diamond through a tuple-output node -/
def fA : Func := ⟨"fa", [("x", "x")], ["a"], [], []⟩
def fB : Func := ⟨"fb", [("a", "a"), ("y", "y")], ["b", "c"], [("y", .int 7)], []⟩
def fD : Func := ⟨"fd", [("a", "p"), ("b", "q"), ("c", "r")], ["d"], [], []⟩
def s0 : LSt := { memo := [], used := [], usedNone := false, nodes := [], tg := none, ev := ⟨[], []⟩ }

/-- names invoked after: a lazy call; one `evaluate()`; three `evaluate()`s -/
def demo (dag : Bool) (n : Nat) : Option (List String × List (Nat × Nat)) :=
  match lrunTop [fD, fB, fA] [("x", .int 1)] (.name "d") (if dag then enterDag s0 else s0) with
  | .error _ => none
  | .ok (a, s1) =>
    let s2 := (List.range n).foldl (fun s _ => match evaluate a s with | .ok (_, s') => s' | .error _ => s) s1
    some (callNames s2.nodes s2.ev.log, match s2.tg with | some g => g.edges | none => [])

example : demo false 0 = some ([], []) := by decide
example : demo false 1 = some (["fa", "fb", "fd"], []) := by decide
example : demo false 3 = some (["fa", "fb", "fd"], []) := by decide
example : demo true 1 = some (["fa", "fb", "fd"], [(0, 1), (1, 2), (1, 3), (0, 4), (2, 4), (3, 4)]) := by decide

end PF.C18
