import PfModel.Model.XLabel
import PfModel.Lemmas.MapRun
/-! Helper lemmas for `Props/C19.lean`. -/
namespace PF.XLabel
open PF PF.Map

/-! ### `mapspec_axes` under `validate_consistent_axes` -/

/-- what `validate_consistent_axes` establishes: equally named arrays have equal rank and agree wherever both name an axis -/
def Consistent (specs : List ASpec) : Prop :=
  ∀ s ∈ specs, ∀ t ∈ specs, s.name = t.name →
    s.axes.length = t.axes.length ∧ ∀ (i : Nat) (x y : String), s.axes[i]? = some (some x) → t.axes[i]? = some (some y) → x = y

def rankStep (n : String) (acc : Nat) (s : ASpec) : Nat := if s.name = n then max acc s.axes.length else acc
def axisStep (n : String) (i : Nat) (acc : Option String) (s : ASpec) : Option String :=
  if s.name = n then (match s.axes[i]? with | some (some a) => some a | _ => acc) else acc

theorem rankOf_eq_foldl (specs : List ASpec) (n : String) : rankOf specs n = specs.foldl (rankStep n) 0 := rfl
theorem axisAt_eq_foldl (specs : List ASpec) (n : String) (i : Nat) : axisAt specs n i = specs.foldl (axisStep n i) none := rfl

theorem rank_foldl (n : String) (L : Nat) : ∀ (specs : List ASpec) (acc : Nat), (acc = 0 ∨ acc = L) →
    (∀ s ∈ specs, s.name = n → s.axes.length = L) →
    specs.foldl (rankStep n) acc = (if specs.any (fun s => s.name = n) then L else acc) := by
  intro specs
  induction specs with
  | nil => intro acc _ _; simp
  | cons s rest ih =>
    intro acc hacc hall
    simp only [List.foldl_cons, List.any_cons]
    have hrest : ∀ s ∈ rest, s.name = n → s.axes.length = L := fun t ht => hall t (List.mem_cons_of_mem _ ht)
    by_cases hn : s.name = n
    · have hl := hall s (List.mem_cons_self) hn
      have : rankStep n acc s = L := by
        simp only [rankStep, hn, if_true, hl]
        rcases hacc with h | h <;> simp [h]
      rw [this, ih L (Or.inr rfl) hrest]
      simp [hn]
    · have : rankStep n acc s = acc := by simp [rankStep, hn]
      rw [this, ih acc hacc hrest]
      simp [hn]

theorem axis_foldl_stay (n : String) (i : Nat) (x : String) : ∀ (specs : List ASpec),
    (∀ s ∈ specs, s.name = n → ∀ y, s.axes[i]? = some (some y) → y = x) →
    specs.foldl (axisStep n i) (some x) = some x := by
  intro specs
  induction specs with
  | nil => intro _; rfl
  | cons s rest ih =>
    intro hall
    simp only [List.foldl_cons]
    have : axisStep n i (some x) s = some x := by
      unfold axisStep
      split
      · next hn =>
        split
        · next a ha => rw [hall s List.mem_cons_self hn a ha]
        · rfl
      · rfl
    rw [this]
    exact ih fun t ht => hall t (List.mem_cons_of_mem _ ht)

theorem axis_foldl_hit (n : String) (i : Nat) (x : String) (a : ASpec) (han : a.name = n) (hax : a.axes[i]? = some (some x)) :
    ∀ (specs : List ASpec) (acc : Option String), a ∈ specs →
    (∀ s ∈ specs, s.name = n → ∀ y, s.axes[i]? = some (some y) → y = x) →
    specs.foldl (axisStep n i) acc = some x := by
  intro specs
  induction specs with
  | nil => intro _ h; cases h
  | cons s rest ih =>
    intro acc hmem hall
    simp only [List.foldl_cons]
    have hrest : ∀ s ∈ rest, s.name = n → ∀ y, s.axes[i]? = some (some y) → y = x :=
      fun t ht => hall t (List.mem_cons_of_mem _ ht)
    rcases List.mem_cons.mp hmem with h | h
    · subst h
      have : axisStep n i acc a = some x := by simp [axisStep, han, hax]
      rw [this]
      exact axis_foldl_stay n i x rest hrest
    · exact ih _ h hrest

/-- **`mapspec_axes` of a fully named array** (every output; every input written without `:`) is that array's own axes tuple,
    in order, whatever other MapSpecs mention it, provided the MapSpecs are consistent. -/
theorem mapspecAxes_named (mss : List MSpec) (a : ASpec) (names : List String) (hc : Consistent (allSpecs mss))
    (ha : a ∈ allSpecs mss) (hnamed : a.axes = names.map some) : mapspecAxes mss a.name = some a.axes := by
  unfold mapspecAxes
  have hany : (allSpecs mss).any (fun s => s.name = a.name) = true := by
    simp only [List.any_eq_true]; exact ⟨a, ha, by simp⟩
  simp only [hany, if_true]
  have hrank : rankOf (allSpecs mss) a.name = a.axes.length := by
    rw [rankOf_eq_foldl, rank_foldl a.name a.axes.length (allSpecs mss) 0 (Or.inl rfl)
      (fun s hs hn => (hc s hs a ha hn).1)]
    simp [hany]
  rw [hrank]
  congr 1
  apply List.ext_getElem
  · simp
  · intro i h1 h2
    simp only [List.getElem_map, List.getElem_range]
    have hlen : i < names.length := by simpa [hnamed] using h2
    have hax : a.axes[i]? = some (some names[i]) := by simp [hnamed, hlen]
    rw [axisAt_eq_foldl, axis_foldl_hit a.name i names[i] a rfl hax (allSpecs mss) none ha
      (fun s hs hn y hy => (hc s hs a ha hn).2 i y names[i] hy hax)]
    have := List.getElem?_eq_getElem h2
    rw [hax] at this
    exact (Option.some.inj this)

/-! ### generic fold facts -/

theorem foldl_mono {α β} (P : β → Prop) (f : β → α → β) (hf : ∀ b a, P b → P (f b a)) :
    ∀ (l : List α) (b : β), P b → P (l.foldl f b) := by
  intro l
  induction l with
  | nil => intro b h; exact h
  | cons a r ih => intro b h; exact ih _ (hf b a h)

theorem foldl_hit {α β} (P : β → Prop) (f : β → α → β) (hf : ∀ b a, P b → P (f b a)) (a : α) (ha : ∀ b, P (f b a)) :
    ∀ (l : List α) (b : β), a ∈ l → P (l.foldl f b) := by
  intro l
  induction l with
  | nil => intro b h; cases h
  | cons x r ih =>
    intro b h
    rcases List.mem_cons.mp h with h | h
    · subst h; exact foldl_mono P f hf r _ (ha b)
    · exact ih _ h

/-! ### sets of names -/

theorem mem_sinsert (a x : String) : ∀ l : List String, x ∈ sinsert a l ↔ x = a ∨ x ∈ l := by
  intro l
  induction l with
  | nil => simp [sinsert]
  | cons b r ih =>
    simp only [sinsert]
    split
    · next h => subst h; simp
    · split
      · simp
      · simp only [List.mem_cons, ih]
        constructor
        · rintro (h | h | h) <;> simp [h]
        · rintro (h | h | h) <;> simp [h]

theorem mem_sunion (x : String) : ∀ (l s : List String), x ∈ sunion l s ↔ x ∈ l ∨ x ∈ s := by
  intro l
  induction l with
  | nil => intro s; simp [sunion]
  | cons a r ih =>
    intro s
    have : sunion (a :: r) s = sunion r (sinsert a s) := rfl
    rw [this, ih, mem_sinsert]
    simp only [List.mem_cons]
    constructor
    · rintro (h | h | h) <;> simp [h]
    · rintro ((h | h) | h) <;> simp [h]

/-- name `n` is recorded under `axis` in an `{axis: set of names}` dictionary -/
def InDeps (d : List (String × List String)) (axis n : String) : Prop := ∃ s, alookup d axis = some s ∧ n ∈ s

theorem addDep_mono (axis : String) (names : List String) (ax n : String) :
    ∀ d, InDeps d ax n → InDeps (addDep d axis names) ax n := by
  intro d
  induction d with
  | nil => intro ⟨s, h, _⟩; simp [alookup] at h
  | cons e r ih =>
    obtain ⟨k, s⟩ := e
    intro ⟨t, ht, hn⟩
    simp only [addDep]
    simp only [alookup] at ht
    by_cases hk : k = axis
    · simp only [hk, if_true]
      by_cases hax : axis = ax
      · subst hk
        simp only [hax, if_true] at ht
        cases ht
        exact ⟨sunion names s, by simp [alookup, hax], (mem_sunion n names s).mpr (Or.inr hn)⟩
      · subst hk
        simp only [hax, if_false] at ht
        exact ⟨t, by simp [alookup, hax, ht], hn⟩
    · simp only [hk, if_false]
      by_cases hax : k = ax
      · simp only [hax, if_true] at ht
        cases ht
        exact ⟨s, by simp [alookup, hax], hn⟩
      · simp only [hax, if_false] at ht
        obtain ⟨u, hu, hnu⟩ := ih ⟨t, ht, hn⟩
        exact ⟨u, by simp [alookup, hax, hu], hnu⟩

theorem addDep_hit (axis : String) (names : List String) (n : String) (hn : n ∈ names) :
    ∀ d, InDeps (addDep d axis names) axis n := by
  intro d
  induction d with
  | nil => exact ⟨sunion names [], by simp [addDep, alookup], (mem_sunion n names []).mpr (Or.inl hn)⟩
  | cons e r ih =>
    obtain ⟨k, s⟩ := e
    simp only [addDep]
    by_cases hk : k = axis
    · simp only [hk, if_true]
      exact ⟨sunion names s, by simp [alookup], (mem_sunion n names s).mpr (Or.inl hn)⟩
    · simp only [hk, if_false]
      obtain ⟨u, hu, hnu⟩ := ih
      exact ⟨u, by simp [alookup, hk, hu], hnu⟩

theorem traceStep_mono (mapping : List (String × MSpec)) (nested : String → List (String × List String)) (a : ASpec)
    (ax n : String) (d : List (String × List String)) (q : Option String) (h : InDeps d ax n) :
    InDeps (traceStep mapping nested a d q) ax n := by
  unfold traceStep
  split
  · exact h
  · split
    · split
      · exact addDep_mono _ _ _ _ _ h
      · exact h
    · exact addDep_mono _ _ _ _ _ h

theorem traceInput_mono (mapping : List (String × MSpec)) (nested : String → List (String × List String)) (ax n : String)
    (d : List (String × List String)) (a : ASpec) (h : InDeps d ax n) :
    InDeps (a.axes.foldl (traceStep mapping nested a) d) ax n :=
  foldl_mono (fun d => InDeps d ax n) _ (fun d q h => traceStep_mono mapping nested a ax n d q h) a.axes d h

/-- a root input (not itself a mapped output) listed with axis `axis` is recorded under that axis -/
theorem traceDeps_direct (mapping : List (String × MSpec)) (fuel : Nat) (o : String) (ms : MSpec) (a : ASpec) (axis : String)
    (hm : alookup mapping o = some ms) (ha : a ∈ ms.inputs) (hax : some axis ∈ a.axes) (hroot : alookup mapping a.name = none) :
    InDeps (traceDeps mapping (fuel + 1) o) axis a.name := by
  simp only [traceDeps, hm]
  refine foldl_hit (fun d => InDeps d axis a.name) _ (fun d b h => traceInput_mono mapping _ axis a.name d b h) a ?_ ms.inputs [] ha
  intro d
  refine foldl_hit (fun d => InDeps d axis a.name) _ (fun d q h => traceStep_mono mapping _ a axis a.name d q h) (some axis) ?_
    a.axes d hax
  intro d
  simp only [traceStep, hroot, Option.isSome_none, Bool.false_eq_true, if_false]
  exact addDep_hit axis [a.name] a.name (by simp) d

/-- an input that is itself a mapped output passes on, along a shared axis, whatever reaches it along that axis -/
theorem traceDeps_step (mapping : List (String × MSpec)) (fuel : Nat) (o : String) (ms : MSpec) (a : ASpec) (axis x : String)
    (hm : alookup mapping o = some ms) (ha : a ∈ ms.inputs) (hax : some axis ∈ a.axes) (hmapped : (alookup mapping a.name).isSome)
    (hrec : InDeps (traceDeps mapping fuel a.name) axis x) :
    InDeps (traceDeps mapping (fuel + 1) o) axis x := by
  simp only [traceDeps, hm]
  refine foldl_hit (fun d => InDeps d axis x) _ (fun d b h => traceInput_mono mapping _ axis x d b h) a ?_ ms.inputs [] ha
  intro d
  refine foldl_hit (fun d => InDeps d axis x) _ (fun d q h => traceStep_mono mapping _ a axis x d q h) (some axis) ?_
    a.axes d hax
  intro d
  obtain ⟨s, hs, hx⟩ := hrec
  simp only [traceStep, hmapped, if_true, hs]
  exact addDep_hit axis s x hx d

/-! ### `{axis: inputs}` → `{input: axes}` -/

theorem addAxis_mono (n axis : String) (m ax : String) :
    ∀ r, InDeps r m ax → InDeps (addAxis r n axis) m ax := by
  intro r
  induction r with
  | nil => intro ⟨s, h, _⟩; simp [alookup] at h
  | cons e rest ih =>
    obtain ⟨k, s⟩ := e
    intro ⟨t, ht, hn⟩
    simp only [addAxis]
    simp only [alookup] at ht
    by_cases hk : k = n
    · simp only [hk, if_true]
      subst hk
      by_cases hm : k = m
      · simp only [hm, if_true] at ht
        cases ht
        refine ⟨(if s.contains axis then s else s ++ [axis]), by simp [alookup, hm], ?_⟩
        split
        · exact hn
        · exact List.mem_append_left _ hn
      · simp only [hm, if_false] at ht
        exact ⟨t, by simp [alookup, hm, ht], hn⟩
    · simp only [hk, if_false]
      by_cases hm : k = m
      · simp only [hm, if_true] at ht
        cases ht
        exact ⟨s, by simp [alookup, hm], hn⟩
      · simp only [hm, if_false] at ht
        obtain ⟨u, hu, hnu⟩ := ih ⟨t, ht, hn⟩
        exact ⟨u, by simp [alookup, hm, hu], hnu⟩

theorem addAxis_hit (n axis : String) : ∀ r, InDeps (addAxis r n axis) n axis := by
  intro r
  induction r with
  | nil => exact ⟨[axis], by simp [addAxis, alookup], by simp⟩
  | cons e rest ih =>
    obtain ⟨k, s⟩ := e
    simp only [addAxis]
    by_cases hk : k = n
    · simp only [hk, if_true]
      refine ⟨(if s.contains axis then s else s ++ [axis]), by simp [alookup], ?_⟩
      split
      · next h => simpa using h
      · simp
    · simp only [hk, if_false]
      obtain ⟨u, hu, hnu⟩ := ih
      exact ⟨u, by simp [alookup, hk, hu], hnu⟩

theorem reorder_of_inDeps (d : List (String × List String)) (axis n : String) (h : InDeps d axis n) :
    InDeps (reorder d) n axis := by
  obtain ⟨s, hs, hn⟩ := h
  have hmem := alookup_some_mem d axis s hs
  unfold reorder
  have inner_mono : ∀ (acc : List (String × List String)) (e : String × List String), InDeps acc n axis →
      InDeps (e.2.foldl (fun acc m => addAxis acc m e.1) acc) n axis :=
    fun acc e h => foldl_mono (fun acc => InDeps acc n axis) _ (fun acc m h => addAxis_mono m e.1 n axis acc h) e.2 acc h
  refine foldl_hit (fun acc => InDeps acc n axis) _ inner_mono (axis, s) ?_ d [] hmem
  intro acc
  exact foldl_hit (fun acc => InDeps acc n axis) _ (fun acc m h => addAxis_mono m axis n axis acc h) n
    (fun acc => addAxis_hit n axis acc) s acc hn

theorem alookup_map_snd {β γ} (g : String → β → γ) : ∀ (l : List (String × β)) (k : String),
    alookup (l.map fun e => (e.1, g e.1 e.2)) k = (alookup l k).map (g k) := by
  intro l
  induction l with
  | nil => intro k; simp [alookup]
  | cons e r ih =>
    obtain ⟨a, b⟩ := e
    intro k
    simp only [List.map_cons, alookup]
    split
    · next h => subst h; simp
    · exact ih k

theorem orderLike_single (a : String) (s : List String) (h : a ∈ s) : orderLike [some a] s = [a] := by
  simp [orderLike, List.filterMap, h]

/-- a 1-D array `x` recorded under axis `a` in the traced dictionary of `o` appears in `trace_dependencies(…)[o]` as `x ↦ (a,)` -/
theorem traceDependencies_single (mss : List MSpec) (o x a : String)
    (h : InDeps (traceDeps (mapspecMapping mss) (mss.length + 1) o) a x) (hfull : mapspecAxes mss x = some [some a]) :
    alookup (traceDependencies mss o) x = some [a] := by
  obtain ⟨s, hs, hmem⟩ := reorder_of_inDeps _ a x h
  unfold traceDependencies
  simp only []
  rw [alookup_map_snd (fun n s => orderLike ((mapspecAxes mss n).getD []) s), hs]
  simp [hfull, orderLike_single a s hmem]

/-! ### reaching an output along an axis -/

/-- `x` reaches `o` along `axis` through at most `n` mapped intermediates: it is listed with that axis in the MapSpec of `o`
    and is not itself a mapped output, or an input of `o` that is a mapped output shares the axis and is reached by `x` -/
inductive Reach (mapping : List (String × MSpec)) : Nat → String → String → String → Prop
  | direct (n : Nat) (o : String) (ms : MSpec) (a : ASpec) (axis : String) :
      alookup mapping o = some ms → a ∈ ms.inputs → some axis ∈ a.axes → alookup mapping a.name = none →
      Reach mapping n o axis a.name
  | step (n : Nat) (o : String) (ms : MSpec) (a : ASpec) (axis x : String) :
      alookup mapping o = some ms → a ∈ ms.inputs → some axis ∈ a.axes → (alookup mapping a.name).isSome →
      Reach mapping n a.name axis x → Reach mapping (n + 1) o axis x

theorem reach_traced (mapping : List (String × MSpec)) (n : Nat) (o axis x : String) (h : Reach mapping n o axis x) :
    InDeps (traceDeps mapping (n + 1) o) axis x := by
  induction h with
  | direct n o ms a axis hm ha hax hroot => exact traceDeps_direct mapping n o ms a axis hm ha hax hroot
  | step n o ms a axis x hm ha hax hmapped _ ih => exact traceDeps_step mapping (n + 1) o ms a axis x hm ha hax hmapped ih

/-! ### the coordinate loops of `_xarray` -/

theorem eligible_mem (mss : List MSpec) (inputs : List (String × Val)) (load : String → Option Val) (li : Bool)
    (e : String × List String) (y : String × List String × Val) (hy : eligibleOne mss inputs load li e = .ok (some y)) :
    ∀ (deps : List (String × List String)) (es : List (String × List String × Val)),
      eligible mss inputs load li deps = .ok es → e ∈ deps → y ∈ es := by
  intro deps
  induction deps with
  | nil => intro es _ h; cases h
  | cons d rest ih =>
    intro es hes hmem
    simp only [eligible, bind, Except.bind] at hes
    split at hes
    · cases hes
    · next here hhere =>
      split at hes
      · cases hes
      · next more hmore =>
        simp only [pure, Except.pure] at hes
        cases hes
        rcases List.mem_cons.mp hmem with h | h
        · subst h
          rw [hy] at hhere
          cases hhere
          simp
        · have := ih more hmore h
          split
          · exact List.mem_cons_of_mem _ this
          · exact this

/-- `(n, v)` sits in the group keyed by `axes` -/
def InGroup (cm : List (List String × List (String × Val))) (axes : List String) (n : String) (v : Val) : Prop :=
  ∃ g, (axes, g) ∈ cm ∧ (n, v) ∈ g

theorem addCoord_mono (axes : List String) (n : String) (v : Val) (axes' : List String) (m : String) (w : Val) :
    ∀ cm, InGroup cm axes' m w → InGroup (addCoord cm axes n v) axes' m w := by
  intro cm
  induction cm with
  | nil => intro ⟨g, h, _⟩; cases h
  | cons e r ih =>
    obtain ⟨k, g⟩ := e
    intro ⟨g', hg', hm⟩
    simp only [addCoord]
    by_cases hk : k = axes
    · simp only [hk, if_true]
      rcases List.mem_cons.mp hg' with h | h
      · cases h
        exact ⟨g ++ [(n, v)], by simp [hk], List.mem_append_left _ hm⟩
      · exact ⟨g', List.mem_cons_of_mem _ h, hm⟩
    · simp only [hk, if_false]
      rcases List.mem_cons.mp hg' with h | h
      · cases h
        exact ⟨g, by simp, hm⟩
      · obtain ⟨u, hu, hmu⟩ := ih ⟨g', h, hm⟩
        exact ⟨u, List.mem_cons_of_mem _ hu, hmu⟩

theorem addCoord_hit (axes : List String) (n : String) (v : Val) : ∀ cm, InGroup (addCoord cm axes n v) axes n v := by
  intro cm
  induction cm with
  | nil => exact ⟨[(n, v)], by simp [addCoord], by simp⟩
  | cons e r ih =>
    obtain ⟨k, g⟩ := e
    simp only [addCoord]
    by_cases hk : k = axes
    · simp only [hk, if_true]
      exact ⟨g ++ [(n, v)], by simp, by simp⟩
    · simp only [hk, if_false]
      obtain ⟨u, hu, hmu⟩ := ih
      exact ⟨u, List.mem_cons_of_mem _ hu, hmu⟩

theorem groupCoords_mem (es : List (String × List String × Val)) (n : String) (axes : List String) (v : Val)
    (h : (n, axes, v) ∈ es) : InGroup (groupCoords es) axes n v := by
  unfold groupCoords
  exact foldl_hit (fun cm => InGroup cm axes n v) _ (fun cm e h => addCoord_mono e.2.1 e.1 e.2.2 axes n v cm h) (n, axes, v)
    (fun cm => addCoord_hit axes n v cm) es [] h

/-- what a coordinate says about array `n` with values `v`: it is the coordinate `n` itself, or one component of a
    multi-index whose name joins the component names with `:` -/
abbrev Carries (c : Coord) (n : String) (v : Val) : Prop :=
  (c.name = n ∧ c.val = .plain v) ∨
  ∃ names arrays, c.val = .multi names arrays ∧ c.name = ":".intercalate names ∧ names.length = arrays.length ∧
    ∃ k : Nat, names[k]? = some n ∧ arrays[k]? = some v

theorem mem_unzip_idx {α β} (l : List (α × β)) (a : α) (b : β) (h : (a, b) ∈ l) :
    ∃ k : Nat, (l.map (·.1))[k]? = some a ∧ (l.map (·.2))[k]? = some b := by
  obtain ⟨k, hk, he⟩ := List.getElem_of_mem h
  exact ⟨k, by simp [List.getElem?_eq_getElem hk, he], by simp [List.getElem?_eq_getElem hk, he]⟩

/-- every member of a group is carried by one of the group's coordinates, on the group's axes; a group on one axis gives
    exactly one coordinate -/
theorem coordsOfGroup_carries (axes : List String) (g : List (String × Val)) (n : String) (v : Val) (h : (n, v) ∈ g) :
    ∃ c ∈ coordsOfGroup (axes, g), c.dims = axes ∧ Carries c n v := by
  unfold coordsOfGroup
  split
  · next m w hg =>
    simp only [] at hg
    rw [hg] at h
    simp only [List.mem_singleton, Prod.mk.injEq] at h
    exact ⟨_, List.mem_singleton.mpr rfl, rfl, Or.inl ⟨h.1.symm, by rw [h.2]⟩⟩
  · next members hne =>
    split
    · exact ⟨{ name := n, dims := axes, val := .plain v }, List.mem_map.mpr ⟨(n, v), h, rfl⟩, rfl, Or.inl ⟨rfl, rfl⟩⟩
    · refine ⟨_, List.mem_singleton.mpr rfl, rfl, Or.inr ⟨_, _, rfl, rfl, by simp, ?_⟩⟩
      exact mem_unzip_idx g n v h

theorem coordsOfGroup_one_axis (a : String) (g : List (String × Val)) : (coordsOfGroup ([a], g)).length = 1 := by
  unfold coordsOfGroup
  split
  · rfl
  · simp

/-! ### what the run folder holds is what the run returned -/

def slotVal (e : String × Slot) : String × Val := (e.1, e.2.toVal)

theorem runSingle_slots (fs : List MFunc) (env : Env) (f : MFunc) (r : FuncResult) (h : runSingle fs env f = .ok r) :
    r.slots.map slotVal = r.outputs := by
  unfold runSingle at h
  simp only [bind, Except.bind] at h
  split at h
  · cases h
  · simp only [pure, Except.pure] at h
    cases h
    simp [slotVal, Slot.toVal, Function.comp_def]

theorem runMapped_slots (fs : List MFunc) (env : Env) (f : MFunc) (ms : MSpec) (shape : List Nat) (mask : List Bool)
    (hl : shape.length = mask.length) (r : FuncResult) (h : runMappedWith opArray fs env f ms shape mask = .ok r) :
    r.slots.map slotVal = r.outputs := by
  unfold runMappedWith at h
  simp only [bind, Except.bind] at h
  split at h
  · cases h
  · simp only [pure, Except.pure] at h
    cases h
    simp only [List.map_map]
    apply List.map_congr_left
    intro o _
    simp only [Function.comp, slotVal, stored_eq_denote f shape mask _ o hl, opArray_eq_denote f shape mask _ o hl]

theorem runFunc_slots (fs : List MFunc) (shapes : List (String × List Nat)) (masks : List (String × List Bool)) (env : Env)
    (f : MFunc) (r : FuncResult) (h : runFuncWith opArray fs shapes masks env f = .ok r) : r.slots.map slotVal = r.outputs := by
  unfold runFuncWith at h
  split at h
  · split at h
    · exact runSingle_slots fs env f r h
    · split at h
      · cases h
      · split at h
        · split at h
          · cases h
          · next hl => exact runMapped_slots fs env f _ _ _ (by simpa using hl) r h
        · cases h
  · exact runSingle_slots fs env f r h

theorem runGen_slots (R : Env → MFunc → M FuncResult) (hR : ∀ env f r, R env f = .ok r → r.slots.map slotVal = r.outputs)
    (env : Env) : ∀ (gen : List MFunc) (rs : List FuncResult), runGenWith R env gen = .ok rs →
      (rs.flatMap (·.slots)).map slotVal = rs.flatMap (·.outputs) := by
  intro gen
  induction gen with
  | nil => intro rs h; simp only [runGenWith, pure, Except.pure] at h; cases h; rfl
  | cons f rest ih =>
    intro rs h
    simp only [runGenWith, bind, Except.bind] at h
    split at h
    · cases h
    · next r hr =>
      split at h
      · cases h
      · next more hmore =>
        simp only [pure, Except.pure] at h
        cases h
        simp only [List.flatMap_cons, List.map_append, hR env f r hr, ih more hmore]

theorem runGens_store (R : Env → MFunc → M FuncResult) (hR : ∀ env f r, R env f = .ok r → r.slots.map slotVal = r.outputs) :
    ∀ (gens : List (List MFunc)) (env : Env) (rs : List FuncResult) (envF : Env), runGensWith R gens env = .ok (rs, envF) →
      envF.store.map slotVal = env.store.map slotVal ++ rs.flatMap (·.outputs) := by
  intro gens
  induction gens with
  | nil => intro env rs envF h; simp only [runGensWith, pure, Except.pure] at h; cases h; simp
  | cons gen rest ih =>
    intro env rs envF h
    simp only [runGensWith, bind, Except.bind] at h
    split at h
    · cases h
    · next rs1 h1 =>
      split at h
      · cases h
      · next p hp =>
        obtain ⟨more, envF'⟩ := p
        simp only [pure, Except.pure] at h
        cases h
        have := ih _ more envF hp
        simp only [List.map_append, runGen_slots R hR env gen rs1 h1] at this
        simp only [this, List.flatMap_append, List.append_assoc]

/-- **What `load_outputs` reads back from the store of a run is exactly what the run returned**, for every output. -/
theorem runMap_stored_eq_outputs (fs : List MFunc) (inputs : List (String × Val)) (ui : List (String × List Nat)) (r : MapResult)
    (h : runMap fs inputs ui = .ok r) : r.stored = r.outputs := by
  unfold runMap runMapWith at h
  simp only [bind, Except.bind] at h
  split at h
  · cases h
  · split at h
    · cases h
    · split at h
      · cases h
      · next p hp =>
        obtain ⟨shapes, masks⟩ := p
        simp only [] at h
        split at h
        · cases h
        · next q hq =>
          obtain ⟨rs, env⟩ := q
          simp only [pure, Except.pure] at h
          cases h
          have := runGens_store (runFuncWith opArray fs shapes masks) (fun env f r h => runFunc_slots fs shapes masks env f r h)
            (generations fs) { inputs := inputs, store := [] } rs env hq
          have hs : (List.map slotVal env.store) = List.map (fun x => (x.fst, x.snd.toVal)) env.store := rfl
          rw [← hs]
          simpa using this

/-! ### elements of a denoted array; `sel` -/

theorem fillKey_map_some : ∀ F : List Nat, fillKey (F.map some) [] = F := by
  intro F
  induction F with
  | nil => rfl
  | cons k r ih => simp [fillKey, ih]

theorem allIdx_get (s F : List Nat) (h : InRange s F) : (allIdx s)[ravel s F]? = some F := by
  rw [← map_key_range]
  simp [List.getElem?_map, List.getElem?_range (ravel_lt s F h), key_ravel s F h]

theorem indexVal_full (sh : List Nat) (elems : List Val) (F : List Nat) (h : InRange sh F) :
    indexVal (.arr sh elems) (F.map some) = elems[ravel sh F]? := by
  have hl := inRange_length sh F h
  simp [indexVal, hl, fillKey_map_some]

/-- the element of a denoted array at a full in-range index `F`: the function applied to the arguments selected at the external
    part of `F`, projected at the internal part -/
theorem denote_at (f : MFunc) (shape : List Nat) (mask : List Bool) (args : Nat → List (String × Val)) (o : String)
    (F : List Nat) (h : InRange shape F) :
    indexVal (denoteArray f shape mask args o) (F.map some) =
      some (elemAt mask (outVal f (args (ravel (extOf mask shape) (extOf mask F))) o) (intOf mask F)) := by
  unfold denoteArray
  simp only []
  rw [indexVal_full shape _ F h, List.getElem?_map, allIdx_get shape F h]
  rfl

/-- values are pairwise distinguishable by `eq`: the position of a value is the first and only one where `eq` holds -/
theorem findPos_distinct (eq : Val → Val → Bool) (xs : List Val) (p : Nat) (hp : p < xs.length)
    (hrefl : eq xs[p] xs[p] = true) (hdist : ∀ i (hi : i < xs.length), i < p → eq xs[p] xs[i] = false) :
    findPos eq xs xs[p] = some p := by
  unfold findPos
  rw [List.findIdx?_eq_some_iff_getElem]
  exact ⟨hp, hrefl, fun j hj => by simp [hdist j (by omega) hj]⟩

theorem mapM_mem {α β} (g : α → M β) : ∀ (l : List α) (r : List β), l.mapM g = .ok r → ∀ a ∈ l, ∃ b ∈ r, g a = .ok b := by
  intro l r h a ha
  obtain ⟨i, hi, he⟩ := List.getElem_of_mem ha
  have hlen := mapM_ok_length g l r h
  have := mapM_ok_get g l r h i hi (by omega)
  exact ⟨r[i]'(by omega), List.getElem_mem _, by rw [← he]; exact this⟩

end PF.XLabel
