import PfModel.Lemmas.ResumeParAdditive
/-! The event list of a FAILING pool run (`runOnPF`: a user call raises inside a generation of the pool runner) is a PREFIX of an
    additive list: additive generations, then the bodies that ran (whole, or the raising one cut to its call) and the first
    `plen` parent events of the failing generation — the only place where a `dump` block may be cut, and nothing follows it.
    Prefixes of additive lists lose nothing (`addPre_prefix_mono`).  Used by `Props/C05User.lean` (`C05_par_raise_prefix_mono`). -/
namespace PF.ResumeFS
open PF PF.Map

/-- a prefix of an additive event list -/
def AddPre (l : List Ev) : Prop := ∃ (l' : List Ev) (n : Nat), Additive l' ∧ l = l'.take n

theorem AddPre.of_additive {l : List Ev} (h : Additive l) : AddPre l := ⟨l, l.length, h, by simp⟩

theorem AddPre.append {a b : List Ev} (ha : Additive a) (hb : AddPre b) : AddPre (a ++ b) := by
  obtain ⟨b', n, hb', rfl⟩ := hb
  refine ⟨a ++ b', a.length + n, ha.append hb', ?_⟩
  rw [List.take_length_add_append]

theorem crashAt_take (fs : FS) (l : List Ev) (n k : Nat) : crashAt fs (l.take n) k = crashAt fs l (min k n) := by
  simp only [crashAt, List.take_take]

/-- **a prefix of an additive event list loses nothing** -/
theorem addPre_prefix_mono {evs : List Ev} (h : AddPre evs) (fs : FS) (j k : Nat) (hjk : j ≤ k) :
    Mono (crashAt fs evs j) (crashAt fs evs k) := by
  obtain ⟨l', n, hl, rfl⟩ := h
  rw [crashAt_take, crashAt_take]
  exact additive_prefix_mono hl fs _ _ (by omega)

theorem additive_take_one {b : List Ev} (h : Additive b) : Additive (b.take 1) := by
  cases h with
  | nil => exact .nil
  | mkdirp d _ => exact .mkdirp d .nil
  | call fn li a _ => exact .call fn li a .nil
  | write p v _ => exact .mkdirp _ .nil

theorem truncAt_mem_one : ∀ (bs : List (List Ev)) (n : Nat) (b' : List Ev), b' ∈ truncAt bs n → b' ∈ bs ∨ ∃ b ∈ bs, b' = b.take 1
  | [], _, b', h => by simp [truncAt] at h
  | b :: bs, 0, b', h => by
    simp only [truncAt, List.mem_cons] at h
    rcases h with rfl | h
    · exact Or.inr ⟨b, by simp, rfl⟩
    · exact Or.inl (by simp [h])
  | b :: bs, n + 1, b', h => by
    simp only [truncAt, List.mem_cons] at h
    rcases h with rfl | h
    · exact Or.inl (by simp)
    · rcases truncAt_mem_one bs n b' h with h | ⟨x, hx, rfl⟩
      · exact Or.inl (by simp [h])
      · exact Or.inr ⟨x, by simp [hx], rfl⟩

theorem addPre_runGensPF (step : Env → FS → Nat → MFunc → FOut)
    (hs : ∀ env fs nc f, Additive (step env fs nc f).subEvs ∧ Additive (step env fs nc f).procEvs) (sched fsched : Sched)
    (hsch : SelSched sched) (hfs : SelSched fsched) (j : Nat) :
    ∀ (gens : List (List MFunc)) (g : Nat) (env : Env) (fs : FS) (nc : Nat),
      AddPre (runGensPF step sched fsched j g gens env fs nc).evs ∧
      (∀ x, (runGensPF step sched fsched j g gens env fs nc).res = .ok x → Additive (runGensPF step sched fsched j g gens env fs nc).evs)
  | [], g, env, fs, nc => by simp only [runGensPF]; exact ⟨.of_additive .nil, fun _ _ => .nil⟩
  | gen :: rest, g, env, fs, nc => by
    obtain ⟨g1, g2⟩ := additive_runGenR step hs env gen fs nc
    have hA := additive_sched hsch g g1 g2
    unfold runGensPF
    simp only
    split
    · exact ⟨.of_additive hA, fun _ h => by cases h⟩
    · split
      · refine ⟨?_, fun _ h => by cases h⟩
        obtain ⟨bs', hsub, he⟩ := hfs g (truncAt (splitCalls (runGenR step env fs nc gen).subEvs)
          (j - nc)) ((runGenR step env fs nc gen).procEvs.take
            (runGenR step env fs nc (gen.takeWhile (·.name != bodyFn ((splitCalls (runGenR step env fs nc gen).subEvs).getD (j - nc) [])))).procEvs.length)
        rw [he]
        refine AddPre.append (additive_flatten bs' fun b hb => ?_) ⟨_, _, g2, rfl⟩
        rcases truncAt_mem_one _ _ _ (hsub b hb) with h | ⟨x, hx, rfl⟩
        · exact splitCalls_additive g1 b h
        · exact additive_take_one (splitCalls_additive g1 x hx)
      · rename_i rs heq hn
        have ih' := addPre_runGensPF step hs sched fsched hsch hfs j rest (g + 1)
          { env with store := env.store ++ rs.flatMap (·.slots) }
          (applyAll fs (sched g (splitCalls (runGenR step env fs nc gen).subEvs) (runGenR step env fs nc gen).procEvs))
          (runGenR step env fs nc gen).nc
        revert ih'
        generalize runGensPF step sched fsched j (g + 1) rest { env with store := env.store ++ rs.flatMap (·.slots) }
          (applyAll fs (sched g (splitCalls (runGenR step env fs nc gen).subEvs) (runGenR step env fs nc gen).procEvs))
          (runGenR step env fs nc gen).nc = L
        intro ih'
        refine ⟨AddPre.append hA ih'.1, fun x hx => hA.append ?_⟩
        cases hr : L.res with
        | error e => simp [hr, Except.map] at hx
        | ok y => exact ih'.2 y hr

/-- the event list of a failing pool run of the repaired protocol, started on any folder, is a prefix of an additive list -/
theorem addPre_runOnPF (cfg : Cfg) (hl : cfg.legacy = false) (sched fsched : Sched) (hsch : SelSched sched) (hfs : SelSched fsched)
    (fs : FS) (fsd : List MFunc) (inputs : List (String × Val)) (ui : List (String × List Nat)) :
    AddPre (runOnPF cfg sched fsched fs fsd inputs ui).evs := by
  have hL : ∀ (c' : Cfg), c'.legacy = false → ∀ j shapes masks mem gens g env fs nc,
      AddPre (runGensPF (stepFunc c' fsd shapes masks mem) sched fsched j g gens env fs nc).evs ∧
      (∀ x, (runGensPF (stepFunc c' fsd shapes masks mem) sched fsched j g gens env fs nc).res = .ok x →
        Additive (runGensPF (stepFunc c' fsd shapes masks mem) sched fsched j g gens env fs nc).evs) :=
    fun c' hc' j shapes masks mem gens g => addPre_runGensPF _
      (fun env fs nc f => additive_stepFunc c' hc' fsd shapes masks mem env fs nc f) sched fsched hsch hfs j gens g
  unfold runOnPF
  split
  · exact .of_additive (additive_runOnP cfg hl sched hsch fs fsd inputs ui)
  · split
    · exact .of_additive .nil
    · simp only [hl, compare_evs, List.nil_append]
      split
      · exact .of_additive .nil
      · split
        · exact .of_additive ((additive_dumpAll inputs).append (additive_initStore _ _))
        · split
          · exact AddPre.append ((additive_dumpAll inputs).append (additive_initStore _ _)) (hL _ rfl _ _ _ _ _ _ _ _ _).1
          · rename_i hres
            exact .of_additive ((((additive_dumpAll inputs).append (additive_initStore _ _)).append ((hL _ rfl _ _ _ _ _ _ _ _ _).2 _ hres)).append
              (additive_persist _ _))

end PF.ResumeFS
