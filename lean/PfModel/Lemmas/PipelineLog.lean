import PfModel.Lemmas.Pipeline
/-! The call log of the memoised run: duplicate-free, dependencies first (helper lemmas for `Props/C02.lean`). -/
namespace PF.Pipe
open PF

/-- well-formedness that construction enforces: unique function names, unique output names, and acyclicity witnessed by a
    rank that strictly decreases along every (non-bound) dependency edge -/
structure WFp (fs : List Func) (rank : String → Nat) : Prop where
  names : ∀ f ∈ fs, ∀ g ∈ fs, f.name = g.name → f = g
  uniq : UniqueOut fs
  acyc : ∀ f ∈ fs, ∀ p ∈ f.params, ∀ g, producer fs p.1 = some g → alookup f.bound p.1 = none → rank g.name < rank f.name

def IsUp : Res → Prop
  | .upstream => True
  | _ => False

variable (fs : List Func) (kw : List (String × Val)) (rank : String → Nat)

/-- `a` occurs strictly before the (first) occurrence split `pre ++ b :: post` -/
def DepsFirst (calls : List String) : Prop :=
  ∀ pre nm post, calls = pre ++ nm :: post → ∀ f ∈ fs, f.name = nm → ∀ p ∈ f.params,
    IsUp (resolve fs kw f p.1) →
      ∃ g, producer fs p.1 = some g ∧ g.name ∈ pre

structure Inv (s : St) : Prop where
  nodup : s.calls.Nodup
  called : ∀ f ∈ fs, f.name ∈ s.calls → ∀ q ∈ f.outputs, (alookup s.memo q).isSome
  origin : ∀ q, (alookup s.memo q).isSome → (alookup kw q).isSome ∨ ∃ g, producer fs q = some g ∧ g.name ∈ s.calls
  order : DepsFirst fs kw s.calls
  known : ∀ nm ∈ s.calls, ∃ g ∈ fs, g.name = nm

/-- what one evaluation adds -/
structure Frame (bound : Nat) (strict : Bool) (s s' : St) : Prop where
  added : ∃ add, s'.calls = s.calls ++ add ∧ ∀ nm ∈ add, if strict then rank nm < bound else rank nm ≤ bound
  mono : ∀ q, (alookup s.memo q).isSome → (alookup s'.memo q).isSome

theorem resolve_upstream {f : Func} {p : String} (h : IsUp (resolve fs kw f p)) :
    alookup f.bound p = none ∧ alookup kw p = none ∧ ∃ g, producer fs p = some g := by
  unfold resolve at h
  cases hb : alookup f.bound p with
  | some v => simp [hb, IsUp] at h
  | none =>
    cases hk : alookup kw p with
    | some v => simp [hb, hk, IsUp] at h
    | none =>
      cases hp : producer fs p with
      | some g => exact ⟨rfl, rfl, g, rfl⟩
      | none =>
        cases hd : pdefault fs p <;> simp [hb, hk, hp, hd, IsUp] at h

theorem depsFirst_append (calls : List String) (nm : String) (h : DepsFirst fs kw calls)
    (hlast : ∀ f ∈ fs, f.name = nm → ∀ p ∈ f.params,
      IsUp (resolve fs kw f p.1) → ∃ g, producer fs p.1 = some g ∧ g.name ∈ calls) :
    DepsFirst fs kw (calls ++ [nm]) := by
  intro pre x post e f hf hx p hp hr
  -- either the split is inside `calls`, or `x` is the appended element
  rcases List.append_eq_append_iff.mp e with ⟨a', h1, h2⟩ | ⟨c', h1, h2⟩
  · -- calls = pre ++ a', x :: post = a' ++ [nm]... wait: pre ++ (x :: post) with calls ++ [nm]
    -- here: pre = calls ++ a' and [nm] = a' ++ x :: post
    have : a' = [] ∧ x = nm ∧ post = [] := by
      cases a' with
      | nil => simp at h2; exact ⟨rfl, h2.1.symm, h2.2⟩
      | cons b bs => simp at h2
    obtain ⟨ha, hxn, _⟩ := this
    subst ha; subst hxn
    simp at h1; subst h1
    exact hlast f hf hx p hp hr
  · -- calls = pre ++ c' and x :: post = c' ++ [nm]
    cases c' with
    | nil =>
      simp at h2
      obtain ⟨hxn, _⟩ := h2
      simp at h1; subst h1; subst hxn
      exact hlast f hf hx p hp hr
    | cons b bs =>
      simp at h2
      obtain ⟨hb, hpost⟩ := h2
      subst hb
      exact h pre x bs h1 f hf hx p hp hr

end PF.Pipe

namespace PF.Pipe
open PF

variable (fs : List Func) (kw : List (String × Val)) (rank : String → Nat)

/-- the contract of the recursive evaluator used by `argsWith` -/
def RecLog (r : String → St → Except Err (Val × St)) : Prop :=
  ∀ o s v s', Inv fs kw s → r o s = .ok (v, s') →
    Inv fs kw s' ∧ (alookup s'.memo o).isSome ∧
    ∀ g, producer fs o = some g → Frame rank (rank g.name) false s s'

theorem inv_used (s : St) (u : List String) (h : Inv fs kw s) : Inv fs kw { s with used := u } :=
  ⟨h.nodup, h.called, h.origin, h.order, h.known⟩

theorem argsWith_log (hw : WFp fs rank) (r : String → St → Except Err (Val × St)) (hr : RecLog fs kw rank r)
    (f : Func) (hf : f ∈ fs) :
    ∀ ps s a s', (∀ p ∈ ps, p ∈ f.params) → Inv fs kw s → argsWith r fs kw f ps s = .ok (a, s') →
      Inv fs kw s' ∧ Frame rank (rank f.name) true s s' ∧
      ∀ p ∈ ps, IsUp (resolve fs kw f p.1) → (alookup s'.memo p.1).isSome := by
  intro ps
  induction ps with
  | nil =>
    intro s a s' _ hi h
    simp [argsWith] at h; obtain ⟨_, rfl⟩ := h
    exact ⟨hi, ⟨⟨[], by simp, by simp⟩, fun q hq => hq⟩, by simp⟩
  | cons p ps ih =>
    obtain ⟨p, orig⟩ := p
    intro s a s' hps hi h
    have hps' : ∀ q ∈ ps, q ∈ f.params := fun q hq => hps q (List.mem_cons_of_mem _ hq)
    simp only [argsWith] at h
    split at h
    · simp at h
    · next v hv =>
      split at h
      · simp at h
      · next rest s2 hrest =>
        simp at h; obtain ⟨_, rfl⟩ := h
        obtain ⟨i2, fr2, m2⟩ := ih _ rest s2 hps' (inv_used fs kw s _ hi) hrest
        refine ⟨i2, ⟨fr2.added, fr2.mono⟩, ?_⟩
        intro q hq hup
        rcases List.mem_cons.mp hq with rfl | hq
        · simp only at hup; rw [hv] at hup; exact absurd hup (by simp [IsUp])
        · exact m2 q hq hup
    · next hup =>
      have hupP : IsUp (resolve fs kw f p) := by rw [hup]; trivial
      obtain ⟨hb, hk, g, hg⟩ := resolve_upstream fs kw hupP
      split at h
      · simp at h
      · next v s1 hrun =>
        split at h
        · simp at h
        · next rest s2 hrest =>
          simp at h; obtain ⟨_, rfl⟩ := h
          obtain ⟨i1, hm1, fr1⟩ := hr p s v s1 hi hrun
          have fr1 := fr1 g hg
          obtain ⟨i2, fr2, m2⟩ := ih _ rest s2 hps' (inv_used fs kw s1 _ i1) hrest
          have hlt : rank g.name < rank f.name := hw.acyc f hf (p, orig) (hps _ List.mem_cons_self) g hg hb
          refine ⟨i2, ⟨?_, ?_⟩, ?_⟩
          · obtain ⟨a1, e1, b1⟩ := fr1.added
            obtain ⟨a2, e2, b2⟩ := fr2.added
            refine ⟨a1 ++ a2, by simp only [] at e2; rw [e2, e1, List.append_assoc], ?_⟩
            intro nm hnm
            rcases List.mem_append.mp hnm with h1 | h2
            · have := b1 nm h1; simp at this ⊢; omega
            · exact b2 nm h2
          · intro q hq; exact fr2.mono q (fr1.mono q hq)
          · intro q hq hupq
            rcases List.mem_cons.mp hq with rfl | hq
            · exact fr2.mono _ hm1
            · exact m2 q hq hupq

theorem mem_outVals_keys (f : Func) (args : List (String × Val)) (q : String) (hq : q ∈ f.outputs) :
    (alookup (outVals f args) q).isSome := by
  unfold outVals
  split
  · next o ho => simp [ho] at hq; subst hq; simp [alookup]
  · generalize f.outputs = os at hq
    induction os with
    | nil => simp at hq
    | cons a as ih =>
      simp only [List.map, alookup]
      split
      · simp
      · next ne =>
        rcases List.mem_cons.mp hq with rfl | h
        · exact absurd rfl ne
        · exact ih h

theorem run_log (hw : WFp fs rank) : ∀ n, RecLog fs kw rank (run fs kw n) := by
  intro n
  induction n with
  | zero => intro o s v s' _ h; simp [run] at h
  | succ n ihn =>
    intro o s v s' hi h
    rw [run_succ] at h
    split at h
    · next w hw' =>
      simp at h; obtain ⟨_, rfl⟩ := h
      exact ⟨hi, by simp [hw'], fun g _ => ⟨⟨[], by simp, by simp⟩, fun q hq => hq⟩⟩
    · next hmiss =>
      split at h
      · simp at h
      · next f hf =>
        obtain ⟨hfmem, homem⟩ := (producer_some_iff fs hw.uniq o f).mp hf
        split at h
        · simp at h
        · next args s1 hargs =>
          obtain ⟨i1, fr1, m1⟩ := argsWith_log fs kw rank hw _ ihn f hfmem f.params s args s1 (fun p hp => hp) hi hargs
          split at h
          · next w hwo =>
            simp at h; obtain ⟨_, rfl⟩ := h
            obtain ⟨add, eadd, badd⟩ := fr1.added
            -- f was not called before …
            have hnot0 : f.name ∉ s.calls := by
              intro hc
              have := hi.called f hfmem hc o homem
              rw [hmiss] at this; simp at this
            -- … nor during the evaluation of its own arguments
            have hnot1 : f.name ∉ s1.calls := by
              rw [eadd]; intro hc
              rcases List.mem_append.mp hc with h0 | h1
              · exact hnot0 h0
              · have := badd _ h1; simp at this
            have hmemoL : ∀ q x, alookup (outVals f args) q = some x → alookup (outVals f args ++ s1.memo) q = some x := by
              intro q x hx; rw [alookup_append, hx]
            have hmemoR : ∀ q, alookup (outVals f args) q = none → alookup (outVals f args ++ s1.memo) q = alookup s1.memo q := by
              intro q hx; rw [alookup_append, hx]
            refine ⟨⟨?_, ?_, ?_, ?_, ?_⟩, ?_, ?_⟩
            · -- nodup
              simp only []
              exact List.nodup_append.mpr ⟨i1.nodup, by simp, by
                intro a ha b hb; simp at hb; subst hb; intro e; subst e; exact hnot1 ha⟩
            · -- called
              intro g hg hc q hq
              simp only [] at hc ⊢
              rcases List.mem_append.mp hc with h0 | h1
              · have := i1.called g hg h0 q hq
                cases hov : alookup (outVals f args) q with
                | some x => rw [hmemoL q x hov]; simp
                | none => rw [hmemoR q hov]; exact this
              · simp at h1
                have : g = f := hw.names g hg f hfmem h1
                subst this
                have := mem_outVals_keys g args q hq
                obtain ⟨x, hx⟩ := Option.isSome_iff_exists.mp this
                rw [hmemoL q x hx]; simp
            · -- origin
              intro q hq
              simp only [] at hq ⊢
              cases hov : alookup (outVals f args) q with
              | some x =>
                have hqm := outVals_mem f args q x hov
                exact Or.inr ⟨f, (producer_some_iff fs hw.uniq q f).mpr ⟨hfmem, hqm⟩, by simp⟩
              | none =>
                rw [hmemoR q hov] at hq
                rcases i1.origin q hq with h0 | ⟨g, hg, hgc⟩
                · exact Or.inl h0
                · exact Or.inr ⟨g, hg, by simp [hgc]⟩
            · -- order
              simp only []
              apply depsFirst_append fs kw s1.calls f.name i1.order
              intro f' hf' hn p hp hup
              have : f' = f := hw.names f' hf' f hfmem hn
              subst this
              obtain ⟨hb, hk, g, hg⟩ := resolve_upstream fs kw hup
              have hsome := m1 p hp hup
              rcases i1.origin p.1 hsome with h0 | ⟨g', hg', hgc⟩
              · rw [hk] at h0; simp at h0
              · exact ⟨g', hg', hgc⟩
            · -- known
              intro nm hnm
              simp only [] at hnm
              rcases List.mem_append.mp hnm with h0 | h1
              · exact i1.known nm h0
              · simp at h1; subst h1; exact ⟨f, hfmem, rfl⟩
            · simp only []; rw [hmemoL o w hwo]; simp
            · intro g hg
              rw [hf] at hg; cases hg
              refine ⟨⟨add ++ [f.name], by simp only []; rw [eadd, List.append_assoc], ?_⟩, ?_⟩
              · intro nm hnm
                rcases List.mem_append.mp hnm with h0 | h1
                · have := badd nm h0; simp at this ⊢; omega
                · simp at h1; subst h1; simp
              · intro q hq
                simp only []
                have := fr1.mono q hq
                cases hov : alookup (outVals f args) q with
                | some x => rw [hmemoL q x hov]; simp
                | none => rw [hmemoR q hov]; exact this
          · simp at h

end PF.Pipe
