import PfModel.Lemmas.LazyCont
/-!
C18, containers — `evaluate_lazy` on lists / tuples / dicts / sets of deferred objects, nested (`pipefunc/lazy.py:122-149`).

`PF.Lazy.evaluateCont` mirrors `evaluate_lazy` on a container tree `Cont` in a session state (`Sess`, the invariant of
`Props/C18.lean`: any sequence of lazy calls, `evaluate()`s, `evaluate_lazy`s and `construct_dag()` blocks on one pipeline).  Deferred
leaves are evaluated by the existing `PF.Lazy.eval` (`_LazyFunction.evaluate`), so everything `Props/C18.lean` says about one object
carries over to each leaf; what is new is the container: shape, order of evaluation, sharing between leaves.  A container
`evaluate_lazy` does not look into (`Cont.other`: frozenset, deque, dataclass …) comes back as it is, its deferred objects unevaluated.
-/
namespace PF.C18
open PF PF.Pipe PF.Lazy

/-- **Same shape.** What `evaluate_lazy` returns has the constructors, lengths and dict keys of what it was given, recursively. -/
theorem C18_cont_shape (fs : List Func) (s : LSt) (hs : Sess fs s) (c : Cont) (cv : CVal) (s' : LSt)
    (h : evaluateCont c s = .ok (cv, s')) : cv.shape = c.shape := by
  obtain ⟨e, _, hden, _⟩ := evaluateCont_post hs h
  exact denCont_shape c cv hden

/-- **Values.** Every leaf of the result is the value its leaf of the argument stands for: the result is the pointwise denotation
    (`denCont`: `den` at every leaf, i.e. by `C18_eager` the eager composition for an object a lazy call returned) — whatever was
    evaluated before and however the leaves share nodes. -/
theorem C18_cont_values (fs : List Func) (s : LSt) (hs : Sess fs s) (c : Cont) (cv : CVal) (s' : LSt)
    (h : evaluateCont c s = .ok (cv, s')) : denCont s.nodes c = some cv := by
  obtain ⟨e, _, hden, _⟩ := evaluateCont_post hs h
  exact hden

/-- **The session goes on.** `evaluate_lazy` keeps the session invariant, leaves the node table and the task graph alone and only
    appends to the log of invocations, which stays free of duplicates: no node's function is invoked twice, however many leaves
    (of this or an earlier container, or objects evaluated one by one) share it. -/
theorem C18_cont_session (fs : List Func) (s : LSt) (hs : Sess fs s) (c : Cont) (cv : CVal) (s' : LSt)
    (h : evaluateCont c s = .ok (cv, s')) :
    Sess fs s' ∧ s'.nodes = s.nodes ∧ s'.tg = s.tg ∧ (∃ new, s'.ev.log = s.ev.log ++ new) ∧ s'.ev.log.Nodup := by
  obtain ⟨e, rfl, _, hd, ⟨hx, _, _, _⟩, hnew⟩ := evaluateCont_post hs h
  exact ⟨⟨hs.closed, hs.cache, hs.graph, hd, hx.log, hx.closed, hx.logged⟩, rfl, rfl, hnew, hx.log.1⟩

/-- **Exactly the needed nodes, each once.** `evaluate_lazy` invokes exactly the nodes some leaf it reaches depends on (`Needs`)
    that have not been invoked before — none skipped, no other touched; afterwards every such node is evaluated.  With the
    `Nodup` of `C18_cont_session`: each needed function exactly once, however often an object is repeated in the container. -/
theorem C18_cont_exact (fs : List Func) (s : LSt) (hs : Sess fs s) (c : Cont) (cv : CVal) (s' : LSt)
    (h : evaluateCont c s = .ok (cv, s')) :
    (∀ i, i ∈ s'.ev.log ↔ (i ∈ s.ev.log ∨ ∃ a ∈ c.leaves, Needs s.nodes a i)) ∧
    (∀ a ∈ c.leaves, ∀ i, Needs s.nodes a i → (dlookup s'.ev.done i).isSome) := by
  obtain ⟨e, rfl, _, _, ⟨hx, _, hr, hl⟩, _⟩ := evaluateCont_post hs h
  have key : ∀ i, (∃ a ∈ c.leaves, Needs s.nodes a i) ↔ ∃ j ∈ c.leafRefs, Needs s.nodes (.ref j) i := by
    intro i
    constructor
    · rintro ⟨a, ha, hn⟩
      cases a with
      | val w => exact (needs_val hn).elim
      | ref j => exact ⟨j, (mem_refsOf _ j).mpr ha, hn⟩
    · rintro ⟨j, hj, hn⟩
      exact ⟨.ref j, (mem_refsOf _ j).mp hj, hn⟩
  refine ⟨fun i => ⟨?_, ?_⟩, ?_⟩
  · intro hi
    rcases (hl i).mp hi with h | ⟨hn, _⟩
    · exact Or.inl h
    · exact Or.inr ((key i).mpr hn)
  · rintro (h | hn)
    · exact (hl i).mpr (Or.inl h)
    · by_cases hd : dlookup s.ev.done i = none
      · exact (hl i).mpr (Or.inr ⟨(key i).mp hn, hd⟩)
      · exact (hl i).mpr (Or.inl (hs.logged i (isSome_of_not_none hd)))
  · intro a ha i hn
    obtain ⟨j, hj, hn'⟩ := (key i).mp ⟨a, ha, hn⟩
    exact needs_done hx.closed (hr j hj) hn'

/-- **Again.** Evaluating the same container again returns the same result and changes nothing (in particular invokes nothing). -/
theorem C18_cont_again (fs : List Func) (s : LSt) (hs : Sess fs s) (c : Cont) (cv : CVal) (s' : LSt)
    (h : evaluateCont c s = .ok (cv, s')) : evaluateCont c s' = .ok (cv, s') := by
  obtain ⟨e, rfl, hden, hd, ⟨_, _, hr, _⟩, _⟩ := evaluateCont_post hs h
  simp only [evaluateCont, evalCont]
  rw [evalCont_again c e cv hd hr hden]

/-- **Nothing deferred inside, nothing happens.** A container none of whose reachable leaves is deferred (what `_contains_lazy`
    tests) leaves the log as it is: handing the object over as it is (`lazy.py:137-140`) and rebuilding it are the same, value-wise. -/
theorem C18_cont_no_lazy (fs : List Func) (s : LSt) (hs : Sess fs s) (c : Cont) (cv : CVal) (s' : LSt)
    (hc : c.leafRefs = []) (h : evaluateCont c s = .ok (cv, s')) : s'.ev.log = s.ev.log := by
  obtain ⟨e, rfl, _, _, ⟨hx, _, _, hl⟩, new, hnew⟩ := evaluateCont_post hs h
  cases new with
  | nil => simpa using hnew
  | cons x rest =>
    exfalso
    have hx' : x ∈ e.log := by rw [hnew]; simp
    have hnd := hx.log.1
    rcases (hl x).mp hx' with h0 | ⟨⟨j, hj, _⟩, _⟩
    · rw [hnew] at hnd
      exact (List.nodup_append.mp hnd).2.2 x h0 x List.mem_cons_self rfl
    · rw [hc] at hj; cases hj

/-- **Not looked into.** A container `evaluate_lazy` does not look into comes back as it is; nothing is evaluated. -/
theorem C18_cont_other (s : LSt) (t : String) (xs : List Cont) : evaluateCont (.other t xs) s = .ok (.other t xs, s) := rfl

/-- a bare object: `evaluate_lazy(x)` is `x.evaluate()` (`Props/C18.lean`'s `evaluate`) -/
theorem C18_cont_leaf (a : LArg) (s : LSt) :
    evaluateCont (.leaf a) s = match evaluate a s with | .error e => .error e | .ok (v, s') => .ok (.leaf v, s') := by
  simp only [evaluateCont, evalCont, evalContWith, evaluate]
  cases evalArg (eval s.nodes (s.nodes.length + 1)) a s.ev with
  | error e => rfl
  | ok p => rfl

/-! ### non-vacuity: the diamond of `Props/C18.lean` (`fa → fb (b, c) → fd`), objects `d` and `a` in nested containers -/

def contFA : Func := ⟨"fa", [("x", "x")], ["a"], [], []⟩
def contFB : Func := ⟨"fb", [("a", "a"), ("y", "y")], ["b", "c"], [("y", .int 7)], []⟩
def contFD : Func := ⟨"fd", [("a", "p"), ("b", "q"), ("c", "r")], ["d"], [], []⟩
def contS0 : LSt := { memo := [], used := [], usedNone := false, nodes := [], tg := none, ev := ⟨[], []⟩ }

/-- ids of the objects two lazy calls return, then `evaluate_lazy` on the containers `cs` built from them, one after the other:
    per container (shape encoded as a string, leaf ids, names invoked so far) -/
def contDemo (dag : Bool) (mk : LArg → LArg → List Cont) : Option (List (List Nat × List String)) :=
  match lrunTop [contFD, contFB, contFA] [("x", .int 1)] (.name "d") (if dag then enterDag contS0 else contS0) with
  | .error _ => none
  | .ok (d, s1) =>
    match lrunTop [contFD, contFB, contFA] [("x", .int 1)] (.name "a") s1 with
    | .error _ => none
    | .ok (a, s2) =>
      some (((mk d a).foldl (fun (acc : List (List Nat × List String) × LSt) c =>
        match evaluateCont c acc.2 with
        | .ok (_, s') => (acc.1 ++ [(c.leafRefs, callNames s'.nodes s'.ev.log)], s')
        | .error _ => (acc.1 ++ [([], ["error"])], acc.2)) ([], s2)).1)

-- (`decide +kernel`: the kernel evaluates the closed run; elaborator-side `decide` unfolds the nested structural recursion too slowly)
-- inside a block the second call shares node 0 (`fa`); a repeated object and a shared producer are invoked once;
-- the frozenset's object stays deferred; evaluating again invokes nothing
example : contDemo true (fun d a => [.other "frozenset" [.leaf d], .list [.leaf a, .dict [("k", .tuple [.leaf d, .leaf d])], .set []],
                                     .list [.leaf a, .dict [("k", .tuple [.leaf d, .leaf d])], .set []]]) =
    some [([], []), ([0, 4, 4], ["fa", "fb", "fd"]), ([0, 4, 4], ["fa", "fb", "fd"])] := by decide +kernel
-- outside a block the two calls share nothing: `fa` runs once per object, in leaf order (dict values in insertion order)
example : contDemo false (fun d a => [.dict [("p", .leaf d), ("q", .list [.leaf a, .leaf (.val (.int 3))])], .set [.leaf a]]) =
    some [([4, 5], ["fa", "fb", "fd", "fa"]), ([5], ["fa", "fb", "fd", "fa"])] := by decide +kernel
-- nothing deferred inside: nothing happens
example : contDemo false (fun _ _ => [.tuple [.leaf (.val (.int 1)), .list []]]) = some [([], [])] := by decide +kernel

end PF.C18
