import PfModel.Model.MapAutogen
import PfModel.Lemmas.MapTotal
/-! Lemmas about the model of the MapSpec autogeneration (`PF.MapAutogen`). -/
namespace PF.MapAutogen
open PF PF.Map

/-- the model's `agree` is the `axesAgree` of the "never refused" development -/
theorem agree_eq_axesAgree (a b : Axes) : agree a b = PF.C01.axesAgree a b := rfl

/-- the model's `consistent` is `PF.C01.consistentAxes` -/
theorem consistent_eq_consistentAxes (fs : List MFunc) : consistent fs = PF.C01.consistentAxes fs := by
  have h : ((mapspecs fs).flatMap fun ms => ms.inputs ++ ms.outputs) = PF.C01.allSpecs fs := by
    unfold mapspecs PF.C01.allSpecs
    induction fs with
    | nil => rfl
    | cons f r ih =>
      cases hm : f.mapspec <;> simp_all [List.flatMap_cons]
  unfold consistent PF.C01.consistentAxes
  simp only [h, agree_eq_axesAgree]

theorem genFor_name (t : Tbl) (f : MFunc) : (genFor t f).name = f.name := by
  unfold genFor; split
  · rfl
  · split <;> rfl

theorem genFor_params (t : Tbl) (f : MFunc) : (genFor t f).params = f.params := by
  unfold genFor; split
  · rfl
  · split <;> rfl

theorem genFor_outputs (t : Tbl) (f : MFunc) : (genFor t f).outputs = f.outputs := by
  unfold genFor; split
  · rfl
  · split <;> rfl

theorem genFor_given (t : Tbl) (f : MFunc) (ms : MSpec) (h : f.mapspec = some ms) : genFor t f = f := by
  unfold genFor; simp [h]

/-- what `genFor` does to a function without MapSpec -/
theorem genFor_none (t : Tbl) (f : MFunc) (h : f.mapspec = none) (g : MSpec) (hg : (genFor t f).mapspec = some g) :
    ∃ ax, f.outputs.findSome? (get t) = some ax ∧ g = { inputs := [], outputs := f.outputs.map fun o => { name := o, axes := ax } } := by
  unfold genFor at hg
  simp only [h] at hg
  cases hf : f.outputs.findSome? (get t) with
  | none => simp [hf, h] at hg
  | some ax =>
    simp only [hf] at hg
    exact ⟨ax, rfl, by simpa using hg.symm⟩

/-- a successful run is the map of `genFor` over the function list, with the table of that run -/
theorem autogen_ok {fs fs' : List MFunc} (h : autogen fs = .ok fs') :
    ∃ t, finalTbl fs = .ok t ∧ consistent fs = true ∧ outputsMatch fs = true ∧ fs' = fs.map (genFor t) := by
  unfold autogen at h
  split at h
  · cases h
  · split at h
    · cases h
    · split at h
      · cases h
      · rename_i t ht
        refine ⟨t, ht, by simp_all, by simp_all, ?_⟩
        cases h; rfl

/-- the answer of `Pipeline(...)` is the answer of the run over the whole list -/
theorem construct_ok {fs fs' : List MFunc} (h : construct fs = .ok fs') : autogen fs = .ok fs' := by
  unfold construct at h
  split at h
  · cases h
  · exact h


/-! ### `replace_none_in_axes` leaves no `:` -/

/-- the entry `non_root_inputs[k][j]` if it exists -/
def cell (t : Tbl) (k : String) (j : Nat) : Option (Option String) := (get t k).bind (·[j]?)

theorem get_modify (t : Tbl) (k : String) (f : Axes → Axes) (k' : String) :
    get (modify t k f) k' = if k' = k then (get t k').map f else get t k' := by
  induction t with
  | nil => simp [modify, get]
  | cons kv r ih =>
    obtain ⟨a, v⟩ := kv
    simp only [modify, List.map_cons] at ih ⊢
    by_cases h1 : a = k <;> by_cases h2 : a = k' <;> simp_all [get]

theorem fillAt_getElem? (j : Nat) (nm : String) (e : Axes) (i : Nat) :
    (fillAt j nm e)[i]? = if i = j ∧ e[i]? = some none then some (some nm) else e[i]? := by
  unfold fillAt
  by_cases h : e[j]? = some none
  · simp only [h, if_true]
    have hj : j < e.length := by
      rcases Nat.lt_or_ge j e.length with h' | h'
      · exact h'
      · rw [List.getElem?_eq_none h'] at h; cases h
    by_cases hij : i = j
    · subst hij
      have h2 : e[i] = none := by
        have h' := h
        rw [List.getElem?_eq_getElem hj] at h'; exact Option.some.inj h'
      simp [h, hj, h2]
    · have : ¬ j = i := fun h' => hij h'.symm
      simp [List.getElem?_set, hij, this]
  · simp only [h, if_false]
    by_cases hij : i = j
    · subst hij; simp [h]
    · simp [hij]

theorem cell_modify_fillAt (t : Tbl) (k : String) (j0 : Nat) (nm : String) (k' : String) (j : Nat) :
    cell (modify t k (fillAt j0 nm)) k' j =
      if k' = k ∧ j = j0 ∧ cell t k' j = some none then some (some nm) else cell t k' j := by
  unfold cell
  rw [get_modify]
  by_cases hk : k' = k
  · simp only [hk, if_true, true_and]
    cases hg : get t k with
    | none => simp
    | some e =>
      simp only [Option.map_some, Option.bind_some, fillAt_getElem?]
  · simp [hk]

/-- the table only advances: a cell keeps its content, or a `:` (`none`) receives a name -/
def Adv (t t' : Tbl) : Prop :=
  (∀ k, (get t' k).isSome = (get t k).isSome) ∧
  ∀ k j, cell t' k j = cell t k j ∨ (cell t k j = some none ∧ ∃ nm, cell t' k j = some (some nm))

theorem Adv.refl (t : Tbl) : Adv t t := ⟨fun _ => rfl, fun _ _ => Or.inl rfl⟩

theorem Adv.trans {t t' t'' : Tbl} (h1 : Adv t t') (h2 : Adv t' t'') : Adv t t'' := by
  refine ⟨fun k => (h2.1 k).trans (h1.1 k), ?_⟩
  intro k j
  rcases h1.2 k j with a | ⟨a, nm, b⟩
  · rcases h2.2 k j with c | ⟨c, nm', d⟩
    · exact Or.inl (c.trans a)
    · exact Or.inr ⟨a ▸ c, nm', d⟩
  · rcases h2.2 k j with c | ⟨c, nm', d⟩
    · exact Or.inr ⟨a, nm, c.trans b⟩
    · rw [b] at c; cases c

theorem Adv.modify_fillAt (t : Tbl) (k : String) (j0 : Nat) (nm : String) : Adv t (modify t k (fillAt j0 nm)) := by
  refine ⟨fun k' => by rw [get_modify]; split <;> simp, ?_⟩
  intro k' j
  rw [cell_modify_fillAt]
  by_cases h : k' = k ∧ j = j0 ∧ cell t k' j = some none
  · rw [if_pos h]; exact Or.inr ⟨h.2.2, nm, rfl⟩
  · rw [if_neg h]; exact Or.inl rfl

theorem Adv.foldl_fillAt (sibs : List String) (j0 : Nat) (nm : String) (t : Tbl) :
    Adv t (sibs.foldl (fun t o => modify t o (fillAt j0 nm)) t) := by
  induction sibs generalizing t with
  | nil => exact Adv.refl t
  | cons o r ih => exact (Adv.modify_fillAt t o j0 nm).trans (ih _)

/-- a named or absent cell stays as it is -/
theorem Adv.named {t t' : Tbl} (h : Adv t t') {k : String} {j : Nat} (hn : cell t k j ≠ some none) : cell t' k j ≠ some none := by
  rcases h.2 k j with a | ⟨a, _, _⟩
  · rw [a]; exact hn
  · exact absurd a hn

theorem axisAt_ok {t : Tbl} {o : String} {j : Nat} {a : Option String} (h : axisAt t o j = .ok a) : cell t o j = some a := by
  unfold axisAt at h
  unfold cell
  cases hg : get t o with
  | none => simp [hg] at h
  | some e =>
    simp only [hg] at h
    cases he : e[j]? with
    | none => simp [he] at h
    | some x => simp only [he] at h; cases h; simp [he]

/-- one step of the loops: the table advances and the visited cell is not `:` afterwards -/
theorem step_adv {sib : String → List String} {st st' : St} {p : String × Nat} (h : step sib st p = .ok st') :
    Adv st.tbl st'.tbl ∧ cell st'.tbl p.1 p.2 ≠ some none := by
  unfold step at h
  split at h
  · cases h
  · rename_i x hx
    cases h
    refine ⟨Adv.refl _, ?_⟩
    rw [axisAt_ok hx]; simp
  · rename_i hx
    dsimp only at h
    split at h
    · cases h
    · cases h
      refine ⟨(Adv.modify_fillAt _ _ _ _).trans (Adv.foldl_fillAt _ _ _ _), ?_⟩
      apply Adv.named (Adv.foldl_fillAt _ _ _ _)
      rw [cell_modify_fillAt]
      simp [axisAt_ok hx]

theorem foldlM_step_adv (sib : String → List String) (ps : List (String × Nat)) (st st' : St)
    (h : ps.foldlM (step sib) st = .ok st') :
    Adv st.tbl st'.tbl ∧ ∀ p ∈ ps, cell st'.tbl p.1 p.2 ≠ some none := by
  induction ps generalizing st with
  | nil => simp only [List.foldlM_nil] at h; cases h; exact ⟨Adv.refl _, by simp⟩
  | cons p r ih =>
    simp only [List.foldlM_cons] at h
    cases hs : step sib st p with
    | error e => simp [hs, bind, Except.bind] at h
    | ok st1 =>
      simp only [hs, bind, Except.bind] at h
      obtain ⟨a1, n1⟩ := step_adv hs
      obtain ⟨a2, n2⟩ := ih st1 h
      refine ⟨a1.trans a2, ?_⟩
      intro q hq
      rcases List.mem_cons.mp hq with rfl | hq
      · exact Adv.named a2 n1
      · exact n2 q hq

theorem mem_positions {t : Tbl} {k : String} {j : Nat} {c : Option String} (h : cell t k j = some c) : (k, j) ∈ positions t := by
  induction t with
  | nil => simp [cell, get] at h
  | cons kv r ih =>
    obtain ⟨a, v⟩ := kv
    unfold positions at ih ⊢
    simp only [List.flatMap_cons, List.mem_append]
    unfold cell at h ih
    by_cases hk : a = k
    · left
      simp only [get, hk, if_true, Option.bind_some] at h
      have hj : j < v.length := by
        rcases Nat.lt_or_ge j v.length with h' | h'
        · exact h'
        · rw [List.getElem?_eq_none h'] at h; cases h
      simp [hk, hj]
    · right
      simp only [get, hk, if_false] at h
      exact ih h

/-- `assert not any(None in axes for axes in non_root_inputs.values())` (`_mapspec.py:88`) holds: after `replace_none_in_axes`
    every stored axis is named -/
theorem replaceNone_named {fs : List MFunc} {t : Tbl} {st : St} (h : replaceNone fs t = .ok st)
    {k : String} {e : Axes} (hk : get st.tbl k = some e) : ∀ a ∈ e, a.isSome = true := by
  intro a ha
  obtain ⟨j, hj, rfl⟩ := List.getElem_of_mem ha
  obtain ⟨adv, nm⟩ := foldlM_step_adv _ _ _ _ h
  have hc : cell st.tbl k j = some e[j] := by simp [cell, hk, hj]
  have h0 : ∃ c, cell t k j = some c := by
    rcases adv.2 k j with a | ⟨a, _, _⟩
    · exact ⟨e[j], a ▸ hc⟩
    · exact ⟨none, a⟩
  obtain ⟨c, h0⟩ := h0
  have := nm (k, j) (mem_positions h0)
  rw [hc] at this
  cases hv : e[j] with
  | none => rw [hv] at this; exact absurd rfl this
  | some x => rfl

theorem finalTbl_named {fs : List MFunc} {t : Tbl} (h : finalTbl fs = .ok t)
    {k : String} {e : Axes} (hk : get t k = some e) : ∀ a ∈ e, a.isSome = true := by
  unfold finalTbl at h
  split at h
  · cases h
  · rename_i st hst
    cases h
    exact replaceNone_named hst hk

/-- `agree` as a structurally recursive proposition -/
def AgreeP : Axes → Axes → Prop
  | [], [] => True
  | x :: a, y :: b => (x = none ∨ y = none ∨ x = y) ∧ AgreeP a b
  | _, _ => False

theorem agree_iff (a b : Axes) : agree a b = true ↔ AgreeP a b := by
  induction a generalizing b with
  | nil => cases b <;> simp [agree, AgreeP]
  | cons x a ih =>
    cases b with
    | nil => simp [agree, AgreeP]
    | cons y b =>
      have := ih b
      simp only [agree, AgreeP, List.length_cons, List.zip_cons_cons, List.all_cons, Bool.and_eq_true, beq_iff_eq,
        Bool.or_eq_true, Option.isNone_iff_eq_none] at this ⊢
      rw [← this]
      constructor
      · rintro ⟨hl, hc, hr⟩
        exact ⟨by rcases hc with (h | h) | h <;> simp [h], by omega, hr⟩
      · rintro ⟨hc, hl, hr⟩
        exact ⟨by omega, by rcases hc with h | h | h <;> simp [h], hr⟩

theorem AgreeP.length {a b : Axes} (h : AgreeP a b) : a.length = b.length := by
  induction a generalizing b with
  | nil => cases b <;> simp_all [AgreeP]
  | cons x a ih => cases b with
    | nil => simp [AgreeP] at h
    | cons y b => simp only [AgreeP] at h; simp [ih h.2]

theorem AgreeP.replicate (b : Axes) : AgreeP b (List.replicate b.length none) := by
  induction b with
  | nil => simp [AgreeP]
  | cons x b ih => simp [AgreeP, List.replicate_succ, ih]

theorem AgreeP.merge {b r s : Axes} (h1 : AgreeP b r) (h2 : AgreeP b s) : AgreeP b (merge r s) := by
  induction b generalizing r s with
  | nil => cases r <;> cases s <;> simp_all [AgreeP, MapAutogen.merge]
  | cons x b ih =>
    cases r with
    | nil => simp [AgreeP] at h1
    | cons o os => cases s with
      | nil => simp [AgreeP] at h2
      | cons n ns =>
        simp only [AgreeP, MapAutogen.merge] at h1 h2 ⊢
        refine ⟨?_, ih h1.2 h2.2⟩
        cases n with
        | none => simpa using h1.1
        | some v => simpa using h2.1

/-- `b` is below `e`: same rank, and `e` carries the name wherever `b` names the axis -/
def SubP : Axes → Axes → Prop
  | [], [] => True
  | x :: a, y :: b => (x = none ∨ x = y) ∧ SubP a b
  | _, _ => False

theorem SubP.agree {b e : Axes} (h : SubP b e) : AgreeP b e := by
  induction b generalizing e with
  | nil => cases e <;> simp_all [SubP, AgreeP]
  | cons x b ih => cases e with
    | nil => simp [SubP] at h
    | cons y e =>
      simp only [SubP, AgreeP] at h ⊢
      exact ⟨h.1.elim Or.inl (fun h' => Or.inr (Or.inr h')), ih h.2⟩

theorem SubP.merge {b r s : Axes} (h1 : SubP b r) (h2 : AgreeP b s) : SubP b (merge r s) := by
  induction b generalizing r s with
  | nil => cases r <;> cases s <;> simp_all [SubP, AgreeP, MapAutogen.merge]
  | cons x b ih =>
    cases r with
    | nil => simp [SubP] at h1
    | cons o os => cases s with
      | nil => simp [AgreeP] at h2
      | cons n ns =>
        simp only [SubP, AgreeP, MapAutogen.merge] at h1 h2 ⊢
        refine ⟨?_, ih h1.2 h2.2⟩
        cases n with
        | none => simpa using h1.1
        | some v =>
          rcases h2.1 with h | h | h
          · exact Or.inl h
          · cases h
          · exact Or.inr h

theorem SubP.merge_self {r s : Axes} (h : s.length = r.length) : SubP s (MapAutogen.merge r s) := by
  induction s generalizing r with
  | nil => cases r <;> simp_all [SubP, MapAutogen.merge]
  | cons n ns ih =>
    cases r with
    | nil => simp at h
    | cons o os =>
      simp only [SubP, MapAutogen.merge]
      refine ⟨?_, ih (by simpa using h)⟩
      cases n <;> simp

/-- filling `:` positions keeps `SubP` -/
theorem SubP.adv {b e e' : Axes}
    (h : ∀ j : Nat, e'[j]? = e[j]? ∨ (e[j]? = some none ∧ ∃ nm, e'[j]? = some (some nm))) (hb : SubP b e) : SubP b e' := by
  induction b generalizing e e' with
  | nil =>
    cases e with
    | nil =>
      cases e' with
      | nil => trivial
      | cons y' r' => have := h 0; simp at this
    | cons y r => simp [SubP] at hb
  | cons x b ih =>
    cases e with
    | nil => simp [SubP] at hb
    | cons y r =>
      cases e' with
      | nil => have := h 0; simp at this
      | cons y' r' =>
        simp only [SubP] at hb ⊢
        refine ⟨?_, ih (fun j => by simpa using h (j + 1)) hb.2⟩
        have h0 := h 0
        simp only [List.getElem?_cons_zero, Option.some.injEq] at h0
        rcases h0 with h0 | ⟨h0, _⟩
        · rw [h0]; exact hb.1
        · subst h0
          rcases hb.1 with h | h
          · exact Or.inl h
          · exact Or.inl h

theorem get_append (t : Tbl) (k : String) (v : Axes) (k' : String) :
    get (t ++ [(k, v)]) k' = match get t k' with
      | some e => some e
      | none => if k = k' then some v else none := by
  induction t with
  | nil => simp [get]
  | cons kv r ih =>
    obtain ⟨a, w⟩ := kv
    by_cases h : a = k' <;> simp_all [get]

/-- what `find_non_root_axes` stores after one more consumer ArraySpec -/
theorem get_noteSpec (t : Tbl) (s : ASpec) (k' : String) :
    get (noteSpec t s) k' =
      if k' = s.name then some (merge ((get t s.name).getD (List.replicate s.axes.length none)) s.axes) else get t k' := by
  unfold noteSpec
  cases hg : get t s.name with
  | none =>
    simp only [get_append, Option.getD_none]
    by_cases hk : k' = s.name
    · subst hk; simp [hg]
    · have : ¬ s.name = k' := fun h => hk h.symm
      cases get t k' <;> simp [hk, this]
  | some old =>
    simp only [get_modify, Option.getD_some]
    by_cases hk : k' = s.name
    · subst hk; simp [hg]
    · simp [hk]

/-- the invariant of the loop of `find_non_root_axes` over the consumer ArraySpecs `L` (pairwise agreeing where they name the same array):
    every stored list agrees with ALL ArraySpecs of its array, and the ArraySpecs seen so far (`P`) are below their stored list -/
theorem foldl_noteSpec (L : List ASpec) (pw : ∀ a ∈ L, ∀ b ∈ L, a.name = b.name → AgreeP a.axes b.axes)
    (l : List ASpec) (t : Tbl) (P : ASpec → Prop) (hl : ∀ s ∈ l, s ∈ L)
    (inv1 : ∀ k e, get t k = some e → ∀ b ∈ L, b.name = k → AgreeP b.axes e)
    (inv2 : ∀ b, P b → b ∈ L ∧ ∃ e, get t b.name = some e ∧ SubP b.axes e) :
    ∀ b, (P b ∨ b ∈ l) → ∃ e, get (l.foldl noteSpec t) b.name = some e ∧ SubP b.axes e := by
  induction l generalizing t P with
  | nil =>
    intro b hb
    rcases hb with hb | hb
    · exact (inv2 b hb).2
    · cases hb
  | cons s r ih =>
    have hs : s ∈ L := hl s (List.mem_cons_self ..)
    have hbase : ∀ b ∈ L, b.name = s.name →
        AgreeP b.axes ((get t s.name).getD (List.replicate s.axes.length none)) := by
      intro b hb hn
      cases hg : get t s.name with
      | some old => simpa using inv1 _ _ hg b hb hn
      | none =>
        have := (pw b hb s hs hn).length
        simp only [Option.getD_none, ← this]
        exact AgreeP.replicate _
    simp only [List.foldl_cons]
    intro b hb
    apply ih (noteSpec t s) (fun b => P b ∨ b = s) (fun x hx => hl x (List.mem_cons_of_mem _ hx))
    · intro k e hk b hb hn
      rw [get_noteSpec] at hk
      by_cases hks : k = s.name
      · simp only [hks, if_true, Option.some.injEq] at hk
        subst hk
        exact AgreeP.merge (hbase b hb (hn.trans hks)) (pw b hb s hs (hn.trans hks))
      · simp only [hks, if_false] at hk
        exact inv1 k e hk b hb hn
    · intro b hb
      rcases hb with hb | rfl
      · obtain ⟨hbL, e, he, hsub⟩ := inv2 b hb
        refine ⟨hbL, ?_⟩
        rw [get_noteSpec]
        by_cases hks : b.name = s.name
        · simp only [hks, if_true]
          rw [hks] at he
          simp only [he, Option.getD_some]
          exact ⟨_, rfl, SubP.merge hsub (pw b hbL s hs hks)⟩
        · simp only [hks, if_false]
          exact ⟨e, he, hsub⟩
      · refine ⟨hs, ?_⟩
        rw [get_noteSpec]
        simp only [if_true]
        exact ⟨_, rfl, SubP.merge_self (hbase b hs rfl).length⟩
    · rcases hb with hb | hb
      · exact Or.inl (Or.inl hb)
      · rcases List.mem_cons.mp hb with rfl | hb
        · exact Or.inl (Or.inr rfl)
        · exact Or.inr hb

theorem not_root_of_output {fs : List MFunc} {p : String} (h : p ∈ allOutputs fs) : (rootArgs fs).contains p = false := by
  cases hc : (rootArgs fs).contains p with
  | false => rfl
  | true =>
    rw [List.contains_iff_mem] at hc
    unfold rootArgs at hc
    obtain ⟨f, _, hf⟩ := List.mem_flatMap.mp hc
    have := (List.mem_filter.mp hf).2
    simp at this
    exact absurd h this.2

theorem consistent_pairwise {fs : List MFunc} (hc : consistent fs = true) :
    ∀ a ∈ consumerSpecs fs, ∀ b ∈ consumerSpecs fs, a.name = b.name → AgreeP a.axes b.axes := by
  intro a ha b hb hn
  unfold consistent at hc
  simp only [List.all_eq_true] at hc
  have sub : ∀ x ∈ consumerSpecs fs, x ∈ (mapspecs fs).flatMap fun ms => ms.inputs ++ ms.outputs := by
    intro x hx
    unfold consumerSpecs at hx
    obtain ⟨ms, hms, hx⟩ := List.mem_flatMap.mp hx
    exact List.mem_flatMap.mpr ⟨ms, hms, List.mem_append_left _ hx⟩
  have := hc a (sub a ha) b (sub b hb)
  simp only [hn, bne_self_eq_false, Bool.false_or] at this
  exact (agree_iff _ _).mp this

theorem Adv.entry {t t' : Tbl} (h : Adv t t') {k : String} {e : Axes} (hk : get t k = some e) :
    ∃ e', get t' k = some e' ∧ ∀ j : Nat, e'[j]? = e[j]? ∨ (e[j]? = some none ∧ ∃ nm, e'[j]? = some (some nm)) := by
  have hs := h.1 k
  rw [hk] at hs
  cases hk' : get t' k with
  | none => simp [hk'] at hs
  | some e' =>
    refine ⟨e', rfl, fun j => ?_⟩
    have := h.2 k j
    simpa [cell, hk, hk'] using this

/-- the table `create_missing_mapspecs` receives holds, for every consumer ArraySpec of a function's output, a list that agrees with it
    (when `validate_consistent_axes` has passed) -/
theorem finalTbl_covers {fs : List MFunc} {t : Tbl} (ht : finalTbl fs = .ok t) (hc : consistent fs = true) :
    ∀ a ∈ consumerSpecs fs, a.name ∈ allOutputs fs → ∃ e, get t a.name = some e ∧ agree a.axes e = true := by
  intro a ha hout
  unfold finalTbl at ht
  split at ht
  · cases ht
  · rename_i st hst
    cases ht
    have hL : a ∈ (consumerSpecs fs).filter fun s => !(rootArgs fs).contains s.name := by
      refine List.mem_filter.mpr ⟨ha, ?_⟩
      simp only [not_root_of_output hout, Bool.not_false]
    have pw := consistent_pairwise hc
    obtain ⟨e0, he0, hsub⟩ := foldl_noteSpec ((consumerSpecs fs).filter fun s => !(rootArgs fs).contains s.name)
      (fun x hx y hy => pw x (List.mem_filter.mp hx).1 y (List.mem_filter.mp hy).1)
      _ [] (fun _ => False) (fun _ h => h) (fun _ _ h => by simp [get] at h) (fun _ h => h.elim) a (Or.inr hL)
    obtain ⟨adv, _⟩ := foldlM_step_adv _ _ _ _ hst
    obtain ⟨e', he', hcells⟩ := adv.entry he0
    exact ⟨e', he', (agree_iff _ _).mpr (SubP.adv hcells hsub).agree⟩

end PF.MapAutogen
