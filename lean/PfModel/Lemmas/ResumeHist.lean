import PfModel.Lemmas.ResumeLoop
/-! Monotonicity helpers for `Props/C05Hist.lean` (stored files along a history of interrupted runs). -/
namespace PF.ResumeFS
open PF PF.Map

theorem mono_refl (fs : FS) : Mono fs fs := fun _ _ h => h

theorem mono_trans {a b c : FS} (h1 : Mono a b) (h2 : Mono b c) : Mono a c := fun p hp h => h2 p hp (h1 p hp h)

/-- an element that is not stored (for the storage configuration `cfg`) in a later folder was not stored in an earlier one -/
theorem doneInC_mono (cfg : Cfg) (fs0 fs : FS) (f : MFunc) (li : Nat) (hm : Mono fs0 fs) (h : doneInC cfg fs f li = false) :
    doneInC cfg fs0 f li = false := by
  unfold doneInC at h ⊢
  by_cases hd : (isMapped f && isDictF cfg f) = true
  · simp only [hd, ↓reduceIte] at h ⊢
    apply Bool.eq_false_iff.mpr
    intro h0
    have : (f.outputs.all fun o => (fs.files (.dictArr o)).isSome) = true :=
      List.all_eq_true.mpr fun o ho => hm _ rfl ((List.all_eq_true.mp h0) o ho)
    rw [h] at this; cases this
  · simp only [hd, Bool.false_eq_true, ↓reduceIte] at h ⊢
    exact doneIn_mono fs0 fs f li hm h

end PF.ResumeFS
